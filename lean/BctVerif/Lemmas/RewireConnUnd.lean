import BctVerif.Lemmas.RewireConnGraph

/-!
# Soundness of the undirected connectivity test (`undConnOk` / `undLoop` of `Model/Rewire.lean`)

Invariant of the exploration loop: every frontier node of row 0 (row 1) is outside `{a,b,c,d}` and
reachable from `a` (from `d`) in the graph minus the two edges `ab`, `cd`; `a, d ∈ PN`.
-/
open Relation

namespace Bct.RewireConn
open Bct Bct.Rewire Bct.RewireFun

variable {n : ℕ}

/-! ### the boolean-vector helpers -/

theorem ofFn_get (f : Fin n → Bool) (y : Fin n) : (Vector.ofFn f : BVec n)[y] = f y := by
  simp [Fin.getElem_fin]

theorem expand_get (R : AMat Int n) (P : BVec n) (y : Fin n) :
    (expand R P)[y] = true ↔ ∃ x : Fin n, P[x] = true ∧ R.toFun x y ≠ 0 := by
  unfold expand
  rw [ofFn_get]
  simp only [List.any_eq_true, List.mem_finRange, true_and, Bool.and_eq_true, bne_iff_ne, ne_eq]
  rfl

theorem bAndNot_get (P PN : BVec n) (y : Fin n) : (bAndNot P PN)[y] = (P[y] && !PN[y]) := by
  unfold bAndNot; rw [ofFn_get]

theorem bOr_get (P Q : BVec n) (y : Fin n) : (bOr P Q)[y] = (P[y] || Q[y]) := by
  unfold bOr; rw [ofFn_get]

/-- one exploration step: nodes newly reached from frontier nodes -/
theorem frontier_get (R : AMat Int n) (P PN : BVec n) (y : Fin n) :
    (bAndNot (expand R P) PN)[y] = true ↔ (∃ x : Fin n, P[x] = true ∧ R.toFun x y ≠ 0) ∧ PN[y] = false := by
  rw [bAndNot_get, Bool.and_eq_true, expand_get]
  simp

/-! ### the loop invariant -/

/-- an edge leaving a node outside `{a,b,c,d}` is never one of the two removed edges -/
theorem G'_of_outside (R : AMat Int n) (a b c d x y : Fin n)
    (hxa : x ≠ a) (hxb : x ≠ b) (hxc : x ≠ c) (hxd : x ≠ d) (h : R.toFun x y ≠ 0) :
    G' (adj R) a b c d x y := by
  refine ⟨h, ?_, ?_⟩ <;> (unfold isE; tauto)

structure UndInv (R : AMat Int n) (a b c d : Fin n) (P0 P1 PN0 PN1 : BVec n) : Prop where
  p0 : ∀ y : Fin n, P0[y] = true → (y ≠ a ∧ y ≠ b ∧ y ≠ c ∧ y ≠ d) ∧ ReflTransGen (G' (adj R) a b c d) a y
  p1 : ∀ y : Fin n, P1[y] = true → (y ≠ a ∧ y ≠ b ∧ y ≠ c ∧ y ≠ d) ∧ ReflTransGen (G' (adj R) a b c d) d y
  n0a : PN0[a] = true
  n0d : PN0[d] = true
  n1a : PN1[a] = true
  n1d : PN1[d] = true

/-- a node of the next frontier is reachable from the source of its row -/
theorem frontier_reach (R : AMat Int n) (a b c d s : Fin n) (P PN : BVec n)
    (hp : ∀ y : Fin n, P[y] = true → (y ≠ a ∧ y ≠ b ∧ y ≠ c ∧ y ≠ d) ∧ ReflTransGen (G' (adj R) a b c d) s y)
    (y : Fin n) (hy : (bAndNot (expand R P) PN)[y] = true) :
    ReflTransGen (G' (adj R) a b c d) s y ∧ PN[y] = false := by
  rw [frontier_get] at hy
  obtain ⟨⟨x, hx, hxy⟩, hpn⟩ := hy
  obtain ⟨⟨h1, h2, h3, h4⟩, hr⟩ := hp x hx
  exact ⟨hr.tail (G'_of_outside R a b c d x y h1 h2 h3 h4 hxy), hpn⟩

theorem undLoop_sound (R : AMat Int n) (a b c d : Fin n) :
    ∀ (fuel : ℕ) (P0 P1 PN0 PN1 : BVec n), UndInv R a b c d P0 P1 PN0 PN1 →
      undLoop R b c fuel P0 P1 PN0 PN1 = true →
      ReflTransGen (G' (adj R) a b c d) a b ∨ ReflTransGen (G' (adj R) a b c d) a c ∨
      ReflTransGen (G' (adj R) a b c d) d c ∨ ReflTransGen (G' (adj R) a b c d) d b := by
  intro fuel
  induction fuel with
  | zero => intro P0 P1 PN0 PN1 _ h; simp [undLoop] at h
  | succ fuel ih =>
    intro P0 P1 PN0 PN1 inv h
    unfold undLoop at h
    simp only at h
    have r0 := frontier_reach R a b c d a P0 PN0 inv.p0
    have r1 := frontier_reach R a b c d d P1 PN1 inv.p1
    split at h
    · cases h
    · split at h
      · rename_i hit
        simp only [Bool.or_eq_true] at hit
        rcases hit with ((hit | hit) | hit) | hit
        · exact Or.inl (r0 b hit).1
        · exact Or.inr (Or.inl (r0 c hit).1)
        · exact Or.inr (Or.inr (Or.inr (r1 b hit).1))
        · exact Or.inr (Or.inr (Or.inl (r1 c hit).1))
      · rename_i hit
        simp only [Bool.or_eq_true, not_or, Bool.not_eq_true] at hit
        obtain ⟨⟨⟨h0b, h0c⟩, h1b⟩, h1c⟩ := hit
        refine ih _ _ _ _ ⟨?_, ?_, ?_, ?_, ?_, ?_⟩ h
        · intro y hy
          have := r0 y hy
          refine ⟨⟨?_, ?_, ?_, ?_⟩, this.1⟩
          · rintro rfl; rw [inv.n0a] at this; exact Bool.noConfusion this.2
          · rintro rfl; rw [h0b] at hy; exact Bool.noConfusion hy
          · rintro rfl; rw [h0c] at hy; exact Bool.noConfusion hy
          · rintro rfl; rw [inv.n0d] at this; exact Bool.noConfusion this.2
        · intro y hy
          have := r1 y hy
          refine ⟨⟨?_, ?_, ?_, ?_⟩, this.1⟩
          · rintro rfl; rw [inv.n1a] at this; exact Bool.noConfusion this.2
          · rintro rfl; rw [h1b] at hy; exact Bool.noConfusion hy
          · rintro rfl; rw [h1c] at hy; exact Bool.noConfusion hy
          · rintro rfl; rw [inv.n1d] at this; exact Bool.noConfusion this.2
        · rw [bOr_get, inv.n0a]; rfl
        · rw [bOr_get, inv.n0d]; rfl
        · rw [bOr_get, inv.n1a]; rfl
        · rw [bOr_get, inv.n1d]; rfl

/-- **Soundness of the undirected connectivity test.**  For a symmetric matrix with empty diagonal,
two present edges `ab`, `cd` on four distinct nodes and the rewiring guard `R a d = 0`, `R c b = 0`:
if the test of `randmio_und_connected` / `latmio_und_connected` answers "rewire", then in the graph
minus the two edges one of a~b, a~c, d~c, d~b holds. -/
theorem undTest_sound (R : AMat Int n) (a b c d : Fin n)
    (hab : a ≠ b) (hac : a ≠ c) (had : a ≠ d) (hbc : b ≠ c) (hbd : b ≠ d) (hcd : c ≠ d)
    (hs : ∀ i j, R.toFun i j = R.toFun j i) (hdiag : ∀ v, R.toFun v v = 0)
    (e1 : R.toFun a b ≠ 0) (e2 : R.toFun c d ≠ 0) (z1 : R.toFun a d = 0) (z2 : R.toFun c b = 0)
    (h : undConnOk R a b c d = true) :
    ReflTransGen (G' (adj R) a b c d) a b ∨ ReflTransGen (G' (adj R) a b c d) a c ∨
    ReflTransGen (G' (adj R) a b c d) d c ∨ ReflTransGen (G' (adj R) a b c d) d b := by
  unfold undConnOk at h
  split at h
  · rename_i hsc
    simp only [Bool.or_eq_true, bne_iff_ne, ne_eq] at hsc
    rcases hsc with hsc | hsc
    · -- a — c is an edge, and not one of the removed ones
      refine Or.inr (Or.inl (ReflTransGen.single ⟨hsc, ?_, ?_⟩)) <;> (unfold isE; tauto)
    · -- b — d is an edge: d ~ b
      have hdb : R.toFun d b ≠ 0 := by rw [hs]; exact hsc
      refine Or.inr (Or.inr (Or.inr (ReflTransGen.single ⟨hdb, ?_, ?_⟩))) <;> (unfold isE; tauto)
  · rename_i hsc
    simp only [Bool.or_eq_true, bne_iff_ne, ne_eq, not_or, not_not] at hsc
    obtain ⟨hac0, hbd0⟩ := hsc
    have hac0 : R.toFun a c = 0 := hac0
    have hbd0 : R.toFun b d = 0 := hbd0
    have hdb0 : R.toFun d b = 0 := by rw [hs]; exact hbd0
    have hda0 : R.toFun d a = 0 := by rw [hs]; exact z1
    simp only at h
    refine undLoop_sound R a b c d _ _ _ _ _ ⟨?_, ?_, ?_, ?_, ?_, ?_⟩ h
    · intro y hy
      rw [ofFn_get] at hy
      simp only [Bool.and_eq_true, bne_iff_ne, ne_eq] at hy
      obtain ⟨hay, hyb⟩ := hy
      have hay : R.toFun a y ≠ 0 := hay
      have hya : y ≠ a := by rintro rfl; exact hay (hdiag _)
      have hyc : y ≠ c := by rintro rfl; exact hay hac0
      have hyd : y ≠ d := by rintro rfl; exact hay z1
      refine ⟨⟨hya, hyb, hyc, hyd⟩, ReflTransGen.single ⟨hay, ?_, ?_⟩⟩ <;> (unfold isE; tauto)
    · intro y hy
      rw [ofFn_get] at hy
      simp only [Bool.and_eq_true, bne_iff_ne, ne_eq] at hy
      obtain ⟨hdy, hyc⟩ := hy
      have hdy : R.toFun d y ≠ 0 := hdy
      have hya : y ≠ a := by rintro rfl; exact hdy hda0
      have hyb : y ≠ b := by rintro rfl; exact hdy hdb0
      have hyd : y ≠ d := by rintro rfl; exact hdy (hdiag _)
      refine ⟨⟨hya, hyb, hyc, hyd⟩, ReflTransGen.single ⟨hdy, ?_, ?_⟩⟩ <;> (unfold isE; tauto)
    · rw [ofFn_get]; simp
    · rw [ofFn_get]; simp
    · rw [ofFn_get]; simp
    · rw [ofFn_get]; simp

end Bct.RewireConn
