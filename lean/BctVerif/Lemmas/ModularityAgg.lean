import BctVerif.Lemmas.ModularityUnd

/-! # Module aggregation: `Q` of the aggregated network = `Q` of the induced partition; the coded
`trace/dot` closed form = the definition -/
namespace Bct.Modularity
open Finset

variable {n : ℕ}

theorem agg_eq (W : RMat n) (m : Lab n) (a b : Fin n) :
    agg W m a b = ∑ i, ∑ j, if m[i] = a ∧ m[j] = b then W.get i j else 0 := by
  simp only [agg, fsum_eq]
  refine Finset.sum_congr rfl (fun i _ => ?_)
  by_cases h : m[(i : ℕ)] = a
  · simp [h]
  · simp [h]

@[simp] theorem aggFull_get (W : RMat n) (m : Lab n) (a b : Fin n) : (aggFull W m).get a b = agg W m a b := by
  simp [aggFull]

/-- re-indexing a double sum over module pairs as a double sum over node pairs -/
theorem sum_agg (m : Fin n → Fin n) (f G : Fin n → Fin n → ℚ) :
    ∑ a, ∑ b, f a b * (∑ i, ∑ j, if m i = a ∧ m j = b then G i j else 0)
      = ∑ i, ∑ j, f (m i) (m j) * G i j := by
  simp only [Finset.mul_sum]
  calc ∑ a, ∑ b, ∑ i, ∑ j, f a b * (if m i = a ∧ m j = b then G i j else 0)
      = ∑ a, ∑ i, ∑ b, ∑ j, f a b * (if m i = a ∧ m j = b then G i j else 0) :=
        Finset.sum_congr rfl (fun a _ => Finset.sum_comm)
    _ = ∑ i, ∑ a, ∑ b, ∑ j, f a b * (if m i = a ∧ m j = b then G i j else 0) := Finset.sum_comm
    _ = ∑ i, ∑ a, ∑ j, ∑ b, f a b * (if m i = a ∧ m j = b then G i j else 0) :=
        Finset.sum_congr rfl (fun i _ => Finset.sum_congr rfl (fun a _ => Finset.sum_comm))
    _ = ∑ i, ∑ j, ∑ a, ∑ b, f a b * (if m i = a ∧ m j = b then G i j else 0) :=
        Finset.sum_congr rfl (fun i _ => Finset.sum_comm)
    _ = ∑ i, ∑ j, f (m i) (m j) * G i j := by
        refine Finset.sum_congr rfl (fun i _ => Finset.sum_congr rfl (fun j _ => ?_))
        rw [Finset.sum_eq_single (m i)]
        · rw [Finset.sum_eq_single (m j)]
          · simp
          · intro b _ hb; simp [Ne.symm hb]
          · simp
        · intro a _ ha
          apply Finset.sum_eq_zero; intro b _; simp [Ne.symm ha]
        · simp

/-- `Qobj` of an aggregated objective matrix under a partition of the modules = `Qobj` of the original
under the induced partition of the nodes -/
theorem Qobj_aggFull {α : Type} [DecidableEq α] (B : RMat n) (m : Lab n) (c' : Fin n → α) :
    Qobj (aggFull B m) c' = Qobj B (fun i => c' (m[i])) := by
  rw [Qobj_eq, Qobj_eq]
  have h := sum_agg (fun i => m[i]) (fun a b => if c' a = c' b then 1 else 0) (fun i j => B.get i j)
  simp only [aggFull_get, agg_eq]
  calc ∑ a, ∑ b, (if c' a = c' b then ∑ i, ∑ j, (if m[i] = a ∧ m[j] = b then B.get i j else 0) else 0)
      = ∑ a, ∑ b, (if c' a = c' b then 1 else 0) * ∑ i, ∑ j, (if m[i] = a ∧ m[j] = b then B.get i j else 0) := by
        refine Finset.sum_congr rfl (fun a _ => Finset.sum_congr rfl (fun b _ => ?_)); split_ifs <;> simp
    _ = ∑ i, ∑ j, (if c' m[i] = c' m[j] then 1 else 0) * B.get i j := h
    _ = ∑ i, ∑ j, (if c' m[i] = c' m[j] then B.get i j else 0) := by
        refine Finset.sum_congr rfl (fun i _ => Finset.sum_congr rfl (fun j _ => ?_)); split_ifs <;> simp

theorem total_aggFull (W : RMat n) (m : Lab n) : total (aggFull W m) = total W := by
  rw [total_eq, total_eq]
  have h := sum_agg (fun i => m[i]) (fun _ _ => 1) (fun i j => W.get i j)
  simp only [one_mul] at h
  simp only [aggFull_get, agg_eq]
  exact h

theorem rowSum_aggFull (W : RMat n) (m : Lab n) (a : Fin n) :
    rowSum (aggFull W m) a = ∑ i, if m[i] = a then rowSum W i else 0 := by
  rw [rowSum_eq]
  simp only [aggFull_get, agg, fsum_eq, rowSum_eq]
  rw [Finset.sum_comm]
  refine Finset.sum_congr rfl (fun i _ => ?_)
  by_cases h : m[(i : ℕ)] = a
  · simp only [Fin.getElem_fin, h, if_true]
    rw [Finset.sum_comm]
    refine Finset.sum_congr rfl (fun j _ => ?_)
    simp
  · simp [h]

theorem colSum_aggFull (W : RMat n) (m : Lab n) (b : Fin n) :
    colSum (aggFull W m) b = ∑ j, if m[j] = b then colSum W j else 0 := by
  rw [colSum_eq]
  simp only [aggFull_get, agg, fsum_eq, colSum_eq]
  rw [Finset.sum_comm]
  have : ∀ i, (∑ a, if m[i] = a then (∑ j, if m[j] = b then W.get i j else 0) else 0)
      = ∑ j, if m[j] = b then W.get i j else 0 := by intro i; simp
  simp only [this]
  rw [Finset.sum_comm]
  refine Finset.sum_congr rfl (fun j _ => ?_)
  by_cases h : m[j] = b <;> simp [h]

/-- `W − γ·k_out k_inᵀ / s` with an explicit normaliser `s` (proof-side generalisation of `Bmod`) -/
def Bgen (W : RMat n) (s γ : ℚ) : RMat n :=
  AMat.ofFn fun i j => W.get i j - γ * rowSum W i * colSum W j / s

@[simp] theorem Bgen_get (W : RMat n) (s γ : ℚ) (i j : Fin n) :
    (Bgen W s γ).get i j = W.get i j - γ * rowSum W i * colSum W j / s := by simp [Bgen]

theorem Bmod_eq_Bgen (W : RMat n) (γ : ℚ) : Bmod W γ = Bgen W (total W) γ := by
  apply AMat.ext_get; intro i j; simp

/-- the modularity matrix of the aggregated network is the aggregated modularity matrix -/
theorem Bgen_aggFull (W : RMat n) (s γ : ℚ) (m : Lab n) : Bgen (aggFull W m) s γ = aggFull (Bgen W s γ) m := by
  apply AMat.ext_get; intro a b
  simp only [Bgen_get, aggFull_get, rowSum_aggFull, colSum_aggFull]
  simp only [agg, fsum_eq, Bgen_get]
  have hin : ∀ i, (∑ j, if m[j] = b then W.get i j - γ * rowSum W i * colSum W j / s else 0)
      = (∑ j, if m[j] = b then W.get i j else 0)
        - γ * rowSum W i * (∑ j, if m[j] = b then colSum W j else 0) / s := by
    intro i
    have : ∀ j, (if m[j] = b then W.get i j - γ * rowSum W i * colSum W j / s else 0)
        = (if m[j] = b then W.get i j else 0) - γ * rowSum W i * (if m[j] = b then colSum W j else 0) / s := by
      intro j; split_ifs <;> ring
    simp only [this, Finset.sum_sub_distrib]
    congr 1
    rw [Finset.mul_sum, Finset.sum_div]
  simp only [hin]
  have hout : ∀ i, (if m[i] = a then (∑ j, if m[j] = b then W.get i j else 0)
        - γ * rowSum W i * (∑ j, if m[j] = b then colSum W j else 0) / s else 0)
      = (if m[i] = a then (∑ j, if m[j] = b then W.get i j else 0) else 0)
        - γ * (if m[i] = a then rowSum W i else 0) * (∑ j, if m[j] = b then colSum W j else 0) / s := by
    intro i; split_ifs <;> ring
  simp only [hout, Finset.sum_sub_distrib]
  congr 1
  set C := ∑ j, if m[j] = b then colSum W j else 0 with hC
  rw [← Finset.sum_div, ← Finset.sum_mul, ← Finset.mul_sum]

theorem Bmod_aggFull (W : RMat n) (γ : ℚ) (m : Lab n) : Bmod (aggFull W m) γ = aggFull (Bmod W γ) m := by
  rw [Bmod_eq_Bgen, total_aggFull, Bgen_aggFull, ← Bmod_eq_Bgen]

theorem dotSum_eq (A B : RMat n) : dotSum A B = ∑ k, colSum A k * rowSum B k := by
  simp only [dotSum, fsum_eq]
  calc (∑ i, ∑ j, ∑ k, A.get i k * B.get k j)
      = ∑ i, ∑ k, ∑ j, A.get i k * B.get k j := Finset.sum_congr rfl (fun i _ => Finset.sum_comm)
    _ = ∑ k, ∑ i, ∑ j, A.get i k * B.get k j := Finset.sum_comm
    _ = ∑ k, colSum A k * rowSum B k := by
        refine Finset.sum_congr rfl (fun k _ => ?_)
        rw [rowSum_eq, colSum_eq, Finset.sum_mul_sum]

/-- `trace(w) − γ·Σ(w·w)/s` is the objective `Σ_a (w − γ k_out k_inᵀ/s)[a,a]` of the singleton partition -/
theorem qTraceDotRaw_eq (w : RMat n) (s γ : ℚ) : qTraceDotRaw w s γ = Qobj (Bgen w s γ) (id : Fin n → Fin n) := by
  unfold qTraceDotRaw
  rw [Qobj_eq, trace_eq, dotSum_eq]
  have hq : ∀ i, (∑ j, if id i = id j then (Bgen w s γ).get i j else 0)
      = w.get i i - γ * rowSum w i * colSum w i / s := by intro i; simp
  simp only [hq, Finset.sum_sub_distrib]
  congr 1
  rw [Finset.mul_sum, Finset.sum_div]
  refine Finset.sum_congr rfl (fun k _ => ?_)
  ring

/-- **aggregate_Q** — the modularity of the aggregated network under any partition `c'` of its
super-nodes equals the modularity of the original network under the induced partition. -/
theorem aggregate_Qdir {α : Type} [DecidableEq α] (W : RMat n) (γ : ℚ) (m : Lab n) (c' : Fin n → α) :
    Qdir (aggFull W m) γ c' = Qdir W γ (fun i => c' (m[i])) := by
  unfold Qdir
  rw [Bmod_aggFull, Qobj_aggFull, total_aggFull]

/-- `trace(w)/s − γ·Σ(w/s · w/s)` is the modularity of `w` under the singleton partition -/
theorem qTraceDot_eq (w : RMat n) (γ : ℚ) : qTraceDot w (total w) γ = Qdir w γ (id : Fin n → Fin n) := by
  unfold qTraceDot Qdir
  rw [Qobj_eq, trace_eq]
  simp only [dotSum, fsum_eq, AMat.get_ofFn, id_eq, Bmod_get]
  have hd : (∑ i, ∑ j, ∑ k, w.get i k / total w * (w.get k j / total w))
      = ∑ k, rowSum w k * colSum w k / (total w * total w) := by
    calc (∑ i, ∑ j, ∑ k, w.get i k / total w * (w.get k j / total w))
        = ∑ i, ∑ k, ∑ j, w.get i k / total w * (w.get k j / total w) :=
          Finset.sum_congr rfl (fun i _ => Finset.sum_comm)
      _ = ∑ k, ∑ i, ∑ j, w.get i k / total w * (w.get k j / total w) := Finset.sum_comm
      _ = ∑ k, rowSum w k * colSum w k / (total w * total w) := by
          refine Finset.sum_congr rfl (fun k _ => ?_)
          rw [rowSum_eq, colSum_eq, Finset.sum_mul_sum, Finset.sum_div, Finset.sum_comm]
          refine Finset.sum_congr rfl (fun i _ => ?_)
          rw [Finset.sum_div]
          refine Finset.sum_congr rfl (fun j _ => ?_)
          ring
  rw [hd]
  have hq : ∀ i, (∑ j, if i = j then w.get i j - γ * rowSum w i * colSum w j / total w else 0)
      = w.get i i - γ * rowSum w i * colSum w i / total w := by intro i; simp
  simp only [hq, Finset.sum_sub_distrib, sub_div]
  congr 1
  rw [Finset.mul_sum, Finset.sum_div]
  refine Finset.sum_congr rfl (fun k _ => ?_)
  ring

/-- **q_formula_dir** — the closed form reported by `modularity_finetune_dir` / `modularity_louvain_dir`
(`trace(w)/s − γ·Σ(w/s·w/s)` of the module-aggregated matrix) equals the directed modularity of the partition. -/
theorem qTraceDot_aggFull (W : RMat n) (γ : ℚ) (m : Lab n) :
    qTraceDot (aggFull W m) (total W) γ = Qdir W γ (labOf m) := by
  have h := qTraceDot_eq (aggFull W m) γ
  rw [total_aggFull] at h
  rw [h, aggregate_Qdir]
  rfl

theorem Qund_eq_Qdir {α : Type} [DecidableEq α] (W : RMat n) (γ : ℚ) (hW : Symm W) (c : Fin n → α) :
    Qund W γ c = Qdir W γ c := by
  unfold Qund Qdir; rw [Bund_eq_Bmod W γ hW]

theorem agg_symm (W : RMat n) (hW : Symm W) (m : Lab n) (a b : Fin n) : agg W m a b = agg W m b a := by
  rw [agg_eq, agg_eq, Finset.sum_comm]
  refine Finset.sum_congr rfl (fun i _ => Finset.sum_congr rfl (fun j _ => ?_))
  rw [hW j i]
  simp only [and_comm]

theorem aggUpper_eq (W : RMat n) (hW : Symm W) (m : Lab n) : aggUpper W m = aggFull W m := by
  apply AMat.ext_get; intro a b
  simp only [aggUpper, AMat.get_ofFn, aggFull_get]
  split_ifs
  · rfl
  · exact agg_symm W hW m b a

theorem aggLower_eq (W : RMat n) (hW : Symm W) (m : Lab n) : aggLower W m = aggFull W m := by
  apply AMat.ext_get; intro a b
  simp only [aggLower, AMat.get_ofFn, aggFull_get]
  split_ifs with h1 h2
  · exact agg_symm W hW m b a
  · rfl
  · have : a = b := Fin.ext (by omega)
    rw [this]

theorem aggFull_symm (W : RMat n) (hW : Symm W) (m : Lab n) : Symm (aggFull W m) := by
  intro a b; simp only [aggFull_get]; exact agg_symm W hW m a b

/-- quality functions only depend on co-membership -/
theorem Qobj_congr {α β : Type} [DecidableEq α] [DecidableEq β] (B : RMat n) (c : Fin n → α) (c' : Fin n → β)
    (h : ∀ i j, c i = c j ↔ c' i = c' j) : Qobj B c = Qobj B c' := by
  rw [Qobj_eq, Qobj_eq]
  refine Finset.sum_congr rfl (fun i _ => Finset.sum_congr rfl (fun j _ => ?_))
  by_cases hc : c i = c j
  · rw [if_pos hc, if_pos ((h i j).mp hc)]
  · rw [if_neg hc, if_neg (fun h' => hc ((h i j).mpr h'))]

end Bct.Modularity
