import BctVerif.Lemmas.Walks
import Mathlib.Algebra.Ring.GeomSum
import Mathlib.Algebra.Order.BigOperators.Ring.Finset
import Mathlib.Data.Nat.Factorial.Basic
import Mathlib.Algebra.Order.Ring.Abs
/-!
# Explicit tail bound of the truncated exponential series used for `subgraph_centrality`

`expDiag_tail`: for every `T ≤ T'`, `|expDiag A T' i − expDiag A T i| ≤ expTail ‖A‖∞ T`.  All partial sums beyond `T` stay
within the bound, hence so does their limit `exp(A)_ii` (the limit itself is not formalised).
-/
open Finset Matrix

namespace Bct.Walks

variable {n : ℕ}

theorem foldl_max_spec {α : Type} (l : List α) (f : α → ℕ) (init : ℕ) :
    init ≤ l.foldl (fun acc x => max acc (f x)) init ∧ ∀ x ∈ l, f x ≤ l.foldl (fun acc x => max acc (f x)) init := by
  induction l generalizing init with
  | nil => simp
  | cons a l ih =>
    obtain ⟨h1, h2⟩ := ih (max init (f a))
    simp only [List.foldl_cons, List.mem_cons]
    refine ⟨le_trans (le_max_left _ _) h1, fun x hx => ?_⟩
    rcases hx with rfl | hx
    · exact le_trans (le_max_right _ _) h1
    · exact h2 x hx

theorem rowAbs_le_infNorm (A : AMat Int n) (i : Fin n) : ∑ j, |A.get i j| ≤ (infNorm A : ℤ) := by
  have h := (foldl_max_spec (List.finRange n)
    (fun i => ((List.finRange n).map fun j => (A.get i j).natAbs).sum) 0).2 i (List.mem_finRange i)
  have e : ∑ j, |A.get i j| = (((List.finRange n).map fun j => (A.get i j).natAbs).sum : ℕ) := by
    rw [← Fin.sum_univ_def, Nat.cast_sum]
    refine Finset.sum_congr rfl (fun j _ => ?_)
    rw [Int.natCast_natAbs]
  rw [e]
  exact_mod_cast h

theorem pow_row_abs (A : AMat Int n) (m : ℕ) (i : Fin n) :
    ∑ j, |(toMat A ^ m) i j| ≤ (infNorm A : ℤ) ^ m := by
  induction m generalizing i with
  | zero =>
    simp only [pow_zero, Matrix.one_apply]
    rw [Finset.sum_eq_single i]
    · simp
    · intro j _ hj; simp [Ne.symm hj]
    · simp
  | succ m ih =>
    have hρ : (0 : ℤ) ≤ (infNorm A : ℤ) := Int.natCast_nonneg _
    calc ∑ j, |(toMat A ^ (m + 1)) i j|
        = ∑ j, |∑ k, (toMat A ^ m) i k * A.get k j| := by
          refine Finset.sum_congr rfl (fun j _ => ?_)
          rw [pow_succ, Matrix.mul_apply]; rfl
      _ ≤ ∑ j, ∑ k, |(toMat A ^ m) i k| * |A.get k j| := by
          refine Finset.sum_le_sum (fun j _ => ?_)
          refine le_trans (Finset.abs_sum_le_sum_abs _ _) (le_of_eq ?_)
          exact Finset.sum_congr rfl (fun k _ => abs_mul _ _)
      _ = ∑ k, |(toMat A ^ m) i k| * ∑ j, |A.get k j| := by
          rw [Finset.sum_comm]
          exact Finset.sum_congr rfl (fun k _ => (Finset.mul_sum _ _ _).symm)
      _ ≤ ∑ k, |(toMat A ^ m) i k| * (infNorm A : ℤ) := by
          refine Finset.sum_le_sum (fun k _ => ?_)
          exact mul_le_mul_of_nonneg_left (rowAbs_le_infNorm A k) (abs_nonneg _)
      _ = (∑ k, |(toMat A ^ m) i k|) * (infNorm A : ℤ) := by rw [Finset.sum_mul]
      _ ≤ (infNorm A : ℤ) ^ m * (infNorm A : ℤ) := mul_le_mul_of_nonneg_right (ih i) hρ
      _ = (infNorm A : ℤ) ^ (m + 1) := by rw [pow_succ]

theorem pow_diag_abs (A : AMat Int n) (m : ℕ) (i : Fin n) : |(toMat A ^ m) i i| ≤ (infNorm A : ℤ) ^ m := by
  refine le_trans ?_ (pow_row_abs A m i)
  exact Finset.single_le_sum (f := fun j => |(toMat A ^ m) i j|) (fun j _ => abs_nonneg _) (mem_univ i)

/-- `Σ_{k<K} x^k ≤ 1/(1−x)` for `0 ≤ x < 1` -/
theorem geom_le (x : ℚ) (hx0 : 0 ≤ x) (hx1 : x < 1) (K : ℕ) : ∑ k ∈ range K, x ^ k ≤ 1 / (1 - x) := by
  have h := geom_sum_mul_neg x K
  have hpos : 0 < 1 - x := by linarith
  rw [le_div_iff₀ hpos, h]
  have : 0 ≤ x ^ K := pow_nonneg hx0 K
  linarith

theorem expDiag_tail (A : AMat Int n) (T T' : ℕ) (hTT : T ≤ T') (b : ℚ)
    (hb : expTail (infNorm A) T = .ok b) (i : Fin n) :
    |(expDiag A T')[i] - (expDiag A T)[i]| ≤ b := by
  unfold expTail at hb
  split_ifs at hb with hρT
  cases hb
  set ρ : ℕ := infNorm A with hρ
  have hρq : (0 : ℚ) ≤ (ρ : ℚ) := Nat.cast_nonneg _
  rw [expDiag_spec, expDiag_spec, ← Finset.sum_Ico_eq_sub _ hTT, Finset.sum_Ico_eq_sum_range]
  have hT1 : (0 : ℚ) < ((T + 1 : ℕ) : ℚ) := by positivity
  set x : ℚ := (ρ : ℚ) / ((T + 1 : ℕ) : ℚ) with hx
  have hx0 : 0 ≤ x := div_nonneg hρq hT1.le
  have hx1 : x < 1 := by
    rw [hx, div_lt_one hT1]; exact_mod_cast hρT
  have hfT : (0 : ℚ) < (T.factorial : ℚ) := by exact_mod_cast Nat.factorial_pos T
  -- termwise bound
  have hterm : ∀ k, |(((toMat A ^ (T + k)) i i : ℤ) : ℚ) / ((T + k).factorial : ℚ)|
      ≤ (ρ : ℚ) ^ T / (T.factorial : ℚ) * x ^ k := by
    intro k
    have hfk : (0 : ℚ) < ((T + k).factorial : ℚ) := by exact_mod_cast Nat.factorial_pos _
    rw [abs_div, abs_of_pos hfk]
    have h1 : |(((toMat A ^ (T + k)) i i : ℤ) : ℚ)| ≤ (ρ : ℚ) ^ (T + k) := by
      have := pow_diag_abs A (T + k) i
      rw [← hρ] at this
      have h2 : ((|(toMat A ^ (T + k)) i i| : ℤ) : ℚ) ≤ (((ρ : ℤ) ^ (T + k) : ℤ) : ℚ) := Int.cast_le.mpr this
      simpa using h2
    have h2 : (T.factorial : ℚ) * ((T + 1 : ℕ) : ℚ) ^ k ≤ ((T + k).factorial : ℚ) := by
      exact_mod_cast Nat.factorial_mul_pow_le_factorial
    have hden : (0 : ℚ) < (T.factorial : ℚ) * ((T + 1 : ℕ) : ℚ) ^ k := mul_pos hfT (pow_pos hT1 k)
    calc |(((toMat A ^ (T + k)) i i : ℤ) : ℚ)| / ((T + k).factorial : ℚ)
        ≤ (ρ : ℚ) ^ (T + k) / ((T + k).factorial : ℚ) := div_le_div_of_nonneg_right h1 hfk.le
      _ ≤ (ρ : ℚ) ^ (T + k) / ((T.factorial : ℚ) * ((T + 1 : ℕ) : ℚ) ^ k) :=
          div_le_div_of_nonneg_left (pow_nonneg hρq _) hden h2
      _ = (ρ : ℚ) ^ T / (T.factorial : ℚ) * x ^ k := by
          rw [hx, div_pow, pow_add]; field_simp
  calc |∑ k ∈ range (T' - T), (((toMat A ^ (T + k)) i i : ℤ) : ℚ) / ((T + k).factorial : ℚ)|
      ≤ ∑ k ∈ range (T' - T), |(((toMat A ^ (T + k)) i i : ℤ) : ℚ) / ((T + k).factorial : ℚ)| :=
        Finset.abs_sum_le_sum_abs _ _
    _ ≤ ∑ k ∈ range (T' - T), (ρ : ℚ) ^ T / (T.factorial : ℚ) * x ^ k := Finset.sum_le_sum (fun k _ => hterm k)
    _ = (ρ : ℚ) ^ T / (T.factorial : ℚ) * ∑ k ∈ range (T' - T), x ^ k := by rw [Finset.mul_sum]
    _ ≤ (ρ : ℚ) ^ T / (T.factorial : ℚ) * (1 / (1 - x)) :=
        mul_le_mul_of_nonneg_left (geom_le x hx0 hx1 _) (div_nonneg (pow_nonneg hρq _) hfT.le)
    _ = ((ρ ^ T : ℕ) : ℚ) / (fact T : ℚ) * ((T + 1 : ℕ) : ℚ) / ((T + 1 - ρ : ℕ) : ℚ) := by
        have hsub : ((T + 1 - ρ : ℕ) : ℚ) = ((T + 1 : ℕ) : ℚ) - (ρ : ℚ) := by
          rw [Nat.cast_sub (by omega)]
        have hne : ((T + 1 : ℕ) : ℚ) - (ρ : ℚ) ≠ 0 := by
          have : (ρ : ℚ) < ((T + 1 : ℕ) : ℚ) := by exact_mod_cast hρT
          linarith
        rw [hsub, fact_eq, hx, Nat.cast_pow]
        field_simp

end Bct.Walks
