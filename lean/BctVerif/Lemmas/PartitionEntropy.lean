import Mathlib.Analysis.SpecialFunctions.Log.NegMulLog
import Mathlib.Algebra.BigOperators.Field
import Mathlib.Algebra.Order.BigOperators.Group.Finset
import Mathlib.Tactic.Ring
import Mathlib.Tactic.Linarith
import Mathlib.Tactic.Positivity
import Mathlib.Tactic.FieldSimp

/-! Entropy inequalities for a finite table of natural-number counts (no measure theory):
`H(X) ≤ H(X,Y)` with equality iff every cell is empty or fills its row, `H(X,Y) ≤ H(X)+H(Y)`,
`H(X,Y) ≤ log N`.  Used for `partition_distance` (property C14). -/
namespace Bct.PartEntropy
open Finset Real

/-- `-(k/N) log (k/N)` -/
noncomputable def f (N k : ℕ) : ℝ := negMulLog ((k : ℝ) / N)

theorem f_eq {N : ℕ} (hN : 0 < N) (k : ℕ) : f N k = -((k : ℝ) / N) * (Real.log k - Real.log N) := by
  unfold f negMulLog
  rcases Nat.eq_zero_or_pos k with rfl | hk
  · simp
  · have hk' : (k : ℝ) ≠ 0 := by exact_mod_cast hk.ne'
    have hN' : (N : ℝ) ≠ 0 := by exact_mod_cast hN.ne'
    rw [Real.log_div hk' hN']

variable {ι κ : Type}

/-- the defect `Σ f(tᵢ) - f(Σ tᵢ)` as a sum of non-negative terms -/
theorem defect_eq {N : ℕ} (hN : 0 < N) (s : Finset ι) (t : ι → ℕ) :
    ∑ i ∈ s, f N (t i) - f N (∑ i ∈ s, t i) =
      ∑ i ∈ s, ((t i : ℝ) / N) * (Real.log ((∑ j ∈ s, t j : ℕ) : ℝ) - Real.log (t i)) := by
  rw [f_eq hN]
  simp only [f_eq hN]
  have : ((∑ i ∈ s, t i : ℕ) : ℝ) / N = ∑ i ∈ s, (t i : ℝ) / N := by
    rw [Nat.cast_sum, Finset.sum_div]
  rw [this, neg_mul, Finset.sum_mul, sub_neg_eq_add, ← Finset.sum_add_distrib]
  apply Finset.sum_congr rfl
  intro i _
  ring

theorem term_nonneg {N : ℕ} (s : Finset ι) (t : ι → ℕ) {i : ι} (hi : i ∈ s) :
    0 ≤ ((t i : ℝ) / N) * (Real.log ((∑ j ∈ s, t j : ℕ) : ℝ) - Real.log (t i)) := by
  rcases Nat.eq_zero_or_pos (t i) with h0 | hpos
  · simp [h0]
  · apply mul_nonneg (by positivity)
    rw [sub_nonneg]
    apply Real.log_le_log (by exact_mod_cast hpos)
    exact_mod_cast Finset.single_le_sum (f := t) (fun _ _ => Nat.zero_le _) hi

theorem term_eq_zero_iff {N : ℕ} (hN : 0 < N) (s : Finset ι) (t : ι → ℕ) {i : ι} (hi : i ∈ s) :
    ((t i : ℝ) / N) * (Real.log ((∑ j ∈ s, t j : ℕ) : ℝ) - Real.log (t i)) = 0 ↔ t i = 0 ∨ t i = ∑ j ∈ s, t j := by
  have hN' : (N : ℝ) ≠ 0 := by exact_mod_cast hN.ne'
  rcases Nat.eq_zero_or_pos (t i) with h0 | hpos
  · simp [h0]
  · have hle : t i ≤ ∑ j ∈ s, t j := Finset.single_le_sum (f := t) (fun _ _ => Nat.zero_le _) hi
    have hT : 0 < ∑ j ∈ s, t j := lt_of_lt_of_le hpos hle
    constructor
    · intro h
      right
      rcases mul_eq_zero.mp h with h1 | h1
      · exfalso
        have : (t i : ℝ) = 0 := by
          rcases div_eq_zero_iff.mp h1 with h2 | h2
          · exact h2
          · exact absurd h2 hN'
        exact hpos.ne' (by exact_mod_cast this)
      · have := Real.log_injOn_pos (Set.mem_Ioi.mpr (by exact_mod_cast hT : (0:ℝ) < ((∑ j ∈ s, t j : ℕ) : ℝ)))
          (Set.mem_Ioi.mpr (by exact_mod_cast hpos : (0:ℝ) < (t i : ℝ))) (sub_eq_zero.mp h1)
        exact_mod_cast this.symm
    · rintro (h | h)
      · exact absurd h hpos.ne'
      · rw [← h]; simp

/-- sub-additivity of `f` on natural counts -/
theorem f_sum_le {N : ℕ} (hN : 0 < N) (s : Finset ι) (t : ι → ℕ) : f N (∑ i ∈ s, t i) ≤ ∑ i ∈ s, f N (t i) := by
  rw [← sub_nonneg, defect_eq hN]
  exact Finset.sum_nonneg fun i hi => term_nonneg s t hi

theorem f_sum_eq_iff {N : ℕ} (hN : 0 < N) (s : Finset ι) (t : ι → ℕ) :
    ∑ i ∈ s, f N (t i) - f N (∑ i ∈ s, t i) = 0 ↔ ∀ i ∈ s, t i = 0 ∨ t i = ∑ j ∈ s, t j := by
  rw [defect_eq hN, Finset.sum_eq_zero_iff_of_nonneg (fun i hi => term_nonneg s t hi)]
  exact forall₂_congr fun i hi => term_eq_zero_iff hN s t hi

/-! ### two-way tables -/
variable (s : Finset ι) (r : Finset κ) (t : ι → κ → ℕ)

noncomputable def HXY (N : ℕ) : ℝ := ∑ i ∈ s, ∑ j ∈ r, f N (t i j)
noncomputable def HX (N : ℕ) : ℝ := ∑ i ∈ s, f N (∑ j ∈ r, t i j)
noncomputable def HY (N : ℕ) : ℝ := ∑ j ∈ r, f N (∑ i ∈ s, t i j)

theorem HX_le_HXY {N : ℕ} (hN : 0 < N) : HX s r t N ≤ HXY s r t N :=
  Finset.sum_le_sum fun i _ => f_sum_le hN r (t i)

theorem HY_le_HXY {N : ℕ} (hN : 0 < N) : HY s r t N ≤ HXY s r t N := by
  unfold HXY; rw [Finset.sum_comm]
  exact Finset.sum_le_sum fun j _ => f_sum_le hN s (fun i => t i j)

theorem HXY_sub_HX_eq_zero_iff {N : ℕ} (hN : 0 < N) :
    HXY s r t N - HX s r t N = 0 ↔ ∀ i ∈ s, ∀ j ∈ r, t i j = 0 ∨ t i j = ∑ j' ∈ r, t i j' := by
  unfold HXY HX
  rw [← Finset.sum_sub_distrib, Finset.sum_eq_zero_iff_of_nonneg
    (fun i _ => sub_nonneg.mpr (f_sum_le hN r (t i)))]
  exact forall₂_congr fun i _ => f_sum_eq_iff hN r (t i)

theorem HXY_sub_HY_eq_zero_iff {N : ℕ} (hN : 0 < N) :
    HXY s r t N - HY s r t N = 0 ↔ ∀ i ∈ s, ∀ j ∈ r, t i j = 0 ∨ t i j = ∑ i' ∈ s, t i' j := by
  have := HXY_sub_HX_eq_zero_iff r s (fun j i => t i j) hN
  unfold HXY HX at this
  unfold HXY HY
  rw [Finset.sum_comm, this]
  constructor
  · intro h i hi j hj; exact h j hj i hi
  · intro h j hj i hi; exact h i hi j hj

/-- variation of information `2H(X,Y) - H(X) - H(Y)` -/
noncomputable def VI (N : ℕ) : ℝ := 2 * HXY s r t N - HX s r t N - HY s r t N

theorem VI_nonneg {N : ℕ} (hN : 0 < N) : 0 ≤ VI s r t N := by
  unfold VI
  linarith [HX_le_HXY s r t hN, HY_le_HXY s r t hN]

theorem VI_eq_zero_iff {N : ℕ} (hN : 0 < N) :
    VI s r t N = 0 ↔ ∀ i ∈ s, ∀ j ∈ r, t i j = 0 ∨ (t i j = ∑ j' ∈ r, t i j' ∧ t i j = ∑ i' ∈ s, t i' j) := by
  have h1 := HX_le_HXY s r t hN
  have h2 := HY_le_HXY s r t hN
  have e1 := HXY_sub_HX_eq_zero_iff s r t hN
  have e2 := HXY_sub_HY_eq_zero_iff s r t hN
  unfold VI
  constructor
  · intro h
    have a1 : HXY s r t N - HX s r t N = 0 := by linarith
    have a2 : HXY s r t N - HY s r t N = 0 := by linarith
    intro i hi j hj
    rcases e1.mp a1 i hi j hj with h0 | hrow
    · exact Or.inl h0
    · rcases e2.mp a2 i hi j hj with h0 | hcol
      · exact Or.inl h0
      · exact Or.inr ⟨hrow, hcol⟩
  · intro h
    have a1 : HXY s r t N - HX s r t N = 0 :=
      e1.mpr fun i hi j hj => (h i hi j hj).imp id fun x => x.1
    have a2 : HXY s r t N - HY s r t N = 0 :=
      e2.mpr fun i hi j hj => (h i hi j hj).imp id fun x => x.2
    linarith

/-! ### upper bounds -/

theorem f_le {N : ℕ} (hN : 0 < N) (k : ℕ) : f N k ≤ ((k : ℝ) / N) * Real.log N := by
  rw [f_eq hN]
  have h1 : 0 ≤ Real.log (k : ℝ) := Real.log_natCast_nonneg k
  have h2 : 0 ≤ (k : ℝ) / N := by positivity
  nlinarith [mul_nonneg h2 h1]

theorem HXY_le_log {N : ℕ} (hN : 0 < N) (htot : ∑ i ∈ s, ∑ j ∈ r, t i j = N) : HXY s r t N ≤ Real.log N := by
  have hN' : (N : ℝ) ≠ 0 := by exact_mod_cast hN.ne'
  calc HXY s r t N ≤ ∑ i ∈ s, ∑ j ∈ r, ((t i j : ℝ) / N) * Real.log N :=
        Finset.sum_le_sum fun i _ => Finset.sum_le_sum fun j _ => f_le hN _
    _ = ((∑ i ∈ s, ∑ j ∈ r, t i j : ℕ) : ℝ) / N * Real.log N := by
        simp only [← Finset.sum_mul, ← Finset.sum_div, Nat.cast_sum]
    _ = Real.log N := by rw [htot, div_self hN', one_mul]

/-- Gibbs' inequality for the table: mutual information is non-negative -/
theorem HXY_le_add {N : ℕ} (hN : 0 < N) (htot : ∑ i ∈ s, ∑ j ∈ r, t i j = N) :
    HXY s r t N ≤ HX s r t N + HY s r t N := by
  have hN' : (0 : ℝ) < N := by exact_mod_cast hN
  set a : ι → ℕ := fun i => ∑ j ∈ r, t i j with ha
  set b : κ → ℕ := fun j => ∑ i ∈ s, t i j with hb
  have hsa : ∑ i ∈ s, a i = N := htot
  have hsb : ∑ j ∈ r, b j = N := by rw [hb]; simp only; rw [Finset.sum_comm]; exact htot
  -- rewrite the three entropies as double sums over the cells
  have eX : HX s r t N = ∑ i ∈ s, ∑ j ∈ r, -((t i j : ℝ) / N) * (Real.log (a i) - Real.log N) := by
    unfold HX
    apply Finset.sum_congr rfl
    intro i _
    rw [f_eq hN, ← Finset.sum_mul, Finset.sum_neg_distrib, ← Finset.sum_div, ← Nat.cast_sum]
  have eY : HY s r t N = ∑ i ∈ s, ∑ j ∈ r, -((t i j : ℝ) / N) * (Real.log (b j) - Real.log N) := by
    unfold HY
    rw [Finset.sum_comm]
    apply Finset.sum_congr rfl
    intro j _
    rw [f_eq hN, ← Finset.sum_mul, Finset.sum_neg_distrib, ← Finset.sum_div, ← Nat.cast_sum]
  have eXY : HXY s r t N = ∑ i ∈ s, ∑ j ∈ r, -((t i j : ℝ) / N) * (Real.log (t i j) - Real.log N) := by
    unfold HXY; simp only [f_eq hN]
  -- cellwise bound
  have cell : ∀ i ∈ s, ∀ j ∈ r,
      (t i j : ℝ) / N - (a i : ℝ) * (b j) / (N * N) ≤
        -((t i j : ℝ) / N) * (Real.log (a i) - Real.log N) + -((t i j : ℝ) / N) * (Real.log (b j) - Real.log N)
          - -((t i j : ℝ) / N) * (Real.log (t i j) - Real.log N) := by
    intro i hi j hj
    rcases Nat.eq_zero_or_pos (t i j) with h0 | hpos
    · simp only [h0, Nat.cast_zero, zero_div, neg_zero, zero_mul, add_zero, sub_zero, zero_sub]
      have : 0 ≤ (a i : ℝ) * (b j) / (N * N) := by positivity
      linarith
    · have hai : t i j ≤ a i := Finset.single_le_sum (f := t i) (fun _ _ => Nat.zero_le _) hj
      have hbj : t i j ≤ b j := Finset.single_le_sum (f := fun i => t i j) (fun _ _ => Nat.zero_le _) hi
      have ht : (0 : ℝ) < t i j := by exact_mod_cast hpos
      have hA : (0 : ℝ) < a i := by exact_mod_cast lt_of_lt_of_le hpos hai
      have hB : (0 : ℝ) < b j := by exact_mod_cast lt_of_lt_of_le hpos hbj
      -- log (a b / (t N)) ≤ a b / (t N) - 1
      have hx : (0 : ℝ) < (a i : ℝ) * (b j) / ((t i j) * N) := by positivity
      have hlog := Real.log_le_sub_one_of_pos hx
      rw [Real.log_div (by positivity) (by positivity), Real.log_mul hA.ne' hB.ne', Real.log_mul ht.ne' hN'.ne'] at hlog
      have key : ((t i j : ℝ) / N) * ((a i : ℝ) * (b j) / ((t i j) * N) - 1) = (a i : ℝ) * (b j) / (N * N) - (t i j : ℝ) / N := by
        field_simp
      have hq : (0 : ℝ) ≤ (t i j : ℝ) / N := by positivity
      nlinarith [mul_le_mul_of_nonneg_left hlog hq]
  have hsum : ∑ i ∈ s, ∑ j ∈ r, ((t i j : ℝ) / N - (a i : ℝ) * (b j) / (N * N)) = 0 := by
    simp only [Finset.sum_sub_distrib]
    have h1 : ∑ i ∈ s, ∑ j ∈ r, (t i j : ℝ) / N = 1 := by
      simp only [← Finset.sum_div, ← Nat.cast_sum]
      rw [htot, div_self hN'.ne']
    have h2 : ∑ i ∈ s, ∑ j ∈ r, (a i : ℝ) * (b j) / (N * N) = 1 := by
      simp only [← Finset.sum_div, ← Finset.mul_sum, ← Finset.sum_mul, ← Nat.cast_sum]
      rw [hsa, hsb, div_self (by positivity)]
    rw [h1, h2, sub_self]
  rw [← sub_nonneg, eX, eY, eXY, ← Finset.sum_add_distrib, ← Finset.sum_sub_distrib, ← hsum]
  apply Finset.sum_le_sum
  intro i hi
  rw [← Finset.sum_add_distrib, ← Finset.sum_sub_distrib]
  exact Finset.sum_le_sum fun j hj => cell i hi j hj

/-- `VI ≤ log N`, i.e. the normalised variation of information is at most 1 -/
theorem VI_le_log {N : ℕ} (hN : 0 < N) (htot : ∑ i ∈ s, ∑ j ∈ r, t i j = N) : VI s r t N ≤ Real.log N := by
  unfold VI
  linarith [HXY_le_add s r t hN htot, HXY_le_log s r t hN htot]

end Bct.PartEntropy
