import BctVerif.Model.Signed
import Mathlib.Data.List.Perm.Basic
import Mathlib.Data.List.Nodup
import Mathlib.Data.List.Range
import Mathlib.Tactic

/-!
# C06 helper lemmas: the dealing loop of the null models is a bijection

`pickIdx l I ++ dropIdx l I ~ l` for a duplicate-free in-range index list (fancy indexing plus
`np.delete`), hence every sorting round moves cells / weights from the pending lists to the
assignment list without losing or duplicating any.
-/
namespace Bct.Signed
open List

variable {α : Type}

theorem pickIdx_eq_map (l : List α) (I : List Nat) :
    pickIdx l I = (I.filterMap fun i => (l[i]?).map fun x => (x, i)).map Prod.fst := by
  unfold pickIdx
  rw [List.map_filterMap]
  congr 1; funext i; cases l[i]? <;> simp

theorem pickIdx_length (l : List α) (I : List Nat) (hlt : ∀ i ∈ I, i < l.length) :
    (pickIdx l I).length = I.length := by
  unfold pickIdx
  induction I with
  | nil => simp
  | cons i I ih =>
    have hi : i < l.length := hlt i (by simp)
    have : l[i]? = some l[i] := List.getElem?_eq_getElem hi
    simp only [List.filterMap_cons, this, List.length_cons]
    rw [ih (fun j hj => hlt j (by simp [hj]))]

theorem mem_pickIdx (l : List α) (I : List Nat) (x : α) (h : x ∈ pickIdx l I) : x ∈ l := by
  unfold pickIdx at h
  obtain ⟨i, _, hi⟩ := List.mem_filterMap.1 h
  exact List.mem_of_getElem? hi

theorem pickIdx_nodup (l : List α) (I : List Nat) (hl : l.Nodup) (hI : I.Nodup) : (pickIdx l I).Nodup := by
  unfold pickIdx
  refine List.Nodup.filterMap ?_ hI
  intro i j x hi hj
  simp only [Option.mem_def] at hi hj
  have h1 := List.getElem?_eq_some_iff.1 hi
  have h2 := List.getElem?_eq_some_iff.1 hj
  obtain ⟨hi', e1⟩ := h1
  obtain ⟨hj', e2⟩ := h2
  exact (List.Nodup.getElem_inj_iff hl).1 (e1.trans e2.symm)

theorem zipIdx_nodup (l : List α) : l.zipIdx.Nodup := by
  apply List.Nodup.of_map Prod.snd
  rw [List.zipIdx_map_snd]
  exact List.nodup_range'

theorem pick_drop_perm (l : List α) (I : List Nat) (hI : I.Nodup) (_hlt : ∀ i ∈ I, i < l.length) :
    (pickIdx l I ++ dropIdx l I).Perm l := by
  have hAB : (I.filterMap fun i => (l[i]?).map fun x => (x, i)).Perm (l.zipIdx.filter fun p => I.contains p.2) := by
    refine (List.perm_ext_iff_of_nodup ?_ ((zipIdx_nodup l).filter _)).2 ?_
    · refine List.Nodup.filterMap ?_ hI
      intro i j p hi hj
      simp only [Option.mem_def, Option.map_eq_some_iff] at hi hj
      obtain ⟨_, _, rfl⟩ := hi
      obtain ⟨_, _, h⟩ := hj
      exact (congrArg Prod.snd h).symm
    · rintro ⟨x, i⟩
      simp only [List.mem_filterMap, Option.map_eq_some_iff, List.mem_filter, List.mem_zipIdx_iff_getElem?,
        List.contains_iff_mem, Prod.mk.injEq]
      constructor
      · rintro ⟨j, hj, y, hy, rfl, rfl⟩; exact ⟨hy, hj⟩
      · rintro ⟨hx, hi⟩; exact ⟨i, hi, x, hx, rfl, rfl⟩
  have hsplit := List.filter_append_perm (fun p : α × Nat => I.contains p.2) l.zipIdx
  have := (hAB.append_right (l.zipIdx.filter fun p => !I.contains p.2)).trans hsplit
  have := this.map Prod.fst
  rw [List.map_append, List.zipIdx_map_fst, ← pickIdx_eq_map] at this
  exact this

theorem dropIdx_length (l : List α) (I : List Nat) (hI : I.Nodup) (hlt : ∀ i ∈ I, i < l.length) :
    (dropIdx l I).length = l.length - I.length := by
  have := (pick_drop_perm l I hI hlt).length_eq
  rw [List.length_append, pickIdx_length l I hlt] at this
  omega

theorem isPermOfRange_spec {p : List Nat} {m : Nat} (h : isPermOfRange p m = true) :
    p.length = m ∧ (∀ x ∈ p, x < m) ∧ p.Nodup := by
  simpa [isPermOfRange, and_assoc] using h

/-! ### one round -/

variable {n : ℕ}

/-- cells / weights not yet dealt plus those dealt: nothing is lost, nothing duplicated -/
def DealInv (cells0 : List (Cell n)) (wv0 : List Int) (st : DealSt n) : Prop :=
  (st.asg.map Prod.fst ++ st.cells).Perm cells0 ∧ (st.asg.map Prod.snd ++ st.wv).Perm wv0 ∧
  st.cells.length = st.wv.length

theorem dealRound_inv (cells0 : List (Cell n)) (wv0 : List Int) (st st' : DealSt n) (oind rs : List Nat)
    (hinv : DealInv cells0 wv0 st) (h : dealRound st oind rs = .ok st') :
    DealInv cells0 wv0 st' ∧ st'.wv.length = st.wv.length - rs.length := by
  unfold dealRound at h
  split at h
  · simp at h
  · rename_i hperm
    split at h
    · simp at h
    · rename_i hrs
      have hperm' : isPermOfRange oind st.cells.length = true := by simpa using hperm
      have hrs' : rs.Nodup ∧ (∀ x ∈ rs, x < st.wv.length) ∧ (∀ x ∈ rs, x < oind.length) := by
        simpa [and_assoc] using hrs
      obtain ⟨hol, holt, hond⟩ := isPermOfRange_spec hperm'
      obtain ⟨hrnd, hrw, hro⟩ := hrs'
      simp only [Except.ok.injEq] at h
      subst h
      obtain ⟨hc, hw, hlen⟩ := hinv
      have hO_nd : (pickIdx oind rs).Nodup := pickIdx_nodup oind rs hond hrnd
      have hO_lt : ∀ o ∈ pickIdx oind rs, o < st.cells.length := fun o ho => holt o (mem_pickIdx _ _ _ ho)
      have hO_len : (pickIdx oind rs).length = rs.length := pickIdx_length oind rs hro
      have hpc_len : (pickIdx st.cells (pickIdx oind rs)).length = rs.length := by
        rw [pickIdx_length _ _ hO_lt, hO_len]
      have hpw_len : (pickIdx st.wv rs).length = rs.length := pickIdx_length _ _ hrw
      have pc := pick_drop_perm st.cells (pickIdx oind rs) hO_nd hO_lt
      have pw := pick_drop_perm st.wv rs hrnd hrw
      refine ⟨⟨?_, ?_, ?_⟩, ?_⟩
      · simp only [List.map_append, List.append_assoc]
        rw [List.map_fst_zip (by omega)]
        exact ((List.Perm.refl _).append pc).trans hc
      · simp only [List.map_append, List.append_assoc]
        rw [List.map_snd_zip (by omega)]
        exact ((List.Perm.refl _).append pw).trans hw
      · simp only
        rw [dropIdx_length _ _ hO_nd hO_lt, dropIdx_length _ _ hrnd hrw, hO_len, hlen]
      · simp only
        rw [dropIdx_length _ _ hrnd hrw]

/-! ### the loop over sorting rounds -/

theorem dealLoop_inv (cells0 : List (Cell n)) (wv0 : List Int) (period : Nat) (hp : 0 < period) :
    ∀ (fuel m : Nat) (st : DealSt n) (orc : List (List Nat)) (ds : List Nat)
      {st' : DealSt n} {orc' : List (List Nat)} {ds' : List Nat},
      DealInv cells0 wv0 st → m = st.wv.length →
      dealLoop period fuel m st orc ds = .ok (st', orc', ds') →
      DealInv cells0 wv0 st' ∧ st'.wv = [] ∧ st'.cells = []
  | 0, m, st, orc, ds, st', orc', ds', hinv, hm, h => by
    unfold dealLoop at h
    split at h
    · rename_i h0
      simp only [Except.ok.injEq, Prod.mk.injEq] at h
      obtain ⟨rfl, _, _⟩ := h
      have hw : st.wv.length = 0 := by omega
      have hc : st.cells.length = 0 := by rw [hinv.2.2]; exact hw
      exact ⟨hinv, List.eq_nil_of_length_eq_zero hw, List.eq_nil_of_length_eq_zero hc⟩
    · simp at h
  | fuel + 1, m, st, orc, ds, st', orc', ds', hinv, hm, h => by
    unfold dealLoop at h
    split at h
    · rename_i h0
      simp only [Except.ok.injEq, Prod.mk.injEq] at h
      obtain ⟨rfl, _, _⟩ := h
      have hw : st.wv.length = 0 := by omega
      have hc : st.cells.length = 0 := by rw [hinv.2.2]; exact hw
      exact ⟨hinv, List.eq_nil_of_length_eq_zero hw, List.eq_nil_of_length_eq_zero hc⟩
    · rename_i h0
      cases orc with
      | nil => simp at h
      | cons oind orc1 =>
        simp only at h
        split at h
        · simp at h
        · rename_i hlen
          split at h
          · simp at h
          · rename_i hperm
            have hperm' : isPermOfRange (ds.take m) m = true := by simpa using hperm
            obtain ⟨hpl, _, _⟩ := isPermOfRange_spec hperm'
            cases hr : dealRound st oind ((ds.take m).take (min m period)) with
            | error e => simp [hr] at h
            | ok st1 =>
              simp only [hr] at h
              obtain ⟨hinv1, hlen1⟩ := dealRound_inv cells0 wv0 st st1 oind _ hinv hr
              refine dealLoop_inv cells0 wv0 period hp fuel (m - period) st1 orc1 (ds.drop m) hinv1 ?_ h
              rw [hlen1, List.length_take, hpl, ← hm]
              omega

/-- `deal_bijective` on the list level: the assignments made for one sign pair every cell of the
rewired support with exactly one entry of the sorted weight vector, whatever oracle and draws -/
theorem dealSign_bijective (cells : List (Cell n)) (wv : List Int) (period : Nat) (orc : List (List Nat)) (ds : List Nat)
    {asg : List (Cell n × Int)} {orc' : List (List Nat)} {ds' : List Nat}
    (h : dealSign cells wv period orc ds = .ok (asg, orc', ds')) :
    (asg.map Prod.fst).Perm cells ∧ (asg.map Prod.snd).Perm wv := by
  unfold dealSign at h
  split at h
  · simp at h
  · rename_i hlen
    simp only [ne_eq, Decidable.not_not] at hlen
    have hinv0 : DealInv cells wv ({ cells := cells, wv := wv, asg := [] } : DealSt n) :=
      ⟨by simp, by simp, hlen⟩
    split at h
    · -- wei_freq == 0
      cases orc with
      | nil => simp at h
      | cons oind orc1 =>
        simp only at h
        cases hr : dealRound ({ cells := cells, wv := wv, asg := [] } : DealSt n) oind (List.range wv.length) with
        | error e => simp [hr] at h
        | ok st1 =>
          simp only [hr, Except.ok.injEq, Prod.mk.injEq] at h
          obtain ⟨rfl, _, _⟩ := h
          obtain ⟨⟨hc, hw, hl⟩, hlen1⟩ := dealRound_inv cells wv _ st1 oind _ hinv0 hr
          simp only [List.length_range, Nat.sub_self] at hlen1
          have hw0 : st1.wv = [] := List.eq_nil_of_length_eq_zero hlen1
          have hc0 : st1.cells = [] := List.eq_nil_of_length_eq_zero (by rw [hl]; exact hlen1)
          rw [hc0, List.append_nil] at hc
          rw [hw0, List.append_nil] at hw
          exact ⟨hc, hw⟩
    · rename_i hp
      cases hr : dealLoop period wv.length wv.length ({ cells := cells, wv := wv, asg := [] } : DealSt n) orc ds with
      | error e => simp [hr] at h
      | ok v =>
        obtain ⟨st1, o1, d1⟩ := v
        simp only [hr, Except.ok.injEq, Prod.mk.injEq] at h
        obtain ⟨rfl, _, _⟩ := h
        obtain ⟨⟨hc, hw, _⟩, hw0, hc0⟩ := dealLoop_inv cells wv period (Nat.pos_of_ne_zero hp) _ _ _ orc ds hinv0 rfl hr
        rw [hc0, List.append_nil] at hc
        rw [hw0, List.append_nil] at hw
        exact ⟨hc, hw⟩

end Bct.Signed
