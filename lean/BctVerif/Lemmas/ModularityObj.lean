import BctVerif.Lemmas.ModularityRuns

/-! # The objective-matrix kernel (`Hnm`) and `community_louvain` -/
namespace Bct.Modularity
open Finset

variable {n : ℕ}
variable {g0 : GState}

/-- bookkeeping invariant of `community_louvain`: `Hnm[:,m] = Σ_{j∈m} B[:,j]` -/
def ObjInv (B : RMat n) (st : ObjSt n) (c : Fin n → Fin n) : Prop :=
  st.B = B ∧ ∀ i t : Fin n, st.Hnm.get i t = ∑ j, if c j = t then B.get i j else 0

/-- **bookkeeping_inv + gain_hnm** -/
theorem objKern_spec (B : RMat n) (hB : Symm B) : KernSpec (objKern n) B 1 (ObjInv B) where
  sym := hB
  pos := one_pos
  gain := by
    rintro st c ⟨hBe, hH⟩ u t _
    simp only [objKern, one_mul, dqF, HnmF]
    rw [hH, hH, hBe]
  move := by
    rintro st c ⟨hBe, hH⟩ u t _
    refine ⟨hBe, ?_⟩
    intro i t'
    simp only [objKern, colAdd_get]
    rw [sum_update_label (fun j l => if l = t' then B.get i j else 0) c u t, hH, hBe]
    simp only [eq_comm (a := t')]
    ring

theorem objInit_inv (B : RMat n) (c : Lab n) : ObjInv B (objInit B c) (labOf c) := by
  refine ⟨rfl, ?_⟩
  intro i t
  simp only [objInit, AMat.get_ofFn, fsum_eq, labOf_apply, Fin.getElem_fin]
  refine Finset.sum_congr rfl (fun j _ => ?_)
  congr

theorem trace_eq_Qobj_id (B : RMat n) : trace B = Qobj B (id : Fin n → Fin n) := by
  rw [trace_eq, Qobj_eq]
  refine Finset.sum_congr rfl (fun i _ => ?_)
  simp

theorem symmetrise_symm (B : RMat n) : Symm (symmetrise B) := by
  intro i j; simp only [symmetrise, AMat.get_ofFn]; ring

theorem Qobj_symmetrise {α : Type} [DecidableEq α] (B : RMat n) (c : Fin n → α) :
    Qobj (symmetrise B) c = Qobj B c := by
  rw [Qobj_eq, Qobj_eq]
  simp only [symmetrise, AMat.get_ofFn]
  have h1 : ∀ i j, (if c i = c j then (B.get i j + B.get j i) / 2 else 0)
      = (if c i = c j then B.get i j else 0) / 2 + (if c j = c i then B.get j i else 0) / 2 := by
    intro i j
    by_cases h : c i = c j
    · simp [h, add_div]
    · have h' : ¬ c j = c i := fun e => h e.symm
      simp [h, h']
  simp only [h1, Finset.sum_add_distrib]
  rw [Finset.sum_comm (f := fun i j => (if c j = c i then B.get j i else 0) / 2)]
  rw [← Finset.sum_add_distrib]
  refine Finset.sum_congr rfl (fun i _ => ?_)
  rw [← Finset.sum_add_distrib]
  refine Finset.sum_congr rfl (fun j _ => ?_)
  ring

/-- invariant of the level loop of `community_louvain` (`B0`: the objective matrix, `cs`: the start) -/
structure ClInv {α : Type} [DecidableEq α] (B0 : RMat n) (cs : Fin n → α) (B : RMat n) (Mb : Lab n) (L : LvSt n) (q : ℚ) : Prop where
  symm : Symm B
  agg : ∀ c' : Fin n → Fin n, Qobj B c' = Qobj B0 (fun v => c' (labOf L.ci v))
  start : Qobj B0 cs ≤ Qobj B0 (fun v => labOf Mb (labOf L.ci v))
  acc : ∀ p tl, L.acc = p :: tl → p.1 = L.ci ∧ Mb = idLab n ∧ q = Qobj B0 (labOf L.ci)

theorem clLoop_spec {α : Type} [DecidableEq α] (B0 : RMat n) (cs : Fin n → α) :
    ∀ (fuel : ℕ) (B : RMat n) (Mb : Lab n) (L L' : LvSt n) (q0 : Option ℚ) (q qf : ℚ) (ds rest : List ℕ),
      ClInv B0 cs B Mb L q → clLoop fuel B Mb L q0 q ds = .ok (L', qf, rest) →
      ∀ p tl, L'.acc = p :: tl → qf = Qobj B0 (labOf p.1) ∧ Qobj B0 cs ≤ Qobj B0 (labOf p.1) := by
  intro fuel
  induction fuel with
  | zero => intro B Mb L L' q0 q qf ds rest _ h; simp [clLoop] at h
  | succ fuel ih =>
    intro B Mb L L' q0 q qf ds rest hI h
    have hdone : ∀ p tl, L.acc = p :: tl → q = Qobj B0 (labOf p.1) ∧ Qobj B0 cs ≤ Qobj B0 (labOf p.1) := by
      intro p tl hp
      obtain ⟨h1, h2, h3⟩ := hI.acc p tl hp
      refine ⟨by rw [h1]; exact h3, ?_⟩
      have := hI.start
      rw [h2, labOf_idLab] at this
      rw [h1]; exact this
    unfold clLoop at h
    split_ifs at h with hgo
    · simp only [bind, Except.bind, pure, Except.pure] at h
      generalize hp : passes (objKern n) L.nh L.nh (ds.length + 1) _ ds = res at h
      cases res with
      | error e => simp at h
      | ok r =>
        obtain ⟨x, rest1⟩ := r
        simp only at h
        by_cases hst : x.starved.isSome = true
        · simp only [hst, if_true] at h
          cases h
          exact hdone
        · simp only [hst] at h
          obtain ⟨m', hm', _⟩ := toLab_ok (labFn x.m)
          simp only [hm'] at h
          obtain ⟨_, hmono⟩ := passes_spec (objKern_spec B hI.symm) L.nh L.nh _ _ _ _ _
            (by simpa [pst0] using objInit_inv B Mb) hp
          have hmono' : Qobj B (labOf Mb) ≤ Qobj B (labOf m') := by
            calc Qobj B (labOf Mb) ≤ Qobj B (labOf x.m) := by simpa [pst0] using hmono
              _ = Qobj B (labOf m') :=
                  Qobj_congr _ _ _ (fun i j => by rw [← labFn_congr, labOf_toLab_congr (labFn x.m) m' hm'])
          refine ih _ _ _ _ _ _ _ _ _ ?_ h
          refine ⟨?_, ?_, ?_, ?_⟩
          · rw [aggUpper_eq B hI.symm]; exact aggFull_symm B hI.symm m'
          · intro c'
            rw [aggUpper_eq B hI.symm, Qobj_aggFull, hI.agg, labOf_compose]
            rfl
          · simp only [labOf_idLab, id_eq, labOf_compose]
            calc Qobj B0 cs ≤ Qobj B0 (fun v => labOf Mb (labOf L.ci v)) := hI.start
              _ = Qobj B (labOf Mb) := (hI.agg _).symm
              _ ≤ Qobj B (labOf m') := hmono'
              _ = Qobj B0 (fun v => labOf m' (labOf L.ci v)) := hI.agg _
          · intro p tl hp'
            simp only [List.cons.injEq] at hp'
            obtain ⟨rfl, _⟩ := hp'
            refine ⟨rfl, rfl, ?_⟩
            rw [trace_eq_Qobj_id, aggUpper_eq B hI.symm, Qobj_aggFull, hI.agg, labOf_compose]
            rfl
    · cases h
      exact hdone

/-- **community_louvain: C02 + C07 for the model.** Whenever the objective matrix the routine builds is
symmetric (always for `'modularity'` and for a custom matrix, which are symmetrised; for the other
objectives when `W` is), for every start partition and every sequence of visiting orders the returned
`q` is exactly the objective of the returned partition (divided by `s` unless renormalised) and the
objective of the returned partition is at least that of the start. -/
theorem communityLouvain_spec (W : RMat n) (γ : ℚ) (obj : Objective n) (c0 : Fin n → ℤ) (ds : List ℕ) (out : Out n)
    (hB : Symm (objMatrix W γ obj)) (h : communityLouvain W γ obj c0 ds g0 = .ok out) :
    ∀ p ∈ out.levels,
      p.2 = (if obj.renorm then Qobj (objMatrix W γ obj) (labOf p.1) else Qobj (objMatrix W γ obj) (labOf p.1) / total W) ∧
      Qobj (objMatrix W γ obj) c0 ≤ Qobj (objMatrix W γ obj) (labOf p.1) := by
  unfold communityLouvain at h
  simp only [bind, Except.bind, pure, Except.pure] at h
  split_ifs at h with h1 h2 h3
  all_goals
    obtain ⟨c, hc, _⟩ := toLab_ok c0
    simp only [hc] at h
    set B := objMatrix W γ obj with hBdef
    generalize hl : clLoop (ds.length + 1) B c _ none _ ds = res at h
    cases res with
    | error e => simp at h
    | ok r =>
      obtain ⟨L, qf, rest⟩ := r
      simp only at h
      have hI : ClInv B c0 B c
          { nh := n, ci := idLab n, qprev := Qobj B (fun i => c[i]) / total W, acc := [], moves := 0, ties := 0, g := g0 }
          (Qobj B (fun i => c[i]) / total W) := by
        refine ⟨hB, ?_, ?_, ?_⟩
        · intro c'; simp only [labOf_idLab, id_eq]
        · simp only [labOf_idLab, id_eq]
          exact le_of_eq (Qobj_congr _ _ _ (labOf_toLab_congr c0 c hc))
        · intro p tl hp; simp at hp
      have hres := clLoop_spec B c0 _ _ _ _ _ _ _ _ _ _ hI hl
      cases hacc : L.acc with
      | nil =>
        simp only [hacc] at h
        cases h
        intro p hp; simp at hp
      | cons p0 tl =>
        obtain ⟨ci, q'⟩ := p0
        simp only [hacc] at h
        cases h
        obtain ⟨hq, hle⟩ := hres _ _ hacc
        intro p hp
        simp only [List.mem_singleton] at hp
        subst hp
        simp only at hq hle ⊢
        refine ⟨?_, hle⟩
        simp [h3, hq]

end Bct.Modularity
