import BctVerif.Lemmas.BetweenWalk

/-!
# `dist` is the minimum walk length (C08)
-/
namespace Bct.Between
open Bct

variable {n : ℕ} (L : AMat Nat n)

/-- `a ≤ b` on extended naturals (`none` = ∞) -/
def OLe (a b : Option ℕ) : Prop := ∀ y, b = some y → ∃ x, a = some x ∧ x ≤ y

theorem OLe.refl (a : Option ℕ) : OLe a a := fun y h => ⟨y, h, le_refl _⟩

theorem OLe.trans {a b c : Option ℕ} (h1 : OLe a b) (h2 : OLe b c) : OLe a c := by
  intro z hz
  obtain ⟨y, hy, hyz⟩ := h2 z hz
  obtain ⟨x, hx, hxy⟩ := h1 y hy
  exact ⟨x, hx, le_trans hxy hyz⟩

theorem omin_le_left (a b : Option ℕ) : OLe (omin a b) a := by
  intro y hy; subst hy
  cases b with
  | none => exact ⟨y, rfl, le_refl _⟩
  | some b => exact ⟨min y b, rfl, min_le_left _ _⟩

theorem omin_le_right (a b : Option ℕ) : OLe (omin a b) b := by
  intro y hy; subst hy
  cases a with
  | none => exact ⟨y, rfl, le_refl _⟩
  | some a => exact ⟨min a y, rfl, min_le_right _ _⟩

theorem omin_cases (a b : Option ℕ) : omin a b = a ∨ omin a b = b := by
  cases a with
  | none => right; rfl
  | some a =>
    cases b with
    | none => left; rfl
    | some b =>
      rcases le_total a b with h | h
      · left; simp [omin, h]
      · right; simp [omin, h]

theorem oadd_mono (c : ℕ) {a b : Option ℕ} (h : OLe a b) : OLe (oadd c a) (oadd c b) := by
  intro y hy
  cases b with
  | none => simp [oadd] at hy
  | some b =>
    obtain ⟨x, hx, hxb⟩ := h b rfl
    subst hx
    simp only [oadd, Option.some.injEq] at hy
    exact ⟨c + x, rfl, by omega⟩

/-- characterisation of the fold computing one relaxed cell -/
theorem foldl_omin_spec {ι : Type} (c : ι → Prop) [DecidablePred c] (h : ι → Option ℕ)
    (l : List ι) (init : Option ℕ) :
    OLe (l.foldl (fun acc w => if c w then acc else omin acc (h w)) init) init ∧
    (∀ w ∈ l, ¬ c w → OLe (l.foldl (fun acc w => if c w then acc else omin acc (h w)) init) (h w)) ∧
    (l.foldl (fun acc w => if c w then acc else omin acc (h w)) init = init ∨
      ∃ w ∈ l, ¬ c w ∧ l.foldl (fun acc w => if c w then acc else omin acc (h w)) init = h w) := by
  induction l generalizing init with
  | nil => exact ⟨OLe.refl _, by simp, Or.inl rfl⟩
  | cons x l ih =>
    simp only [List.foldl_cons]
    obtain ⟨i1, i2, i3⟩ := ih (if c x then init else omin init (h x))
    by_cases hc : c x
    · simp only [hc, if_true] at i1 i2 i3 ⊢
      refine ⟨i1, ?_, ?_⟩
      · intro w hw hcw
        rcases List.mem_cons.1 hw with rfl | hw
        · exact absurd hc hcw
        · exact i2 w hw hcw
      · rcases i3 with i3 | ⟨w, hw, hcw, e⟩
        · exact Or.inl i3
        · exact Or.inr ⟨w, List.mem_cons_of_mem _ hw, hcw, e⟩
    · simp only [hc, if_false] at i1 i2 i3 ⊢
      refine ⟨i1.trans (omin_le_left _ _), ?_, ?_⟩
      · intro w hw hcw
        rcases List.mem_cons.1 hw with rfl | hw
        · exact i1.trans (omin_le_right _ _)
        · exact i2 w hw hcw
      · rcases i3 with i3 | ⟨w, hw, hcw, e⟩
        · rcases omin_cases init (h x) with e | e
          · left; rw [i3, e]
          · right; exact ⟨x, List.mem_cons_self, hc, by rw [i3, e]⟩
        · exact Or.inr ⟨w, List.mem_cons_of_mem _ hw, hcw, e⟩

theorem relaxCell_le_self (D : DMat n) (s t : Fin n) : OLe (relaxCell L D s t) (D.get s t) :=
  (foldl_omin_spec (fun w => L.get s w = 0) (fun w => oadd (L.get s w) (D.get w t)) _ _).1

theorem relaxCell_le_edge (D : DMat n) (s t w : Fin n) (hw : L.get s w ≠ 0) :
    OLe (relaxCell L D s t) (oadd (L.get s w) (D.get w t)) :=
  (foldl_omin_spec (fun w => L.get s w = 0) (fun w => oadd (L.get s w) (D.get w t)) _ _).2.1 w
    (List.mem_finRange w) hw

theorem relaxCell_cases (D : DMat n) (s t : Fin n) :
    relaxCell L D s t = D.get s t ∨
      ∃ w, L.get s w ≠ 0 ∧ relaxCell L D s t = oadd (L.get s w) (D.get w t) := by
  rcases (foldl_omin_spec (fun w => L.get s w = 0) (fun w => oadd (L.get s w) (D.get w t))
    (List.finRange n) (D.get s t)).2.2 with h | ⟨w, _, hw, e⟩
  · exact Or.inl h
  · exact Or.inr ⟨w, hw, e⟩

@[simp] theorem iter_zero {α : Type} (f : α → α) (x : α) : iter f 0 x = x := rfl
@[simp] theorem iter_succ {α : Type} (f : α → α) (k : ℕ) (x : α) : iter f (k + 1) x = f (iter f k x) := rfl

@[simp] theorem relax_get (D : DMat n) (s t : Fin n) : (relax L D).get s t = relaxCell L D s t := by
  simp [relax]

@[simp] theorem dist0_get (s t : Fin n) : (dist0 : DMat n).get s t = if s = t then some 0 else none := by
  simp [dist0]

/-- after `k` rounds the entry is a lower bound for every walk with at most `k` steps -/
theorem iter_relax_lower (k : ℕ) (s : Fin n) (p : List (Fin n)) (hw : IsWalk L s p) (hk : p.length ≤ k) :
    OLe ((iter (relax L) k dist0).get s (wend s p)) (some (wlen L s p)) := by
  induction k generalizing s p with
  | zero =>
    have : p = [] := List.eq_nil_of_length_eq_zero (by omega)
    subst this
    simp only [iter_zero, wend_nil, dist0_get, if_true, wlen_nil]
    exact OLe.refl _
  | succ k ih =>
    simp only [iter_succ, relax_get]
    cases p with
    | nil =>
      exact (relaxCell_le_self L _ s s).trans (ih s [] trivial (by simp))
    | cons v p =>
      obtain ⟨h1, h2⟩ := hw
      have := ih v p h2 (by simpa using hk)
      exact (relaxCell_le_edge L _ s _ v h1).trans (oadd_mono _ this)

/-- every finite entry is the length of an actual walk -/
theorem iter_relax_witness (k : ℕ) (s t : Fin n) (d : ℕ)
    (h : (iter (relax L) k dist0).get s t = some d) :
    ∃ p, IsWalk L s p ∧ wend s p = t ∧ wlen L s p = d := by
  induction k generalizing s t d with
  | zero =>
    simp only [iter_zero, dist0_get] at h
    by_cases e : s = t
    · subst e; simp only [if_true, Option.some.injEq] at h; subst h
      exact ⟨[], trivial, rfl, rfl⟩
    · simp [e] at h
  | succ k ih =>
    simp only [iter_succ, relax_get] at h
    rcases relaxCell_cases L (iter (relax L) k dist0) s t with e | ⟨w, hw, e⟩
    · exact ih s t d (e ▸ h)
    · rw [e] at h
      cases hD : (iter (relax L) k dist0).get w t with
      | none => rw [hD] at h; simp [oadd] at h
      | some e' =>
        rw [hD] at h
        simp only [oadd, Option.some.injEq] at h
        obtain ⟨p, hp, hpe, hpl⟩ := ih w t e' hD
        exact ⟨w :: p, ⟨hw, hp⟩, hpe, by simp [hpl, h]⟩

/-- `D` is the matrix of minimum walk lengths of `L` (`none` = there is no walk) -/
def IsDist (D : Fin n → Fin n → Option ℕ) : Prop :=
  ∀ s t, (D s t = none → ∀ p, IsWalk L s p → wend s p ≠ t) ∧
    (∀ d, D s t = some d → (∃ p, IsWalk L s p ∧ wend s p = t ∧ wlen L s p = d) ∧
        ∀ q, IsWalk L s q → wend s q = t → d ≤ wlen L s q)

theorem dist_lower (s : Fin n) (q : List (Fin n)) (hq : IsWalk L s q) :
    OLe ((dist L).get s (wend s q)) (some (wlen L s q)) := by
  obtain ⟨q', hq', he, hl, hn⟩ := exists_nodup L hq
  have := iter_relax_lower L n s q' hq' (le_of_lt (length_lt_of_nodup hn))
  rw [he] at this
  intro y hy
  simp only [Option.some.injEq] at hy
  subst hy
  obtain ⟨x, hx, hxy⟩ := this _ rfl
  exact ⟨x, hx, le_trans hxy hl⟩

/-- the executable all-pairs distance of the model is the true minimum walk length -/
theorem dist_isDist : IsDist L (fun s t => (dist L).get s t) := by
  intro s t
  refine ⟨?_, ?_⟩
  · intro hD p hp he
    obtain ⟨x, hx, _⟩ := dist_lower L s p hp _ rfl
    rw [he] at hx
    simp only at hD
    rw [hD] at hx
    exact absurd hx (by simp)
  · intro d hD
    simp only at hD
    refine ⟨iter_relax_witness L n s t d hD, ?_⟩
    intro q hq he
    obtain ⟨x, hx, hxy⟩ := dist_lower L s q hq _ rfl
    rw [he, hD] at hx
    simp only [Option.some.injEq] at hx
    omega

end Bct.Between
