import BctVerif.Lemmas.MeasuresAlg
/-!
# Equivariance of the similarity measures (matching index, edge neighbourhood overlap, gtom) and flow coefficient
-/
namespace Bct.Measures
open Bct

variable {n : Nat} (σ : Equiv.Perm (Fin n))

/-! ### matching_ind -/

theorem matchParts_perm (A : AMat Int n) (i j : Fin n) : matchParts (permA σ A) i j = matchParts A (σ i) (σ j) := by
  simp only [matchParts, permA_get, Prod.mk.injEq]
  refine ⟨?_, ?_⟩
  · congr 1; exact fsum_congr_perm σ _ _ (fun k => by simp)
  · exact fsum_congr_perm σ _ _ (fun k => by simp)

theorem matchParts_symm (A : AMat Int n) (i j : Fin n) : matchParts A i j = matchParts A j i := by
  simp only [matchParts, Prod.mk.injEq]
  refine ⟨?_, ?_⟩
  · congr 1; apply fsum_congr; intro k
    by_cases h1 : A.get k i = 0 <;> by_cases h2 : A.get k j = 0 <;> by_cases h3 : k = i <;> by_cases h4 : k = j <;> simp [h1, h2, h3, h4]
  · apply fsum_congr; intro k
    by_cases h1 : A.get k i = 0 <;> by_cases h2 : A.get k j = 0 <;> by_cases h3 : k = i <;> by_cases h4 : k = j <;>
      simp [h1, h2, h3, h4, add_comm]

theorem symUp_get (m : Fin n → Fin n → Rat) (hm : ∀ i j, m i j = m j i) (i j : Fin n) :
    (symUp m).get i j = if i = j then 0 else m i j := by
  simp only [symUp, AMat.get_ofFn]
  rcases lt_trichotomy i j with h | h | h
  · have h2 : ¬ j < i := not_lt.mpr (le_of_lt h)
    simp [h, h2, ne_of_lt h]
  · subst h; simp
  · have h2 : ¬ i < j := not_lt.mpr (le_of_lt h)
    have h3 : i ≠ j := (ne_of_lt h).symm
    simp [h, h2, h3, hm j i]

theorem symUp_perm (m : Fin n → Fin n → Rat) (hm : ∀ i j, m i j = m j i) :
    symUp (fun i j => m (σ i) (σ j)) = permA σ (symUp m) := by
  apply AMat.ext_get; intro i j
  rw [permA_get, symUp_get _ (fun i j => hm _ _), symUp_get _ hm]
  simp

theorem matchingInd_perm (A : AMat Int n) :
    matchingInd (permA σ A) = (permA σ (matchingInd A).1, permA σ (matchingInd A).2.1, permA σ (matchingInd A).2.2) := by
  simp only [matchingInd, Prod.mk.injEq, mtr_perm, matchParts_perm]
  refine ⟨?_, ?_, ?_⟩
  · exact symUp_perm σ (fun i j => matchVal (matchParts A i j)) (fun i j => by rw [matchParts_symm])
  · exact symUp_perm σ (fun i j => matchVal (matchParts (mtr A) i j)) (fun i j => by rw [matchParts_symm])
  · exact symUp_perm σ (fun i j => matchVal ((matchParts A i j).1 + (matchParts (mtr A) i j).1, (matchParts A i j).2 + (matchParts (mtr A) i j).2))
      (fun i j => by rw [matchParts_symm A, matchParts_symm (mtr A)])

/-! ### edge_nei_overlap -/

theorem neiOf_perm (A : AMat Int n) (x i j k : Fin n) : neiOf (permA σ A) x i j k = neiOf A (σ x) (σ i) (σ j) (σ k) := by
  simp [neiOf]

theorem edgeNeiOverlap_perm (A : AMat Int n) :
    edgeNeiOverlap (permA σ A) = (edgeNeiOverlap A).map (permA σ) := by
  have hI : (AMat.ofFn fun i j => fsum fun k => if neiOf (permA σ A) i i j k && neiOf (permA σ A) j i j k then (1 : Int) else 0) =
      permA σ (AMat.ofFn fun i j => fsum fun k => if neiOf A i i j k && neiOf A j i j k then (1 : Int) else 0) := by
    apply AMat.ext_get; intro i j
    simp only [AMat.get_ofFn, permA_get]
    exact fsum_congr_perm σ _ _ (fun k => by simp only [neiOf_perm])
  have hU : (AMat.ofFn fun i j => fsum fun k => if neiOf (permA σ A) i i j k || neiOf (permA σ A) j i j k then (1 : Int) else 0) =
      permA σ (AMat.ofFn fun i j => fsum fun k => if neiOf A i i j k || neiOf A j i j k then (1 : Int) else 0) := by
    apply AMat.ext_get; intro i j
    simp only [AMat.get_ofFn, permA_get]
    exact fsum_congr_perm σ _ _ (fun k => by simp only [neiOf_perm])
  simp only [edgeNeiOverlap]
  rw [hI, hU]
  have hc : (fany fun i => fany fun j => (permA σ A).get i j != 0 &&
        (permA σ (AMat.ofFn fun i j => fsum fun k => if neiOf A i i j k || neiOf A j i j k then (1 : Int) else 0)).get i j == 0) =
      fany fun i => fany fun j => A.get i j != 0 &&
        (AMat.ofFn fun i j => fsum fun k => if neiOf A i i j k || neiOf A j i j k then (1 : Int) else 0).get i j == 0 :=
    fany2_congr_perm σ _ _ (fun i j => by simp only [permA_get])
  rw [hc]
  split
  · rfl
  · simp only [Except.map]
    congr 1
    apply AMat.ext_get; intro i j
    simp

/-! ### gtom (every `nr_steps`): each expansion round reads the matrix at the start of the round -/

theorem gtomNew_perm (B : AMat Int n) (i c : Fin n) : gtomNew (permA σ B) i c = gtomNew B (σ i) (σ c) := by
  simp only [gtomNew, permA_get, perm_bne]
  congr 1
  exact fany_congr_perm σ _ _ (fun _ => rfl)

theorem gtomSweep_perm (B : AMat Int n) : gtomSweep (permA σ B) = permA σ (gtomSweep B) := by
  apply AMat.ext_get; intro r c
  simp [gtomSweep, gtomNew_perm]

theorem gtomAux_perm (B : AMat Int n) (s : Nat) : gtomAux (permA σ B) s = permA σ (gtomAux B s) := by
  induction s with
  | zero => rfl
  | succ s ih => simp only [gtomAux, ih, gtomSweep_perm]

theorem gtom_perm (A : AMat Int n) (s : Nat) : gtom (permA σ A) s = permA σ (gtom A s) := by
  apply AMat.ext_get; intro i j
  by_cases hs0 : s = 0
  · simp [gtom, hs0, bin_perm]
  · simp [gtom, hs0, bin_perm, gtomAux_perm, mmul_perm, colSum_perm]

end Bct.Measures
