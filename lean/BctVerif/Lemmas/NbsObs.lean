import BctVerif.Lemmas.NbsComp
import Mathlib.Algebra.BigOperators.Fin
import Mathlib.Algebra.BigOperators.Ring.Finset
import Mathlib.Algebra.BigOperators.Group.Finset.Basic
import Mathlib.Data.Fintype.Prod
/-!
# What `observe` (labelling loop + edge counts of `nbs_bct`) computes, for a symmetric 0/1 adjacency
-/
open Relation Finset

namespace Bct.Nbs

variable {n : ℕ}

/-! ## facts about `components A` -/

def DisjS (s t : NSet n) : Prop := Disjoint (toFS s) (toFS t)

/-- the relation whose classes `get_components` returns -/
def Link (A : AMat Int n) (u v : Fin n) : Prop := A.get u v ≠ 0

theorem comps_pairwise (A : AMat Int n) : (components A).Pairwise DisjS := by
  have := (Proto.componentsF_good (edgeMap A)).disj
  rw [← components_map, List.pairwise_map] at this
  exact this

theorem comps_cover (A : AMat Int n) (u v : Fin n) (h : u = v ∨ A.get u v ≠ 0) :
    ∃ S ∈ components A, S[u] = true ∧ S[v] = true := by
  obtain ⟨S, hS, h1, h2⟩ := (Proto.componentsF_good (edgeMap A)).cover (u, v) ((mem_edgeMap A u v).mpr h)
  rw [← components_map, List.mem_map] at hS
  obtain ⟨s, hs, rfl⟩ := hS
  exact ⟨s, hs, by simpa using h1, by simpa using h2⟩

theorem eqv_of_adj (A : AMat Int n) {u v : Fin n} (h : EqvGen (Proto.Adj (edgeMap A)) u v) :
    EqvGen (Link A) u v := by
  induction h with
  | rel a b hab =>
    rcases hab with h | h
    · rcases (mem_edgeMap A a b).mp h with rfl | h
      · exact EqvGen.refl _
      · exact EqvGen.rel _ _ h
    · rcases (mem_edgeMap A b a).mp h with rfl | h
      · exact EqvGen.refl _
      · exact EqvGen.symm _ _ (EqvGen.rel _ _ h)
  | refl a => exact EqvGen.refl _
  | symm a b _ ih => exact EqvGen.symm _ _ ih
  | trans a b c _ _ ih1 ih2 => exact EqvGen.trans _ _ _ ih1 ih2

theorem adj_of_eqv (A : AMat Int n) {u v : Fin n} (h : EqvGen (Link A) u v) :
    EqvGen (Proto.Adj (edgeMap A)) u v :=
  (EqvGen.mono (fun a b hab => Or.inl ((mem_edgeMap A a b).mpr (Or.inr hab)))) u v h

theorem comps_conn (A : AMat Int n) (S : NSet n) (hS : S ∈ components A) (x y : Fin n)
    (hx : S[x] = true) (hy : S[y] = true) : EqvGen (Link A) x y := by
  have hm : toFS S ∈ Proto.componentsF (edgeMap A) := by
    rw [← components_map]; exact List.mem_map_of_mem hS
  exact eqv_of_adj A ((Proto.componentsF_good (edgeMap A)).conn _ hm x (by simpa using hx) y (by simpa using hy))

theorem comps_closed (A : AMat Int n) (S : NSet n) (hS : S ∈ components A) (x y : Fin n)
    (h : EqvGen (Link A) x y) : (S[x] = true ↔ S[y] = true) := by
  have hm : toFS S ∈ Proto.componentsF (edgeMap A) := by
    rw [← components_map]; exact List.mem_map_of_mem hS
  simpa using Proto.closed_eqv (edgeMap A) _ hm x y (adj_of_eqv A h)

theorem bigSets_sublist (A : AMat Int n) : (bigSets A).Sublist (components A) := List.filter_sublist

theorem bigSets_pairwise (A : AMat Int n) : (bigSets A).Pairwise DisjS :=
  (comps_pairwise A).sublist (bigSets_sublist A)

theorem mem_bigSets (A : AMat Int n) (S : NSet n) :
    S ∈ bigSets A ↔ S ∈ components A ∧ 1 < (toFS S).card := by
  simp [bigSets, sizeS_eq]

/-- an index is determined by one member -/
theorem idx_unique {ss : List (NSet n)} (hp : ss.Pairwise DisjS) {t t' : ℕ} (ht : t < ss.length)
    (ht' : t' < ss.length) (x : Fin n) (hx : ss[t][x] = true) (hx' : ss[t'][x] = true) : t = t' := by
  by_contra hne
  rw [List.pairwise_iff_getElem] at hp
  rcases Nat.lt_or_gt_of_ne hne with h | h
  · have := hp t t' ht ht' h
    exact Finset.disjoint_left.mp this (by simpa using hx) (by simpa using hx')
  · have := hp t' t ht' ht h
    exact Finset.disjoint_left.mp this (by simpa using hx') (by simpa using hx)

/-- an edge `u — v` (u ≠ v) lies inside exactly one big set -/
theorem edge_in_bigSet (A : AMat Int n) (u v : Fin n) (huv : u ≠ v) (h : A.get u v ≠ 0) :
    ∃ t, ∃ ht : t < (bigSets A).length, (bigSets A)[t][u] = true ∧ (bigSets A)[t][v] = true := by
  obtain ⟨S, hS, h1, h2⟩ := comps_cover A u v (Or.inr h)
  have hb : S ∈ bigSets A := by
    rw [mem_bigSets]; refine ⟨hS, ?_⟩
    rw [Finset.one_lt_card]
    exact ⟨u, by simpa using h1, v, by simpa using h2, huv⟩
  obtain ⟨t, ht, rfl⟩ := List.getElem_of_mem hb
  exact ⟨t, ht, h1, h2⟩

/-! ## the labelling loop -/

theorem scaleBlock_get (A : AMat Int n) (s : NSet n) (f : Int) (i j : Fin n) :
    (scaleBlock A s f).get i j = if (s[i] && s[j]) = true then A.get i j * f else A.get i j := by
  simp [scaleBlock]

theorem blockSum_congr (A B : AMat Int n) (s : NSet n)
    (h : ∀ i j, s[i] = true → s[j] = true → A.get i j = B.get i j) : blockSum A s = blockSum B s := by
  unfold blockSum
  congr 1
  refine List.map_congr_left (fun i _ => ?_)
  congr 1
  refine List.map_congr_left (fun j _ => ?_)
  by_cases hi : s[i] = true <;> by_cases hj : s[j] = true <;> simp_all

theorem labelLoop_spec (ss : List (NSet n)) (hd : ss.Pairwise DisjS) (c : ℕ) (B : AMat Int n) :
    (labelLoop ss c B).2 = ss.map (fun s => blockSum B s / 2) ∧
    (∀ i j, (∀ s ∈ ss, ¬ (s[i] = true ∧ s[j] = true)) → (labelLoop ss c B).1.get i j = B.get i j) ∧
    (∀ t (ht : t < ss.length) i j, ss[t][i] = true → ss[t][j] = true →
      (labelLoop ss c B).1.get i j = B.get i j * (((c + t : ℕ) : ℤ) + 2)) := by
  induction ss generalizing c B with
  | nil => simp [labelLoop]
  | cons s ss ih =>
    rw [List.pairwise_cons] at hd
    obtain ⟨hs, hd'⟩ := hd
    obtain ⟨ih1, ih2, ih3⟩ := ih hd' (c + 1) (scaleBlock B s ((c : ℤ) + 2))
    -- nodes of a later set are not in `s`
    have hnot : ∀ s' ∈ ss, ∀ i : Fin n, s'[i] = true → s[i] = false := by
      intro s' hs' i hi
      have := hs s' hs'
      by_contra hne
      have hsi : s[i] = true := by simpa using hne
      exact Finset.disjoint_left.mp this (by simpa using hsi) (by simpa using hi)
    simp only [labelLoop]
    refine ⟨?_, ?_, ?_⟩
    · rw [ih1, List.map_cons]
      congr 1
      refine List.map_congr_left (fun s' hs' => ?_)
      congr 1
      refine blockSum_congr _ _ _ (fun i j hi _ => ?_)
      rw [scaleBlock_get]; simp [hnot s' hs' i hi]
    · intro i j hnone
      rw [ih2 i j (fun s' hs' => hnone s' (List.mem_cons_of_mem _ hs')), scaleBlock_get]
      have := hnone s List.mem_cons_self
      simp only [Bool.and_eq_true]
      rw [if_neg this]
    · intro t ht i j hi hj
      cases t with
      | zero =>
        simp only [List.getElem_cons_zero] at hi hj
        have hnone : ∀ s' ∈ ss, ¬ (s'[i] = true ∧ s'[j] = true) := by
          intro s' hs' ⟨h1, _⟩
          have := hnot s' hs' i h1
          simp_all
        rw [ih2 i j hnone, scaleBlock_get]
        simp [hi, hj]
      | succ t =>
        simp only [List.getElem_cons_succ] at hi hj
        have ht' : t < ss.length := by simpa using ht
        rw [ih3 t ht' i j hi hj, scaleBlock_get]
        have := hnot ss[t] (List.getElem_mem ht') i hi
        simp only [this, Bool.false_and, Bool.false_eq_true, if_false]
        congr 1
        push_cast; ring

/-! ## `observe` on a symmetric 0/1 adjacency with empty diagonal -/

structure IsAdj (A : AMat Int n) : Prop where
  symm : ∀ i j, A.get i j = A.get j i
  bin : ∀ i j, A.get i j = 0 ∨ A.get i j = 1
  diag : ∀ i, A.get i i = 0

theorem observe_sizes (A : AMat Int n) : (observe A).sizes = (bigSets A).map fun s => blockSum A s / 2 :=
  (labelLoop_spec (bigSets A) (bigSets_pairwise A) 0 A).1

theorem observe_adj_get (A : AMat Int n) (i j : Fin n) :
    (observe A).adj.get i j =
      if (labelLoop (bigSets A) 0 A).1.get i j ≠ 0 then (labelLoop (bigSets A) 0 A).1.get i j - 1 else 0 := by
  simp [observe]

/-- a marked edge gets the label `t+1` of the big set `t` containing it -/
theorem observe_edge (A : AMat Int n) (hA : IsAdj A) (i j : Fin n) (h : A.get i j = 1) :
    ∃ t, ∃ ht : t < (bigSets A).length, (bigSets A)[t][i] = true ∧ (bigSets A)[t][j] = true ∧
      (observe A).adj.get i j = (t : ℤ) + 1 := by
  have hij : i ≠ j := by
    rintro rfl; have := hA.diag i; omega
  obtain ⟨t, ht, h1, h2⟩ := edge_in_bigSet A i j hij (by omega)
  refine ⟨t, ht, h1, h2, ?_⟩
  have := (labelLoop_spec (bigSets A) (bigSets_pairwise A) 0 A).2.2 t ht i j h1 h2
  rw [observe_adj_get, this, h]
  simp only [Nat.zero_add, one_mul]
  have : ((t : ℤ) + 2) ≠ 0 := by omega
  rw [if_pos this]; ring

theorem observe_nonedge (A : AMat Int n) (i j : Fin n) (h : A.get i j = 0) :
    (observe A).adj.get i j = 0 := by
  rw [observe_adj_get]
  obtain ⟨-, h2, h3⟩ := labelLoop_spec (bigSets A) (bigSets_pairwise A) 0 A
  by_cases hex : ∃ s ∈ bigSets A, s[i] = true ∧ s[j] = true
  · obtain ⟨s, hs, h1, h2'⟩ := hex
    obtain ⟨t, ht, rfl⟩ := List.getElem_of_mem hs
    rw [h3 t ht i j h1 h2', h]; simp
  · push Not at hex
    rw [h2 i j (fun s hs hh => hex s hs hh.1 hh.2), h]; simp

/-- `adj i j = t+1` exactly for the edges inside big set `t` -/
theorem observe_label_iff (A : AMat Int n) (hA : IsAdj A) (t : ℕ) (ht : t < (bigSets A).length) (i j : Fin n) :
    (observe A).adj.get i j = (t : ℤ) + 1 ↔
      A.get i j = 1 ∧ (bigSets A)[t][i] = true ∧ (bigSets A)[t][j] = true := by
  constructor
  · intro h
    rcases hA.bin i j with h0 | h1
    · rw [observe_nonedge A i j h0] at h; omega
    · obtain ⟨t', ht', g1, g2, g3⟩ := observe_edge A hA i j h1
      have : t' = t := by rw [g3] at h; omega
      subst this
      exact ⟨h1, g1, g2⟩
  · rintro ⟨h1, g1, g2⟩
    obtain ⟨t', ht', g1', _, g3⟩ := observe_edge A hA i j h1
    have := idx_unique (bigSets_pairwise A) ht ht' i g1 g1'
    subst this; exact g3

/-! ## counting edges -/

theorem sum_symm_zero_diag (g : Fin n → Fin n → ℤ) (hs : ∀ i j, g i j = g j i) (hd : ∀ i, g i i = 0) :
    ∑ i, ∑ j, g i j = 2 * ∑ i, ∑ j, (if i < j then g i j else 0) := by
  have split : ∀ i j, g i j = (if i < j then g i j else 0) + (if j < i then g i j else 0) := by
    intro i j
    rcases lt_trichotomy i j with h | h | h
    · simp [h, not_lt_of_gt h]
    · subst h; simp [hd]
    · simp [h, not_lt_of_gt h]
  have e2 : ∑ i, ∑ j, (if j < i then g i j else 0) = ∑ i, ∑ j, (if i < j then g i j else 0) := by
    rw [Finset.sum_comm]
    refine Finset.sum_congr rfl (fun i _ => Finset.sum_congr rfl (fun j _ => ?_))
    rw [hs j i]
  calc ∑ i, ∑ j, g i j
      = ∑ i, ∑ j, ((if i < j then g i j else 0) + (if j < i then g i j else 0)) :=
        Finset.sum_congr rfl (fun i _ => Finset.sum_congr rfl (fun j _ => split i j))
    _ = ∑ i, ∑ j, (if i < j then g i j else 0) + ∑ i, ∑ j, (if j < i then g i j else 0) := by
        simp only [Finset.sum_add_distrib]
    _ = 2 * ∑ i, ∑ j, (if i < j then g i j else 0) := by rw [e2]; ring

theorem blockSum_eq (A : AMat Int n) (s : NSet n) :
    blockSum A s = ∑ i, ∑ j, (if (s[i] && s[j]) = true then A.get i j else 0) := by
  unfold blockSum
  rw [Fin.sum_univ_def]
  congr 1

/-- `sz_links[t]` is the number of cells `i < j` carrying the label `t+1` -/
theorem observe_size_card (A : AMat Int n) (hA : IsAdj A) (t : ℕ) (ht : t < (bigSets A).length) :
    ∃ ht' : t < (observe A).sizes.length, (observe A).sizes[t] =
      (((Finset.univ : Finset (Fin n × Fin n)).filter
        (fun p => p.1 < p.2 ∧ (observe A).adj.get p.1 p.2 = (t : ℤ) + 1)).card : ℤ) := by
  have hlen : (observe A).sizes.length = (bigSets A).length := by rw [observe_sizes]; simp
  refine ⟨by omega, ?_⟩
  have hval : (observe A).sizes[t]'(by omega) = blockSum A (bigSets A)[t] / 2 := by
    simp [observe_sizes]
  rw [hval, blockSum_eq]
  have hsym : ∀ i j : Fin n, (if ((bigSets A)[t][i] && (bigSets A)[t][j]) = true then A.get i j else 0)
      = (if ((bigSets A)[t][j] && (bigSets A)[t][i]) = true then A.get j i else 0) := by
    intro i j; rw [hA.symm i j, Bool.and_comm]
  rw [sum_symm_zero_diag _ hsym (fun i => by simp [hA.diag])]
  rw [Int.mul_ediv_cancel_left _ (by norm_num : (2 : ℤ) ≠ 0)]
  rw [Finset.card_filter, Nat.cast_sum, Fintype.sum_prod_type]
  refine Finset.sum_congr rfl (fun i _ => Finset.sum_congr rfl (fun j _ => ?_))
  have hiff := observe_label_iff A hA t ht i j
  by_cases hlt : i < j
  · simp only [hlt, if_true, true_and]
    by_cases hl : (observe A).adj.get i j = (t : ℤ) + 1
    · obtain ⟨h1, h2, h3⟩ := hiff.mp hl
      rw [if_pos hl, if_pos (by rw [h2, h3]; rfl), h1]; simp
    · rw [if_neg hl]
      by_cases hb : ((bigSets A)[t][i] && (bigSets A)[t][j]) = true
      · rw [if_pos hb]
        rcases hA.bin i j with h0 | h1
        · rw [h0]; simp
        · exfalso; apply hl; apply hiff.mpr
          simp only [Bool.and_eq_true] at hb
          exact ⟨h1, hb.1, hb.2⟩
      · rw [if_neg hb]; simp
  · simp [hlt]

/-! ## helpers for the run-level statements -/

/-- two distinct connected nodes: each has a neighbour different from itself -/
theorem exists_link_of_eqv (A : AMat Int n) {a b : Fin n} (h : EqvGen (Link A) a b) (hne : a ≠ b) :
    (∃ z, z ≠ a ∧ (Link A a z ∨ Link A z a)) ∧ (∃ z, z ≠ b ∧ (Link A b z ∨ Link A z b)) := by
  induction h with
  | rel a b hab => exact ⟨⟨b, Ne.symm hne, Or.inl hab⟩, ⟨a, hne, Or.inr hab⟩⟩
  | refl a => exact absurd rfl hne
  | symm a b _ ih => exact ⟨(ih (Ne.symm hne)).2, (ih (Ne.symm hne)).1⟩
  | trans a b c _ _ ih1 ih2 =>
    by_cases hab : a = b
    · subst hab; exact ih2 hne
    · by_cases hbc : b = c
      · subst hbc; exact ih1 hne
      · exact ⟨(ih1 hab).1, (ih2 hbc).2⟩

theorem nbs_ok {p : Bool} {nx ny : ℕ} {x y : Cells n} {thr : ℚ} {tail : Tail} {k : ℕ} {ds : List ℕ}
    {o : Out n} {rest : List ℕ} (h : nbs p nx ny x y thr tail k ds = .ok (o, rest)) :
    anyEdge (adj0 p x y thr tail) = true ∧ o.obs = observe (adj0 p x y thr tail) ∧
    nullVals p nx ny x y thr tail k ds = .ok (o.null, rest) ∧ k ≠ 0 ∧ o.k = k ∧
    o.hits = hitsOf o.null o.obs.sizes := by
  unfold nbs at h
  by_cases h1 : (!(wellShaped nx x && wellShaped ny y)) = true
  · rw [if_pos h1] at h; cases h
  rw [if_neg h1] at h
  by_cases h2 : (p && nx != ny) = true
  · rw [if_pos h2] at h; cases h
  rw [if_neg h2] at h
  by_cases h3 : (decide (nx < 2) || decide (ny < 2)) = true
  · rw [if_pos h3] at h; cases h
  rw [if_neg h3] at h
  dsimp only at h
  by_cases h4 : (!anyEdge (adj0 p x y thr tail)) = true
  · rw [if_pos h4] at h; cases h
  rw [if_neg h4] at h
  split at h
  · cases h
  · rename_i null rest' hnv
    by_cases h5 : k = 0
    · rw [if_pos h5] at h; cases h
    rw [if_neg h5] at h
    cases h
    exact ⟨by simpa using h4, rfl, hnv, h5, rfl, rfl⟩

theorem nullVals_length (p : Bool) (nx ny : ℕ) (x y : Cells n) (thr : ℚ) (tail : Tail) :
    ∀ (k : ℕ) (ds : List ℕ) (vs : List ℤ) (rest : List ℕ),
      nullVals p nx ny x y thr tail k ds = .ok (vs, rest) → vs.length = k := by
  intro k
  induction k with
  | zero => intro ds vs rest h; simp [nullVals] at h; rw [h.1]; rfl
  | succ k ih =>
    intro ds vs rest h
    rw [nullVals] at h
    split at h
    · cases h
    · rename_i v rest1 h1
      split at h
      · cases h
      · rename_i vs2 rest2 h2
        cases h
        rw [List.length_cons, ih rest1 vs2 _ h2]

theorem maxOr0_spec (l : List ℤ) : (∀ v ∈ l, v ≤ maxOr0 l) ∧ 0 ≤ maxOr0 l ∧ (maxOr0 l = 0 ∨ maxOr0 l ∈ l) := by
  unfold maxOr0
  suffices h : ∀ (l : List ℤ) (a : ℤ), (∀ v ∈ l, v ≤ l.foldl (fun a b => if a < b then b else a) a) ∧
      a ≤ l.foldl (fun a b => if a < b then b else a) a ∧
      (l.foldl (fun a b => if a < b then b else a) a = a ∨ l.foldl (fun a b => if a < b then b else a) a ∈ l) by
    exact h l 0
  intro l
  induction l with
  | nil => intro a; simp
  | cons b l ih =>
    intro a
    obtain ⟨h1, h2, h3⟩ := ih (if a < b then b else a)
    simp only [List.foldl_cons, List.mem_cons]
    refine ⟨fun v hv => ?_, le_trans (by split_ifs <;> omega) h2, ?_⟩
    · rcases hv with rfl | hv
      · exact le_trans (by split_ifs <;> omega) h2
      · exact h1 v hv
    · rcases h3 with h3 | h3
      · rw [h3]; split_ifs
        · right; left; rfl
        · left; rfl
      · right; right; exact h3

/-- the component sizes used inside the permutation loop are those of `observe` -/
theorem sizesOnly_eq (A : AMat Int n) : sizesOnly A = (observe A).sizes := by
  rw [observe_sizes]; rfl

end Bct.Nbs
