import BctVerif.Lemmas.RewireFun

/-!
# The rewiring invariant on the executable state, and its preservation by flips and swaps
-/
open Finset

namespace Bct.RewireInv
open Bct Bct.Rewire Bct.RewireFun

variable {n k : ℕ}

def _root_.Bct.Rewire.St.iv (s : St n k) (e : Fin k) : Fin n := s.i[e]
def _root_.Bct.Rewire.St.jv (s : St n k) (e : Fin k) : Fin n := s.j[e]

/-- the edge list mirrors the matrix: every listed pair is a present off-diagonal cell, no cell is
listed twice and (undirected) no edge is listed in both orientations -/
structure EdgeInv (und : Bool) (s : St n k) : Prop where
  present : ∀ e : Fin k, s.R.toFun (s.iv e) (s.jv e) ≠ 0
  offdiag : ∀ e : Fin k, (s.iv e) ≠ (s.jv e)
  distinct : ∀ e e' : Fin k, e ≠ e' → ¬ ((s.iv e) = (s.iv e') ∧ (s.jv e) = (s.jv e'))
  distinctRev : und = true → ∀ e e' : Fin k, e ≠ e' → ¬ ((s.iv e) = (s.jv e') ∧ (s.jv e) = (s.iv e'))

/-- what C01 promises, as an invariant of the loop state relative to the input `R0` -/
structure RwInv (und : Bool) (R0 : Mat n) (s : St n k) : Prop where
  row : ∀ r, rowCnt s.R.toFun r = rowCnt R0 r
  col : ∀ c, colCnt s.R.toFun c = colCnt R0 c
  vals : cellValues s.R.toFun = cellValues R0
  diag : ∀ v, s.R.toFun v v = R0 v v
  symm : und = true → ∀ i j, s.R.toFun i j = s.R.toFun j i
  rsum : und = false → ∀ r, rowSum s.R.toFun r = rowSum R0 r
  edges : EdgeInv und s
  eff0 : s.eff = 0 → s.R.toFun = R0

theorem getElem_set_fin {α} (v : Vector α k) (e e' : Fin k) (x : α) :
    (v.set e x)[e'] = if e' = e then x else v[e'] := by
  show (v.set e.val x e.isLt)[e'.val] = _
  rw [Vector.getElem_set]
  by_cases h : e' = e
  · subst h; simp
  · have : e.val ≠ e'.val := fun hh => h (Fin.ext hh.symm)
    simp [h, this]

/-! ### orientation flip of a listed edge (undirected routines) -/

def flip (s : St n k) (e2 : Fin k) : St n k :=
  { s with i := s.i.set e2 (s.jv e2), j := s.j.set e2 (s.iv e2) }

theorem flip_iv (s : St n k) (e2 e : Fin k) : (flip s e2).iv e = if e = e2 then s.jv e2 else s.iv e := by
  show (s.i.set e2 (s.jv e2))[e] = _
  rw [getElem_set_fin]; rfl
theorem flip_jv (s : St n k) (e2 e : Fin k) : (flip s e2).jv e = if e = e2 then s.iv e2 else s.jv e := by
  show (s.j.set e2 (s.iv e2))[e] = _
  rw [getElem_set_fin]; rfl
theorem flip_R (s : St n k) (e2 : Fin k) : (flip s e2).R = s.R := rfl
theorem flip_eff (s : St n k) (e2 : Fin k) : (flip s e2).eff = s.eff := rfl

theorem flip_inv (R0 : Mat n) (s : St n k) (e2 : Fin k) (h : RwInv true R0 s) :
    RwInv true R0 (flip s e2) := by
  have hs := h.symm rfl
  refine ⟨h.row, h.col, h.vals, h.diag, h.symm, h.rsum, ?_, h.eff0⟩
  have E := h.edges
  refine ⟨?_, ?_, ?_, ?_⟩
  · intro e
    rw [flip_R, flip_iv, flip_jv]
    by_cases he : e = e2
    · subst he; simp only [if_true]; rw [hs]; exact E.present e
    · simp only [he, if_false]; exact E.present e
  · intro e
    rw [flip_iv, flip_jv]
    by_cases he : e = e2
    · subst he; simp only [if_true]; exact fun hh => E.offdiag e hh.symm
    · simp only [he, if_false]; exact E.offdiag e
  · intro e e' hne
    simp only [flip_iv, flip_jv]
    by_cases he : e = e2
    · subst he
      have he' : e' ≠ e := fun hh => hne hh.symm
      simp only [if_true, he', if_false]
      intro ⟨h1, h2⟩
      exact E.distinctRev rfl e' e he' ⟨h1.symm, h2.symm⟩
    · by_cases he' : e' = e2
      · subst he'
        simp only [he, if_false, if_true]
        intro ⟨h1, h2⟩
        exact E.distinctRev rfl e e' he ⟨h1, h2⟩
      · simp only [he, he', if_false]; exact E.distinct e e' hne
  · intro _ e e' hne
    simp only [flip_iv, flip_jv]
    by_cases he : e = e2
    · subst he
      have he' : e' ≠ e := fun hh => hne hh.symm
      simp only [if_true, he', if_false]
      intro ⟨h1, h2⟩
      exact E.distinct e' e he' ⟨h2.symm, h1.symm⟩
    · by_cases he' : e' = e2
      · subst he'
        simp only [he, if_false, if_true]
        intro ⟨h1, h2⟩
        exact E.distinct e e' he ⟨h1, h2⟩
      · simp only [he, he', if_false]; exact E.distinctRev rfl e e' hne

/-! ### accepted swap, directed -/

def afterSwap (und : Bool) (s : St n k) (e1 e2 : Fin k) : St n k :=
  let a := s.iv e1; let b := s.jv e1; let c := s.iv e2; let d := s.jv e2
  { R := if und then swapUnd s.R a b c d else swapDir s.R a b c d
    i := s.i, j := (s.j.set e1 d).set e2 b, eff := s.eff + 1 }

theorem afterSwap_j (und : Bool) (s : St n k) (e1 e2 e : Fin k) :
    (afterSwap und s e1 e2).jv e = if e = e2 then (s.jv e1) else if e = e1 then (s.jv e2) else (s.jv e) := by
  show ((s.j.set e1 (s.jv e2)).set e2 (s.jv e1))[e] = _
  rw [getElem_set_fin, getElem_set_fin]; rfl

theorem swapDir_inv (R0 : Mat n) (s : St n k) (e1 e2 : Fin k) (h : RwInv false R0 s)
    (hac : (s.iv e1) ≠ (s.iv e2)) (had' : (s.iv e1) ≠ (s.jv e2)) (hbc : (s.jv e1) ≠ (s.iv e2)) (hbd : (s.jv e1) ≠ (s.jv e2))
    (had : s.R.toFun (s.iv e1) (s.jv e2) = 0) (hcb : s.R.toFun (s.iv e2) (s.jv e1) = 0) :
    RwInv false R0 (afterSwap false s e1 e2) := by
  have hne12 : e1 ≠ e2 := fun hh => hac (by rw [hh])
  have hab := h.edges.present e1
  have hcd := h.edges.present e2
  have hoff1 := h.edges.offdiag e1
  have hoff2 := h.edges.offdiag e2
  have P := h.edges.present
  have Dd := h.edges.distinct
  have hR : (afterSwap false s e1 e2).R.toFun = swapDirF s.R.toFun (s.iv e1) (s.jv e1) (s.iv e2) (s.jv e2) := by
    show (swapDir s.R _ _ _ _).toFun = _
    exact toFun_swapDir _ _ _ _ _
  have hi : ∀ e : Fin k, (afterSwap false s e1 e2).iv e = (s.iv e) := fun _ => rfl
  have noAD : ∀ x : Fin k, ¬ ((s.iv x) = (s.iv e1) ∧ (s.jv x) = (s.jv e2)) := by
    intro x ⟨h1, h2⟩; have := P x; rw [h1, h2] at this; exact this had
  have noCB : ∀ x : Fin k, ¬ ((s.iv x) = (s.iv e2) ∧ (s.jv x) = (s.jv e1)) := by
    intro x ⟨h1, h2⟩; have := P x; rw [h1, h2] at this; exact this hcb
  refine ⟨?_, ?_, ?_, ?_, ?_, ?_, ?_, ?_⟩
  · intro r; rw [hR, swapDirF_row _ _ _ _ _ _ hac hbd had hcb]; exact h.row r
  · intro c; rw [hR, swapDirF_col _ _ _ _ _ _ hac hbd had hcb hab hcd]; exact h.col c
  · rw [hR, swapDirF_cellValues _ _ _ _ _ hac hbd had hcb]; exact h.vals
  · intro v
    rw [hR, swapDirF_apply _ _ _ _ _ hac hbd had hcb, ← h.diag v]
    by_cases hva : v = (s.iv e1)
    · subst hva; simp [Equiv.swap_apply_def, hoff1, had']
    · by_cases hvc : v = (s.iv e2)
      · subst hvc; simp [Equiv.swap_apply_def, hoff2, hbc.symm]
      · simp [hva, hvc]
  · intro hh; cases hh
  · intro _ r; rw [hR, swapDirF_rsum _ _ _ _ _ _ hac hbd had hcb]; exact h.rsum rfl r
  · have pres_other : ∀ e : Fin k, e ≠ e1 → e ≠ e2 →
        swapDirF s.R.toFun (s.iv e1) (s.jv e1) (s.iv e2) (s.jv e2) (s.iv e) (s.jv e) = s.R.toFun (s.iv e) (s.jv e) := by
      intro e h1 h2
      rw [swapDirF_apply _ _ _ _ _ hac hbd had hcb]
      by_cases hia : (s.iv e) = (s.iv e1)
      · have hjb : (s.jv e) ≠ (s.jv e1) := fun hj => Dd e e1 h1 ⟨hia, hj⟩
        have hjd : (s.jv e) ≠ (s.jv e2) := fun hj => noAD e ⟨hia, hj⟩
        simp [hia, Equiv.swap_apply_def, hjb, hjd]
      · by_cases hic : (s.iv e) = (s.iv e2)
        · have hjd : (s.jv e) ≠ (s.jv e2) := fun hj => Dd e e2 h2 ⟨hic, hj⟩
          have hjb : (s.jv e) ≠ (s.jv e1) := fun hj => noCB e ⟨hic, hj⟩
          simp [hic, Equiv.swap_apply_def, hjb, hjd]
        · simp [hia, hic]
    refine ⟨?_, ?_, ?_, ?_⟩
    · intro e
      rw [hR, hi, afterSwap_j]
      by_cases h2 : e = e2
      · subst h2; simp only [if_true]
        rw [swapDirF_apply _ _ _ _ _ hac hbd had hcb]; simpa [Equiv.swap_apply_def] using hcd
      · by_cases h1 : e = e1
        · subst h1; simp only [h2, if_false, if_true]
          rw [swapDirF_apply _ _ _ _ _ hac hbd had hcb]; simpa [Equiv.swap_apply_def] using hab
        · simp only [h2, h1, if_false]; rw [pres_other e h1 h2]; exact P e
    · intro e
      rw [hi, afterSwap_j]
      by_cases h2 : e = e2
      · subst h2; simpa using hbc.symm
      · by_cases h1 : e = e1
        · subst h1; simpa [h2] using had'
        · simpa [h1, h2] using h.edges.offdiag e
    · intro e e' hne
      rw [hi, hi, afterSwap_j, afterSwap_j]
      by_cases h2 : e = e2
      · subst h2
        by_cases h1' : e' = e1
        · subst h1'; intro ⟨hi', _⟩; exact hac hi'.symm
        · have h2' : e' ≠ e := fun hh => hne hh.symm
          simp only [if_true, h2', h1', if_false]
          intro ⟨hi', hj⟩; exact noCB e' ⟨hi'.symm, hj.symm⟩
      · by_cases h1 : e = e1
        · subst h1
          by_cases h2' : e' = e2
          · subst h2'; intro ⟨hi', _⟩; exact hac hi'
          · have h1' : e' ≠ e := fun hh => hne hh.symm
            simp only [h2, if_false, if_true, h2', h1']
            intro ⟨hi', hj⟩; exact noAD e' ⟨hi'.symm, hj.symm⟩
        · simp only [h2, h1, if_false]
          by_cases h2' : e' = e2
          · subst h2'; simp only [if_true]; intro ⟨hi', hj⟩; exact noCB e ⟨hi', hj⟩
          · by_cases h1' : e' = e1
            · subst h1'; simp only [h2', if_false, if_true]; intro ⟨hi', hj⟩; exact noAD e ⟨hi', hj⟩
            · simp only [h2', h1', if_false]; exact Dd e e' hne
    · intro hh; cases hh
  · intro h0; simp [afterSwap] at h0

/-! ### accepted swap, undirected -/

theorem swapUnd_inv (R0 : Mat n) (s : St n k) (e1 e2 : Fin k) (h : RwInv true R0 s)
    (hac : s.iv e1 ≠ s.iv e2) (had' : s.iv e1 ≠ s.jv e2) (hbc : s.jv e1 ≠ s.iv e2) (hbd : s.jv e1 ≠ s.jv e2)
    (had : s.R.toFun (s.iv e1) (s.jv e2) = 0) (hcb : s.R.toFun (s.iv e2) (s.jv e1) = 0) :
    RwInv true R0 (afterSwap true s e1 e2) := by
  have hs := h.symm rfl
  have hne12 : e1 ≠ e2 := fun hh => hac (by rw [hh])
  have hab' : s.iv e1 ≠ s.jv e1 := h.edges.offdiag e1
  have hcd' : s.iv e2 ≠ s.jv e2 := h.edges.offdiag e2
  have P := h.edges.present
  have Dd := h.edges.distinct
  have Dr := h.edges.distinctRev rfl
  have hda : s.R.toFun (s.jv e2) (s.iv e1) = 0 := by rw [hs]; exact had
  have hbc0 : s.R.toFun (s.jv e1) (s.iv e2) = 0 := by rw [hs]; exact hcb
  have eab := P e1
  have ecd := P e2
  have eba : s.R.toFun (s.jv e1) (s.iv e1) ≠ 0 := by rw [hs]; exact eab
  have edc : s.R.toFun (s.jv e2) (s.iv e2) ≠ 0 := by rw [hs]; exact ecd
  have hR : (afterSwap true s e1 e2).R.toFun = swapUndF s.R.toFun (s.iv e1) (s.jv e1) (s.iv e2) (s.jv e2) := by
    show (swapUnd s.R _ _ _ _).toFun = _
    exact toFun_swapUnd _ _ _ _ _
  have hi : ∀ e : Fin k, (afterSwap true s e1 e2).iv e = s.iv e := fun _ => rfl
  have app := swapUndF_apply s.R.toFun _ _ _ _ hab' hac had' hbc hbd hcd' had hda hcb hbc0
  have newSymm := swapUndF_symm s.R.toFun _ _ _ _ hab' hac had' hbc hbd hcd' had hcb hs
  -- a listed cell is never a zero cell of the old matrix, in either orientation
  have nz : ∀ (x : Fin k) (u v : Fin n), s.R.toFun u v = 0 → ¬ (s.iv x = u ∧ s.jv x = v) := by
    intro x u v h0 ⟨h1, h2⟩; have := P x; rw [h1, h2] at this; exact this h0
  have nzr : ∀ (x : Fin k) (u v : Fin n), s.R.toFun u v = 0 → ¬ (s.jv x = u ∧ s.iv x = v) := by
    intro x u v h0 ⟨h1, h2⟩; have := P x; rw [hs, h1, h2] at this; exact this h0
  have fixed_other : ∀ e : Fin k, e ≠ e1 → e ≠ e2 →
      tauUnd (s.iv e1) (s.jv e1) (s.iv e2) (s.jv e2) (s.iv e, s.jv e) = (s.iv e, s.jv e) := by
    intro e h1 h2
    have n1 := nz e _ _ had
    have n2 := nz e _ _ hda
    have n3 := nz e _ _ hcb
    have n4 := nz e _ _ hbc0
    have n5 := Dd e e1 h1
    have n6 := Dr e e1 h1
    have n7 := Dd e e2 h2
    have n8 := Dr e e2 h2
    simp only [tauUnd, Prod.mk.injEq]
    simp only [n1, n2, n3, n4, n5, n6, n7, n8, if_false]
  refine ⟨?_, ?_, ?_, ?_, ?_, ?_, ?_, ?_⟩
  · intro r
    rw [hR, swapUndF_row _ _ _ _ _ _ hab' hac had' hbc hbd hcd' had hda hcb hbc0 eab eba ecd edc]
    exact h.row r
  · intro c
    rw [hR, colCnt_eq_rowCnt_of_symm _ newSymm,
      swapUndF_row _ _ _ _ _ _ hab' hac had' hbc hbd hcd' had hda hcb hbc0 eab eba ecd edc,
      ← colCnt_eq_rowCnt_of_symm _ hs]
    exact h.col c
  · rw [hR, swapUndF_cellValues _ _ _ _ _ hab' hac had' hbc hbd hcd' had hda hcb hbc0]; exact h.vals
  · intro v
    rw [hR, app, ← h.diag v]
    have : tauUnd (s.iv e1) (s.jv e1) (s.iv e2) (s.jv e2) (v, v) = (v, v) := by
      simp only [tauUnd, Prod.mk.injEq]
      by_cases h1 : v = s.iv e1 <;> by_cases h2 : v = s.jv e1 <;> by_cases h3 : v = s.iv e2 <;>
        by_cases h4 : v = s.jv e2 <;> simp_all
    rw [this]
  · intro _ i j; rw [hR]; exact newSymm i j
  · intro hh; cases hh
  · refine ⟨?_, ?_, ?_, ?_⟩
    · intro e
      rw [hR, hi, afterSwap_j, app]
      by_cases h2 : e = e2
      · subst h2; simp only [if_true]
        have : tauUnd (s.iv e1) (s.jv e1) (s.iv e) (s.jv e) (s.iv e, s.jv e1) = (s.iv e, s.jv e) := by
          have q1 := hac.symm
          have q2 := hcd'
          have q3 := hbc.symm
          simp only [tauUnd, Prod.mk.injEq, q1, q2, q3, false_and, and_false, if_false, and_self, if_true]
        rw [this]; exact ecd
      · by_cases h1 : e = e1
        · subst h1; simp only [h2, if_false, if_true]
          have : tauUnd (s.iv e) (s.jv e) (s.iv e2) (s.jv e2) (s.iv e, s.jv e2) = (s.iv e, s.jv e) := by
            simp only [tauUnd, and_self, if_true]
          rw [this]; exact eab
        · simp only [h2, h1, if_false]; rw [fixed_other e h1 h2]; exact P e
    · intro e
      rw [hi, afterSwap_j]
      by_cases h2 : e = e2
      · subst h2; simpa using hbc.symm
      · by_cases h1 : e = e1
        · subst h1; simpa [h2] using had'
        · simpa [h1, h2] using h.edges.offdiag e
    · intro e e' hne
      rw [hi, hi, afterSwap_j, afterSwap_j]
      by_cases h2 : e = e2
      · subst h2
        by_cases h1' : e' = e1
        · subst h1'; intro ⟨hi', _⟩; exact hac hi'.symm
        · have h2' : e' ≠ e := fun hh => hne hh.symm
          simp only [if_true, h2', h1', if_false]
          intro ⟨hi', hj⟩; exact nz e' _ _ hcb ⟨hi'.symm, hj.symm⟩
      · by_cases h1 : e = e1
        · subst h1
          by_cases h2' : e' = e2
          · subst h2'; intro ⟨hi', _⟩; exact hac hi'
          · have h1' : e' ≠ e := fun hh => hne hh.symm
            simp only [h2, if_false, if_true, h2', h1']
            intro ⟨hi', hj⟩; exact nz e' _ _ had ⟨hi'.symm, hj.symm⟩
        · simp only [h2, h1, if_false]
          by_cases h2' : e' = e2
          · subst h2'; simp only [if_true]; intro ⟨hi', hj⟩; exact nz e _ _ hcb ⟨hi', hj⟩
          · by_cases h1' : e' = e1
            · subst h1'; simp only [h2', if_false, if_true]; intro ⟨hi', hj⟩; exact nz e _ _ had ⟨hi', hj⟩
            · simp only [h2', h1', if_false]; exact Dd e e' hne
    · intro _ e e' hne
      rw [hi, hi, afterSwap_j, afterSwap_j]
      by_cases h2 : e = e2
      · subst h2
        by_cases h1' : e' = e1
        · subst h1'
          have hx : e' ≠ e := fun hh => hne hh.symm
          simp only [if_true, hx, if_false]
          intro ⟨_, hj⟩; exact hab' hj.symm
        · have h2' : e' ≠ e := fun hh => hne hh.symm
          simp only [if_true, h2', h1', if_false]
          -- (c, b) = (jv e', iv e')
          intro ⟨hi', hj⟩; exact nzr e' _ _ hcb ⟨hi'.symm, hj.symm⟩
      · by_cases h1 : e = e1
        · subst h1
          by_cases h2' : e' = e2
          · subst h2'
            simp only [h2, if_false, if_true]
            intro ⟨hi', _⟩; exact hab' hi'
          · have h1' : e' ≠ e := fun hh => hne hh.symm
            simp only [h2, if_false, if_true, h2', h1']
            intro ⟨hi', hj⟩; exact nzr e' _ _ had ⟨hi'.symm, hj.symm⟩
        · simp only [h2, h1, if_false]
          by_cases h2' : e' = e2
          · subst h2'; simp only [if_true]
            -- (iv e, jv e) = (b, c)
            intro ⟨hi', hj⟩; exact nz e _ _ hbc0 ⟨hi', hj⟩
          · by_cases h1' : e' = e1
            · subst h1'; simp only [h2', if_false, if_true]
              -- (iv e, jv e) = (d, a)
              intro ⟨hi', hj⟩; exact nz e _ _ hda ⟨hi', hj⟩
            · simp only [h2', h1', if_false]; exact Dr e e' hne
  · intro h0; simp [afterSwap] at h0

end Bct.RewireInv
