import BctVerif.Lemmas.Walks
import BctVerif.Lemmas.WalksSpectral
/-!
# The executable post-processing (`eigPost`, `subPost`) is the abstract one (`IsArgmax`, `eigCentrality`, `subgraphCentrality`)
-/
open Finset Matrix

namespace Bct.Walks
open Bct Bct.WalksAlg

variable {n : ℕ}

theorem qabs_eq (a : ℚ) : qabs a = |a| := by
  unfold qabs
  split_ifs with h
  · rw [abs_of_neg h]
  · rw [abs_of_nonneg (not_lt.mp h)]

theorem argmaxFrom_spec (vals : QVec n) (l : List (Fin n)) (b : Fin n) :
    vals[b] ≤ vals[argmaxFrom vals l b] ∧ ∀ k ∈ l, vals[k] ≤ vals[argmaxFrom vals l b] := by
  induction l generalizing b with
  | nil => simp [argmaxFrom]
  | cons a l ih =>
    obtain ⟨h1, h2⟩ := ih (if vals[b] < vals[a] then a else b)
    simp only [argmaxFrom, List.mem_cons]
    refine ⟨le_trans ?_ h1, fun k hk => ?_⟩
    · split_ifs with h
      · exact h.le
      · exact le_rfl
    · rcases hk with rfl | hk
      · refine le_trans ?_ h1
        split_ifs with h
        · exact le_rfl
        · exact not_lt.mp h
      · exact h2 k hk

/-- the executable post-processing of `eigenvector_centrality_und` picks an index of a maximal eigenvalue and returns
the entrywise absolute value of that column -/
theorem eigPost_spec (vals : QVec n) (vecs : QMat n) (i : Fin n) (v : QVec n)
    (h : eigPost vals vecs = .ok (i, v)) :
    IsArgmax (fun k : Fin n => vals[k]) i ∧ ∀ r : Fin n, v[r] = eigCentrality (toMat vecs) i r := by
  unfold eigPost at h
  split at h
  · cases h
  · rename_i i0 rest hfr
    simp only [Except.ok.injEq, Prod.mk.injEq] at h
    obtain ⟨hi, hv⟩ := h
    obtain ⟨h1, h2⟩ := argmaxFrom_spec vals rest i0
    constructor
    · intro k
      have hk : k ∈ List.finRange n := List.mem_finRange k
      rw [hfr] at hk
      rw [← hi]
      rcases List.mem_cons.mp hk with rfl | hk
      · exact h1
      · exact h2 k hk
    · intro r
      rw [← hv, ← hi]
      simp [eigCentrality, qabs_eq]

theorem subPost_spec (vecs : QMat n) (ev : QVec n) (i : Fin n) :
    (subPost vecs ev)[i] = ∑ k : Fin n, vecs.get i k * vecs.get i k * ev[k] := by
  simp [subPost, fsum_eq]

end Bct.Walks
