import BctVerif.Lemmas.ModularitySign

/-! # Modularity is invariant under rescaling of the weights `W ↦ c·W` -/
namespace Bct.Modularity
open Finset

variable {n : ℕ}

/-- every weight multiplied by `c` -/
def scaleMat (c : ℚ) (W : RMat n) : RMat n := AMat.ofFn fun i j => c * W.get i j

@[simp] theorem scaleMat_get (c : ℚ) (W : RMat n) (i j : Fin n) : (scaleMat c W).get i j = c * W.get i j := by
  simp [scaleMat]

theorem rowSum_scale (c : ℚ) (W : RMat n) (i : Fin n) : rowSum (scaleMat c W) i = c * rowSum W i := by
  simp [rowSum_eq, Finset.mul_sum]
theorem colSum_scale (c : ℚ) (W : RMat n) (j : Fin n) : colSum (scaleMat c W) j = c * colSum W j := by
  simp [colSum_eq, Finset.mul_sum]
theorem total_scale (c : ℚ) (W : RMat n) : total (scaleMat c W) = c * total W := by
  simp [total_eq, Finset.mul_sum]

theorem Qobj_scale {α : Type} [DecidableEq α] (c : ℚ) (B : RMat n) (p : Fin n → α) :
    Qobj (scaleMat c B) p = c * Qobj B p := by
  simp only [Qobj_eq, scaleMat_get, Finset.mul_sum]
  refine Finset.sum_congr rfl (fun i _ => Finset.sum_congr rfl (fun j _ => ?_))
  split_ifs <;> simp

theorem Bmod_scale (c : ℚ) (hc : c ≠ 0) (W : RMat n) (γ : ℚ) : Bmod (scaleMat c W) γ = scaleMat c (Bmod W γ) := by
  apply AMat.ext_get; intro i j
  simp only [Bmod_get, scaleMat_get, rowSum_scale, colSum_scale, total_scale]
  by_cases hs : total W = 0
  · simp [hs]
  · field_simp

theorem Bund_scale (c : ℚ) (hc : c ≠ 0) (W : RMat n) (γ : ℚ) : Bund (scaleMat c W) γ = scaleMat c (Bund W γ) := by
  apply AMat.ext_get; intro i j
  simp only [Bund_get, scaleMat_get, rowSum_scale, total_scale]
  by_cases hs : total W = 0
  · simp [hs]
  · field_simp

/-- **Q_scale_invariant (directed)** -/
theorem Qdir_scale {α : Type} [DecidableEq α] (c : ℚ) (hc : c ≠ 0) (W : RMat n) (γ : ℚ) (p : Fin n → α) :
    Qdir (scaleMat c W) γ p = Qdir W γ p := by
  unfold Qdir
  rw [Bmod_scale c hc, Qobj_scale, total_scale, mul_div_mul_left _ _ hc]

/-- **Q_scale_invariant (undirected)** -/
theorem Qund_scale {α : Type} [DecidableEq α] (c : ℚ) (hc : c ≠ 0) (W : RMat n) (γ : ℚ) (p : Fin n → α) :
    Qund (scaleMat c W) γ p = Qund W γ p := by
  unfold Qund
  rw [Bund_scale c hc, Qobj_scale, total_scale, mul_div_mul_left _ _ hc]

theorem posPart_scale (c : ℚ) (hc : 0 < c) (W : RMat n) : posPart (scaleMat c W) = scaleMat c (posPart W) := by
  apply AMat.ext_get; intro i j
  simp only [posPart, AMat.get_ofFn, scaleMat_get, mul_pos_iff_of_pos_left hc]
  split_ifs <;> simp

theorem negPart_scale (c : ℚ) (hc : 0 < c) (W : RMat n) : negPart (scaleMat c W) = scaleMat c (negPart W) := by
  apply AMat.ext_get; intro i j
  simp only [negPart, AMat.get_ofFn, scaleMat_get]
  have : c * W.get i j < 0 ↔ W.get i j < 0 := by
    constructor
    · intro h; by_contra h'; push Not at h'; have := mul_nonneg (le_of_lt hc) h'; linarith
    · intro h; exact mul_neg_of_pos_of_neg hc h
  simp only [this]
  split_ifs <;> simp

theorem scales_scale (t : QType) (c : ℚ) (hc : c ≠ 0) (s0 s1 : ℚ) :
    scales t (c * s0) (c * s1) = ((scales t s0 s1).1 / c, (scales t s0 s1).2 / c) := by
  have h0 : c * s0 = 0 ↔ s0 = 0 := by simp [hc]
  have h1 : c * s1 = 0 ↔ s1 = 0 := by simp [hc]
  have hr : ∀ x : ℚ, rinv (c * x) = rinv x / c := by
    intro x; simp only [rinv_eq, mul_inv]; field_simp
  have hr2 : rinv (c * s0 + c * s1) = rinv (s0 + s1) / c := by rw [← mul_add]; exact hr _
  cases t <;> simp only [scales, h0, h1, hr, hr2, Prod.mk.injEq] <;> constructor <;> split_ifs <;> simp

theorem Qpart_scale {α : Type} [DecidableEq α] (c : ℚ) (hc : c ≠ 0) (Wp : RMat n) (γ : ℚ) (p : Fin n → α) :
    Qpart (scaleMat c Wp) γ p = c * Qpart Wp γ p := by
  unfold Qpart
  rw [total_scale]
  by_cases h : total Wp = 0
  · simp [h]
  · have : ¬ c * total Wp = 0 := by simp [hc, h]
    rw [if_neg this, if_neg h, Bmod_scale c hc, Qobj_scale]

/-- **Q_scale_invariant (signed, every `qtype`)** — for a positive factor -/
theorem Qsign_scale {α : Type} [DecidableEq α] (t : QType) (c : ℚ) (hc : 0 < c) (W : RMat n) (γ : ℚ) (p : Fin n → α) :
    Qsign t (scaleMat c W) γ p = Qsign t W γ p := by
  have hc0 : c ≠ 0 := ne_of_gt hc
  unfold Qsign
  simp only [posPart_scale c hc, negPart_scale c hc, total_scale, scales_scale t c hc0, Qpart_scale c hc0]
  field_simp

end Bct.Modularity
