import BctVerif.Lemmas.SynthRand

/-!
# C20 helper lemmas: `makeevenCIJ` — cluster cells plus `k − clusters` random free cells
-/
namespace Bct.Synth
open List

variable {n : ℕ}

/-- membership in the cluster mask `CIJp = (T >= mx_lvl - sz_cl)` (`sz_cl` already decremented) -/
def inCluster {n} (T : AMat Int n) (mx szcl : Nat) (p : Cell n) : Bool :=
  decide (T.get p.1 p.2 ≥ Int.ofNat mx - (Int.ofNat szcl - 1))

theorem inCluster_diag (T : AMat Int n) (hT : ∀ i, T.get i i = 0) (mx szcl : Nat) (h : szcl ≤ mx) (i : Fin n) :
    inCluster T mx szcl (i, i) = false := by
  simp only [inCluster, hT i, decide_eq_false_iff_not, Int.ofNat_eq_natCast]
  omega

theorem countP_and_split (a b : Cell n → Bool) (l : List (Cell n)) :
    l.countP (fun p => !a p && b p) + l.countP (fun p => a p && b p) = l.countP b := by
  induction l with
  | nil => simp
  | cons p l ih =>
    simp only [List.countP_cons]
    cases a p <;> cases b p <;> simp <;> omega

theorem countP_or_excl (a c : Cell n → Bool) (l : List (Cell n)) (hex : ∀ p, ¬(a p = true ∧ c p = true)) :
    l.countP (fun p => a p || c p) = l.countP a + l.countP c := by
  induction l with
  | nil => simp
  | cons p l ih =>
    simp only [List.countP_cons, ih]
    have := hex p
    cases ha : a p <;> cases hc : c p <;> simp_all <;> omega

/-- what `makeevenCIJ` returns for a feasible K -/
theorem evenFill_core (T : AMat Int n) (hT : ∀ i, T.get i i = 0) (mx k szcl : Nat) (ds : List Nat)
    {C : AMat Int n} {rest : List Nat}
    (h : evenFill T mx k szcl ds = .ok (C, rest)) (hsz : szcl ≤ mx)
    (hk1 : ((allCells n).countP (inCluster T mx szcl) : Int) ≤ k) (hk2 : k ≤ n * (n - 1)) :
    (∀ p, cellVal C p = 0 ∨ cellVal C p = 1) ∧ (∀ i, cellVal C (i, i) = 0) ∧
    (∀ p, inCluster T mx szcl p = true → cellVal C p = 1) ∧ matSum C = k := by
  unfold evenFill at h
  · have hP : ∀ p, cellVal (AMat.ofFn fun i j => b2i (decide (T.get i j ≥ Int.ofNat mx - (Int.ofNat szcl - 1))) : AMat Int n) p
        = if inCluster T mx szcl p then 1 else 0 := by
      intro p; simp [cellVal, inCluster, b2i]
    have hcnt := matSum_ind _ _ hP
    simp only at h
    rw [hcnt] at h
    split at h
    · rename_i hlt
      simp only [Int.ofNat_eq_natCast] at hlt
      omega
    · split at h
      · simp at h
      · split at h
        · simp at h
        · rename_i hlen hperm
          simp only [Except.ok.injEq, Prod.mk.injEq] at h
          obtain ⟨hC, _⟩ := h
          -- the free cells
          set free : List (Cell n) := (List.finRange n).flatMap fun i =>
            ((List.finRange n).filter fun j =>
              ((AMat.ofFn fun i j => b2i (decide (T.get i j ≥ Int.ofNat mx - (Int.ofNat szcl - 1))) : AMat Int n).get i j
                + b2i (decide (i = j))) == 0).map fun j => (i, j) with hfree
          have hfree_eq : free = (allCells n).filter fun p => !inCluster T mx szcl p && decide (p.1 ≠ p.2) := by
            rw [hfree]
            unfold allCells List.product
            rw [List.filter_flatMap]
            congr 1; funext i
            rw [List.filter_map]
            congr 1
            apply List.filter_congr
            intro j _
            have := hP (i, j)
            simp only [cellVal] at this
            simp only [Function.comp]
            rw [this]
            by_cases h2 : i = j
            · subst h2; simp only [b2i, decide_true, if_true]; split_ifs <;> simp
            · by_cases h1 : inCluster T mx szcl (i, j) = true <;> simp [h1, h2, b2i]
          have hperm' : isPermOfRange (ds.take free.length) free.length = true := by simpa using hperm
          obtain ⟨hpl, hplt, hpnd⟩ := isPermOfRange_spec hperm'
          have hfree_nd : free.Nodup := by rw [hfree_eq]; exact allCells_nodup.filter _
          set L := choose free (ds.take free.length) (Int.ofNat k - ((allCells n).countP (inCluster T mx szcl) : Int)).toNat with hL
          have hLnd : L.Nodup := choose_nodup _ _ _ hfree_nd hpnd
          have hLsub : ∀ p ∈ L, inCluster T mx szcl p = false ∧ p.1 ≠ p.2 := by
            intro p hp
            have := mem_choose _ _ _ _ hp
            rw [hfree_eq, List.mem_filter] at this
            simpa using this.2
          -- size of the free list
          have hsplit := countP_offdiag (n := n)
          have hfree_len : free.length + (allCells n).countP (inCluster T mx szcl) = n * n - n := by
            rw [hfree_eq, ← List.countP_eq_length_filter, ← hsplit]
            have : (allCells n).countP (inCluster T mx szcl)
                = (allCells n).countP (fun p => inCluster T mx szcl p && decide (p.1 ≠ p.2)) := by
              apply List.countP_congr
              rintro ⟨i, j⟩ _
              by_cases hij : i = j
              · subst hij; simp [inCluster_diag T hT mx szcl hsz i]
              · simp [hij]
            rw [this]
            exact countP_and_split (inCluster T mx szcl) (fun p => decide (p.1 ≠ p.2)) (allCells n)
          have hLlen : (L.length : Int) = k - ((allCells n).countP (inCluster T mx szcl) : Int) := by
            rw [hL, choose_length _ _ _ (fun r hr => hplt r hr), hpl]
            have : n * n - n = n * (n - 1) := by rw [Nat.mul_sub, Nat.mul_one]
            simp only [Int.ofNat_eq_natCast]
            omega
          have hval : ∀ p, cellVal C p = if inCluster T mx szcl p || decide (p ∈ L) then 1 else 0 := by
            intro p
            rw [← hC, writeOnes_val, hP]
            by_cases h1 : p ∈ L <;> by_cases h2 : inCluster T mx szcl p = true <;> simp [h1, h2]
          refine ⟨fun p => ?_, fun i => ?_, fun p hp => ?_, ?_⟩
          · rw [hval]; split_ifs <;> simp
          · rw [hval]
            have : (i, i) ∉ L := fun hm => (hLsub _ hm).2 rfl
            simp [inCluster_diag T hT mx szcl hsz i, this]
          · rw [hval]; simp [hp]
          · rw [matSum_ind _ _ hval]
            have : (allCells n).countP (fun p => inCluster T mx szcl p || decide (p ∈ L))
                = (allCells n).countP (inCluster T mx szcl) + (allCells n).countP (fun p => decide (p ∈ L)) := by
              have hex : ∀ p, ¬ (inCluster T mx szcl p = true ∧ p ∈ L) := fun p ⟨h1, h2⟩ => by
                have := (hLsub p h2).1; rw [h1] at this; exact Bool.noConfusion this
              exact countP_or_excl _ _ _ (fun p hp => hex p ⟨hp.1, by simpa using hp.2⟩)
            rw [this, countP_mem_nodup L hLnd]
            push_cast
            omega

end Bct.Synth
