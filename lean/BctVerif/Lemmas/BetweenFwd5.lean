import BctVerif.Lemmas.BetweenFwd4

/-!
# The weighted Brandes model equals the definition (C08)
-/
namespace Bct.Between
open Bct

variable {n : ℕ} (L : AMat Nat n) (u : Fin n)

theorem weiLoop_succ (fuel : ℕ) (V : List (Fin n)) (st : SrcSt n) :
    weiLoop (fuel + 1) V st =
      match weiBatch V st with
      | .error e => .error e
      | .ok st1 =>
        match weiNext st1 with
        | .done => .ok st1
        | .fill idx => fillFront st1 idx
        | .batch V' => weiLoop fuel V' st1 := rfl

variable {L u}

theorem weiLoop_spec (fuel : ℕ) {st : SrcSt n} {V : List (Fin n)} {m : ℕ} {ord : List (Fin n)}
    (h : LI L u st V m ord) (hfuel : n + 1 ≤ fuel + ord.length) :
    ∃ st', weiLoop fuel V st = .ok st' ∧ FwdOK L u st' := by
  induction fuel generalizing st V m ord with
  | zero =>
    have := h.ordnd.length_le_card
    simp only [Fintype.card_fin] at this
    omega
  | succ fuel ih =>
    obtain ⟨st1, e1, hJ⟩ := weiBatch_spec h
    rw [weiLoop_succ, e1]
    dsimp only
    rcases weiNext_spec hJ with ⟨e2, _, hok⟩ | ⟨idx, e2, _, _, _, st', e3, hok⟩ | ⟨V', m', e2, _, hI⟩
    · rw [e2]; exact ⟨st1, rfl, hok⟩
    · rw [e2]; exact ⟨st', e3, hok⟩
    · rw [e2]
      dsimp only
      apply ih hI
      have : 0 < V.length := List.length_pos_of_ne_nil h.Vne
      simp only [List.length_append, List.length_reverse]
      omega

variable (L u)

theorem initSt_LI : LI L u (initSt true L u) [u] 0 [] := by
  have hS : ∀ x : Fin n, (initSt true L u).S[x] = true := by intro x; simp [initSt]
  have hset : settled (initSt true L u) = ∅ := by
    ext x; simp [mem_settled, hS x]
  constructor
  · simp
  · simp
  · intro x
    rw [List.mem_singleton, dist_eq_zero_iff]
  · intro x
    rw [hS x]
    constructor
    · intro hx; exact absurd hx (by simp)
    · rintro ⟨k, _, hk⟩; omega
  · intro x
    rw [hset]
    constructor
    · rintro rfl
      simp [initSt]
    · intro _ z hz; exact absurd hz (by simp)
    · intro hx; left; simp [initSt, hx]
    · intro hx; simp [initSt, hx]
    · intro hx z; simp [initSt]
  · intro i j; rw [hS j]; simp [initSt]
  · refine ⟨by simp [initSt], ?_⟩
    have : (initSt true L u).q = n := rfl
    rw [this]
    simp
  · simp
  · intro x; rw [hS x]; simp
  · simp
  · intro hne; exact absurd rfl hne

/-- the Dijkstra loop of every source ends normally in a state satisfying the forward-phase postcondition -/
theorem weiFwd_ok : ∃ st, fwd L true u = .ok st ∧ FwdOK L u st := by
  have : fwd L true u = weiLoop (n + 1) [u] (initSt true L u) := by simp [fwd]
  rw [this]
  exact weiLoop_spec (n + 1) (initSt_LI L u) (by simp)

/-- **the model of `edge_betweenness_wei` / `betweenness_wei` returns exactly the definition-level
betweenness**, for every connection-length matrix -/
theorem brandes_wei_correct : brandes true L = .ok (ebcSpec L, bcSpec L) :=
  brandes_of_forward L true fun u => weiFwd_ok L u

end Bct.Between
