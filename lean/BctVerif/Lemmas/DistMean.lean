import BctVerif.Lemmas.DistBase
import Mathlib.Data.List.Basic
import Mathlib.Algebra.BigOperators.Fin

/-!
# Means over the ordered pairs of distinct nodes (`charpath`, global efficiencies)

`offDiag n` lists every ordered pair of distinct nodes exactly once (`mem_offDiag`, `offDiag_nodup`,
`offDiag_length : n*n - n`); `sumExt`/`meanExt`/`meanInvOff` of the model are identified with plain rational
sums over that list.
-/
namespace Bct.Dist
variable {n : ℕ}

theorem mem_offDiag (p : Fin n × Fin n) : p ∈ offDiag n ↔ p.1 ≠ p.2 := by
  simp [offDiag, cells]

theorem cells_nodup : (cells n).Nodup := by
  unfold cells
  rw [List.nodup_flatMap]
  refine ⟨?_, ?_⟩
  · intro i _
    exact (List.nodup_finRange n).map (fun a b h => by simpa using h)
  · apply List.Pairwise.imp_of_mem (R := fun a b => a ≠ b)
    · intro a b _ _ hab
      simp only [Function.onFun]
      rw [List.disjoint_left]
      intro x hx hy
      simp only [List.mem_map] at hx hy
      obtain ⟨_, _, rfl⟩ := hx
      obtain ⟨_, _, h2⟩ := hy
      exact hab (by simpa using (congrArg Prod.fst h2).symm)
    · exact List.nodup_finRange n

theorem offDiag_nodup : (offDiag n).Nodup := cells_nodup.filter _

theorem offDiag_length : (offDiag n).length = n * n - n := by
  unfold offDiag cells
  rw [List.filter_flatMap, List.length_flatMap]
  have inner : ∀ i : Fin n, (List.filter (fun p : Fin n × Fin n => decide (p.1 ≠ p.2))
      (List.map (fun j => (i, j)) (List.finRange n))).length = n - 1 := by
    intro i
    rw [List.filter_map, List.length_map]
    have : (List.filter ((fun p : Fin n × Fin n => decide (p.1 ≠ p.2)) ∘ fun j => (i, j)) (List.finRange n)) =
        (List.finRange n).erase i := by
      rw [(List.nodup_finRange n).erase_eq_filter]
      congr 1; funext j
      by_cases h : i = j
      · subst h; simp
      · have : j ≠ i := fun e => h e.symm
        simp [h, this]
    rw [this, List.length_erase_of_mem (List.mem_finRange i)]; simp
  simp only [inner]
  simp [Nat.mul_sub]

/-- value of a finite entry (0 for `∞`; only used under a finiteness hypothesis) -/
def finVal : Ext → ℚ
  | .fin q => q
  | .inf => 0

theorem sumExt_fin_aux : ∀ (xs : List Ext) (a : ℚ), (∀ x ∈ xs, x.isFin = true) →
    xs.foldl (· + ·) (Ext.fin a) = Ext.fin (a + (xs.map finVal).sum) := by
  intro xs
  induction xs with
  | nil => intro a _; simp
  | cons x xs ih =>
    intro a h
    cases x with
    | inf => have := h Ext.inf List.mem_cons_self; simp [Ext.isFin] at this
    | fin q =>
      simp only [List.foldl_cons, List.map_cons, List.sum_cons, finVal]
      have : (Ext.fin a + Ext.fin q) = Ext.fin (a + q) := rfl
      rw [this, ih (a + q) (fun x hx => h x (List.mem_cons_of_mem _ hx)), add_assoc]

/-- on finite entries `sumExt` is the rational sum -/
theorem sumExt_fin (xs : List Ext) (h : ∀ x ∈ xs, x.isFin = true) : sumExt xs = .fin (xs.map finVal).sum := by
  unfold sumExt
  rw [sumExt_fin_aux xs 0 h]; simp

end Bct.Dist
