import BctVerif.Model.Measures
import Mathlib.Algebra.BigOperators.Fin
import Mathlib.Algebra.BigOperators.Group.Finset.Basic
import Mathlib.Logic.Equiv.Defs
import Mathlib.Tactic.Ring
import Mathlib.Tactic.Linarith
/-!
# Renumbering lemmas for the basic operations of `Model/Measures.lean`
-/
namespace Bct.Measures
open Bct

variable {n : Nat}

/-! ### sums, any, max over `Fin n` under a permutation -/

theorem fsum_eq_sum {α : Type} [AddCommMonoid α] (f : Fin n → α) : fsum f = ∑ i, f i := by
  unfold fsum; rw [Fin.sum_univ_def]

/-- the workhorse: a sum may be re-indexed by a permutation -/
theorem fsum_congr_perm {α : Type} [AddCommMonoid α] (σ : Equiv.Perm (Fin n)) (f g : Fin n → α)
    (h : ∀ x, f x = g (σ x)) : fsum f = fsum g := by
  rw [fsum_eq_sum, fsum_eq_sum]; exact Fintype.sum_equiv σ f g h

theorem fsum_congr {α : Type} [Add α] [Zero α] (f g : Fin n → α) (h : ∀ x, f x = g x) : fsum f = fsum g := by
  have : f = g := funext h
  rw [this]

theorem fany_eq_true {f : Fin n → Bool} : fany f = true ↔ ∃ i, f i = true := by
  unfold fany; simp

theorem fany_congr_perm (σ : Equiv.Perm (Fin n)) (f g : Fin n → Bool) (h : ∀ x, f x = g (σ x)) : fany f = fany g := by
  rw [Bool.eq_iff_iff, fany_eq_true, fany_eq_true]
  constructor
  · rintro ⟨i, hi⟩; exact ⟨σ i, by rw [← h]; exact hi⟩
  · rintro ⟨i, hi⟩; exact ⟨σ.symm i, by rw [h]; simpa using hi⟩

theorem foldl_max_le_iff (l : List Nat) (a m : Nat) : l.foldl max a ≤ m ↔ a ≤ m ∧ ∀ x ∈ l, x ≤ m := by
  induction l generalizing a with
  | nil => simp
  | cons x xs ih =>
    simp only [List.foldl_cons, ih, List.mem_cons, forall_eq_or_imp]
    constructor
    · rintro ⟨h1, h2⟩; exact ⟨le_trans (le_max_left _ _) h1, le_trans (le_max_right _ _) h1, h2⟩
    · rintro ⟨h1, h2, h3⟩; exact ⟨max_le h1 h2, h3⟩

theorem fmax_le_iff (f : Fin n → Nat) (m : Nat) : fmax f ≤ m ↔ ∀ i, f i ≤ m := by
  unfold fmax; rw [foldl_max_le_iff]; simp

theorem fmax_congr_perm (σ : Equiv.Perm (Fin n)) (f g : Fin n → Nat) (h : ∀ x, f x = g (σ x)) : fmax f = fmax g := by
  apply le_antisymm
  · rw [fmax_le_iff]; intro i; rw [h]; exact (fmax_le_iff g _).mp le_rfl (σ i)
  · rw [fmax_le_iff]; intro i
    have := (fmax_le_iff f _).mp le_rfl (σ.symm i)
    rw [h] at this; simpa using this

/-! ### access lemmas -/

@[simp] theorem vget_ofFn {α : Type} (f : Fin n → α) (i : Fin n) : vget (Vector.ofFn f) i = f i := by
  simp [vget]

theorem vec_ext {α : Type} {v w : Vector α n} (h : ∀ i, vget v i = vget w i) : v = w := by
  apply Vector.ext; intro i hi; exact h ⟨i, hi⟩

@[simp] theorem vget_map {α β : Type} (f : α → β) (v : Vector α n) (i : Fin n) : vget (v.map f) i = f (vget v i) := by
  simp [vget]

@[simp] theorem permA_get {α : Type} (p : Fin n → Fin n) (A : AMat α n) (i j : Fin n) :
    (permA p A).get i j = A.get (p i) (p j) := by simp [permA]

@[simp] theorem permVec_get {α : Type} (p : Fin n → Fin n) (v : Vector α n) (i : Fin n) :
    vget (permVec p v) i = vget v (p i) := by simp [permVec]

theorem permVec_map {α β : Type} (p : Fin n → Fin n) (f : α → β) (v : Vector α n) :
    permVec p (v.map f) = (permVec p v).map f := by
  apply vec_ext; intro i; simp

/-! ### matrix primitives -/

variable (σ : Equiv.Perm (Fin n))

@[simp] theorem perm_bne (a b : Fin n) : (σ a != σ b) = (a != b) := by
  rw [Bool.eq_iff_iff, bne_iff_ne, bne_iff_ne]
  exact not_congr σ.injective.eq_iff

@[simp] theorem perm_beq (a b : Fin n) : (σ a == σ b) = (a == b) := by
  rw [Bool.eq_iff_iff, beq_iff_eq, beq_iff_eq]
  exact σ.injective.eq_iff

theorem bin_perm (A : AMat Int n) : bin (permA σ A) = permA σ (bin A) := by
  apply AMat.ext_get; intro i j; simp [bin]

theorem madd_perm (A B : AMat Int n) : madd (permA σ A) (permA σ B) = permA σ (madd A B) := by
  apply AMat.ext_get; intro i j; simp [madd]

theorem mtr_perm (A : AMat Int n) : mtr (permA σ A) = permA σ (mtr A) := by
  apply AMat.ext_get; intro i j; simp [mtr]

theorem mmul_perm (A B : AMat Int n) : mmul (permA σ A) (permA σ B) = permA σ (mmul A B) := by
  apply AMat.ext_get; intro i j
  simp only [mmul, AMat.get_ofFn, permA_get]
  exact fsum_congr_perm σ _ _ (fun k => rfl)

theorem rowSum_perm (A : AMat Int n) (i : Fin n) : rowSum (permA σ A) i = rowSum A (σ i) := by
  unfold rowSum; exact fsum_congr_perm σ _ _ (fun k => by simp)

theorem colSum_perm (A : AMat Int n) (j : Fin n) : colSum (permA σ A) j = colSum A (σ j) := by
  unfold colSum; exact fsum_congr_perm σ _ _ (fun k => by simp)

theorem trace_perm (A : AMat Int n) : trace (permA σ A) = trace A := by
  unfold trace; exact fsum_congr_perm σ _ _ (fun k => by simp)

/-- a double sum may be re-indexed on both axes -/
theorem fsum2_congr_perm {α : Type} [AddCommMonoid α] (f g : Fin n → Fin n → α)
    (h : ∀ x y, f x y = g (σ x) (σ y)) : (fsum fun i => fsum fun j => f i j) = fsum fun i => fsum fun j => g i j := by
  apply fsum_congr_perm σ; intro i
  apply fsum_congr_perm σ; intro j
  exact h i j

theorem total_perm (A : AMat Int n) : total (permA σ A) = total A := by
  unfold total; exact fsum2_congr_perm σ _ _ (fun i j => by simp)

theorem fany2_congr_perm (f g : Fin n → Fin n → Bool)
    (h : ∀ x y, f x y = g (σ x) (σ y)) : (fany fun i => fany fun j => f i j) = fany fun i => fany fun j => g i j := by
  apply fany_congr_perm σ; intro i
  apply fany_congr_perm σ; intro j
  exact h i j

end Bct.Measures
