import Mathlib.Data.Matrix.Basic
import Mathlib.Data.Matrix.Mul
import Mathlib.Data.Matrix.Diagonal
import Mathlib.Algebra.BigOperators.Field
import Mathlib.Algebra.BigOperators.Fin
import Mathlib.Algebra.Order.BigOperators.Ring.Finset
import Mathlib.Algebra.Order.Field.Basic
import Mathlib.Algebra.Order.Field.Rat
import Mathlib.Tactic
/-!
# Algebra behind C18 (no model here): identities over an arbitrary field / ordered field

* `mfpt_identity`      – the fundamental-matrix formula satisfies the first-passage recurrence
* `spectral_pow`, `spectral_series` – `Σ_k V i k · V j k · p(λ_k) = p(A) i j` for an orthonormal eigenbasis
* `abs_eigvec_of_max`  – `|v|` of a λ_max eigenvector of a symmetric non-negative matrix is a λ_max eigenvector
* `collatz_upper`      – Collatz–Wielandt: every eigenvalue is bounded by `max_i (Av)_i / v_i` for `v > 0`
* `l1_nonneg`          – the solution of `r = d·S·r + (1−d)·f` (S ≥ 0 column-stochastic) is non-negative
-/
open Finset Matrix

namespace Bct.WalksAlg

variable {n : ℕ}

/-! ## mean first passage time -/

theorem mfpt_identity {K : Type} [Field K] (P Z A : Matrix (Fin n) (Fin n) K) (w : Fin n → K)
    (hP : ∀ i, ∑ k, P i k = 1)                       -- row-stochastic
    (hw : ∀ j, ∑ k, w k * P k j = w j)               -- stationary
    (hw1 : ∑ k, w k = 1)
    (hA : ∀ i j, A i j = (if i = j then 1 else 0) - P i j + w j)   -- A = I − P + 1·wᵀ
    (hZ : A * Z = 1)                                  -- Z = A⁻¹
    (i j : Fin n) (hij : i ≠ j) (hwj : w j ≠ 0) :
    (Z j j - Z i j) / w j = 1 + ∑ k ∈ univ.erase j, P i k * ((Z j j - Z k j) / w j) := by
  classical
  have hZ' : ∀ q c, ∑ r, A q r * Z r c = if q = c then 1 else 0 := by
    intro q c
    have := congrFun (congrFun hZ q) c
    simpa [Matrix.mul_apply, Matrix.one_apply] using this
  have hwA : ∀ c, ∑ r, w r * A r c = w c := by
    intro c
    simp only [hA, mul_add, mul_sub, Finset.sum_add_distrib, Finset.sum_sub_distrib]
    rw [hw c, ← Finset.sum_mul, hw1]
    simp
  have hwZ : ∀ c, ∑ r, w r * Z r c = w c := by
    intro c
    calc ∑ r, w r * Z r c = ∑ r, (∑ q, w q * A q r) * Z r c := by
            refine Finset.sum_congr rfl (fun r _ => ?_); rw [hwA r]
      _ = ∑ q, w q * ∑ r, A q r * Z r c := by
            simp only [Finset.sum_mul, Finset.mul_sum]
            rw [Finset.sum_comm]
            refine Finset.sum_congr rfl (fun q _ => Finset.sum_congr rfl (fun r _ => ?_)); ring
      _ = ∑ q, w q * (if q = c then 1 else 0) := by
            refine Finset.sum_congr rfl (fun q _ => ?_); rw [hZ' q c]
      _ = w c := by simp
  have hPZ : ∑ k, P i k * Z k j = Z i j + w j - (if i = j then 1 else 0) := by
    have := hZ' i j
    simp only [hA, add_mul, sub_mul, Finset.sum_add_distrib, Finset.sum_sub_distrib] at this
    rw [hwZ j] at this
    have e : ∑ x, (if i = x then (1:K) else 0) * Z x j = Z i j := by simp
    rw [e] at this
    linear_combination -this
  have hfull : ∑ k ∈ univ.erase j, P i k * ((Z j j - Z k j) / w j)
      = ∑ k, P i k * ((Z j j - Z k j) / w j) := by
    rw [← Finset.add_sum_erase univ _ (mem_univ j)]; simp
  rw [hfull]
  have : ∑ k, P i k * ((Z j j - Z k j) / w j)
      = (Z j j * ∑ k, P i k - ∑ k, P i k * Z k j) / w j := by
    rw [Finset.mul_sum, ← Finset.sum_sub_distrib, Finset.sum_div]
    refine Finset.sum_congr rfl (fun k _ => ?_); ring
  rw [this, hP i, hPZ]
  simp only [hij, if_false]
  field_simp
  ring

/-! ## spectral functions of a matrix with an orthonormal eigenbasis -/

section spectral
variable {K : Type} [CommRing K]

theorem pow_mul_eigenbasis (A V : Matrix (Fin n) (Fin n) K) (lam : Fin n → K)
    (hAV : A * V = V * diagonal lam) (m : ℕ) : A ^ m * V = V * diagonal (fun k => lam k ^ m) := by
  induction m with
  | zero => simp
  | succ m ih =>
    rw [pow_succ, Matrix.mul_assoc, hAV, ← Matrix.mul_assoc, ih, Matrix.mul_assoc, diagonal_mul_diagonal]
    congr 2; funext k; rw [pow_succ]

/-- `(A^m) i j = Σ_k V i k · λ_k^m · V j k` when `A V = V Λ` and `V Vᵀ = 1` -/
theorem spectral_pow (A V : Matrix (Fin n) (Fin n) K) (lam : Fin n → K)
    (hAV : A * V = V * diagonal lam) (hV : V * Vᵀ = 1) (m : ℕ) (i j : Fin n) :
    (A ^ m) i j = ∑ k, V i k * lam k ^ m * V j k := by
  have h : A ^ m = V * diagonal (fun k => lam k ^ m) * Vᵀ := by
    rw [← pow_mul_eigenbasis A V lam hAV m, Matrix.mul_assoc, hV, Matrix.mul_one]
  rw [h, Matrix.mul_apply]
  refine Finset.sum_congr rfl (fun k _ => ?_)
  rw [Matrix.mul_diagonal, Matrix.transpose_apply]

/-- polynomial / truncated-series version on the diagonal:
`Σ_k V i k² · (Σ_{m<T} c m · λ_k^m) = Σ_{m<T} c m · (A^m) i i` -/
theorem spectral_series (A V : Matrix (Fin n) (Fin n) K) (lam : Fin n → K)
    (hAV : A * V = V * diagonal lam) (hV : V * Vᵀ = 1) (c : ℕ → K) (T : ℕ) (i : Fin n) :
    ∑ k, V i k ^ 2 * (∑ m ∈ range T, c m * lam k ^ m) = ∑ m ∈ range T, c m * (A ^ m) i i := by
  simp only [spectral_pow A V lam hAV hV, Finset.mul_sum]
  rw [Finset.sum_comm]
  refine Finset.sum_congr rfl (fun m _ => Finset.sum_congr rfl (fun k _ => ?_))
  ring

end spectral

/-! ## eigenvector centrality -/

section perron
variable {K : Type} [Field K]

/-- quadratic form `xᵀ A y` -/
def qf (A : Matrix (Fin n) (Fin n) K) (x y : Fin n → K) : K := ∑ i, x i * ∑ j, A i j * y j

theorem qf_add_right (A : Matrix (Fin n) (Fin n) K) (x y z : Fin n → K) :
    qf A x (fun i => y i + z i) = qf A x y + qf A x z := by
  simp only [qf, mul_add, Finset.sum_add_distrib]

theorem qf_add_left (A : Matrix (Fin n) (Fin n) K) (x y z : Fin n → K) :
    qf A (fun i => x i + y i) z = qf A x z + qf A y z := by
  simp only [qf, add_mul, Finset.sum_add_distrib]

theorem qf_smul_right (A : Matrix (Fin n) (Fin n) K) (x y : Fin n → K) (t : K) :
    qf A x (fun i => t * y i) = t * qf A x y := by
  simp only [qf, Finset.mul_sum]
  refine Finset.sum_congr rfl (fun i _ => Finset.sum_congr rfl (fun j _ => ?_)); ring

theorem qf_smul_left (A : Matrix (Fin n) (Fin n) K) (x y : Fin n → K) (t : K) :
    qf A (fun i => t * x i) y = t * qf A x y := by
  simp only [qf, Finset.mul_sum]
  refine Finset.sum_congr rfl (fun i _ => Finset.sum_congr rfl (fun j _ => ?_)); ring

theorem qf_symm (A : Matrix (Fin n) (Fin n) K) (hA : ∀ i j, A i j = A j i) (x y : Fin n → K) :
    qf A x y = qf A y x := by
  simp only [qf, Finset.mul_sum]
  rw [Finset.sum_comm]
  refine Finset.sum_congr rfl (fun i _ => Finset.sum_congr rfl (fun j _ => ?_))
  rw [hA j i]; ring

variable [LinearOrder K] [IsStrictOrderedRing K]

/-- a maximiser of the Rayleigh quotient of a symmetric matrix is an eigenvector -/
theorem eigvec_of_rayleigh_max (A : Matrix (Fin n) (Fin n) K) (hA : ∀ i j, A i j = A j i) (lam : K)
    (hmax : ∀ x : Fin n → K, qf A x x ≤ lam * ∑ i, x i * x i)
    (u : Fin n → K) (hu : qf A u u = lam * ∑ i, u i * u i) (i : Fin n) :
    ∑ j, A i j * u j = lam * u i := by
  classical
  -- g y := yᵀ(A − λ)u ; show g e_i = 0
  set B : (Fin n → K) → (Fin n → K) → K := fun x y => qf A x y - lam * ∑ k, x k * y k with hB
  have Bsymm : ∀ x y, B x y = B y x := by
    intro x y; simp only [hB, qf_symm A hA x y]; congr 2
    exact Finset.sum_congr rfl (fun k _ => mul_comm _ _)
  have Bneg : ∀ x, B x x ≤ 0 := fun x => by simp only [hB]; linarith [hmax x]
  have Buu : B u u = 0 := by simp only [hB]; rw [hu]; ring
  have Bexp : ∀ (y : Fin n → K) (t : K), B (fun k => u k + t * y k) (fun k => u k + t * y k)
      = B u u + 2 * t * B y u + t * t * B y y := by
    intro y t
    have e1 : qf A (fun k => u k + t * y k) (fun k => u k + t * y k)
        = qf A u u + t * qf A u y + t * qf A y u + t * t * qf A y y := by
      rw [qf_add_right, qf_add_left, qf_add_left, qf_smul_right, qf_smul_right, qf_smul_left, qf_smul_left]
      ring
    have e2 : ∑ k, (u k + t * y k) * (u k + t * y k)
        = ∑ k, u k * u k + 2 * t * ∑ k, y k * u k + t * t * ∑ k, y k * y k := by
      simp only [Finset.mul_sum, ← Finset.sum_add_distrib]
      refine Finset.sum_congr rfl (fun k _ => ?_); ring
    simp only [hB, e1, e2, qf_symm A hA u y]; ring
  have key : ∀ y, B y u = 0 := by
    intro y
    by_contra hne
    set b := B y u with hb
    set c := B y y with hc
    have hc0 : c ≤ 0 := Bneg y
    have hq : ∀ t : K, 2 * t * b + t * t * c ≤ 0 := by
      intro t
      have := Bneg (fun k => u k + t * y k)
      rw [Bexp y t, Buu] at this; linarith
    rcases eq_or_lt_of_le hc0 with hc' | hc'
    · -- c = 0 : linear term must vanish
      have h1 := hq b
      rw [hc'] at h1
      have : 0 < b * b := mul_self_pos.mpr hne
      nlinarith
    · -- c < 0 : take t = -b/c
      have h1 := hq (-b / c)
      have hcne : c ≠ 0 := ne_of_lt hc'
      have e : 2 * (-b / c) * b + (-b / c) * (-b / c) * c = -(b * b) / c := by
        field_simp; ring
      rw [e] at h1
      have : 0 < b * b := mul_self_pos.mpr hne
      have : 0 < -(b * b) / c := div_pos_of_neg_of_neg (by linarith) hc'
      linarith
  have := key (fun k => if k = i then 1 else 0)
  simp only [hB, qf] at this
  simp only [ite_mul, one_mul, zero_mul, Finset.sum_ite_eq', Finset.mem_univ, if_true] at this
  linarith

/-- `|v|` of a λ_max eigenvector of a symmetric entrywise non-negative matrix is again a λ_max
eigenvector (λ_max characterised variationally: `xᵀAx ≤ λ xᵀx` for every `x`).  No connectivity or
simplicity assumption is needed. -/
theorem abs_eigvec_of_max (A : Matrix (Fin n) (Fin n) K) (hA : ∀ i j, A i j = A j i)
    (hpos : ∀ i j, 0 ≤ A i j) (lam : K)
    (hmax : ∀ x : Fin n → K, qf A x x ≤ lam * ∑ i, x i * x i)
    (v : Fin n → K) (hv : ∀ i, ∑ j, A i j * v j = lam * v i) (i : Fin n) :
    ∑ j, A i j * |v j| = lam * |v i| := by
  refine eigvec_of_rayleigh_max A hA lam hmax (fun k => |v k|) ?_ i
  have h1 : qf A v v = lam * ∑ i, v i * v i := by
    simp only [qf, hv, Finset.mul_sum]
    refine Finset.sum_congr rfl (fun k _ => ?_); ring
  have h2 : qf A v v ≤ qf A (fun k => |v k|) (fun k => |v k|) := by
    simp only [qf, Finset.mul_sum]
    refine Finset.sum_le_sum (fun a _ => Finset.sum_le_sum (fun b _ => ?_))
    calc v a * (A a b * v b) = A a b * (v a * v b) := by ring
      _ ≤ A a b * (|v a| * |v b|) := by
          apply mul_le_mul_of_nonneg_left _ (hpos a b)
          rw [← abs_mul]; exact le_abs_self _
      _ = |v a| * (A a b * |v b|) := by ring
  have h3 : ∑ i, |v i| * |v i| = ∑ i, v i * v i :=
    Finset.sum_congr rfl (fun k _ => abs_mul_abs_self _)
  have h4 := hmax (fun k => |v k|)
  rw [h3] at h4 ⊢
  linarith

/-- Collatz–Wielandt upper bound: if `v > 0` and `(Av)_i ≤ hi · v_i` for every `i` (A ≥ 0), then every
eigenvalue `μ` of `A` (with an eigenvector over the same ordered field) has `|μ| ≤ hi`. -/
theorem collatz_upper (A : Matrix (Fin n) (Fin n) K) (hpos : ∀ i j, 0 ≤ A i j)
    (v : Fin n → K) (hv : ∀ i, 0 < v i) (hi : K) (hhi : ∀ i, ∑ j, A i j * v j ≤ hi * v i)
    (mu : K) (x : Fin n → K) (hx : ∀ i, ∑ j, A i j * x j = mu * x i) (hx0 : ∃ i, x i ≠ 0) :
    |mu| ≤ hi := by
  classical
  obtain ⟨i1, hi1⟩ := hx0
  obtain ⟨i0, -, hmaxr⟩ := Finset.exists_max_image univ (fun i => |x i| / v i) ⟨i1, mem_univ _⟩
  set t := |x i0| / v i0 with ht
  have ht_pos : 0 < t := by
    have h1 : 0 < |x i1| / v i1 := div_pos (abs_pos.mpr hi1) (hv i1)
    exact lt_of_lt_of_le h1 (hmaxr i1 (mem_univ _))
  have hbound : ∀ j, |x j| ≤ t * v j := by
    intro j
    have := hmaxr j (mem_univ _)
    rwa [div_le_iff₀ (hv j)] at this
  have hx0' : |x i0| = t * v i0 := by rw [ht]; field_simp [(hv i0).ne']
  have h1 : |mu| * |x i0| ≤ ∑ j, A i0 j * |x j| := by
    rw [← abs_mul, ← hx i0]
    calc |∑ j, A i0 j * x j| ≤ ∑ j, |A i0 j * x j| := Finset.abs_sum_le_sum_abs _ _
      _ = ∑ j, A i0 j * |x j| := by
          refine Finset.sum_congr rfl (fun j _ => ?_)
          rw [abs_mul, abs_of_nonneg (hpos i0 j)]
  have h2 : ∑ j, A i0 j * |x j| ≤ t * ∑ j, A i0 j * v j := by
    rw [Finset.mul_sum]
    refine Finset.sum_le_sum (fun j _ => ?_)
    calc A i0 j * |x j| ≤ A i0 j * (t * v j) := mul_le_mul_of_nonneg_left (hbound j) (hpos i0 j)
      _ = t * (A i0 j * v j) := by ring
  have h3 : t * ∑ j, A i0 j * v j ≤ t * (hi * v i0) := mul_le_mul_of_nonneg_left (hhi i0) ht_pos.le
  have h4 : |mu| * (t * v i0) ≤ hi * (t * v i0) := by
    rw [← hx0']; rw [hx0'] at h1 ⊢
    calc |mu| * (t * v i0) ≤ t * (hi * v i0) := le_trans h1 (le_trans h2 h3)
      _ = hi * (t * v i0) := by ring
  exact le_of_mul_le_mul_right h4 (mul_pos ht_pos (hv i0))

/-- Rayleigh lower bound: `(Av)_i ≥ lo · v_i`, `v ≥ 0`  ⇒  `vᵀAv ≥ lo · vᵀv` -/
theorem rayleigh_lower (A : Matrix (Fin n) (Fin n) K) (v : Fin n → K) (hv : ∀ i, 0 ≤ v i) (lo : K)
    (hlo : ∀ i, lo * v i ≤ ∑ j, A i j * v j) : lo * ∑ i, v i * v i ≤ qf A v v := by
  simp only [qf, Finset.mul_sum]
  refine Finset.sum_le_sum (fun i _ => ?_)
  calc lo * (v i * v i) = v i * (lo * v i) := by ring
    _ ≤ v i * ∑ j, A i j * v j := mul_le_mul_of_nonneg_left (hlo i) (hv i)
    _ = ∑ j, v i * (A i j * v j) := by rw [Finset.mul_sum]

/-! ## PageRank: non-negativity of the solution -/

/-- if `r = d·S·r + (1−d)·f`, `S ≥ 0` with unit column sums, `0 ≤ d < 1`, `f ≥ 0`, `Σ f = 1`, then
`Σ r = 1` and `r ≥ (1−d)·f ≥ 0`. -/
theorem l1_nonneg (S : Matrix (Fin n) (Fin n) K) (hS : ∀ i j, 0 ≤ S i j) (hcol : ∀ j, ∑ i, S i j = 1)
    (d : K) (hd0 : 0 ≤ d) (hd1 : d < 1) (f r : Fin n → K) (hf : ∀ i, 0 ≤ f i) (hf1 : ∑ i, f i = 1)
    (hr : ∀ i, r i = d * ∑ j, S i j * r j + (1 - d) * f i) :
    ∑ i, r i = 1 ∧ ∀ i, (1 - d) * f i ≤ r i := by
  have colsum : ∀ g : Fin n → K, ∑ i, ∑ j, S i j * g j = ∑ j, g j := by
    intro g
    rw [Finset.sum_comm]
    refine Finset.sum_congr rfl (fun j _ => ?_)
    rw [← Finset.sum_mul, hcol j, one_mul]
  have hsum : ∑ i, r i = 1 := by
    have : ∑ i, r i = d * ∑ i, r i + (1 - d) := by
      calc ∑ i, r i = ∑ i, (d * ∑ j, S i j * r j + (1 - d) * f i) := Finset.sum_congr rfl (fun i _ => hr i)
        _ = d * ∑ i, ∑ j, S i j * r j + (1 - d) * ∑ i, f i := by
            rw [Finset.sum_add_distrib, ← Finset.mul_sum, ← Finset.mul_sum]
        _ = d * ∑ i, r i + (1 - d) := by rw [colsum, hf1, mul_one]
    have h1 : (1 - d) * (∑ i, r i) = (1 - d) * 1 := by linarith
    exact mul_left_cancel₀ (by linarith : (1 : K) - d ≠ 0) h1
  have habs : ∑ i, |r i| ≤ 1 := by
    have h1 : ∑ i, |r i| ≤ d * ∑ i, |r i| + (1 - d) := by
      calc ∑ i, |r i| = ∑ i, |d * ∑ j, S i j * r j + (1 - d) * f i| := by
              refine Finset.sum_congr rfl (fun i _ => ?_); rw [← hr i]
        _ ≤ ∑ i, (d * ∑ j, S i j * |r j| + (1 - d) * f i) := by
              refine Finset.sum_le_sum (fun i _ => ?_)
              refine le_trans (abs_add_le _ _) ?_
              have e1 : |(1 - d) * f i| = (1 - d) * f i :=
                abs_of_nonneg (mul_nonneg (by linarith) (hf i))
              have e2 : |d * ∑ j, S i j * r j| ≤ d * ∑ j, S i j * |r j| := by
                rw [abs_mul, abs_of_nonneg hd0]
                apply mul_le_mul_of_nonneg_left _ hd0
                refine le_trans (Finset.abs_sum_le_sum_abs _ _) (le_of_eq ?_)
                refine Finset.sum_congr rfl (fun j _ => ?_)
                rw [abs_mul, abs_of_nonneg (hS i j)]
              linarith
        _ = d * ∑ i, ∑ j, S i j * |r j| + (1 - d) * ∑ i, f i := by
              rw [Finset.sum_add_distrib, ← Finset.mul_sum, ← Finset.mul_sum]
        _ = d * ∑ i, |r i| + (1 - d) := by rw [colsum, hf1, mul_one]
    have h2 : (1 - d) * ∑ i, |r i| ≤ (1 - d) * 1 := by linarith
    exact le_of_mul_le_mul_left h2 (by linarith)
  have hnn : ∀ i, 0 ≤ r i := by
    have hz : ∑ i, (|r i| - r i) ≤ 0 := by rw [Finset.sum_sub_distrib, hsum]; linarith
    have hz' : ∑ i, (|r i| - r i) = 0 :=
      le_antisymm hz (Finset.sum_nonneg (fun i _ => sub_nonneg.mpr (le_abs_self _)))
    intro i
    have := (Finset.sum_eq_zero_iff_of_nonneg (fun i _ => sub_nonneg.mpr (le_abs_self (r i)))).mp hz' i (mem_univ _)
    have : |r i| = r i := by linarith
    rw [← this]; exact abs_nonneg _
  refine ⟨hsum, fun i => ?_⟩
  rw [hr i]
  have : 0 ≤ d * ∑ j, S i j * r j :=
    mul_nonneg hd0 (Finset.sum_nonneg (fun j _ => mul_nonneg (hS i j) (hnn j)))
  linarith

/-- the fixed point of `r = d·S·r + g` is unique (S ≥ 0 column-stochastic, 0 ≤ d < 1) -/
theorem fixed_point_unique (S : Matrix (Fin n) (Fin n) K) (hS : ∀ i j, 0 ≤ S i j) (hcol : ∀ j, ∑ i, S i j = 1)
    (d : K) (hd0 : 0 ≤ d) (hd1 : d < 1) (g r r' : Fin n → K)
    (hr : ∀ i, r i = d * ∑ j, S i j * r j + g i) (hr' : ∀ i, r' i = d * ∑ j, S i j * r' j + g i) :
    ∀ i, r i = r' i := by
  have hx : ∀ i, r i - r' i = d * ∑ j, S i j * (r j - r' j) := by
    intro i
    rw [hr i, hr' i]
    simp only [mul_sub, Finset.sum_sub_distrib]
    ring
  have habs : ∑ i, |r i - r' i| ≤ d * ∑ i, |r i - r' i| := by
    calc ∑ i, |r i - r' i| = ∑ i, |d * ∑ j, S i j * (r j - r' j)| := by
            refine Finset.sum_congr rfl (fun i _ => ?_); rw [← hx i]
      _ ≤ ∑ i, d * ∑ j, S i j * |r j - r' j| := by
            refine Finset.sum_le_sum (fun i _ => ?_)
            rw [abs_mul, abs_of_nonneg hd0]
            apply mul_le_mul_of_nonneg_left _ hd0
            refine le_trans (Finset.abs_sum_le_sum_abs _ _) (le_of_eq ?_)
            refine Finset.sum_congr rfl (fun j _ => ?_)
            rw [abs_mul, abs_of_nonneg (hS i j)]
      _ = d * ∑ j, |r j - r' j| := by
            rw [← Finset.mul_sum, Finset.sum_comm]
            congr 1
            refine Finset.sum_congr rfl (fun j _ => ?_)
            rw [← Finset.sum_mul, hcol j, one_mul]
  have hnn : 0 ≤ ∑ i, |r i - r' i| := Finset.sum_nonneg (fun i _ => abs_nonneg _)
  have hz : ∑ i, |r i - r' i| = 0 := by nlinarith
  intro i
  have := (Finset.sum_eq_zero_iff_of_nonneg (fun i _ => abs_nonneg (r i - r' i))).mp hz i (mem_univ _)
  exact sub_eq_zero.mp (abs_eq_zero.mp this)

/-- `r = d·S·r + b` with `S ≥ 0`, column sums ≤ 1 (sub-stochastic: empty columns allowed), `0 ≤ d < 1`, `b ≥ 0`
⇒ `r ≥ 0` and `Σ r ≥ Σ b` -/
theorem substoch_nonneg (S : Matrix (Fin n) (Fin n) K) (hS : ∀ i j, 0 ≤ S i j) (hcol : ∀ j, ∑ i, S i j ≤ 1)
    (d : K) (hd0 : 0 ≤ d) (hd1 : d < 1) (b r : Fin n → K) (hb : ∀ i, 0 ≤ b i)
    (hr : ∀ i, r i = d * ∑ j, S i j * r j + b i) :
    (∀ i, 0 ≤ r i) ∧ ∑ i, b i ≤ ∑ i, r i := by
  set q : Fin n → K := fun i => max (- r i) 0 with hq
  have hq0 : ∀ i, 0 ≤ q i := fun i => le_max_right _ _
  have hqr : ∀ i, - r i ≤ q i := fun i => le_max_left _ _
  have hstep : ∀ i, q i ≤ d * ∑ j, S i j * q j := by
    intro i
    have hrhs : 0 ≤ d * ∑ j, S i j * q j :=
      mul_nonneg hd0 (Finset.sum_nonneg (fun j _ => mul_nonneg (hS i j) (hq0 j)))
    apply max_le _ hrhs
    have h1 : - r i = d * ∑ j, S i j * (- r j) - b i := by
      rw [hr i]; simp only [mul_neg, Finset.sum_neg_distrib]; ring
    rw [h1]
    have h2 : ∑ j, S i j * (- r j) ≤ ∑ j, S i j * q j :=
      Finset.sum_le_sum (fun j _ => mul_le_mul_of_nonneg_left (hqr j) (hS i j))
    have := mul_le_mul_of_nonneg_left h2 hd0
    linarith [hb i]
  have hsum : ∑ i, q i ≤ d * ∑ i, q i := by
    calc ∑ i, q i ≤ ∑ i, d * ∑ j, S i j * q j := Finset.sum_le_sum (fun i _ => hstep i)
      _ = d * ∑ j, (∑ i, S i j) * q j := by
          rw [← Finset.mul_sum, Finset.sum_comm]
          congr 1
          exact Finset.sum_congr rfl (fun j _ => (Finset.sum_mul _ _ _).symm)
      _ ≤ d * ∑ j, q j := by
          apply mul_le_mul_of_nonneg_left _ hd0
          exact Finset.sum_le_sum (fun j _ => by
            calc (∑ i, S i j) * q j ≤ 1 * q j := mul_le_mul_of_nonneg_right (hcol j) (hq0 j)
              _ = q j := one_mul _)
  have hqn : 0 ≤ ∑ i, q i := Finset.sum_nonneg (fun i _ => hq0 i)
  have hz : ∑ i, q i = 0 := by nlinarith
  have hqz : ∀ i, q i = 0 := fun i =>
    (Finset.sum_eq_zero_iff_of_nonneg (fun i _ => hq0 i)).mp hz i (mem_univ _)
  have hnn : ∀ i, 0 ≤ r i := by
    intro i
    have := hqr i
    rw [hqz i] at this
    linarith
  refine ⟨hnn, ?_⟩
  calc ∑ i, b i ≤ ∑ i, (d * ∑ j, S i j * r j + b i) :=
        Finset.sum_le_sum (fun i _ => le_add_of_nonneg_left
          (mul_nonneg hd0 (Finset.sum_nonneg (fun j _ => mul_nonneg (hS i j) (hnn j)))))
    _ = ∑ i, r i := Finset.sum_congr rfl (fun i _ => (hr i).symm)

end perron

/-! ## walks -/

/-- number of walks of length `q` from `i` to `j`, counted by the first step -/
def walkCount (adj : Fin n → Fin n → Bool) : ℕ → Fin n → Fin n → ℕ
  | 0, i, j => if i = j then 1 else 0
  | q + 1, i, j => ∑ k ∈ univ.filter (fun k => adj i k), walkCount adj q k j

theorem pow_eq_walkCount (C : Matrix (Fin n) (Fin n) ℤ) (adj : Fin n → Fin n → Bool)
    (hC : ∀ i j, C i j = if adj i j then 1 else 0) (q : ℕ) (i j : Fin n) :
    (C ^ q) i j = (walkCount adj q i j : ℤ) := by
  induction q generalizing i with
  | zero => simp [walkCount, Matrix.one_apply]
  | succ q ih =>
    rw [pow_succ', Matrix.mul_apply, walkCount, Nat.cast_sum, Finset.sum_filter]
    refine Finset.sum_congr rfl (fun k _ => ?_)
    rw [hC i k, ih k]
    split_ifs <;> simp

end Bct.WalksAlg
