import BctVerif.Lemmas.ModularityLabels
import BctVerif.Lemmas.ModularityDir

/-! # What *is* true of `modularity_louvain_dir` as coded (defect D6): labels exactly `1..k` at every level,
and the first level is a consistent `(ci, q)` pair -/
namespace Bct.Modularity
open Finset

variable {n : ℕ}
variable {g0 : GState}

/-- ranks of the first `nh` nodes under `labFnA` (the other nodes carry labels above every slot) -/
theorem rank_activeA (m m' : Lab n) (nh : ℕ) (hm' : toLab (labFnA m nh) = .ok m') :
    (∀ i : Fin n, i.val < nh → (labOf m' i).val <
        ((List.finRange n).filter fun j => decide (j.val < nh) && isFirst (labFnA m nh) j).length) ∧
    (∀ r, r < ((List.finRange n).filter fun j => decide (j.val < nh) && isFirst (labFnA m nh) j).length →
        ∃ i : Fin n, i.val < nh ∧ (labOf m' i).val = r) := by
  classical
  set c := labFnA m nh with hc
  have hrank : ∀ i : Fin n, (labOf m' i).val = rank c i := fun i => toLab_eq c m' hm' i
  set A : Finset ℤ := (univ.filter (fun i : Fin n => i.val < nh)).image c with hAdef
  have hk : ((List.finRange n).filter fun j => decide (j.val < nh) && isFirst c j).length = A.card := by
    rw [length_filter_finRange]
    have himg : (univ.filter (fun j : Fin n => (decide (j.val < nh) && isFirst c j) = true)).image c = A := by
      ext v
      simp only [mem_image, mem_filter, mem_univ, true_and, Bool.and_eq_true, decide_eq_true_eq, hAdef]
      constructor
      · rintro ⟨j, ⟨hj, _⟩, rfl⟩; exact ⟨j, hj, rfl⟩
      · rintro ⟨i, hi, rfl⟩
        obtain ⟨j0, hf, he, hle⟩ := exists_first_le c i
        exact ⟨j0, ⟨lt_of_le_of_lt hle hi, hf⟩, he⟩
    rw [← himg, Finset.card_image_of_injOn]
    intro a ha b hb hab
    simp only [coe_filter, mem_univ, true_and, Bool.and_eq_true, Set.mem_ofPred_eq] at ha hb
    exact first_inj c a b ha.2 hb.2 hab
  have hfilter : ∀ i : Fin n, i.val < nh → (labelSet c).filter (· < c i) = A.filter (· < c i) := by
    intro i hi
    ext v
    simp only [mem_filter, labelSet, mem_image, mem_univ, true_and, hAdef]
    constructor
    · rintro ⟨⟨j, rfl⟩, hlt⟩
      refine ⟨⟨j, ?_, rfl⟩, hlt⟩
      by_contra hj
      simp only [hc, labFnA, hi, if_true, hj, if_false] at hlt
      have h1 : (m[i].val : ℤ) < n := by exact_mod_cast m[i].isLt
      have h2 : ((n + j.val : ℕ) : ℤ) ≥ n := by push_cast; omega
      omega
    · rintro ⟨⟨j, _, rfl⟩, hlt⟩
      exact ⟨⟨j, rfl⟩, hlt⟩
  refine ⟨fun i hi => ?_, fun r hr => ?_⟩
  · rw [hrank, rank_eq_card, hfilter i hi, hk]
    apply Finset.card_lt_card
    rw [Finset.ssubset_iff_of_subset (Finset.filter_subset _ _)]
    exact ⟨c i, Finset.mem_image.mpr ⟨i, by simp [hi], rfl⟩, by simp⟩
  · rw [hk] at hr
    obtain ⟨v, hv, hfv⟩ := card_filter_lt_surj A r hr
    obtain ⟨i, hi, rfl⟩ := Finset.mem_image.mp hv
    simp only [mem_filter, mem_univ, true_and] at hi
    exact ⟨i, hi, by rw [hrank, rank_eq_card, hfilter i hi]; exact hfv⟩

theorem louvainDirLoop_labels (W : RMat n) (s γ : ℚ) :
    ∀ (fuel : ℕ) (L L' : LvSt n) (ds rest : List ℕ), CiInv L.nh L.ci →
      (∀ p ∈ L.acc, LabelsExact p.1) → louvainDirLoop W s γ fuel L ds = .ok (L', rest) →
      ∀ p ∈ L'.acc, LabelsExact p.1 := by
  intro fuel
  induction fuel with
  | zero => intro L L' ds rest _ _ h; simp [louvainDirLoop] at h
  | succ fuel ih =>
    intro L L' ds rest hci hacc h
    unfold louvainDirLoop at h
    simp only [bind, Except.bind, pure, Except.pure] at h
    generalize hp : passes (dirKern n) n L.nh (ds.length + 1) _ ds = res at h
    cases res with
    | error e => simp at h
    | ok r =>
      obtain ⟨x, rest1⟩ := r
      simp only at h
      by_cases hst : x.starved.isSome = true
      · simp only [hst, if_true] at h
        cases h
        exact hacc
      · simp only [hst] at h
        obtain ⟨m', hm', _⟩ := toLab_ok (labFnA x.m L.nh)
        simp only [hm'] at h
        obtain ⟨h1, h2⟩ := rank_activeA x.m m' L.nh hm'
        have hci' : CiInv ((List.finRange n).filter fun j => decide (j.val < L.nh) && isFirst (labFnA x.m L.nh) j).length
            (compose L.ci m') := by
          rw [CiInv, labOf_compose]
          refine ⟨fun v => h1 _ (hci.1 v), fun a ha => ?_⟩
          obtain ⟨i, hi, hr⟩ := h2 a ha
          obtain ⟨v, hv⟩ := hci.2 i.val hi
          exact ⟨v, by show (labOf m' (labOf L.ci v)).val = a; rw [Fin.ext hv]; exact hr⟩
        by_cases hstop : (L.hasPrev && decide (qTraceDot (aggA W m' L.nh) s γ - L.qprev < thr)) = true
        · simp only [hstop, if_true] at h
          cases h
          exact hacc
        · simp only [hstop] at h
          refine ih _ _ _ _ hci' ?_ h
          intro p hp'
          rcases List.mem_cons.mp hp' with rfl | hp'
          · exact hci'.exact
          · exact hacc p hp'

/-- every level of `modularity_louvain_dir` (as coded) carries labels exactly `1..k` -/
theorem louvainDir_labels (W : RMat n) (γ : ℚ) (ds : List ℕ) (out : Out n)
    (h : louvainDir W γ ds g0 = .ok out) : ∀ p ∈ out.levels, LabelsExact p.1 := by
  unfold louvainDir at h
  simp only [bind, Except.bind, pure, Except.pure] at h
  split_ifs at h with hs0
  generalize hl : louvainDirLoop W (total W) γ (ds.length + 1) (lv0 n g0) ds = res at h
  cases res with
  | error e => simp at h
  | ok r =>
    obtain ⟨L, rest⟩ := r
    simp only at h
    cases h
    have := louvainDirLoop_labels W (total W) γ _ _ _ _ _ (by simpa [lv0] using CiInv_idLab (n := n))
      (by intro p hp; simp [lv0] at hp) hl
    intro p hp
    exact this p (List.mem_reverse.mp hp)

/-- the loop only ever puts new levels in front of the ones it has -/
theorem louvainDirLoop_suffix (W : RMat n) (s γ : ℚ) :
    ∀ (fuel : ℕ) (L L' : LvSt n) (ds rest : List ℕ), louvainDirLoop W s γ fuel L ds = .ok (L', rest) →
      ∃ ext, L'.acc = ext ++ L.acc := by
  intro fuel
  induction fuel with
  | zero => intro L L' ds rest h; simp [louvainDirLoop] at h
  | succ fuel ih =>
    intro L L' ds rest h
    unfold louvainDirLoop at h
    simp only [bind, Except.bind, pure, Except.pure] at h
    generalize hp : passes (dirKern n) n L.nh (ds.length + 1) _ ds = res at h
    cases res with
    | error e => simp at h
    | ok r =>
      obtain ⟨x, rest1⟩ := r
      simp only at h
      by_cases hst : x.starved.isSome = true
      · simp only [hst, if_true] at h
        cases h
        exact ⟨[], rfl⟩
      · simp only [hst] at h
        obtain ⟨m', hm', _⟩ := toLab_ok (labFnA x.m L.nh)
        simp only [hm'] at h
        by_cases hstop : (L.hasPrev && decide (qTraceDot (aggA W m' L.nh) s γ - L.qprev < thr)) = true
        · simp only [hstop, if_true] at h
          cases h
          exact ⟨[], rfl⟩
        · simp only [hstop] at h
          obtain ⟨ext, he⟩ := ih _ _ _ _ h
          exact ⟨ext ++ [(compose L.ci m', qTraceDot (aggA W m' L.nh) s γ)], by rw [he]; simp⟩

theorem aggA_full (W : RMat n) (m : Lab n) : aggA W m n = aggFull W m := by
  apply AMat.ext_get; intro a b
  simp only [aggA, AMat.get_ofFn, aggFull_get, agg, fsum_eq]
  refine Finset.sum_congr rfl (fun i _ => ?_)
  have hi : i.val < n := i.isLt
  simp only [hi, true_and]
  by_cases h : m[i] = a
  · simp only [h, if_true]
    refine Finset.sum_congr rfl (fun j _ => ?_)
    have hj : j.val < n := j.isLt
    simp only [hj, true_and]
  · simp [h]

theorem compose_idLab (m : Lab n) : labOf (compose (idLab n) m) = labOf m := by
  rw [labOf_compose, labOf_idLab]; rfl

/-- **first level of `modularity_louvain_dir`** — although later levels are computed on the wrong matrix (D6),
the first hierarchy level (`out.levels[0]`) reports exactly the directed modularity of
its partition, for every (also asymmetric) `W`. -/
theorem louvainDir_level1 (W : RMat n) (γ : ℚ) (ds : List ℕ) (out : Out n)
    (h : louvainDir W γ ds g0 = .ok out) :
    ∀ p, out.levels[0]? = some p → p.2 = Qdir W γ (labOf p.1) := by
  unfold louvainDir at h
  simp only [bind, Except.bind, pure, Except.pure] at h
  split_ifs at h with hs0
  generalize hl : louvainDirLoop W (total W) γ (ds.length + 1) (lv0 n g0) ds = res at h
  cases res with
  | error e => simp at h
  | ok r =>
    obtain ⟨L, rest⟩ := r
    simp only at h
    cases h
    -- first step of the loop
    unfold louvainDirLoop at hl
    simp only [bind, Except.bind, pure, Except.pure] at hl
    generalize hp : passes (dirKern n) n (lv0 n g0).nh (ds.length + 1) _ ds = res at hl
    cases res with
    | error e => simp at hl
    | ok r =>
      obtain ⟨x, rest1⟩ := r
      simp only at hl
      by_cases hst : x.starved.isSome = true
      · simp only [hst, if_true, Except.ok.injEq, Prod.mk.injEq] at hl
        obtain ⟨rfl, _⟩ := hl
        intro p hp'; simp [lv0] at hp'
      · simp only [hst] at hl
        obtain ⟨m', hm', _⟩ := toLab_ok (labFnA x.m (lv0 n g0).nh)
        simp only [hm'] at hl
        by_cases hstop : ((lv0 n g0).hasPrev && decide (qTraceDot (aggA W m' (lv0 n g0).nh) (total W) γ - (lv0 n g0).qprev < thr)) = true
        · simp only [hstop, if_true, Except.ok.injEq, Prod.mk.injEq] at hl
          obtain ⟨rfl, _⟩ := hl
          intro p hp'; simp [lv0] at hp'
        · simp only [hstop, if_false] at hl
          obtain ⟨ext, he⟩ := louvainDirLoop_suffix W (total W) γ _ _ _ _ _ hl
          intro p hp'
          simp only [he, List.reverse_append, List.reverse_cons, lv0, List.reverse_nil, List.nil_append,
            List.append_assoc, List.cons_append, List.getElem?_cons_zero, Option.some.injEq] at hp'
          subst hp'
          simp only
          have hnh : (lv0 n g0).nh = n := rfl
          rw [show aggA W m' n = aggFull W m' from aggA_full W m', qTraceDot_aggFull]
          have : labOf (compose (idLab n) m') = labOf m' := compose_idLab m'
          rw [this]

end Bct.Modularity

namespace Bct.Modularity
open Finset

variable {n : ℕ}
variable {g0 : GState}

/-- on symmetric input the start of a level of `modularity_louvain_dir` as written (`knm_i = W.copy()`) satisfies the
bookkeeping invariant of the directed kernel: `knm_o + knm_i = 2W = W + Wᵀ` -/
theorem dirInitLevel_inv_symm (W : RMat n) (γ : ℚ) (hW : Symm W) :
    DirInv W γ (dirInitLevel W (total W) γ) (labOf (idLab n)) := by
  rw [labOf_idLab]
  refine ⟨rfl, rfl, rfl, ?_, ?_, ?_, ?_, ?_⟩
  · intro i; simp [dirInitLevel]
  · intro i; simp [dirInitLevel]
  · intro i t
    simp only [dirInitLevel, id_eq]
    rw [Finset.sum_eq_single t]
    · simp [hW t i]
    · intro j _ hj; simp [hj]
    · simp
  · intro t; simp [dirInitLevel]
  · intro t; simp [dirInitLevel]

theorem labFnA_full (m : Lab n) (i j : Fin n) : labFnA m n i = labFnA m n j ↔ labOf m i = labOf m j := by
  simp only [labFnA, i.isLt, j.isLt, if_true, labOf_apply]
  constructor
  · intro e; exact Fin.ext (by exact_mod_cast e)
  · intro e; rw [e]

/-- **first level of `modularity_louvain_dir` on symmetric input**: its gains are exact there (`knm_i = W.copy() = W.T`), so the
first level is at least as good as the all-singletons start. -/
theorem louvainDir_level1_monotone_symm (W : RMat n) (γ : ℚ) (ds : List ℕ) (out : Out n)
    (hW : Symm W) (hs : 0 < total W) (h : louvainDir W γ ds g0 = .ok out) :
    ∀ p, out.levels[0]? = some p → Qdir W γ (id : Fin n → Fin n) ≤ Qdir W γ (labOf p.1) := by
  unfold louvainDir at h
  simp only [bind, Except.bind, pure, Except.pure] at h
  split_ifs at h with hs0
  generalize hl : louvainDirLoop W (total W) γ (ds.length + 1) (lv0 n g0) ds = res at h
  cases res with
  | error e => simp at h
  | ok r =>
    obtain ⟨L, rest⟩ := r
    simp only at h
    cases h
    unfold louvainDirLoop at hl
    simp only [bind, Except.bind, pure, Except.pure] at hl
    generalize hp : passes (dirKern n) n (lv0 n g0).nh (ds.length + 1) _ ds = res at hl
    cases res with
    | error e => simp at hl
    | ok r =>
      obtain ⟨x, rest1⟩ := r
      simp only at hl
      by_cases hst : x.starved.isSome = true
      · simp only [hst, if_true, Except.ok.injEq, Prod.mk.injEq] at hl
        obtain ⟨rfl, _⟩ := hl
        intro p hp'; simp [lv0] at hp'
      · simp only [hst] at hl
        obtain ⟨m', hm', _⟩ := toLab_ok (labFnA x.m (lv0 n g0).nh)
        simp only [hm'] at hl
        by_cases hstop : ((lv0 n g0).hasPrev && decide (qTraceDot (aggA W m' (lv0 n g0).nh) (total W) γ - (lv0 n g0).qprev < thr)) = true
        · simp only [hstop, if_true, Except.ok.injEq, Prod.mk.injEq] at hl
          obtain ⟨rfl, _⟩ := hl
          intro p hp'; simp [lv0] at hp'
        · simp only [hstop] at hl
          obtain ⟨ext, he⟩ := louvainDirLoop_suffix W (total W) γ _ _ _ _ _ hl
          intro p hp'
          simp only [he, List.reverse_append, List.reverse_cons, lv0, List.reverse_nil, List.nil_append,
            List.append_assoc, List.cons_append, List.getElem?_cons_zero, Option.some.injEq] at hp'
          subst hp'
          simp only
          obtain ⟨_, hmono⟩ := passes_spec (dirKern_spec W γ) n n _ _ _ _ _
            (by simpa [pst0, lv0] using dirInitLevel_inv_symm W γ hW) hp
          have hnh : (lv0 n g0).nh = n := rfl
          rw [hnh] at hm'
          unfold Qdir
          apply div_le_div_of_nonneg_right _ (le_of_lt hs)
          rw [← Qobj_symmetrise, ← Qobj_symmetrise (Bmod W γ), compose_idLab]
          calc Qobj (symmetrise (Bmod W γ)) (id : Fin n → Fin n)
              = Qobj (symmetrise (Bmod W γ)) (labOf (idLab n)) := by rw [labOf_idLab]
            _ ≤ Qobj (symmetrise (Bmod W γ)) (labOf x.m) := by simpa [pst0, lv0] using hmono
            _ = Qobj (symmetrise (Bmod W γ)) (labOf m') :=
                Qobj_congr _ _ _ (fun i j => by rw [← labFnA_full, labOf_toLab_congr (labFnA x.m n) m' hm'])

end Bct.Modularity
