import BctVerif.Lemmas.ModularityAgg
import BctVerif.Lemmas.ModularityRelabel

/-! # Whole runs: `finetuneUnd`, `louvainUnd` -/
namespace Bct.Modularity
open Finset

variable {n : ℕ}
variable {g0 : GState}

theorem labOf_toLab_congr (c : Fin n → ℤ) (l : Lab n) (h : toLab c = .ok l) (i j : Fin n) :
    c i = c j ↔ labOf l i = labOf l j := by
  rw [← rank_eq_iff c i j, ← toLab_eq c l h i, ← toLab_eq c l h j]
  simp only [labOf_apply]
  exact ⟨fun e => Fin.ext e, fun e => by rw [e]⟩

theorem labFn_congr (m : Lab n) (i j : Fin n) : labFn m i = labFn m j ↔ labOf m i = labOf m j := by
  simp only [labFn, labOf_apply]
  constructor
  · intro e; exact Fin.ext (by exact_mod_cast e)
  · intro e; rw [e]

theorem Qund_div_le {α β : Type} [DecidableEq α] [DecidableEq β] (W : RMat n) (γ : ℚ) (hs : 0 < total W)
    (c : Fin n → α) (c' : Fin n → β) (h : Qobj (Bund W γ) c ≤ Qobj (Bund W γ) c') : Qund W γ c ≤ Qund W γ c' := by
  unfold Qund; exact div_le_div_of_nonneg_right h (le_of_lt hs)

/-- **modularity_finetune_und: C02 + C07 for the model.** On a symmetric network of positive total
weight, for every start partition and every sequence of visiting orders, the routine returns labels that
are the ranks of its final module slots (so exactly `1..k`, `relabel_range`), reports exactly the
modularity of the returned partition, and that modularity is at least the modularity of the start. -/
theorem finetuneUnd_spec (W : RMat n) (γ : ℚ) (c0 : Fin n → ℤ) (ds : List ℕ) (out : Out n)
    (hW : Symm W) (hs : 0 < total W) (h : finetuneUnd W γ c0 ds g0 = .ok out) :
    ∃ (c' : Lab n) (q : ℚ) (mfin : Fin n → ℤ), out.levels = [(c', q)] ∧
      (∀ i : Fin n, (c'[i] : ℕ) = rank mfin i) ∧
      q = Qund W γ (labOf c') ∧ Qund W γ c0 ≤ Qund W γ (labOf c') := by
  unfold finetuneUnd at h
  have hs0 : ¬ total W = 0 := ne_of_gt hs
  obtain ⟨c, hc, _⟩ := toLab_ok c0
  simp only [hs0, if_false, hc, bind, Except.bind, pure, Except.pure] at h
  cases hp : passes (undKern n) n n (ds.length + 1) (pst0 (undInitFine W γ c) c g0) ds with
  | error e => simp [hp] at h
  | ok r =>
    obtain ⟨x, rest⟩ := r
    simp only [hp] at h
    obtain ⟨c', hc', _⟩ := toLab_ok (labFn x.m)
    simp only [hc'] at h
    cases h
    have hinv := undInitFine_inv W γ hW c
    obtain ⟨_, hmono⟩ := passes_spec (undKern_spec W γ hW) n n _ _ _ _ _ (by simpa [pst0] using hinv) hp
    refine ⟨c', _, labFn x.m, rfl, fun i => toLab_eq _ _ hc' i, ?_, ?_⟩
    · rw [aggLower_eq W hW, qTraceDot_aggFull, Qund_eq_Qdir W γ hW]
    · apply Qund_div_le W γ hs
      calc Qobj (Bund W γ) c0 = Qobj (Bund W γ) (labOf c) :=
            Qobj_congr _ _ _ (labOf_toLab_congr c0 c hc)
        _ ≤ Qobj (Bund W γ) (labOf x.m) := by simpa [pst0] using hmono
        _ = Qobj (Bund W γ) (labOf c') :=
            Qobj_congr _ _ _ (fun i j => by
              rw [← labFn_congr, labOf_toLab_congr (labFn x.m) c' hc'])

end Bct.Modularity

namespace Bct.Modularity
open Finset

variable {n : ℕ}

theorem labOf_compose (ci m : Lab n) : labOf (compose ci m) = fun v => labOf m (labOf ci v) := by
  funext v; simp [compose, labOf]

theorem Qdir_div_le {α β : Type} [DecidableEq α] [DecidableEq β] (W : RMat n) (γ : ℚ) (hs : 0 < total W)
    (c : Fin n → α) (c' : Fin n → β) (h : Qobj (Bmod W γ) c ≤ Qobj (Bmod W γ) c') : Qdir W γ c ≤ Qdir W γ c' := by
  unfold Qdir; exact div_le_div_of_nonneg_right h (le_of_lt hs)

/-- the loop only ever puts new levels in front of the ones it has -/
theorem louvainUndLoop_suffix (s γ : ℚ) :
    ∀ (fuel : ℕ) (W : RMat n) (L L' : LvSt n) (ds rest : List ℕ), louvainUndLoop s γ fuel W L ds = .ok (L', rest) →
      ∃ ext, L'.acc = ext ++ L.acc := by
  intro fuel
  induction fuel with
  | zero => intro W L L' ds rest h; simp [louvainUndLoop] at h
  | succ fuel ih =>
    intro W L L' ds rest h
    unfold louvainUndLoop at h
    simp only [bind, Except.bind, pure, Except.pure] at h
    generalize hp : passes (undKern n) L.nh L.nh (ds.length + 1) _ ds = res at h
    cases res with
    | error e => simp at h
    | ok r =>
      obtain ⟨x, rest1⟩ := r
      simp only at h
      by_cases hst : x.starved.isSome = true
      · simp only [hst, if_true] at h
        cases h
        exact ⟨[], rfl⟩
      · simp only [hst] at h
        obtain ⟨m', hm', _⟩ := toLab_ok (labFn x.m)
        simp only [hm'] at h
        by_cases hstop : (L.hasPrev && decide (qTraceDot (aggUpper W m') s γ - L.qprev < thr)) = true
        · simp only [hstop, if_true] at h
          cases h
          exact ⟨[], rfl⟩
        · simp only [hstop] at h
          obtain ⟨ext, he⟩ := ih _ _ _ _ _ h
          exact ⟨ext ++ [(compose L.ci m', qTraceDot (aggUpper W m') s γ)], by rw [he]; simp⟩

/-- a level as `modularity_louvain_und` reports it: `q` is the modularity of the level's partition of the original
network, and it is at least the modularity of the all-singletons start -/
def Genuine (W0 : RMat n) (γ : ℚ) (p : Lab n × ℚ) : Prop :=
  p.2 = Qund W0 γ (labOf p.1) ∧ Qund W0 γ (id : Fin n → Fin n) ≤ p.2

/-- invariant of the level loop of `modularity_louvain_und` -/
structure LvInv (W0 : RMat n) (γ : ℚ) (W : RMat n) (L : LvSt n) : Prop where
  symm : Symm W
  tot : total W = total W0
  /-- `W` is `W0` aggregated along `L.ci` -/
  agg : ∀ c' : Fin n → Fin n, Qdir W γ c' = Qdir W0 γ (fun v => c' (labOf L.ci v))
  start : Qund W0 γ (id : Fin n → Fin n) ≤ Qdir W0 γ (labOf L.ci)
  /-- either nothing has been kept yet (`q[0] = -inf`), or the most recent level is `(L.ci, L.qprev)` -/
  head : (L.acc = [] ∧ L.hasPrev = false) ∨ (∃ tl, L.acc = (L.ci, L.qprev) :: tl) ∧ L.hasPrev = true
  ok : ∀ p ∈ L.acc, Genuine W0 γ p
  /-- most recent first: each kept level gained at least `1e-10` over the one before -/
  chain : List.IsChain (fun a b : Lab n × ℚ => b.2 + thr ≤ a.2) L.acc

theorem louvainUndLoop_spec (W0 : RMat n) (γ : ℚ) (hW0 : Symm W0) (hs : 0 < total W0) :
    ∀ (fuel : ℕ) (W : RMat n) (L L' : LvSt n) (ds rest : List ℕ), LvInv W0 γ W L →
      louvainUndLoop (total W0) γ fuel W L ds = .ok (L', rest) →
      (∀ p ∈ L'.acc, Genuine W0 γ p) ∧ List.IsChain (fun a b : Lab n × ℚ => b.2 + thr ≤ a.2) L'.acc ∧
      -- a level is added unless the draws ran out or (not at the first level) the new level fails to gain `1e-10`
      (L'.starved = none → L.hasPrev = false → L'.acc ≠ []) := by
  intro fuel
  induction fuel with
  | zero => intro W L L' ds rest _ h; simp [louvainUndLoop] at h
  | succ fuel ih =>
    intro W L L' ds rest hL h
    unfold louvainUndLoop at h
    simp only [bind, Except.bind, pure, Except.pure] at h
    generalize hp : passes (undKern n) L.nh L.nh (ds.length + 1) _ ds = res at h
    cases res with
    | error e => simp at h
    | ok r =>
      obtain ⟨x, rest1⟩ := r
      simp only at h
      by_cases hst : x.starved.isSome = true
      · simp only [hst, if_true] at h
        cases h
        refine ⟨hL.ok, hL.chain, fun hn => ?_⟩
        simp only at hn
        rw [hn] at hst; simp at hst
      · simp only [hst] at h
        obtain ⟨m', hm', _⟩ := toLab_ok (labFn x.m)
        simp only [hm'] at h
        -- the sweep is monotone on the current (aggregated) network
        have hinv : UndInv W γ (undInitLevel W (total W0) γ) (labOf (idLab n)) := by
          rw [← hL.tot]; exact undInitLevel_inv W γ hL.symm
        obtain ⟨_, hmono⟩ := passes_spec (undKern_spec W γ hL.symm) L.nh L.nh _ _ _ _ _ (by simpa [pst0] using hinv) hp
        have hsW : 0 < total W := by rw [hL.tot]; exact hs
        have hmono' : Qdir W γ (id : Fin n → Fin n) ≤ Qdir W γ (labOf m') := by
          rw [← Qund_eq_Qdir W γ hL.symm, ← Qund_eq_Qdir W γ hL.symm]
          apply Qund_div_le W γ hsW
          calc Qobj (Bund W γ) (id : Fin n → Fin n) = Qobj (Bund W γ) (labOf (idLab n)) := by rw [labOf_idLab]
            _ ≤ Qobj (Bund W γ) (labOf x.m) := by simpa [pst0] using hmono
            _ = Qobj (Bund W γ) (labOf m') :=
                Qobj_congr _ _ _ (fun i j => by rw [← labFn_congr, labOf_toLab_congr (labFn x.m) m' hm'])
        -- reported q of the new level = true modularity of the composite partition
        have hq : qTraceDot (aggUpper W m') (total W0) γ = Qdir W0 γ (labOf (compose L.ci m')) := by
          rw [aggUpper_eq W hL.symm, ← hL.tot, qTraceDot_aggFull, hL.agg, labOf_compose]
        have hprev_le : Qdir W0 γ (labOf L.ci) ≤ Qdir W0 γ (labOf (compose L.ci m')) := by
          have := hL.agg id
          simp only [id_eq] at this
          rw [← this, labOf_compose, ← hL.agg]; exact hmono'
        set q := qTraceDot (aggUpper W m') (total W0) γ with hqdef
        have hgen : Genuine W0 γ (compose L.ci m', q) :=
          ⟨by simp only; rw [hq, Qund_eq_Qdir W0 γ hW0], by simp only; rw [hq]; exact le_trans hL.start hprev_le⟩
        by_cases hstop : (L.hasPrev && decide (q - L.qprev < thr)) = true
        · simp only [hstop, if_true] at h
          cases h
          refine ⟨hL.ok, hL.chain, fun _ hf => ?_⟩
          simp only [hf, Bool.false_and] at hstop
          exact absurd hstop (by simp)
        · simp only [hstop] at h
          have hrec : LvInv W0 γ (aggUpper W m')
              { nh := nextSize m' L.nh, ci := compose L.ci m', qprev := q, acc := (compose L.ci m', q) :: L.acc,
                moves := L.moves + x.moves, ties := L.ties + x.ties, g := x.g } := by
            refine ⟨?_, ?_, ?_, ?_, Or.inr ⟨⟨L.acc, rfl⟩, rfl⟩, ?_, ?_⟩
            · rw [aggUpper_eq W hL.symm]; exact aggFull_symm W hL.symm m'
            · rw [aggUpper_eq W hL.symm, total_aggFull, hL.tot]
            · intro c'
              rw [aggUpper_eq W hL.symm, aggregate_Qdir, hL.agg, labOf_compose]
              rfl
            · exact le_trans hL.start hprev_le
            · intro p hp'
              rcases List.mem_cons.mp hp' with rfl | hp'
              · exact hgen
              · exact hL.ok p hp'
            · rcases hL.head with ⟨he, _⟩ | ⟨⟨tl, htl⟩, hhp⟩
              · simp only [he]; exact List.isChain_singleton _
              · rw [htl]
                refine List.IsChain.cons_cons ?_ (htl ▸ hL.chain)
                simp only
                simp only [hhp, Bool.true_and, decide_eq_true_eq, not_lt] at hstop
                linarith
          obtain ⟨h1, h2, _⟩ := ih _ _ _ _ _ hrec h
          refine ⟨h1, h2, fun _ _ => ?_⟩
          -- the recursive call only extends the list
          have : ∃ ext, L'.acc = ext ++ (compose L.ci m', q) :: L.acc := louvainUndLoop_suffix _ _ _ _ _ _ _ _ h
          obtain ⟨ext, he⟩ := this
          rw [he]; simp

theorem lv0_inv (W0 : RMat n) (γ : ℚ) (hW0 : Symm W0) (g : GState) : LvInv W0 γ W0 (lv0 n g) where
  symm := hW0
  tot := rfl
  agg := by
    intro c'
    have : labOf (lv0 n g).ci = id := labOf_idLab
    rw [this]; rfl
  start := by
    have : labOf (lv0 n g).ci = id := labOf_idLab
    rw [this, Qund_eq_Qdir W0 γ hW0]
  head := Or.inl ⟨rfl, rfl⟩
  ok := by intro p hp; simp [lv0] at hp
  chain := by simp [lv0]

/-- **modularity_louvain_und: C02 + C07 for the model.** On a symmetric network of positive total weight
and for every sequence of visiting orders: every level `(ci, q)` in `out.levels` (`hierarchy=True` returns all
of them, the plain call the last) reports exactly the modularity of `ci` on the original network, that value
is at least the modularity of the all-singletons start, from level to level `q` increases by at least `1e-10`,
and there is at least one level unless the draw list ran out (`q[0] = -inf`: the first level is always kept). -/
theorem louvainUnd_spec (W : RMat n) (γ : ℚ) (ds : List ℕ) (out : Out n)
    (hW : Symm W) (hs : 0 < total W) (h : louvainUnd W γ ds g0 = .ok out) :
    (∀ p ∈ out.levels, Genuine W γ p) ∧
    List.IsChain (fun a b : Lab n × ℚ => a.2 + thr ≤ b.2) out.levels ∧
    (out.starved = none → 1 ≤ out.levels.length) := by
  unfold louvainUnd at h
  have hs0 : ¬ total W = 0 := ne_of_gt hs
  simp only [hs0, if_false, bind, Except.bind, pure, Except.pure] at h
  cases hl : louvainUndLoop (total W) γ (ds.length + 1) W (lv0 n g0) ds with
  | error e => simp [hl] at h
  | ok r =>
    obtain ⟨L, rest⟩ := r
    simp only [hl] at h
    cases h
    obtain ⟨hok, hch, hne⟩ := louvainUndLoop_spec W γ hW hs _ _ _ _ _ _ (lv0_inv W γ hW g0) hl
    refine ⟨fun p hp => hok p (List.mem_reverse.mp hp), ?_, fun hst => ?_⟩
    · simp only
      rw [List.isChain_reverse]
      exact hch
    · simp only at hst
      have := hne hst rfl
      simp only [List.length_reverse]
      exact List.length_pos_of_ne_nil this

/-- for non-negative symmetric weights the modularity of the all-singletons partition is at least `−γ` -/
theorem Qund_id_ge (W : RMat n) (γ : ℚ) (hs : 0 < total W) (hnn : ∀ i j, 0 ≤ W.get i j) (hγ : 0 ≤ γ) :
    -γ ≤ Qund W γ (id : Fin n → Fin n) := by
  unfold Qund
  rw [le_div_iff₀ hs, Qobj_eq]
  have hq : ∀ i, (∑ j, if id i = id j then (Bund W γ).get i j else 0)
      = W.get i i - γ * rowSum W i * rowSum W i / total W := by intro i; simp
  simp only [hq, Finset.sum_sub_distrib]
  have hk : ∀ i, 0 ≤ rowSum W i := fun i => by rw [rowSum_eq]; exact Finset.sum_nonneg (fun j _ => hnn i j)
  have hk_le : ∀ i, rowSum W i ≤ total W := fun i => by
    rw [total_eq_sum_rowSum]; exact Finset.single_le_sum (fun j _ => hk j) (Finset.mem_univ i)
  have htr : 0 ≤ ∑ i, W.get i i := Finset.sum_nonneg (fun i _ => hnn i i)
  have hsq : ∑ i, γ * rowSum W i * rowSum W i / total W ≤ γ * total W := by
    have : ∀ i, γ * rowSum W i * rowSum W i / total W ≤ γ * rowSum W i := by
      intro i
      rw [div_le_iff₀ hs]
      have := mul_le_mul_of_nonneg_left (hk_le i) (mul_nonneg hγ (hk i))
      linarith
    calc ∑ i, γ * rowSum W i * rowSum W i / total W ≤ ∑ i, γ * rowSum W i := Finset.sum_le_sum (fun i _ => this i)
      _ = γ * total W := by rw [← Finset.mul_sum, ← total_eq_sum_rowSum]
  linarith

end Bct.Modularity
