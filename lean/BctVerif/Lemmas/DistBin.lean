import BctVerif.Lemmas.DistBase

/-!
# `distance_bin` (algebraic shortest paths): the loop `D += n*L; nPATH = nPATH @ G; L = (nPATH != 0) * (D == 0)`

`Reach G k i j` : there is a walk with exactly `k` edges from `i` to `j`.  Loop invariant `BinInv`: the current power
is non-zero exactly on `Reach k`, every assigned off-diagonal `D i j` is a `Reach`-able edge count `< k`, every pair
reachable in `d < k` edges is assigned a value `≤ d`.  At exit these give zero diagonal, edge feasibility and witness
walks, and the hub lemma `lower_of_feasible` does the rest — no shortest-walk surgery is needed.
-/
namespace Bct.Dist
variable {n : ℕ}

/-- hop length matrix of a 0/non-0 matrix: 1 for a connection, `⊤` otherwise -/
def hopLenN (G : AMat ℕ n) : LMat n := fun i j => if G.get i j = 0 then ⊤ else 1

def Reach (G : AMat ℕ n) : ℕ → Fin n → Fin n → Prop
  | 0, i, j => i = j
  | k + 1, i, j => ∃ x, Reach G k i x ∧ G.get x j ≠ 0

theorem reach_walk (G : AMat ℕ n) : ∀ (d : ℕ) (i j : Fin n), Reach G d i j →
    ∃ p : List (Fin n), p.length = d ∧ walkEnd i p = j ∧ walkLen (hopLenN G) i p = (d : ℚ) := by
  intro d
  induction d with
  | zero => intro i j h; exact ⟨[], rfl, h, by simp [walkLen]⟩
  | succ d ih =>
    intro i j ⟨x, hx, hg⟩
    obtain ⟨p, hl, he, hw⟩ := ih i x hx
    refine ⟨p ++ [j], by simp [hl], ?_, ?_⟩
    · rw [walkEnd_append]; rfl
    · rw [walkLen_append, he, hw]
      simp only [walkLen, hopLenN, if_neg hg, add_zero]
      push_cast; rfl

theorem foldl_add_ne_zero (f : Fin n → ℕ) : ∀ (xs : List (Fin n)) (a : ℕ),
    xs.foldl (fun acc k => acc + f k) a ≠ 0 ↔ a ≠ 0 ∨ ∃ k ∈ xs, f k ≠ 0 := by
  intro xs
  induction xs with
  | nil => intro a; simp
  | cons x xs ih =>
    intro a
    simp only [List.foldl_cons, ih, List.mem_cons]
    constructor
    · rintro (h | ⟨k, hk, hf⟩)
      · by_cases ha : a = 0
        · right; exact ⟨x, Or.inl rfl, by omega⟩
        · left; exact ha
      · right; exact ⟨k, Or.inr hk, hf⟩
    · rintro (h | ⟨k, rfl | hk, hf⟩)
      · left; omega
      · left; omega
      · right; exact ⟨k, hk, hf⟩

theorem matMul_ne_zero (X Y : AMat ℕ n) (i j : Fin n) :
    (matMul X Y).get i j ≠ 0 ↔ ∃ x, X.get i x ≠ 0 ∧ Y.get x j ≠ 0 := by
  simp only [matMul, AMat.get_ofFn]
  rw [foldl_add_ne_zero (fun k => X.get i k * Y.get k j)]
  simp [Nat.mul_ne_zero_iff]

theorem boolMul_ne_zero (X Y : AMat ℕ n) (i j : Fin n) :
    (boolMul X Y).get i j ≠ 0 ↔ ∃ x, X.get i x ≠ 0 ∧ Y.get x j ≠ 0 := by
  rw [← matMul_ne_zero]
  simp only [boolMul, matMul, AMat.get_ofFn]
  split_ifs with h <;> simp [h]

theorem mem_cells (i j : Fin n) : (i, j) ∈ cells n := by
  simp [cells]

theorem anyTrue_false {M : AMat Bool n} (h : anyTrue M = false) (i j : Fin n) : M.get i j = false := by
  unfold anyTrue at h
  rw [List.any_eq_false] at h
  have := h (i, j) (mem_cells i j)
  simpa using this

structure BinInv (G : AMat ℕ n) (k : ℕ) (nP D : AMat ℕ n) (L : AMat Bool n) : Prop where
  kpos : 1 ≤ k
  pow : ∀ i j, nP.get i j ≠ 0 ↔ Reach G k i j
  dval : ∀ i j, i ≠ j → D.get i j ≠ 0 → D.get i j < k ∧ Reach G (D.get i j) i j
  dmin : ∀ i j, i ≠ j → ∀ d, 1 ≤ d → d < k → Reach G d i j → D.get i j ≠ 0 ∧ D.get i j ≤ d
  lmask : ∀ i j, i ≠ j → (L.get i j = true ↔ nP.get i j ≠ 0 ∧ D.get i j = 0)

theorem binInv_init (G : AMat ℕ n) :
    BinInv G 1 G (AMat.ofFn fun i j => if i = j then 1 else 0) (AMat.ofFn fun i j => G.get i j != 0) where
  kpos := le_refl _
  pow := by
    intro i j
    simp [Reach]
  dval := by
    intro i j hij h
    simp [hij] at h
  dmin := by
    intro i j _ d h1 h2
    omega
  lmask := by
    intro i j hij
    simp [hij]

theorem binInv_step (G : AMat ℕ n) (k : ℕ) (nP D : AMat ℕ n) (L : AMat Bool n) (h : BinInv G k nP D L) :
    BinInv G (k + 1) (boolMul nP G) (AMat.ofFn fun i j => D.get i j + (if L.get i j then k else 0))
      (AMat.ofFn fun i j => (boolMul nP G).get i j != 0 &&
        (AMat.ofFn fun i j => D.get i j + (if L.get i j then k else 0) : AMat ℕ n).get i j == 0) where
  kpos := by omega
  pow := by
    intro i j
    rw [boolMul_ne_zero]
    simp only [Reach]
    constructor
    · rintro ⟨x, h1, h2⟩; exact ⟨x, (h.pow i x).mp h1, h2⟩
    · rintro ⟨x, h1, h2⟩; exact ⟨x, (h.pow i x).mpr h1, h2⟩
  dval := by
    intro i j hij hne
    simp only [AMat.get_ofFn] at hne ⊢
    have hk := h.kpos
    by_cases hL : L.get i j = true
    · obtain ⟨hp, hd0⟩ := (h.lmask i j hij).mp hL
      simp only [hL, if_true, hd0, zero_add]
      exact ⟨by omega, (h.pow i j).mp hp⟩
    · simp only [hL, Bool.false_eq_true, if_false, add_zero] at hne ⊢
      obtain ⟨h1, h2⟩ := h.dval i j hij hne
      exact ⟨by omega, h2⟩
  dmin := by
    intro i j hij d hd1 hdk hr
    simp only [AMat.get_ofFn]
    have hk := h.kpos
    by_cases hlt : d < k
    · obtain ⟨h1, h2⟩ := h.dmin i j hij d hd1 hlt hr
      have hL : ¬ L.get i j = true := fun hL => h1 ((h.lmask i j hij).mp hL).2
      simp only [hL, Bool.false_eq_true, if_false, add_zero]
      exact ⟨h1, h2⟩
    · have hdk' : d = k := by omega
      subst hdk'
      have hp := (h.pow i j).mpr hr
      by_cases hd0 : D.get i j = 0
      · have hL : L.get i j = true := (h.lmask i j hij).mpr ⟨hp, hd0⟩
        simp only [hL, if_true, hd0, zero_add]
        exact ⟨by omega, le_refl _⟩
      · have hL : ¬ L.get i j = true := fun hL => hd0 ((h.lmask i j hij).mp hL).2
        simp only [hL, Bool.false_eq_true, if_false, add_zero]
        exact ⟨hd0, by have := (h.dval i j hij hd0).1; omega⟩
  lmask := by
    intro i j _
    simp only [AMat.get_ofFn, Bool.and_eq_true, bne_iff_ne, beq_iff_eq]

/-- what the raw result of the loop satisfies at exit -/
structure BinFinal (G : AMat ℕ n) (D : AMat ℕ n) : Prop where
  wit : ∀ i j, i ≠ j → D.get i j ≠ 0 → Reach G (D.get i j) i j
  feas : ∀ i x j, i ≠ j → G.get x j ≠ 0 → (x = i ∨ D.get i x ≠ 0) →
    D.get i j ≠ 0 ∧ D.get i j ≤ (if x = i then 0 else D.get i x) + 1

theorem binFinal_of_exit (G : AMat ℕ n) (k : ℕ) (nP D : AMat ℕ n) (L : AMat Bool n) (h : BinInv G k nP D L)
    (hstop : anyTrue L = false) : BinFinal G D := by
  have hk := h.kpos
  -- reachable in d ≤ k edges ⇒ assigned, with value ≤ d
  have upto : ∀ i j, i ≠ j → ∀ d, 1 ≤ d → d ≤ k → Reach G d i j → D.get i j ≠ 0 ∧ D.get i j ≤ d := by
    intro i j hij d hd1 hdk hr
    by_cases hlt : d < k
    · exact h.dmin i j hij d hd1 hlt hr
    · have : d = k := by omega
      subst this
      have hp := (h.pow i j).mpr hr
      have hL : ¬ L.get i j = true := by rw [anyTrue_false hstop i j]; decide
      have hd0 : D.get i j ≠ 0 := fun hd0 => hL ((h.lmask i j hij).mpr ⟨hp, hd0⟩)
      exact ⟨hd0, by have := (h.dval i j hij hd0).1; omega⟩
  constructor
  · intro i j hij hne; exact (h.dval i j hij hne).2
  · intro i x j hij hg hx
    by_cases hxi : x = i
    · subst hxi
      simp only [if_true, zero_add]
      exact upto x j hij 1 (le_refl _) hk ⟨x, rfl, hg⟩
    · simp only [hxi, if_false]
      have hne : D.get i x ≠ 0 := by
        rcases hx with e | e
        · exact absurd e hxi
        · exact e
      obtain ⟨h1, h2⟩ := h.dval i x (Ne.symm hxi) hne
      exact upto i j hij (D.get i x + 1) (by omega) (by omega) ⟨x, h2, hg⟩

theorem binLoop_final (G : AMat ℕ n) : ∀ (fuel k : ℕ) (nP D : AMat ℕ n) (L : AMat Bool n) (R : AMat ℕ n),
    BinInv G k nP D L → binLoop G fuel k nP D L = some R → BinFinal G R := by
  intro fuel
  induction fuel with
  | zero => intro k nP D L R _ h; simp [binLoop] at h
  | succ fuel ih =>
    intro k nP D L R hinv h
    simp only [binLoop] at h
    by_cases hany : anyTrue L = true
    · rw [if_pos hany] at h
      exact ih _ _ _ _ R (binInv_step G k nP D L hinv) h
    · rw [if_neg hany] at h
      simp only [Option.some.injEq] at h
      subst h
      exact binFinal_of_exit G k nP D L hinv (by simpa using hany)

theorem binRaw_final (G : AMat ℕ n) (R : AMat ℕ n) (h : binRaw G = some R) : BinFinal G R :=
  binLoop_final G _ 1 G _ _ R (binInv_init G) h

/-- the matrix produced from the raw result by `D[D == 0] = inf; fill_diagonal(D, 0)` is the hop-distance matrix -/
def binOut (R : AMat ℕ n) : LMat n :=
  fun i j => if i = j then 0 else if R.get i j = 0 then ⊤ else ((R.get i j : ℕ) : ℚ)

theorem isDist_of_binFinal (G : AMat ℕ n) (R : AMat ℕ n) (h : BinFinal G R) : IsDist (hopLenN G) (binOut R) := by
  constructor
  · apply lower_of_feasible
    · intro i; simp [binOut]
    · intro i x j
      simp only [binOut]
      by_cases hg : G.get x j = 0
      · simp [hopLenN, hg]
      · simp only [hopLenN, if_neg hg]
        by_cases hij : i = j
        · simp only [hij, if_true]
          split_ifs
          · simp
          · simp
          · have : (0 : Len) ≤ ((R.get j x : ℕ) : ℚ) := by exact_mod_cast Nat.zero_le _
            calc (0 : Len) ≤ ((R.get j x : ℕ) : ℚ) := this
              _ = ((R.get j x : ℕ) : ℚ) + 0 := by simp
              _ ≤ ((R.get j x : ℕ) : ℚ) + 1 := by gcongr; exact zero_le_one
        · simp only [hij, if_false]
          by_cases hxi : i = x
          · subst hxi
            obtain ⟨h1, h2⟩ := h.feas i i j hij hg (Or.inl rfl)
            simp only [if_true, zero_add] at h2 ⊢
            rw [if_neg h1]
            have : ((R.get i j : ℕ) : ℚ) ≤ 1 := by exact_mod_cast h2
            exact_mod_cast this
          · simp only [hxi, if_false]
            by_cases hx0 : R.get i x = 0
            · simp [hx0]
            · obtain ⟨h1, h2⟩ := h.feas i x j hij hg (Or.inr hx0)
              rw [if_neg (Ne.symm hxi)] at h2
              rw [if_neg h1, if_neg hx0]
              have : ((R.get i j : ℕ) : ℚ) ≤ ((R.get i x : ℕ) : ℚ) + 1 := by exact_mod_cast h2
              exact_mod_cast this
  · intro i j hfin
    simp only [binOut] at hfin ⊢
    by_cases hij : i = j
    · subst hij; exact ⟨[], rfl, by simp [walkLen]⟩
    · simp only [hij, if_false] at hfin ⊢
      by_cases h0 : R.get i j = 0
      · simp [h0] at hfin
      · rw [if_neg h0]
        obtain ⟨p, _, he, hw⟩ := reach_walk G _ i j (h.wit i j hij h0)
        exact ⟨p, he, hw⟩

end Bct.Dist
