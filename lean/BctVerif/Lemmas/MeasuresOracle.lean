import BctVerif.Lemmas.MeasuresWalks
import BctVerif.Lemmas.WalksSpectral
/-!
# Spectral measures relative to the eigen-oracle contracts of the C18 slice

`linalg.eigh` / `linalg.eig` are oracles constrained by `EighOracle` / `EigOracle`.  If `(vals, vecs)` meets the contract for
`A`, then `(vals, rows of vecs renumbered)` meets it for the renumbered matrix, and the routine's post-processing of that
output is the renumbered result.  Together with `C18.subgraph_spec` (every contract-meeting output gives `diag(exp A)`) the
value of `subgraph_centrality` cannot depend on which eigenbasis the solver returns for either numbering.
-/
namespace Bct.Measures
open Bct Bct.Walks Bct.WalksAlg Matrix

variable {n : Nat} (σ : Equiv.Perm (Fin n))

/-- rows of an eigenvector matrix renumbered (executable) -/
def permRows {α : Type} (p : Fin n → Fin n) (V : AMat α n) : AMat α n := AMat.ofFn fun i k => V.get (p i) k

theorem eighOracle_perm {A : Matrix (Fin n) (Fin n) ℝ} {vals : Fin n → ℝ} {vecs : Matrix (Fin n) (Fin n) ℝ}
    (h : EighOracle A vals vecs) : EighOracle (A.submatrix σ σ) vals (vecs.submatrix σ id) := by
  constructor
  · have e1 : A.submatrix σ σ * vecs.submatrix σ id = (A * vecs).submatrix σ id := by
      ext i j
      simp only [Matrix.mul_apply, Matrix.submatrix_apply, id]
      exact Equiv.sum_comp σ (fun k => A (σ i) k * vecs k j)
    rw [e1, h.eigen]
    ext i j
    simp [Matrix.mul_apply, Matrix.submatrix_apply]
  · have e2 : vecs.submatrix σ id * (vecs.submatrix σ id)ᵀ = (vecs * vecsᵀ).submatrix σ σ := by
      ext i j
      simp [Matrix.mul_apply, Matrix.submatrix_apply, Matrix.transpose_apply]
    rw [e2, h.orth]
    ext i j
    simp [Matrix.one_apply, Matrix.submatrix_apply]

theorem subgraphCentrality_perm (vals : Fin n → ℝ) (vecs : Matrix (Fin n) (Fin n) ℝ) (i : Fin n) :
    subgraphCentrality vals (vecs.submatrix σ id) i = subgraphCentrality vals vecs (σ i) := rfl

theorem eigOracle_perm {A : Matrix (Fin n) (Fin n) ℝ} {vals : Fin n → ℝ} {vecs : Matrix (Fin n) (Fin n) ℝ} {i : Fin n}
    (h : EigOracle A vals vecs i) : EigOracle (A.submatrix σ σ) vals (vecs.submatrix σ id) i := by
  have key : ∀ x : Fin n → ℝ, (A.submatrix σ σ) *ᵥ (fun r => x (σ r)) = fun r => (A *ᵥ x) (σ r) := by
    intro x; funext r
    simp only [Matrix.mulVec, dotProduct, Matrix.submatrix_apply]
    exact Equiv.sum_comp σ (fun k => A (σ r) k * x k)
  constructor
  · have := key (fun r => vecs r i)
    simp only [Matrix.submatrix_apply, id] at this ⊢
    rw [this, h.eigen]
    rfl
  · simp only [Matrix.submatrix_apply, id]
    rw [Equiv.sum_comp σ (fun r => vecs r i * vecs r i)]
    exact h.unit
  · intro μ x hx hAx
    refine h.complete μ (fun r => x (σ.symm r)) ?_ ?_
    · intro h0
      apply hx
      funext r
      have := congrFun h0 (σ r)
      simpa using this
    · have hk := key (fun r => x (σ.symm r))
      simp only [Equiv.symm_apply_apply] at hk
      funext r
      have := congrFun hk (σ.symm r)
      simp only [Equiv.apply_symm_apply] at this
      rw [← this, hAx]
      simp

theorem eigCentrality_perm (vecs : Matrix (Fin n) (Fin n) ℝ) (i r : Fin n) :
    eigCentrality (vecs.submatrix σ id) i r = eigCentrality vecs i (σ r) := rfl

/-! ### the executable post-processing that the C18 driver runs (`subpost`, `eigpost`) -/

theorem subPost_perm (vecs : QMat n) (ev : QVec n) : subPost (permRows σ vecs) ev = permVec σ (subPost vecs ev) := by
  apply vec_ext; intro i
  simp [subPost, permRows, vget]

theorem eigPost_perm (vals : QVec n) (vecs : QMat n) :
    eigPost vals (permRows σ vecs) = (eigPost vals vecs).map fun r => (r.1, permVec σ r.2) := by
  unfold eigPost
  cases List.finRange n with
  | nil => rfl
  | cons i0 rest =>
    simp only [Except.map]
    congr 2
    apply vec_ext; intro r
    simp [permRows, vget]

end Bct.Measures
