import Mathlib.Algebra.BigOperators.Ring.Finset
import Mathlib.Algebra.Order.BigOperators.Group.Finset
import Mathlib.Algebra.Order.BigOperators.Ring.Finset
import Mathlib.Data.Fintype.BigOperators
import Mathlib.Algebra.Order.Field.Basic
import Mathlib.Tactic
/-!
# Fagiolo's bound over any linearly ordered field (ℚ for the model, ℝ for real weights), on function-valued matrices

`a` is a 0/1 matrix with empty diagonal, `s = a + aᵀ`, `K i = Σ_j s i j`.
* `pairs_identity` : `K(K-1) - 2 Σ_j a_ij a_ji = Σ_{j≠k} s_ij s_ik` (ordered pairs of neighbour links
  that are not the two directions of one bilateral connection);
* `fagiolo_bound`  : `Σ_{j,k} s_ij s_jk s_ki ≤ 2 (K(K-1) - 2 Σ_j a_ij a_ji)`;
* `fagiolo_bound_weighted` : the same with the numerator built from weights `0 ≤ r ≤ a`.
-/
namespace Bct.Cluster
open Finset

variable {n : ℕ} {K : Type} [Field K] [LinearOrder K] [IsStrictOrderedRing K]

/-- `Σ_j Σ_{k≠j} f j * f k = (Σ f)^2 - Σ f^2` -/
theorem sum_offdiag_mul (f : Fin n → K) :
    ∑ j, ∑ k, (if j = k then 0 else f j * f k) = (∑ j, f j) * (∑ j, f j) - ∑ j, f j * f j := by
  have : ∀ j, ∑ k, (if j = k then 0 else f j * f k) = f j * (∑ k, f k) - f j * f j := by
    intro j
    have e : ∀ k, (if j = k then (0:K) else f j * f k) = f j * f k - (if j = k then f j * f k else 0) := by
      intro k; by_cases h : j = k <;> simp [h]
    simp only [e, Finset.sum_sub_distrib, Finset.sum_ite_eq, Finset.mem_univ, if_true, Finset.mul_sum]
  simp only [this, Finset.sum_sub_distrib, ← Finset.sum_mul]

theorem pairs_identity (a : Fin n → Fin n → K) (h01 : ∀ i j, a i j = 0 ∨ a i j = 1) (i : Fin n) :
    (∑ j, (a i j + a j i)) * ((∑ j, (a i j + a j i)) - 1) - 2 * ∑ j, a i j * a j i
      = ∑ j, ∑ k, (if j = k then 0 else (a i j + a j i) * (a i k + a k i)) := by
  rw [sum_offdiag_mul]
  have hsq : ∀ x y, a x y * a x y = a x y := by
    intro x y; rcases h01 x y with h | h <;> simp [h]
  have step3 : ∑ j, (a i j + a j i) * (a i j + a j i) = (∑ j, (a i j + a j i)) + 2 * ∑ j, a i j * a j i := by
    simp only [Finset.mul_sum, ← Finset.sum_add_distrib]
    refine Finset.sum_congr rfl (fun j _ => ?_)
    nlinarith [hsq i j, hsq j i]
  rw [step3]; ring

/-- numerator monotonicity + Fagiolo: weights `0 ≤ r ≤ a` with `a` 0/1 and an empty diagonal -/
theorem fagiolo_bound_weighted (a r : Fin n → Fin n → K) (h01 : ∀ i j, a i j = 0 ∨ a i j = 1)
    (hdiag : ∀ i, a i i = 0) (hr0 : ∀ i j, 0 ≤ r i j) (hra : ∀ i j, r i j ≤ a i j) (i : Fin n) :
    ∑ j, ∑ k, (r i j + r j i) * (r j k + r k j) * (r k i + r i k)
      ≤ 2 * ((∑ j, (a i j + a j i)) * ((∑ j, (a i j + a j i)) - 1) - 2 * ∑ j, a i j * a j i) := by
  rw [pairs_identity a h01 i, Finset.mul_sum]
  refine Finset.sum_le_sum (fun j _ => ?_)
  rw [Finset.mul_sum]
  refine Finset.sum_le_sum (fun k _ => ?_)
  have ha_le : ∀ x y, a x y ≤ 1 := by intro x y; rcases h01 x y with h | h <;> simp [h]
  have hs0 : ∀ x y, 0 ≤ r x y + r y x := fun x y => add_nonneg (hr0 _ _) (hr0 _ _)
  have hsa : ∀ x y, r x y + r y x ≤ a x y + a y x := fun x y => add_le_add (hra _ _) (hra _ _)
  by_cases hjk : j = k
  · subst hjk
    have : r j j = 0 := le_antisymm (by simpa [hdiag j] using hra j j) (hr0 j j)
    simp [this]
  · simp only [hjk, if_false]
    have h2 : r j k + r k j ≤ 2 := by linarith [hsa j k, ha_le j k, ha_le k j]
    have hki : r k i + r i k ≤ a i k + a k i := by linarith [hsa i k]
    have hA : (r i j + r j i) * (r k i + r i k) ≤ (a i j + a j i) * (a i k + a k i) :=
      mul_le_mul (hsa i j) hki (by linarith [hs0 k i]) (le_trans (hs0 i j) (hsa i j))
    have hB : 0 ≤ (r i j + r j i) * (r k i + r i k) := mul_nonneg (hs0 _ _) (by linarith [hs0 k i])
    calc (r i j + r j i) * (r j k + r k j) * (r k i + r i k)
        = ((r i j + r j i) * (r k i + r i k)) * (r j k + r k j) := by ring
      _ ≤ ((r i j + r j i) * (r k i + r i k)) * 2 := mul_le_mul_of_nonneg_left h2 hB
      _ ≤ ((a i j + a j i) * (a i k + a k i)) * 2 := mul_le_mul_of_nonneg_right hA (by norm_num)
      _ = 2 * ((a i j + a j i) * (a i k + a k i)) := by ring

/-- Fagiolo's bound for a 0/1 matrix with empty diagonal -/
theorem fagiolo_bound (a : Fin n → Fin n → K) (h01 : ∀ i j, a i j = 0 ∨ a i j = 1)
    (hdiag : ∀ i, a i i = 0) (i : Fin n) :
    ∑ j, ∑ k, (a i j + a j i) * (a j k + a k j) * (a k i + a i k)
      ≤ 2 * ((∑ j, (a i j + a j i)) * ((∑ j, (a i j + a j i)) - 1) - 2 * ∑ j, a i j * a j i) :=
  fagiolo_bound_weighted a a h01 hdiag
    (fun i j => by rcases h01 i j with h | h <;> simp [h]) (fun _ _ => le_rfl) i

/-- two distinct indices carrying at least 1 each force a sum of nonnegative terms to be ≥ 2 -/
theorem two_le_sum (f : Fin n → K) (hf : ∀ x, 0 ≤ f x) {j k : Fin n} (hjk : j ≠ k)
    (hj : 1 ≤ f j) (hk : 1 ≤ f k) : 2 ≤ ∑ x, f x := by
  have h := Finset.sum_le_sum_of_subset_of_nonneg (s := {j, k}) (t := Finset.univ) (f := f)
    (Finset.subset_univ _) (fun x _ _ => hf x)
  rw [Finset.sum_pair hjk] at h
  linarith

end Bct.Cluster
