import BctVerif.Model.Synth
import Mathlib.Data.List.Perm.Basic
import Mathlib.Data.List.Nodup
import Mathlib.Data.List.ProdSigma
import Mathlib.Data.List.Range
import Mathlib.Algebra.BigOperators.Group.List.Basic
import Mathlib.Algebra.BigOperators.Group.Finset.Basic
import Mathlib.Data.Fintype.BigOperators
import Mathlib.Data.Fintype.Prod
import Mathlib.Tactic

/-!
# C20 helper lemmas: cell lists, `matSum` (= `np.sum`), indicator matrices, `writeOnes`, `choose`
-/
namespace Bct.Synth
open List

variable {n : ℕ}

def allCells (n : ℕ) : List (Cell n) := List.product (List.finRange n) (List.finRange n)

def cellVal (X : AMat Int n) (c : Cell n) : Int := X.get c.1 c.2

theorem allCells_nodup : (allCells n).Nodup := List.Nodup.product (List.nodup_finRange n) (List.nodup_finRange n)

theorem mem_allCells (c : Cell n) : c ∈ allCells n := by
  obtain ⟨i, j⟩ := c; exact List.pair_mem_product.2 ⟨List.mem_finRange i, List.mem_finRange j⟩

theorem allCells_coe : ((allCells n : List (Cell n)) : Multiset (Cell n)) = Finset.univ.val := by
  have h1 : ((allCells n : List (Cell n)) : Multiset (Cell n)).Nodup := allCells_nodup
  have h2 : (Finset.univ : Finset (Cell n)).val.Nodup := Finset.univ.nodup
  exact (Multiset.Nodup.ext h1 h2).2 (fun a => by simp [mem_allCells])

theorem allCells_length : (allCells n).length = n * n := by
  show ((List.finRange n) ×ˢ (List.finRange n)).length = n * n
  rw [List.length_product]; simp

/-- the model's `matSum` (`np.sum`) as a list sum over all cells … -/
theorem matSum_eq_list (A : AMat Int n) : matSum A = ((allCells n).map (cellVal A)).sum := by
  unfold matSum allCells List.product
  rw [List.sum_eq_foldl, List.foldl_map, List.foldl_flatMap]
  congr 1; funext acc i
  rw [List.foldl_map]
  rfl

/-- … and as the double finite sum of the function view -/
theorem matSum_eq_sum (A : AMat Int n) : matSum A = ∑ i, ∑ j, A.toFun i j := by
  rw [matSum_eq_list, ← Fintype.sum_prod_type']
  have : (∑ x : Fin n × Fin n, A.toFun x.1 x.2) = (Finset.univ.val.map (cellVal A)).sum := rfl
  rw [this, ← allCells_coe]
  simp

/-- sum of a 0/1 indicator over a list = number of cells satisfying it -/
theorem sum_ind (P : Cell n → Bool) (l : List (Cell n)) :
    (l.map fun c => if P c then (1 : Int) else 0).sum = (l.countP P : Int) := by
  induction l with
  | nil => simp
  | cons c l ih =>
    simp only [List.map_cons, List.sum_cons, ih, List.countP_cons]
    cases P c <;> simp; omega

/-- a matrix whose cells are the 0/1 indicator of `P` sums to the number of cells satisfying `P` -/
theorem matSum_ind (A : AMat Int n) (P : Cell n → Bool) (h : ∀ c, cellVal A c = if P c then 1 else 0) :
    matSum A = ((allCells n).countP P : Int) := by
  rw [matSum_eq_list, ← sum_ind]
  congr 1
  exact List.map_congr_left fun c _ => h c

/-! ### `writeOnes`, `choose` -/

theorem cellVal_set (M : AMat Int n) (i j : Fin n) (v : Int) (c : Cell n) :
    cellVal (M.set i j v) c = if c = (i, j) then v else cellVal M c := by
  obtain ⟨x, y⟩ := c
  simp [cellVal, AMat.get_set, Prod.ext_iff]

theorem cellVal_zero (c : Cell n) : cellVal (zeroMat n) c = 0 := by simp [cellVal, zeroMat]

theorem writeOnes_val : ∀ (L : List (Cell n)) (M : AMat Int n) (c : Cell n),
    cellVal (writeOnes M L) c = if c ∈ L then 1 else cellVal M c
  | [], M, c => by simp [writeOnes]
  | p :: L, M, c => by
    have : writeOnes M (p :: L) = writeOnes (M.set p.1 p.2 1) L := rfl
    rw [this, writeOnes_val L, cellVal_set]
    by_cases h1 : c ∈ L
    · simp [h1]
    · by_cases h2 : c = p
      · subst h2; simp
      ·        simp [h1, h2]

theorem isPermOfRange_spec {p : List Nat} {m : Nat} (h : isPermOfRange p m = true) :
    p.length = m ∧ (∀ x ∈ p, x < m) ∧ p.Nodup := by
  simpa [isPermOfRange, and_assoc] using h

variable {α : Type}

theorem mem_choose (ix : List α) (rp : List Nat) (k : Nat) (x : α) (h : x ∈ choose ix rp k) : x ∈ ix := by
  unfold choose at h
  obtain ⟨i, _, hi⟩ := List.mem_filterMap.1 h
  exact List.mem_of_getElem? hi

theorem choose_nodup (ix : List α) (rp : List Nat) (k : Nat) (hix : ix.Nodup) (hrp : rp.Nodup) :
    (choose ix rp k).Nodup := by
  unfold choose
  refine List.Nodup.filterMap ?_ ((List.take_sublist k rp).nodup hrp)
  intro i j x hi hj
  simp only [Option.mem_def] at hi hj
  obtain ⟨hi', e1⟩ := List.getElem?_eq_some_iff.1 hi
  obtain ⟨hj', e2⟩ := List.getElem?_eq_some_iff.1 hj
  exact (List.Nodup.getElem_inj_iff hix).1 (e1.trans e2.symm)

theorem choose_length (ix : List α) (rp : List Nat) (k : Nat) (hlt : ∀ r ∈ rp, r < ix.length) :
    (choose ix rp k).length = min k rp.length := by
  unfold choose
  have key : ∀ I : List Nat, (∀ r ∈ I, r < ix.length) → (I.filterMap (ix[·]?)).length = I.length := by
    intro I
    induction I with
    | nil => simp
    | cons i I ih =>
      intro h
      have hi : i < ix.length := h i (by simp)
      have : ix[i]? = some ix[i] := List.getElem?_eq_getElem hi
      simp only [List.filterMap_cons, this, List.length_cons]
      rw [ih (fun j hj => h j (by simp [hj]))]
  rw [key _ (fun r hr => hlt r (List.mem_of_mem_take hr)), List.length_take]

end Bct.Synth
