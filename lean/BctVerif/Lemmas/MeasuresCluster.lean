import BctVerif.Lemmas.MeasuresPermList
import BctVerif.Model.Cluster
import BctVerif.Lemmas.MeasuresAlg
import Mathlib.Data.Int.Cast.Lemmas
import Mathlib.Algebra.BigOperators.Ring.Finset
/-!
# Clustering, transitivity, degrees and strengths (executable models of the C09/C10 slice) are equivariant
(rational matrices; the weighted routines take the weight matrix `W` and the matrix `R` of its cube roots,
both renumbered)
-/
namespace Bct.Measures
open Bct Bct.Cluster

variable {n : Nat} (σ : Equiv.Perm (Fin n))

theorem vsum_eq_fsum (f : Fin n → Rat) : vsum f = fsum f := rfl

theorem cl_mmul_perm (A B : AMat Rat n) : Cluster.mmul (permA σ A) (permA σ B) = permA σ (Cluster.mmul A B) := by
  apply AMat.ext_get; intro i j
  simp only [Cluster.mmul, AMat.get_ofFn, permA_get, vsum_eq_fsum]
  exact fsum_congr_perm σ _ _ (fun _ => rfl)

theorem cl_madd_perm (A B : AMat Rat n) : Cluster.madd (permA σ A) (permA σ B) = permA σ (Cluster.madd A B) := by
  apply AMat.ext_get; intro i j; simp [Cluster.madd]

theorem transpose_perm {α : Type} (A : AMat α n) : AMat.transpose (permA σ A) = permA σ (AMat.transpose A) := by
  apply AMat.ext_get; intro i j; simp [AMat.transpose]

theorem map_perm {α β : Type} (f : α → β) (A : AMat α n) : AMat.map f (permA σ A) = permA σ (AMat.map f A) := by
  apply AMat.ext_get; intro i j; simp [AMat.map]

theorem adj_perm (W : AMat Rat n) : adj (permA σ W) = permA σ (adj W) := map_perm σ _ W

theorem cl_rowSum_perm (A : AMat Rat n) (i : Fin n) : Cluster.rowSum (permA σ A) i = Cluster.rowSum A (σ i) := by
  unfold Cluster.rowSum; exact fsum_congr_perm σ _ _ (fun _ => by simp)

theorem cl_colSum_perm (A : AMat Rat n) (i : Fin n) : Cluster.colSum (permA σ A) i = Cluster.colSum A (σ i) := by
  unfold Cluster.colSum; exact fsum_congr_perm σ _ _ (fun _ => by simp)

theorem cl_trace_perm (A : AMat Rat n) : Cluster.trace (permA σ A) = Cluster.trace A := by
  unfold Cluster.trace; exact fsum_congr_perm σ _ _ (fun _ => by simp)

theorem cl_total_perm (A : AMat Rat n) : Cluster.total (permA σ A) = Cluster.total A := by
  unfold Cluster.total; exact fsum2_congr_perm σ _ _ (fun _ _ => by simp)

/-! ### per-node coefficients -/

theorem ccFagiolo_perm (A R : AMat Rat n) : ccFagiolo (permA σ A) (permA σ R) = permVec σ (ccFagiolo A R) := by
  apply vec_ext; intro i
  simp [ccFagiolo, transpose_perm, cl_madd_perm, cl_mmul_perm, cl_rowSum_perm]

theorem ccBd_perm (A : AMat Rat n) : ccBd (permA σ A) = permVec σ (ccBd A) := ccFagiolo_perm σ A A

theorem ccWd_perm (W R : AMat Rat n) : ccWd (permA σ W) (permA σ R) = permVec σ (ccWd W R) := by
  unfold ccWd; rw [adj_perm, ccFagiolo_perm]

theorem ccWu_perm (W R : AMat Rat n) : ccWu (permA σ W) (permA σ R) = permVec σ (ccWu W R) := by
  apply vec_ext; intro i
  simp [ccWu, adj_perm, cl_mmul_perm, cl_rowSum_perm]

/-- `clustering_coef_bu` in sum form: `k = #{j : G u j ≠ 0}`, numerator `Σ_{a,b ∈ V} G a b` -/
theorem ccBu_get (G : AMat Rat n) (u : Fin n) :
    vget (ccBu G) u =
      if 2 ≤ (fsum fun j => if decide (G.get u j ≠ 0) then 1 else 0 : Nat) then
        some ((fsum fun a => if decide (G.get u a ≠ 0) then (fsum fun b => if decide (G.get u b ≠ 0) then G.get a b else 0) else 0) /
          ((((fsum fun j => if decide (G.get u j ≠ 0) then 1 else 0 : Nat) : Nat) : Rat) * ((fsum fun j => if decide (G.get u j ≠ 0) then 1 else 0 : Nat) : Rat) -
            ((fsum fun j => if decide (G.get u j ≠ 0) then 1 else 0 : Nat) : Rat)))
      else some 0 := by
  simp only [ccBu, vget_ofFn]
  rw [filter_length_eq_fsum, fsum_filter]
  simp only [fsum_filter]

theorem ccBu_perm (G : AMat Rat n) : ccBu (permA σ G) = permVec σ (ccBu G) := by
  apply vec_ext; intro u
  rw [permVec_get, ccBu_get, ccBu_get]
  simp only [permA_get]
  have hk : (fsum fun j => if decide (G.get (σ u) (σ j) ≠ 0) then 1 else 0 : Nat) =
      fsum fun j => if decide (G.get (σ u) j ≠ 0) then 1 else 0 := fsum_congr_perm σ _ _ (fun _ => rfl)
  have hs : (fsum fun a => if decide (G.get (σ u) (σ a) ≠ 0) then
        (fsum fun b => if decide (G.get (σ u) (σ b) ≠ 0) then G.get (σ a) (σ b) else 0) else 0) =
      fsum fun a => if decide (G.get (σ u) a ≠ 0) then (fsum fun b => if decide (G.get (σ u) b ≠ 0) then G.get a b else 0) else 0 := by
    apply fsum_congr_perm σ; intro a
    have : (fsum fun b => if decide (G.get (σ u) (σ b) ≠ 0) then G.get (σ a) (σ b) else 0) =
        fsum fun b => if decide (G.get (σ u) b ≠ 0) then G.get (σ a) b else 0 := fsum_congr_perm σ _ _ (fun _ => rfl)
    rw [this]
  rw [hk, hs]

/-! ### signed variants -/

theorem cl_zeroDiag_perm (W : AMat Rat n) : Cluster.zeroDiag (permA σ W) = permA σ (Cluster.zeroDiag W) := by
  apply AMat.ext_get; intro i j; simp [Cluster.zeroDiag]

theorem posPart_perm (W : AMat Rat n) : posPart (permA σ W) = permA σ (posPart W) := map_perm σ _ W
theorem negPart_perm (W : AMat Rat n) : negPart (permA σ W) = permA σ (negPart W) := map_perm σ _ W

theorem ccSignDefault_perm (W Rp Rn : AMat Rat n) :
    ccSignDefault (permA σ W) (permA σ Rp) (permA σ Rn) =
      (permVec σ (ccSignDefault W Rp Rn).1, permVec σ (ccSignDefault W Rp Rn).2) := by
  simp only [ccSignDefault, cl_zeroDiag_perm, posPart_perm, negPart_perm, ccWu_perm]

theorem zhangCore_perm (P : AMat Rat n) : zhangCore (permA σ P) = permVec σ (zhangCore P) := by
  apply vec_ext; intro i
  simp only [zhangCore, vget_ofFn, permVec_get, permA_get, vsum_eq_fsum]
  have h1 : (fsum fun j => fsum fun q => P.get (σ j) (σ i) * P.get (σ i) (σ q) * P.get (σ j) (σ q)) =
      fsum fun j => fsum fun q => P.get j (σ i) * P.get (σ i) q * P.get j q := fsum2_congr_perm σ _ _ (fun _ _ => rfl)
  have h2 : (fsum fun j => fsum fun q => if j = q then 0 else P.get (σ j) (σ i) * P.get (σ i) (σ q)) =
      fsum fun j => fsum fun q => if j = q then 0 else P.get j (σ i) * P.get (σ i) q :=
    fsum2_congr_perm σ _ _ (fun _ _ => by simp)
  rw [h1, h2]

theorem ccSignZhang_perm (W : AMat Rat n) :
    ccSignZhang (permA σ W) = (permVec σ (ccSignZhang W).1, permVec σ (ccSignZhang W).2) := by
  simp only [ccSignZhang, cl_zeroDiag_perm, posPart_perm, negPart_perm, zhangCore_perm]

theorem ccSignCost_perm (W : AMat Rat n) : ccSignCost (permA σ W) = permVec σ (ccSignCost W) := by
  apply vec_ext; intro i
  simp only [ccSignCost, vget_ofFn, permVec_get, cl_zeroDiag_perm, permA_get, vsum_eq_fsum]
  have h1 : (fsum fun j => fsum fun q => (Cluster.zeroDiag W).get (σ j) (σ i) * (Cluster.zeroDiag W).get (σ i) (σ q) * (Cluster.zeroDiag W).get (σ j) (σ q)) =
      fsum fun j => fsum fun q => (Cluster.zeroDiag W).get j (σ i) * (Cluster.zeroDiag W).get (σ i) q * (Cluster.zeroDiag W).get j q :=
    fsum2_congr_perm σ _ _ (fun _ _ => rfl)
  have h2 : (fsum fun j => fsum fun q => if j = q then 0 else qabs ((Cluster.zeroDiag W).get (σ j) (σ i) * (Cluster.zeroDiag W).get (σ i) (σ q))) =
      fsum fun j => fsum fun q => if j = q then 0 else qabs ((Cluster.zeroDiag W).get j (σ i) * (Cluster.zeroDiag W).get (σ i) q) :=
    fsum2_congr_perm σ _ _ (fun _ _ => by simp)
  rw [h1, h2]

/-! ### transitivity -/

theorem transFagiolo_perm (A R : AMat Rat n) : transFagiolo (permA σ A) (permA σ R) = transFagiolo A R := by
  simp only [transFagiolo, transpose_perm, cl_madd_perm, cl_mmul_perm, vsum_eq_fsum]
  congr 1
  · exact fsum_congr_perm σ _ _ (fun _ => by simp)
  · exact fsum_congr_perm σ _ _ (fun _ => by simp [cl_rowSum_perm])

theorem transBd_perm (A : AMat Rat n) : transBd (permA σ A) = transBd A := transFagiolo_perm σ A A

theorem transWd_perm (W R : AMat Rat n) : transWd (permA σ W) (permA σ R) = transWd W R := by
  unfold transWd; rw [adj_perm, transFagiolo_perm]

theorem transBu_perm (A : AMat Rat n) : transBu (permA σ A) = transBu A := by
  simp [transBu, cl_mmul_perm, cl_trace_perm, cl_total_perm]

theorem transWu_perm (W R : AMat Rat n) : transWu (permA σ W) (permA σ R) = transWu W R := by
  simp only [transWu, adj_perm, cl_mmul_perm, vsum_eq_fsum]
  congr 1
  · exact fsum_congr_perm σ _ _ (fun _ => by simp)
  · exact fsum_congr_perm σ _ _ (fun _ => by simp [cl_rowSum_perm])

/-! ### degrees and strengths -/

theorem cl_degreesUnd_perm (W : AMat Rat n) : Cluster.degreesUnd (permA σ W) = permVec σ (Cluster.degreesUnd W) := by
  apply vec_ext; intro i; simp [Cluster.degreesUnd, adj_perm, cl_colSum_perm]
theorem cl_degreesIn_perm (W : AMat Rat n) : degreesIn (permA σ W) = permVec σ (degreesIn W) := by
  apply vec_ext; intro i; simp [degreesIn, adj_perm, cl_colSum_perm]
theorem cl_degreesOut_perm (W : AMat Rat n) : degreesOut (permA σ W) = permVec σ (degreesOut W) := by
  apply vec_ext; intro i; simp [degreesOut, adj_perm, cl_rowSum_perm]
theorem cl_degreesTot_perm (W : AMat Rat n) : degreesTot (permA σ W) = permVec σ (degreesTot W) := by
  apply vec_ext; intro i; simp [degreesTot, adj_perm, cl_colSum_perm, cl_rowSum_perm]
theorem cl_strengthsUnd_perm (W : AMat Rat n) : Cluster.strengthsUnd (permA σ W) = permVec σ (Cluster.strengthsUnd W) := by
  apply vec_ext; intro i; simp [Cluster.strengthsUnd, cl_colSum_perm]
theorem cl_strengthsDir_perm (W : AMat Rat n) : Cluster.strengthsDir (permA σ W) = permVec σ (Cluster.strengthsDir W) := by
  apply vec_ext; intro i; simp [Cluster.strengthsDir, cl_colSum_perm, cl_rowSum_perm]

/-! ### the degree vectors used inside the rich-club / assortativity models are the `Cluster` ones -/

/-- the integer matrix read as a rational one -/
def castQ (A : AMat Int n) : AMat Rat n := AMat.map (fun x : Int => (x : Rat)) A

@[simp] theorem castQ_get (A : AMat Int n) (i j : Fin n) : (castQ A).get i j = (A.get i j : Rat) := by
  simp [castQ, AMat.map]

theorem cast_fsum (f : Fin n → Int) : ((fsum f : Int) : Rat) = fsum fun i => (f i : Rat) := by
  rw [fsum_eq_sum, fsum_eq_sum, Int.cast_sum]

theorem adj_castQ_get (A : AMat Int n) (i j : Fin n) : (adj (castQ A)).get i j = ((nz (A.get i j) : Int) : Rat) := by
  simp only [adj, AMat.map, AMat.get_ofFn, castQ_get, ind, nz]
  by_cases h : A.get i j = 0 <;> simp [h]

theorem degreesUnd_eq_cluster (A : AMat Int n) (j : Fin n) :
    vget (Cluster.degreesUnd (castQ A)) j = ((vget (Measures.degreesUnd A) j : Int) : Rat) := by
  simp only [Cluster.degreesUnd, Measures.degreesUnd, vget_ofFn, Cluster.colSum, Measures.colSum, vsum_eq_fsum, cast_fsum,
    adj_castQ_get, bin, AMat.get_ofFn]

theorem degTotal_eq_cluster (A : AMat Int n) (i : Fin n) :
    vget (Cluster.degreesTot (castQ A)) i = ((vget (Measures.degTotal A) i : Int) : Rat) := by
  simp only [Cluster.degreesTot, Measures.degTotal, Measures.degreesDir, vget_ofFn, Cluster.colSum, Cluster.rowSum,
    Measures.colSum, Measures.rowSum, vsum_eq_fsum, Int.cast_add, cast_fsum, adj_castQ_get, bin, AMat.get_ofFn]

theorem degreesInOut_eq_cluster (A : AMat Int n) (i : Fin n) :
    vget (Cluster.degreesIn (castQ A)) i = ((vget (Measures.degreesDir A).1 i : Int) : Rat) ∧
      vget (Cluster.degreesOut (castQ A)) i = ((vget (Measures.degreesDir A).2.1 i : Int) : Rat) := by
  simp only [Cluster.degreesIn, Cluster.degreesOut, Measures.degreesDir, vget_ofFn, Cluster.colSum, Cluster.rowSum,
    Measures.colSum, Measures.rowSum, vsum_eq_fsum, cast_fsum, adj_castQ_get, bin, AMat.get_ofFn, and_self]

theorem strengthsUnd_eq_cluster (A : AMat Int n) (j : Fin n) :
    vget (Cluster.strengthsUnd (castQ A)) j = ((vget (Measures.strengthsUnd A) j : Int) : Rat) := by
  simp only [Cluster.strengthsUnd, Measures.strengthsUnd, vget_ofFn, Cluster.colSum, Measures.colSum, vsum_eq_fsum, cast_fsum,
    castQ_get]

end Bct.Measures
