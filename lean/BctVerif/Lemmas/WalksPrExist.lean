import BctVerif.Lemmas.Walks
import Mathlib.LinearAlgebra.Matrix.Gershgorin
import Mathlib.Analysis.Normed.Field.Lemmas
import Mathlib.LinearAlgebra.Matrix.NonsingularInverse
/-!
# The PageRank system matrix `I − d·A·D1` is invertible (strict column diagonal dominance)
-/
open Finset Matrix

namespace Bct.Walks

variable {n : ℕ}

/-- `A·D1` is entrywise non-negative with column sums ≤ 1 (`deg == 0 → 1` convention included) -/
theorem colDeg_frac (A : QMat n) (hA : ∀ i j, 0 ≤ A.get i j) (j : Fin n) :
    (∀ i, 0 ≤ A.get i j / colDeg A j) ∧ ∑ i, A.get i j / colDeg A j ≤ 1 := by
  have hs : 0 ≤ ∑ i, A.get i j := Finset.sum_nonneg (fun i _ => hA i j)
  unfold colDeg
  simp only [fsum_eq]
  by_cases h0 : ∑ i, A.get i j = 0
  · simp only [h0, if_true, div_one]
    exact ⟨fun i => hA i j, by norm_num⟩
  · simp only [h0, if_false]
    have hpos : 0 < ∑ i, A.get i j := lt_of_le_of_ne hs (Ne.symm h0)
    exact ⟨fun i => div_nonneg (hA i j) hpos.le, by rw [← Finset.sum_div, div_self h0]⟩

theorem rat_norm (q : ℚ) : ‖q‖ = ((|q| : ℚ) : ℝ) := by
  rw [← Rat.norm_cast_real, Real.norm_eq_abs, Rat.cast_abs]

theorem prMat_det_ne_zero (A : QMat n) (d : ℚ) (hA : ∀ i j, 0 ≤ A.get i j) (hd0 : 0 ≤ d) (hd1 : d < 1) :
    (toMat (prMat A d)).det ≠ 0 := by
  apply det_ne_zero_of_sum_col_lt_diag
  intro k
  obtain ⟨hnn, hsum⟩ := colDeg_frac A hA k
  have hB : ∀ i, toMat (prMat A d) i k = (if i = k then 1 else 0) - d * (A.get i k / colDeg A k) := by
    intro i; simp [prMat, delta_eq]
  have hsplit : ∑ i, A.get i k / colDeg A k
      = A.get k k / colDeg A k + ∑ i ∈ univ.erase k, A.get i k / colDeg A k :=
    (Finset.add_sum_erase univ _ (mem_univ k)).symm
  have hdiag : 0 < 1 - d * (A.get k k / colDeg A k) := by
    have h1 : A.get k k / colDeg A k ≤ 1 := by
      have : 0 ≤ ∑ i ∈ univ.erase k, A.get i k / colDeg A k := Finset.sum_nonneg (fun i _ => hnn i)
      linarith
    nlinarith [hnn k]
  have e1 : ∑ i ∈ univ.erase k, ‖toMat (prMat A d) i k‖
      = ((∑ i ∈ univ.erase k, d * (A.get i k / colDeg A k) : ℚ) : ℝ) := by
    rw [Rat.cast_sum]
    refine Finset.sum_congr rfl (fun i hi => ?_)
    have hik : i ≠ k := (Finset.mem_erase.mp hi).1
    rw [hB i, if_neg hik, zero_sub, norm_neg, rat_norm, abs_of_nonneg (mul_nonneg hd0 (hnn i))]
  have e2 : ‖toMat (prMat A d) k k‖ = ((1 - d * (A.get k k / colDeg A k) : ℚ) : ℝ) := by
    rw [hB k, if_pos rfl, rat_norm, abs_of_pos hdiag]
  rw [e1, e2]
  apply Rat.cast_lt.mpr
  rw [← Finset.mul_sum]
  have : ∑ i ∈ univ.erase k, A.get i k / colDeg A k ≤ 1 - A.get k k / colDeg A k := by linarith
  have hle : d * ∑ i ∈ univ.erase k, A.get i k / colDeg A k ≤ d * (1 - A.get k k / colDeg A k) :=
    mul_le_mul_of_nonneg_left this hd0
  nlinarith

/-- existence and uniqueness of the solution of the linear system the code solves, for every right-hand side -/
theorem prMat_exists_unique (A : QMat n) (d : ℚ) (hA : ∀ i j, 0 ≤ A.get i j) (hd0 : 0 ≤ d) (hd1 : d < 1)
    (b : Fin n → ℚ) : ∃! r : Fin n → ℚ, toMat (prMat A d) *ᵥ r = b := by
  have hdet := prMat_det_ne_zero A d hA hd0 hd1
  have hu : IsUnit (toMat (prMat A d)).det := isUnit_iff_ne_zero.mpr hdet
  refine ⟨(toMat (prMat A d))⁻¹ *ᵥ b, ?_, fun r hr => ?_⟩
  · simp only [Matrix.mulVec_mulVec, Matrix.mul_nonsing_inv _ hu, Matrix.one_mulVec]
  · rw [← hr, Matrix.mulVec_mulVec, Matrix.nonsing_inv_mul _ hu, Matrix.one_mulVec]

end Bct.Walks
