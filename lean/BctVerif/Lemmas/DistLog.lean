import BctVerif.Lemmas.DistGenericK
import BctVerif.Lemmas.DistFloydModel
import Mathlib.Analysis.SpecialFunctions.Log.Basic

/-!
# `distance_wei_floyd` with the `'log'` / `'inv'` transforms over the reals

`floydFun L` is the function-level run of the algorithm (`initFS`, one `stageP` per node, `finalFS`) over any ordered
field; at `K = ℚ` it is exactly what the executable model computes (`floydFun_rat`).  Over `ℝ` the `'log'` lengths
`-ln w` make it the "most probable path" computation: `Σ -ln w = -ln Π w`.
-/
namespace Bct.Dist
open Bct
variable {n : ℕ}

/-- the whole run of `distance_wei_floyd` on the length matrix `L`, function level, any ordered field -/
def floydFun {K : Type*} [Field K] [LinearOrder K] [IsStrictOrderedRing K] (L : DistK.LMat K n) : DistK.FS K n :=
  DistK.finalFS ((List.finRange n).foldl DistK.stageP (DistK.initFS L))

theorem floydFun_spec {K : Type*} [Field K] [LinearOrder K] [IsStrictOrderedRing K] (L : DistK.LMat K n)
    (hL : ∀ i j, 0 ≤ L i j) : DistK.FloydSpec L (floydFun L) :=
  DistK.floydSpec_of_fold L hL (List.finRange n) (fun k => List.mem_finRange k)

/-- view of the `ℚ`-level state in the generic structure -/
def toK (s : FS n) : DistK.FS ℚ n := ⟨s.D, s.hops, s.P⟩

theorem toK_stageP (s : FS n) (k : Fin n) : toK (stageP s k) = DistK.stageP (toK s) k := rfl
theorem toK_initFS (L : LMat n) : toK (initFS L) = DistK.initFS L := rfl
theorem toK_finalFS (s : FS n) : toK (finalFS s) = DistK.finalFS (toK s) := rfl

theorem toK_foldl : ∀ (ks : List (Fin n)) (s : FS n), toK (ks.foldl stageP s) = ks.foldl DistK.stageP (toK s) := by
  intro ks
  induction ks with
  | nil => intro s; rfl
  | cons k ks ih => intro s; simp only [List.foldl_cons, ih, toK_stageP]

/-- at `K = ℚ` the generic run is what the executable model `floyd` computes -/
theorem floydFun_rat (A : AMat Ext n) : floydFun (K := ℚ) (lenFun A) = toK (toFS (floyd A)) := by
  unfold floyd floydLoop floydFun
  rw [toFS_fFinal, toFS_foldl, toFS_fInit, toK_finalFS, toK_foldl, toK_initFS]

/-! ## the transforms over ℝ -/

/-- `'log'`: `-ln w`, a zero entry is no connection -/
noncomputable def logLen (W : Fin n → Fin n → ℝ) : DistK.LMat ℝ n :=
  fun i j => if W i j = 0 then ⊤ else ((-Real.log (W i j) : ℝ) : WithTop ℝ)

/-- `'inv'`: `1 / w` -/
noncomputable def invLen (W : Fin n → Fin n → ℝ) : DistK.LMat ℝ n :=
  fun i j => if W i j = 0 then ⊤ else ((1 / W i j : ℝ) : WithTop ℝ)

theorem logLen_nonneg (W : Fin n → Fin n → ℝ) (hW : ∀ i j, 0 ≤ W i j ∧ W i j ≤ 1) : ∀ i j, 0 ≤ logLen W i j := by
  intro i j
  unfold logLen
  split_ifs with h0
  · exact le_top
  · have hpos : 0 < W i j := lt_of_le_of_ne (hW i j).1 (Ne.symm h0)
    have : 0 ≤ -Real.log (W i j) := neg_nonneg.mpr (Real.log_nonpos (le_of_lt hpos) (hW i j).2)
    exact_mod_cast this

theorem invLen_nonneg (W : Fin n → Fin n → ℝ) (hW : ∀ i j, 0 ≤ W i j) : ∀ i j, 0 ≤ invLen W i j := by
  intro i j
  unfold invLen
  split_ifs with h0
  · exact le_top
  · have : (0 : ℝ) ≤ 1 / W i j := by have := hW i j; positivity
    exact_mod_cast this

/-- the `'log'` length is strictly decreasing in the weight on `(0, 1]` and maps weight 1 to length 0 -/
theorem neg_log_strictAnti {a b : ℝ} (ha : 0 < a) (hab : a < b) : -Real.log b < -Real.log a :=
  neg_lt_neg (Real.log_lt_log ha hab)
theorem neg_log_one : -Real.log 1 = 0 := by simp

/-- product of the weights along the walk `i :: p` -/
noncomputable def walkProd (W : Fin n → Fin n → ℝ) : Fin n → List (Fin n) → ℝ
  | _, [] => 1
  | i, j :: p => W i j * walkProd W j p

/-- every step of the walk has a positive weight -/
def stepsPos (W : Fin n → Fin n → ℝ) : Fin n → List (Fin n) → Prop
  | _, [] => True
  | i, j :: p => 0 < W i j ∧ stepsPos W j p

theorem walkProd_pos (W : Fin n → Fin n → ℝ) : ∀ (p : List (Fin n)) (i : Fin n), stepsPos W i p → 0 < walkProd W i p := by
  intro p
  induction p with
  | nil => intro i _; simp [walkProd]
  | cons j p ih => intro i h; simp only [walkProd]; exact mul_pos h.1 (ih j h.2)

/-- along a walk with positive weights the `'log'` length is `-ln` of the product of the weights -/
theorem walkLen_logLen (W : Fin n → Fin n → ℝ) : ∀ (p : List (Fin n)) (i : Fin n), stepsPos W i p →
    DistK.walkLen (logLen W) i p = ((-Real.log (walkProd W i p) : ℝ) : WithTop ℝ) := by
  intro p
  induction p with
  | nil => intro i _; simp [DistK.walkLen, walkProd]
  | cons j p ih =>
    intro i h
    simp only [DistK.walkLen, walkProd]
    rw [ih j h.2]
    have hne : W i j ≠ 0 := ne_of_gt h.1
    simp only [logLen, if_neg hne]
    rw [Real.log_mul hne (ne_of_gt (walkProd_pos W p j h.2))]
    rw [← WithTop.coe_add]; congr 1; ring

/-- a walk of finite `'log'` length (non-negative weights) has positive weights on all its steps -/
theorem stepsPos_of_finite (W : Fin n → Fin n → ℝ) (hW : ∀ i j, 0 ≤ W i j) : ∀ (p : List (Fin n)) (i : Fin n),
    DistK.walkLen (logLen W) i p < ⊤ → stepsPos W i p := by
  intro p
  induction p with
  | nil => intro i _; trivial
  | cons j p ih =>
    intro i h
    simp only [DistK.walkLen] at h
    have h1 : logLen W i j < ⊤ := by
      by_contra hh; simp only [not_lt, top_le_iff] at hh; rw [hh] at h; simp at h
    have h2 : DistK.walkLen (logLen W) j p < ⊤ := by
      by_contra hh; simp only [not_lt, top_le_iff] at hh; rw [hh] at h; simp at h
    refine ⟨?_, ih j h2⟩
    have hne : W i j ≠ 0 := by
      intro e; simp [logLen, e] at h1
    exact lt_of_le_of_ne (hW i j) (Ne.symm hne)

end Bct.Dist
