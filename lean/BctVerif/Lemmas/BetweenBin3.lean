import BctVerif.Lemmas.BetweenBin2

/-!
# `betweenness_bin` model = definition on binary matrices with empty diagonal (C08)
-/
namespace Bct.Between
open Bct

variable {n : ℕ} {L : AMat Nat n}

/-- `true` iff `j` is at finite distance `≥ r + 1` from `i` -/
def geLvl (L : AMat Nat n) (r : ℕ) (i j : Fin n) : Bool :=
  match (dist L).get i j with
  | some c => decide (r + 1 ≤ c)
  | none => false

theorem geLvl_iff {r : ℕ} {i j : Fin n} :
    geLvl L r i j = true ↔ ∃ c, (dist L).get i j = some c ∧ r + 1 ≤ c := by
  unfold geLvl
  cases (dist L).get i j <;> simp

theorem depOf_unreachable {i j : Fin n} (h : (dist L).get i j = none) :
    depOf (dist L) (sigma L) i j = 0 := by
  unfold depOf
  rw [sumFin_eq_sum]
  refine Finset.sum_eq_zero fun t _ => ?_
  have : sigmaV (dist L) (sigma L) i t j = 0 := by
    apply sigmaV_zero
    rintro ⟨a, _, ha, _⟩
    rw [h] at ha; exact absurd ha (by simp)
  simp [pairV, this]

theorem depOf_self (i : Fin n) : depOf (dist L) (sigma L) i i = 0 := by
  unfold depOf
  rw [sumFin_eq_sum]
  exact Finset.sum_eq_zero fun t _ => by simp [pairV]

/-- a node on the last level carries no dependency -/
theorem depOf_last_level {i j : Fin n} {c : ℕ} (hc : (dist L).get i j = some c)
    (hlast : ∀ x k, (dist L).get i x = some k → k ≤ c) : depOf (dist L) (sigma L) i j = 0 := by
  by_cases hij : i = j
  · subst hij; exact depOf_self i
  · rw [depOf_rec L i j hij]
    refine Finset.sum_eq_zero fun w _ => ?_
    rw [if_neg]
    intro hp
    obtain ⟨hL, a, ha, he⟩ := (pred_iff L).1 hp
    rw [hc] at ha; simp only [Option.some.injEq] at ha; subst ha
    have := hlast w _ he
    have := Nat.pos_of_ne_zero hL
    omega

structure BackInv (L : AMat Nat n) (r : ℕ) (DP : AMat Rat n) : Prop where
  val : ∀ i j, DP.get i j = if geLvl L r i j = true then depOf (dist L) (sigma L) i j else 0

theorem binBack_spec (hbin : ∀ i j, L.get i j ≤ 1) (Linf : DMat n) (NSP : AMat Nat n)
    (hLinf : ∀ i j, Linf.get i j = (dist L).get i j)
    (hNSP : ∀ i j c, (dist L).get i j = some c → NSP.get i j = (sigma L).get i j)
    (r : ℕ) (DP : AMat Rat n) (h : BackInv L r DP) :
    BackInv L 0 (binBack L Linf NSP r DP) := by
  induction r generalizing DP with
  | zero => exact h
  | succ k ih =>
    unfold binBack
    apply ih
    constructor
    intro i j
    simp only [AMat.get_ofFn, sumFin_eq_sum, hLinf]
    have e21 : k + 2 - 1 = k + 1 := by omega
    rw [e21, h.val i j]
    cases hd : (dist L).get i j with
    | none =>
      have h1 : geLvl L (k + 1) i j = false := by simp [geLvl, hd]
      have h2 : geLvl L k i j = false := by simp [geLvl, hd]
      simp [h1, h2]
    | some c =>
      by_cases hck : c = k + 1
      · subst hck
        have h1 : geLvl L (k + 1) i j = false := by simp [geLvl, hd]
        have h2 : geLvl L k i j = true := by simp [geLvl, hd]
        have hij : i ≠ j := by
          rintro rfl; rw [dist_self] at hd; simp at hd
        have hσ : ((sigma L).get i j : ℚ) ≠ 0 := sigma_ne_zero_of_reach L (reach_iff.2 ⟨_, hd⟩)
        rw [h1, h2, hNSP i j _ hd]
        simp only [Bool.false_eq_true, if_false, if_true, zero_add, beq_self_eq_true]
        rw [depOf_rec L i j hij, Finset.sum_mul]
        refine Finset.sum_congr rfl fun w _ => ?_
        rw [h.val i w]
        by_cases hLw : L.get j w = 0
        · have hp : ¬ pred L (dist L) i j w = true := by
            rw [pred_iff]; rintro ⟨hL, _⟩; exact hL hLw
          simp [hLw, hp]
        · have hb := hbin j w
          have h1w : L.get j w = 1 := by have := Nat.pos_of_ne_zero hLw; omega
          by_cases hdw : (dist L).get i w = some (k + 1 + 1 + 0)
          · have hdw' : (dist L).get i w = some (k + 2) := hdw
            have hp : pred L (dist L) i j w = true := by
              rw [pred_iff]; exact ⟨hLw, k + 1, hd, by rw [hdw', h1w]⟩
            have hg : geLvl L (k + 1) i w = true := by simp [geLvl, hdw']
            have hσw : ((sigma L).get i w : ℚ) ≠ 0 := sigma_ne_zero_of_reach L (reach_iff.2 ⟨_, hdw'⟩)
            rw [if_pos hp, hg, hNSP i w _ hdw', hdw', h1w]
            simp only [beq_self_eq_true, if_true, Nat.cast_one, mul_one]
            field_simp
          · have hdw' : ¬ (dist L).get i w = some (k + 2) := hdw
            have hp : ¬ pred L (dist L) i j w = true := by
              rw [pred_iff]; rintro ⟨_, a, ha, he⟩
              rw [hd] at ha; simp only [Option.some.injEq] at ha; subst ha
              rw [h1w] at he; exact hdw' he
            have hbeq : ((dist L).get i w == some (k + 2)) = false := by
              rw [beq_eq_false_iff_ne]; exact hdw'
            rw [if_neg hp, hbeq]
            simp
      · by_cases hge : k + 2 ≤ c
        · have h1 : geLvl L (k + 1) i j = true := by simp [geLvl, hd]; omega
          have h2 : geLvl L k i j = true := by simp [geLvl, hd]; omega
          have hbeq : ((some c : Option ℕ) == some (k + 1)) = false := by
            rw [beq_eq_false_iff_ne]; simp only [ne_eq, Option.some.injEq]; omega
          rw [h1, h2, hbeq]
          simp
        · have h1 : geLvl L (k + 1) i j = false := by simp [geLvl, hd]; omega
          have h2 : geLvl L k i j = false := by simp [geLvl, hd]; omega
          have hbeq : ((some c : Option ℕ) == some (k + 1)) = false := by
            rw [beq_eq_false_iff_ne]; simp only [ne_eq, Option.some.injEq]; omega
          rw [h1, h2, hbeq]
          simp

end Bct.Between

namespace Bct.Between
open Bct

variable {n : ℕ} {L : AMat Nat n}

theorem edge_dist_one (hbin : ∀ i j, L.get i j ≤ 1) {i j : Fin n} (hij : i ≠ j) (hL : L.get i j ≠ 0) :
    (dist L).get i j = some 1 := by
  obtain ⟨x, hx, hxl⟩ := dist_edge L hL
  have := dist_pos_of_ne L hx hij
  have := hbin i j
  rw [hx]; congr 1; omega

theorem wc_one (i j : Fin n) : wc L 1 i j = L.get i j := by
  simp [wc]

/-- the state before the loop satisfies the invariant -/
theorem binInit_inv (hbin : ∀ i j, L.get i j ≤ 1) (hdiag : ∀ i, L.get i i = 0) :
    BinInv L { d := 1, NPd := L, NSPd := L,
               NSP := AMat.ofFn fun i j => if i = j then 1 else L.get i j,
               Lm := AMat.ofFn fun i j => if i = j then 1 else L.get i j } := by
  have hcell : ∀ i j : Fin n, i ≠ j →
      (L.get i j = if (dist L).get i j = some 1 then (sigma L).get i j else 0) := by
    intro i j hij
    by_cases hd : (dist L).get i j = some 1
    · rw [if_pos hd, ← (wc_spec hbin 1 i j).1 hd, wc_one]
    · rw [if_neg hd]
      by_contra hL
      exact hd (edge_dist_one hbin hij hL)
  have hlvl : ∀ i j : Fin n, i ≠ j → lvl L 1 i j = L.get i j := by
    intro i j hij
    unfold lvl
    cases hd : (dist L).get i j with
    | none =>
      by_contra hL
      have := edge_dist_one hbin hij (fun e => hL e.symm)
      rw [hd] at this; exact absurd this (by simp)
    | some k =>
      have hk := dist_pos_of_ne L hd hij
      by_cases hk1 : k ≤ 1
      · have : k = 1 := by omega
        subst this
        have h1 := hcell i j hij
        rw [if_pos hd] at h1
        have := sigma_pos L hd
        have := hbin i j
        simp only [le_refl, if_true]; omega
      · simp only [hk1, if_false]
        by_contra hL
        have := edge_dist_one hbin hij (fun e => hL e.symm)
        rw [hd] at this; simp only [Option.some.injEq] at this; omega
  constructor
  · simp
  · intro i j
    by_cases hij : i = j
    · subst hij; simp [hdiag]
    · simp only [ne_eq, hij, not_false_eq_true, true_and]
      exact hcell i j hij
  · intro i j
    simp only [AMat.get_ofFn]
    by_cases hij : i = j
    · simp [hij]
    · simp only [hij, if_false]
      rw [hlvl i j hij]
      by_cases hL : L.get i j = 0
      · simp [hL]
      · have hd := edge_dist_one hbin hij hL
        have h1 := hcell i j hij
        rw [if_pos hd] at h1
        simp [h1]
  · intro i j
    simp only [AMat.get_ofFn]
    by_cases hij : i = j
    · simp [hij]
    · simp only [hij, if_false]
      exact (hlvl i j hij).symm

theorem betweennessBin_eq (G : AMat Nat n) : betweennessBin G =
    (binLoop G (n * n + 2) (BinSt.mk 1 G G
        (AMat.ofFn fun i j => if i = j then 1 else G.get i j)
        (AMat.ofFn fun i j => if i = j then 1 else G.get i j))).bind fun st =>
      .ok (Vector.ofFn fun j => sumFin fun i =>
        (binBack G
          (AMat.ofFn fun i j => if i = j then some 0 else if st.Lm.get i j = 0 then none else some (st.Lm.get i j))
          (AMat.ofFn fun i j => if st.NSP.get i j = 0 then 1 else st.NSP.get i j)
          (st.d - 1 - 1) (AMat.ofFn fun _ _ => 0)).get i j) := rfl

/-- **the model of `betweenness_bin` returns exactly the definition-level node betweenness** on
every binary matrix with empty diagonal -/
theorem betweennessBin_correct (hbin : ∀ i j, L.get i j ≤ 1) (hdiag : ∀ i, L.get i i = 0) :
    betweennessBin L = .ok (bcSpec L) := by
  have hfuel : n + 2 ≤ n * n + 2 + 1 := by nlinarith [Nat.zero_le n]
  obtain ⟨st, e1, hinv, hmax⟩ := binLoop_spec hbin (n * n + 2) (binInit_inv hbin hdiag)
    (by simp) hfuel
  rw [betweennessBin_eq, e1]
  simp only [Except.bind]
  congr 1
  -- the distance matrix and the path counts read off the final state
  have hLinf : ∀ i j : Fin n,
      (AMat.ofFn fun i j => if i = j then some 0 else if st.Lm.get i j = 0 then none
        else some (st.Lm.get i j) : DMat n).get i j = (dist L).get i j := by
    intro i j
    simp only [AMat.get_ofFn, hinv.lm]
    by_cases hij : i = j
    · subst hij; simp [dist_self]
    · simp only [hij, if_false]
      unfold lvl
      cases hd : (dist L).get i j with
      | none => simp
      | some k =>
        have hk := dist_pos_of_ne L hd hij
        have hlt := hmax i j k hd
        have h1 : k ≤ st.d := by omega
        have h2 : k ≠ 0 := by omega
        simp [h1, h2]
  have hNSP : ∀ (i j : Fin n) (c : ℕ), (dist L).get i j = some c →
      (AMat.ofFn fun i j => if st.NSP.get i j = 0 then 1 else st.NSP.get i j : AMat Nat n).get i j =
        (sigma L).get i j := by
    intro i j c hd
    simp only [AMat.get_ofFn, hinv.nsp]
    by_cases hij : i = j
    · subst hij; simp [sigma_self]
    · simp only [hij, if_false]
      have hk := dist_pos_of_ne L hd hij
      have hlt := hmax i j c hd
      have hl : lvl L st.d i j ≠ 0 := by
        unfold lvl; rw [hd]
        have h1 : c ≤ st.d := by omega
        simp only [h1, if_true]; omega
      have hσ := sigma_pos L hd
      have : (sigma L).get i j ≠ 0 := by omega
      simp [hl, this]
  have hinit : BackInv L (st.d - 1 - 1) (AMat.ofFn fun _ _ => (0 : ℚ)) := by
    constructor
    intro i j
    simp only [AMat.get_ofFn]
    by_cases hg : geLvl L (st.d - 1 - 1) i j = true
    · rw [if_pos hg]
      obtain ⟨c, hc, hle⟩ := geLvl_iff.1 hg
      symm
      apply depOf_last_level hc
      intro x k hk
      have := hmax i x k hk
      have := hmax i j c hc
      omega
    · rw [if_neg hg]
  have hfin := binBack_spec hbin _ _ hLinf hNSP _ _ hinit
  apply Vector.ext
  intro j hj
  simp only [Vector.getElem_ofFn, bcSpec, bcOf, sumFin]
  congr 1
  apply List.map_congr_left
  intro i _
  rw [hfin.val i ⟨j, hj⟩]
  by_cases hg : geLvl L 0 i ⟨j, hj⟩ = true
  · rw [if_pos hg]
  · rw [if_neg hg]
    symm
    cases hd : (dist L).get i ⟨j, hj⟩ with
    | none => exact depOf_unreachable hd
    | some c =>
      have : c = 0 := by
        by_contra hc
        exact hg (geLvl_iff.2 ⟨c, hd, by omega⟩)
      subst this
      have := (dist_eq_zero_iff L i).1 hd
      rw [this]; exact depOf_self i

end Bct.Between
