import BctVerif.Lemmas.DistDijkstraModel

/-!
# The model of `distance_wei` never runs out of fuel

Every round permanently settles at least the temporary node that attains the minimum, so `n + 1` rounds suffice.
Measure: the number of nodes that are still temporary after `S[V] = 0`.
-/
namespace Bct.Dist
variable {n : ℕ}

theorem relaxFrom_S (A : AMat Ext n) (st : DSt n) (v : Fin n) : (relaxFrom A st v).S = st.S := rfl

theorem foldl_relaxFrom_S (A : AMat Ext n) : ∀ (V : List (Fin n)) (st : DSt n), (V.foldl (relaxFrom A) st).S = st.S := by
  intro V
  induction V with
  | nil => intro st; rfl
  | cons v V ih => intro st; simp only [List.foldl_cons, ih, relaxFrom_S]

/-- number of nodes still temporary after settling `V` -/
def tempCount (st : DSt n) (V : List (Fin n)) : ℕ :=
  ((List.finRange n).filter fun w => st.S[w] && !(V.contains w)).length

theorem filter_length_lt {α : Type} (l : List α) (p q : α → Bool) (hpq : ∀ x, p x = true → q x = true)
    (y : α) (hy : y ∈ l) (hqy : q y = true) (hpy : p y = false) : (l.filter p).length < (l.filter q).length := by
  induction l with
  | nil => exact absurd hy List.not_mem_nil
  | cons x l ih =>
    have mono : ∀ l' : List α, (l'.filter p).length ≤ (l'.filter q).length := by
      intro l'
      induction l' with
      | nil => simp
      | cons z l' ih' =>
        simp only [List.filter_cons]
        by_cases hpz : p z = true
        · simp only [hpz, hpq z hpz, if_true, List.length_cons]; omega
        · simp only [hpz, Bool.false_eq_true, if_false]
          split_ifs
          · simp only [List.length_cons]; omega
          · exact ih'
    rcases List.mem_cons.mp hy with rfl | hy'
    · simp only [List.filter_cons, hqy, hpy, if_true, Bool.false_eq_true, if_false, List.length_cons]
      have := mono l; omega
    · have := ih hy'
      simp only [List.filter_cons]
      by_cases hpx : p x = true
      · simp only [hpx, hpq x hpx, if_true, List.length_cons]; omega
      · simp only [hpx, Bool.false_eq_true, if_false]
        split_ifs
        · simp only [List.length_cons]; omega
        · exact this

theorem dLoop_isSome (A : AMat Ext n) : ∀ (fuel : ℕ) (st : DSt n) (V : List (Fin n)),
    tempCount st V < fuel → (dLoop A fuel st V).isSome = true := by
  intro fuel
  induction fuel with
  | zero => intro st V h; omega
  | succ fuel ih =>
    intro st V h
    simp only [dLoop]
    set st1 := V.foldl (relaxFrom A) (settle st V) with hst1
    have hS : ∀ w : Fin n, st1.S[w] = (st.S[w] && !(V.contains w)) := by
      intro w
      rw [hst1, foldl_relaxFrom_S]
      simp only [settle]
      rw [vec_ofFn_get]
    have htemp : ((List.finRange n).filter fun w => st1.S[w]).length = tempCount st V := by
      unfold tempCount
      congr 1
      apply List.filter_congr
      intro w _
      exact hS w
    split_ifs with hemp hinf
    · rfl
    · rfl
    · apply ih
      -- the temporary node attaining the minimum is in the next V
      set temp := (List.finRange n).filter fun w => st1.S[w] with htempdef
      set m := minOver st1.D temp with hm
      have hmlen : m.toLen = minOverF (fun w => (st1.D[w]).toLen) temp := by
        rw [hm, minOver, minOver_toLen]; rfl
      rcases minOverF_mem (fun w => (st1.D[w]).toLen) temp with e | ⟨y, hy, e⟩
      · exfalso; rw [← hmlen] at e; exact hinf ((Ext.eq_inf_iff _).mpr e)
      · have hym : st1.D[y] = m := Ext.toLen_injective (by rw [hmlen, e])
        have hyS : st1.S[y] = true := by simpa [htempdef] using (List.mem_filter.mp hy).2
        have : tempCount st1 ((List.finRange n).filter fun x => decide (st1.D[x] = m)) < temp.length := by
          unfold tempCount
          rw [htempdef]
          apply filter_length_lt _ _ _ _ y (List.mem_finRange y) hyS
          · have hc : (List.filter (fun x => decide (st1.D[x] = m)) (List.finRange n)).contains y = true := by
              simp only [List.contains_iff_mem, List.mem_filter, List.mem_finRange, true_and, decide_eq_true_eq]
              exact hym
            show (st1.S[y] && !((List.filter (fun x => decide (st1.D[x] = m)) (List.finRange n)).contains y)) = false
            rw [hc]; simp
          · intro x hx
            simp only [Bool.and_eq_true] at hx
            exact hx.1
        rw [htemp] at this
        omega

theorem dRow_isSome (A : AMat Ext n) (u : Fin n) : (dRow A u).isSome = true := by
  unfold dRow
  apply dLoop_isSome
  unfold tempCount
  have : ((List.finRange n).filter fun w => (dInit u : DSt n).S[w] && !([u].contains w)).length ≤ (List.finRange n).length :=
    List.length_filter_le _ _
  simp only [List.length_finRange] at this
  omega

/-- the model of `distance_wei` always returns -/
theorem dijkstra_isSome (A : AMat Ext n) : (dijkstra A).isSome = true := by
  unfold dijkstra allRows
  rw [dif_pos (fun i => dRow_isSome A i)]
  rfl

end Bct.Dist
