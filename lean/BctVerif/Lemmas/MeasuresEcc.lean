import BctVerif.Lemmas.MeasuresDistX
/-!
# `charpath`: eccentricity vector, radius and diameter (executable model `Dist.eccOf`, `Dist.radiusDiameter`) are equivariant
-/
namespace Bct.Measures
open Bct Bct.Dist

variable {n : Nat} (σ : Equiv.Perm (Fin n))

theorem Ext.toLen_max (a b : Ext) : (Ext.max a b).toLen = Max.max a.toLen b.toLen := by
  unfold Ext.max
  by_cases h : Ext.lt a b = true
  · rw [if_pos h]; exact (max_eq_right (le_of_lt ((Ext.lt_iff _ _).mp h))).symm
  · rw [if_neg h]
    have : ¬ a.toLen < b.toLen := fun hh => h ((Ext.lt_iff _ _).mpr hh)
    exact (max_eq_left (not_lt.mp this)).symm

/-- a left fold of `max` returns an element of the list that dominates all of them -/
theorem foldl_max_spec (xs : List Ext) (x : Ext) :
    (xs.foldl Ext.max x = x ∨ xs.foldl Ext.max x ∈ xs) ∧ x.toLen ≤ (xs.foldl Ext.max x).toLen ∧
      ∀ y ∈ xs, y.toLen ≤ (xs.foldl Ext.max x).toLen := by
  induction xs generalizing x with
  | nil => simp
  | cons a xs ih =>
    obtain ⟨h1, h2, h3⟩ := ih (Ext.max x a)
    simp only [List.foldl_cons, List.mem_cons]
    have hx : x.toLen ≤ (Ext.max x a).toLen := by rw [Ext.toLen_max]; exact le_max_left _ _
    have ha : a.toLen ≤ (Ext.max x a).toLen := by rw [Ext.toLen_max]; exact le_max_right _ _
    refine ⟨?_, le_trans hx h2, ?_⟩
    · rcases h1 with h | h
      · rw [h]; unfold Ext.max; split_ifs <;> simp
      · right; right; exact h
    · intro y hy
      rcases hy with rfl | hy
      · exact le_trans ha h2
      · exact h3 y hy

theorem foldl_min_spec (xs : List Ext) (x : Ext) :
    (xs.foldl Ext.min x = x ∨ xs.foldl Ext.min x ∈ xs) ∧ (xs.foldl Ext.min x).toLen ≤ x.toLen ∧
      ∀ y ∈ xs, (xs.foldl Ext.min x).toLen ≤ y.toLen := by
  induction xs generalizing x with
  | nil => simp
  | cons a xs ih =>
    obtain ⟨h1, h2, h3⟩ := ih (Ext.min x a)
    simp only [List.foldl_cons, List.mem_cons]
    have hx : (Ext.min x a).toLen ≤ x.toLen := by rw [Ext.toLen_min]; exact min_le_left _ _
    have ha : (Ext.min x a).toLen ≤ a.toLen := by rw [Ext.toLen_min]; exact min_le_right _ _
    refine ⟨?_, le_trans h2 hx, ?_⟩
    · rcases h1 with h | h
      · rw [h]; unfold Ext.min; split_ifs <;> simp
      · right; right; exact h
    · intro y hy
      rcases hy with rfl | hy
      · exact le_trans h2 ha
      · exact h3 y hy

/-- the maximum / minimum taken by folding from the head does not depend on the order of the list -/
theorem foldl_max_perm {x y : Ext} {xs ys : List Ext} (p : (x :: xs).Perm (y :: ys)) : xs.foldl Ext.max x = ys.foldl Ext.max y := by
  obtain ⟨a1, a2, a3⟩ := foldl_max_spec xs x
  obtain ⟨b1, b2, b3⟩ := foldl_max_spec ys y
  have memx : xs.foldl Ext.max x ∈ x :: xs := by
    rcases a1 with h | h
    · rw [h]; simp
    · exact List.mem_cons_of_mem _ h
  have memy : ys.foldl Ext.max y ∈ y :: ys := by
    rcases b1 with h | h
    · rw [h]; simp
    · exact List.mem_cons_of_mem _ h
  have domx : ∀ z ∈ x :: xs, z.toLen ≤ (xs.foldl Ext.max x).toLen := by
    intro z hz; rcases List.mem_cons.mp hz with rfl | hz; exacts [a2, a3 z hz]
  have domy : ∀ z ∈ y :: ys, z.toLen ≤ (ys.foldl Ext.max y).toLen := by
    intro z hz; rcases List.mem_cons.mp hz with rfl | hz; exacts [b2, b3 z hz]
  apply Ext.toLen_injective
  exact le_antisymm (domy _ (p.subset memx)) (domx _ (p.symm.subset memy))

theorem foldl_min_perm {x y : Ext} {xs ys : List Ext} (p : (x :: xs).Perm (y :: ys)) : xs.foldl Ext.min x = ys.foldl Ext.min y := by
  obtain ⟨a1, a2, a3⟩ := foldl_min_spec xs x
  obtain ⟨b1, b2, b3⟩ := foldl_min_spec ys y
  have memx : xs.foldl Ext.min x ∈ x :: xs := by
    rcases a1 with h | h
    · rw [h]; simp
    · exact List.mem_cons_of_mem _ h
  have memy : ys.foldl Ext.min y ∈ y :: ys := by
    rcases b1 with h | h
    · rw [h]; simp
    · exact List.mem_cons_of_mem _ h
  have domx : ∀ z ∈ x :: xs, (xs.foldl Ext.min x).toLen ≤ z.toLen := by
    intro z hz; rcases List.mem_cons.mp hz with rfl | hz; exacts [a2, a3 z hz]
  have domy : ∀ z ∈ y :: ys, (ys.foldl Ext.min y).toLen ≤ z.toLen := by
    intro z hz; rcases List.mem_cons.mp hz with rfl | hz; exacts [b2, b3 z hz]
  apply Ext.toLen_injective
  exact le_antisymm (domx _ (p.symm.subset memy)) (domy _ (p.subset memx))

/-- `match l with | [] => d | x :: xs => fold` -/
def headFold (f : Ext → Ext → Ext) (d : Ext) : List Ext → Ext
  | [] => d
  | x :: xs => xs.foldl f x

theorem headFold_perm (f : Ext → Ext → Ext) (hf : ∀ {x y : Ext} {xs ys : List Ext}, (x :: xs).Perm (y :: ys) → xs.foldl f x = ys.foldl f y)
    (d : Ext) : ∀ {l l' : List Ext}, l.Perm l' → headFold f d l = headFold f d l'
  | [], l', p => by rw [List.nil_perm.mp p]
  | x :: xs, [], p => absurd (List.perm_nil.mp p) (by simp)
  | x :: xs, y :: ys, p => hf p

theorem eccCells_perm (D : AMat Ext n) (incDiag incInf : Bool) (i : Fin n) :
    (eccCells (permA σ D) incDiag incInf i).Perm (eccCells D incDiag incInf (σ i)) := by
  unfold eccCells
  apply List.Perm.filter
  have h1 : (((List.finRange n).filter fun j => incDiag || decide (i ≠ j)).map fun j => (permA σ D).get i j) =
      ((((List.finRange n).map σ).filter fun j => incDiag || decide (σ i ≠ j)).map fun j => D.get (σ i) j) := by
    rw [List.filter_map, List.map_map]
    congr 1
    · funext j; simp
    · apply List.filter_congr; intro j _; simp [σ.injective.eq_iff]
  rw [h1]
  exact ((Equiv.Perm.map_finRange_perm σ).filter _).map _

theorem eccOf_perm (D : AMat Ext n) (incDiag incInf : Bool) (i : Fin n) :
    eccOf (permA σ D) incDiag incInf i = eccOf D incDiag incInf (σ i) := by
  have e : ∀ (E : AMat Ext n) (k : Fin n), eccOf E incDiag incInf k = headFold Ext.max maskedFill (eccCells E incDiag incInf k) := by
    intro E k; unfold eccOf headFold; rfl
  rw [e, e]
  exact headFold_perm Ext.max foldl_max_perm maskedFill (eccCells_perm σ D incDiag incInf i)

theorem radiusDiameter_perm (D : AMat Ext n) (incDiag incInf : Bool) :
    radiusDiameter (permA σ D) incDiag incInf = radiusDiameter D incDiag incInf := by
  unfold radiusDiameter
  have hp : ((List.finRange n).map (eccOf (permA σ D) incDiag incInf)).Perm ((List.finRange n).map (eccOf D incDiag incInf)) := by
    have : (List.finRange n).map (eccOf (permA σ D) incDiag incInf) = ((List.finRange n).map σ).map (eccOf D incDiag incInf) := by
      rw [List.map_map]; apply List.map_congr_left; intro i _; exact eccOf_perm σ D incDiag incInf i
    rw [this]
    exact (Equiv.Perm.map_finRange_perm σ).map _
  generalize (List.finRange n).map (eccOf (permA σ D) incDiag incInf) = l at hp
  generalize (List.finRange n).map (eccOf D incDiag incInf) = l' at hp
  cases l with
  | nil => rw [List.nil_perm.mp hp]
  | cons x xs =>
    cases l' with
    | nil => exact absurd (List.perm_nil.mp hp) (by simp)
    | cons y ys => simp only [foldl_min_perm hp, foldl_max_perm hp]

end Bct.Measures
