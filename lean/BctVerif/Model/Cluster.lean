import BctVerif.Model.Basic
/-!
# Executable model of the clustering / transitivity routines of `bct/algorithms/clustering.py`
# and of the degree / strength routines of `bct/algorithms/degree.py`

Exact arithmetic over core `Rat`.  The model follows the coded formulas literally
(`np.dot(S, np.dot(S, S))` is a matrix product `mmul S (mmul S S)` whose diagonal is read,
`K[np.where(cyc3 == 0)] = np.inf` is the first branch of `perNode`, …).

Cube roots.  `cuberoot(W)` is `sign(W)·|W|^(1/3)`.  The weighted routines of the model take the
weight matrix `W` *and* a matrix `R` standing for `cuberoot(W)`; the executable entry points
(`step`) compute `R` with `rootMat`, an exact rational cube root that succeeds exactly on entries
`±(p/q)^3` (`error=notcube` otherwise), so that the correspondence runs on weights that are perfect
cubes.  `Props/C09.lean` proves `rootMat W = some R → ∀ i j, R i j ^ 3 = W i j`.

A result that Python reports as a non-finite float (`x/0`, `0/0`) is `none`, printed `nan`.
-/
namespace Bct.Cluster
open Bct

variable {n : Nat}

/-! ### vectors and matrices over `Rat` -/

/-- `Σ_{i < n} f i` -/
def vsum (f : Fin n → Rat) : Rat := ((List.finRange n).map f).sum

/-- `np.dot(A, B)` -/
def mmul (A B : AMat Rat n) : AMat Rat n :=
  AMat.ofFn fun i j => vsum fun k => A.get i k * B.get k j

def madd (A B : AMat Rat n) : AMat Rat n := AMat.ofFn fun i j => A.get i j + B.get i j

/-- `np.logical_not(x == 0).astype(float)` / `binarize` on one entry -/
def ind (x : Rat) : Rat := if x = 0 then 0 else 1

/-- adjacency matrix `np.logical_not(W == 0).astype(float)` (also `binarize(W)`) -/
def adj (W : AMat Rat n) : AMat Rat n := AMat.map ind W

/-- `np.sum(A, axis=1)[i]` -/
def rowSum (A : AMat Rat n) (i : Fin n) : Rat := vsum fun j => A.get i j
/-- `np.sum(A, axis=0)[j]` -/
def colSum (A : AMat Rat n) (j : Fin n) : Rat := vsum fun i => A.get i j
def trace (A : AMat Rat n) : Rat := vsum fun i => A.get i i
/-- `np.sum(A)` -/
def total (A : AMat Rat n) : Rat := vsum fun i => vsum fun j => A.get i j

/-! ### the two division devices of the code -/

/-- per-node ratio `cyc3 / CYC3` after `K[np.where(cyc3 == 0)] = np.inf`:
exactly 0 where `cyc3 == 0`; a zero denominator under a nonzero numerator is a non-finite float -/
def perNode (cyc3 CYC3 : Rat) : Option Rat :=
  if cyc3 = 0 then some 0 else if CYC3 = 0 then none else some (cyc3 / CYC3)

/-- network-level ratio with no masking: `x / 0` is `nan`/`inf` in NumPy -/
def gdiv (a b : Rat) : Option Rat := if b = 0 then none else some (a / b)

/-! ### per-node clustering coefficients -/

/-- common body of `clustering_coef_bd(A)` (`R = A`) and `clustering_coef_wd(W)`
(`A = adj W`, `R = cuberoot(W)`):
`S = R + R.T; K = sum(A + A.T, axis=1); cyc3 = diag(S·(S·S))/2; K[cyc3==0] = inf;
 CYC3 = K(K-1) - 2 diag(A·A); C = cyc3 / CYC3` -/
def ccFagiolo (A R : AMat Rat n) : Vector (Option Rat) n :=
  let S := madd R (AMat.transpose R)
  let SA := madd A (AMat.transpose A)
  let S3 := mmul S (mmul S S)
  let A2 := mmul A A
  Vector.ofFn fun i =>
    let K := rowSum SA i
    perNode (S3.get i i / 2) (K * (K - 1) - 2 * A2.get i i)

/-- `clustering_coef_bd(A)` -/
def ccBd (A : AMat Rat n) : Vector (Option Rat) n := ccFagiolo A A

/-- `clustering_coef_wd(W)` with `R = cuberoot(W)` -/
def ccWd (W R : AMat Rat n) : Vector (Option Rat) n := ccFagiolo (adj W) R

/-- `clustering_coef_bu(G)`: `V = where(G[u,:]); k = len(V); if k >= 2: C[u] = sum(G[V,V]) / (k*k - k)` -/
def ccBu (G : AMat Rat n) : Vector (Option Rat) n :=
  Vector.ofFn fun u =>
    let V := (List.finRange n).filter fun j => decide (G.get u j ≠ 0)
    let k : Nat := V.length
    if 2 ≤ k then
      some ((V.map fun a => (V.map fun b => G.get a b).sum).sum / ((k : Rat) * (k : Rat) - (k : Rat)))
    else some 0

/-- `clustering_coef_wu(W)` with `R = cuberoot(W)`:
`K = sum(W != 0, axis=1); cyc3 = diag(R·(R·R)); K[cyc3==0] = inf; C = cyc3 / (K(K-1))` -/
def ccWu (W R : AMat Rat n) : Vector (Option Rat) n :=
  let A := adj W
  let R3 := mmul R (mmul R R)
  Vector.ofFn fun i =>
    let K := rowSum A i
    perNode (R3.get i i) (K * (K - 1))

/-! ### signed variants (`clustering_coef_wu_sign`) -/

/-- `W = W.copy(); np.fill_diagonal(W, 0)` -/
def zeroDiag (W : AMat Rat n) : AMat Rat n := AMat.ofFn fun i j => if i = j then 0 else W.get i j
/-- `W * (W > 0)` -/
def posPart (W : AMat Rat n) : AMat Rat n := AMat.map (fun x => if 0 < x then x else 0) W
/-- `-W * (W < 0)` -/
def negPart (W : AMat Rat n) : AMat Rat n := AMat.map (fun x => if x < 0 then -x else 0) W

/-- `coef_type='default'`: Onnela's formula on the positive and on the negated negative part;
`Rp`, `Rn` stand for `cuberoot(W_pos)`, `cuberoot(W_neg)` -/
def ccSignDefault (W Rp Rn : AMat Rat n) : Vector (Option Rat) n × Vector (Option Rat) n :=
  (ccWu (posPart (zeroDiag W)) Rp, ccWu (negPart (zeroDiag W)) Rn)

/-- the triple loop of `coef_type='zhang'` on one sign part `P`:
`cyc3[i] += P[j,i] P[i,q] P[j,q]`, `cyc2[i] += P[j,i] P[i,q]` for `j != q`; `cyc2[cyc3==0] = inf` -/
def zhangCore (P : AMat Rat n) : Vector (Option Rat) n :=
  Vector.ofFn fun i =>
    perNode (vsum fun j => vsum fun q => P.get j i * P.get i q * P.get j q)
            (vsum fun j => vsum fun q => if j = q then 0 else P.get j i * P.get i q)

def ccSignZhang (W : AMat Rat n) : Vector (Option Rat) n × Vector (Option Rat) n :=
  (zhangCore (posPart (zeroDiag W)), zhangCore (negPart (zeroDiag W)))

def qabs (x : Rat) : Rat := if 0 ≤ x then x else -x

/-- `coef_type='costantini'` -/
def ccSignCost (W : AMat Rat n) : Vector (Option Rat) n :=
  let Z := zeroDiag W
  Vector.ofFn fun i =>
    perNode (vsum fun j => vsum fun q => Z.get j i * Z.get i q * Z.get j q)
            (vsum fun j => vsum fun q => if j = q then 0 else qabs (Z.get j i * Z.get i q))

/-! ### transitivity -/

/-- common body of `transitivity_bd(A)` (`R = A`) and `transitivity_wd(W)`:
`sum(cyc3) / sum(CYC3)` with no masking -/
def transFagiolo (A R : AMat Rat n) : Option Rat :=
  let S := madd R (AMat.transpose R)
  let SA := madd A (AMat.transpose A)
  let S3 := mmul S (mmul S S)
  let A2 := mmul A A
  gdiv (vsum fun i => S3.get i i / 2)
       (vsum fun i => let K := rowSum SA i; K * (K - 1) - 2 * A2.get i i)

def transBd (A : AMat Rat n) : Option Rat := transFagiolo A A
def transWd (W R : AMat Rat n) : Option Rat := transFagiolo (adj W) R

/-- `transitivity_bu(A)`: `trace(A·(A·A)) / (sum(A·A) - trace(A·A))` -/
def transBu (A : AMat Rat n) : Option Rat :=
  let A2 := mmul A A
  let A3 := mmul A A2
  gdiv (trace A3) (total A2 - trace A2)

/-- `transitivity_wu(W)`: `sum(diag(R·(R·R))) / sum(K(K-1))`, `K = sum(W != 0, axis=1)` -/
def transWu (W R : AMat Rat n) : Option Rat :=
  let A := adj W
  let R3 := mmul R (mmul R R)
  gdiv (vsum fun i => R3.get i i) (vsum fun i => let K := rowSum A i; K * (K - 1))

/-! ### degrees and strengths (`bct/algorithms/degree.py`) -/

/-- `degrees_und`: `sum(binarize(CIJ), axis=0)` -/
def degreesUnd (W : AMat Rat n) : Vector Rat n := Vector.ofFn fun j => colSum (adj W) j
/-- `degrees_dir`: `(id, od, deg) = (column sums, row sums, id + od)` of `binarize(CIJ)` -/
def degreesIn (W : AMat Rat n) : Vector Rat n := Vector.ofFn fun j => colSum (adj W) j
def degreesOut (W : AMat Rat n) : Vector Rat n := Vector.ofFn fun i => rowSum (adj W) i
def degreesTot (W : AMat Rat n) : Vector Rat n :=
  Vector.ofFn fun i => colSum (adj W) i + rowSum (adj W) i
/-- `strengths_und`: `sum(CIJ, axis=0)` -/
def strengthsUnd (W : AMat Rat n) : Vector Rat n := Vector.ofFn fun j => colSum W j
/-- `strengths_dir`: `sum(CIJ, axis=0) + sum(CIJ, axis=1)` -/
def strengthsDir (W : AMat Rat n) : Vector Rat n := Vector.ofFn fun i => colSum W i + rowSum W i

/-! ### exact rational cube roots -/

/-- search `r ≥ r0` with `r^3 = m`; stops as soon as `r^3 > m` -/
def cbrtGo (m : Nat) : Nat → Nat → Option Nat
  | 0, _ => none
  | fuel + 1, r =>
    if r * r * r = m then some r
    else if m < r * r * r then none
    else cbrtGo m fuel (r + 1)

/-- the natural cube root of a perfect cube -/
def icbrt (m : Nat) : Option Nat := cbrtGo m (m + 2) 0

/-- `cuberoot(x) = sign(x)·|x|^(1/3)`, defined exactly when `x = ±(p/q)^3` -/
def cbrtQ (x : Rat) : Option Rat :=
  match icbrt x.num.natAbs, icbrt x.den with
  | some a, some b =>
    if b = 0 then none
    else if x.num < 0 then some (-((a : Rat) / (b : Rat))) else some ((a : Rat) / (b : Rat))
  | _, _ => none

/-- entrywise exact cube root; `none` unless every entry is a perfect cube
(the `getD 0` is only reached behind the `isSome` check of every cell; `rootMat_sound` in
`Lemmas/ClusterCbrt.lean` proves the result is the entrywise cube root) -/
def rootMat (W : AMat Rat n) : Option (AMat Rat n) :=
  if (List.finRange n).all fun i => (List.finRange n).all fun j => (cbrtQ (W.get i j)).isSome then
    some (AMat.map (fun x => (cbrtQ x).getD 0) W)
  else none

/-! ### line protocol -/

def parseRat (s : String) : Option Rat :=
  match s.splitOn "/" with
  | [p] => (fun (z : Int) => (z : Rat)) <$> p.toInt?
  | [p, q] => do
    let z ← p.toInt?
    let d ← q.toNat?
    if d = 0 then none else some ((z : Rat) / (d : Rat))
  | _ => none

def parseRatMat (n : Nat) (s : String) : Option (AMat Rat n) := do
  let xs ← (s.splitOn ",").mapM parseRat
  if xs.length == n * n then
    let a := xs.toArray
    some (AMat.ofFn fun i j => a[i.val * n + j.val]!)   -- index < n*n = a.size by the check above
  else none

def showRat (r : Rat) : String := s!"{r.num}/{r.den}"
def showOpt : Option Rat → String
  | some r => showRat r
  | none => "nan"
def showVec (v : Vector (Option Rat) n) : String :=
  if n = 0 then "-" else ",".intercalate ((List.finRange n).map fun i => showOpt v[i])
def showRVec (v : Vector Rat n) : String :=
  if n = 0 then "-" else ",".intercalate ((List.finRange n).map fun i => showRat v[i])

/-- run `f` on the root matrix of `W`, or report that some weight is not a perfect cube -/
def withRoot (W : AMat Rat n) (f : AMat Rat n → String) : String :=
  match rootMat W with
  | some R => f R
  | none => "error=notcube"

def stepN (op : String) (W : AMat Rat n) : String :=
  match op with
  | "cc_bu" => s!"C={showVec (ccBu W)}"
  | "cc_bd" => s!"C={showVec (ccBd W)}"
  | "cc_wu" => withRoot W fun R => s!"C={showVec (ccWu W R)}"
  | "cc_wd" => withRoot W fun R => s!"C={showVec (ccWd W R)}"
  | "cc_sign_default" =>
    withRoot (posPart (zeroDiag W)) fun Rp => withRoot (negPart (zeroDiag W)) fun Rn =>
      let r := ccSignDefault W Rp Rn
      s!"Cpos={showVec r.1} Cneg={showVec r.2}"
  | "cc_sign_zhang" => let r := ccSignZhang W; s!"Cpos={showVec r.1} Cneg={showVec r.2}"
  | "cc_sign_costantini" => s!"C={showVec (ccSignCost W)}"
  | "trans_bu" => s!"T={showOpt (transBu W)}"
  | "trans_bd" => s!"T={showOpt (transBd W)}"
  | "trans_wu" => withRoot W fun R => s!"T={showOpt (transWu W R)}"
  | "trans_wd" => withRoot W fun R => s!"T={showOpt (transWd W R)}"
  | "degrees_und" => s!"deg={showRVec (degreesUnd W)}"
  | "degrees_dir" => s!"id={showRVec (degreesIn W)} od={showRVec (degreesOut W)} deg={showRVec (degreesTot W)}"
  | "strengths_und" => s!"str={showRVec (strengthsUnd W)}"
  | "strengths_dir" => s!"str={showRVec (strengthsDir W)}"
  | _ => "error=protocol"

/-- `op n=<n> W=<row-major rationals p/q or integers>` → one canonical result line -/
def step (line : String) : String :=
  let (op, kv) := parseLine line
  let res : Option String := do
    let n ← (← lookup kv "n").toNat?
    let W ← parseRatMat n (← lookup kv "W")
    some (stepN op W)
  res.getD "error=protocol"

end Bct.Cluster
