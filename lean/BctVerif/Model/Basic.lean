/-!
# Basic executable data structures shared by all models (core Lean only, no Mathlib)

`AMat α n` is a `Vector`-backed square matrix; executable models run on it and the
refinement lemma `AMat.get_set` transports every update to the function view
`AMat.toFun A = fun i j => A.get i j` used in the property theorems.
-/
namespace Bct

abbrev AMat (α : Type) (n : Nat) := Vector (Vector α n) n

namespace AMat
variable {α : Type} {n : Nat}

@[inline] def get (A : AMat α n) (i j : Fin n) : α := A[i][j]
@[inline] def set (A : AMat α n) (i j : Fin n) (v : α) : AMat α n :=
  Vector.set A i (Vector.set A[i] j v)
@[inline] def ofFn (f : Fin n → Fin n → α) : AMat α n := Vector.ofFn fun i => Vector.ofFn fun j => f i j
def toFun (A : AMat α n) : Fin n → Fin n → α := fun i j => A.get i j

theorem get_set (A : AMat α n) (i j i' j' : Fin n) (v : α) :
    (A.set i j v).get i' j' = if i' = i ∧ j' = j then v else A.get i' j' := by
  unfold AMat.get AMat.set
  by_cases hi : i' = i
  · subst hi
    by_cases hj : j' = j
    · subst hj; simp
    · have : (j : Nat) ≠ j' := fun h => hj (Fin.ext h.symm)
      simp [hj, this]
  · have : (i : Nat) ≠ i' := fun h => hi (Fin.ext h.symm)
    simp [hi, this]

@[simp] theorem get_ofFn (f : Fin n → Fin n → α) (i j : Fin n) : (ofFn f).get i j = f i j := by
  simp [ofFn, get]

theorem ext_get {A B : AMat α n} (h : ∀ i j, A.get i j = B.get i j) : A = B := by
  apply Vector.ext; intro i hi
  apply Vector.ext; intro j hj
  exact h ⟨i, hi⟩ ⟨j, hj⟩

def transpose (A : AMat α n) : AMat α n := ofFn fun i j => A.get j i
def map {β : Type} (f : α → β) (A : AMat α n) : AMat β n := ofFn fun i j => f (A.get i j)
end AMat

/-! ## errors and protocol parsing -/

inductive Err | outOfDraws | badDraw | protocol | param | index
  deriving Repr, DecidableEq

def Err.str : Err → String
  | .outOfDraws => "out-of-draws" | .badDraw => "bad-draw" | .protocol => "protocol"
  | .param => "BCTParamError" | .index => "IndexError"

def asFin (k x : Nat) : Except Err (Fin k) := if h : x < k then .ok ⟨x, h⟩ else .error .badDraw

/-- np.round of the rational p/q (q>0): round half to even -/
def roundHalfEven (p q : Nat) : Nat :=
  let f := p / q
  let r2 := 2 * (p % q)
  if r2 < q then f else if r2 > q then f + 1 else if f % 2 == 0 then f else f + 1

/-- a `random_sample()` value is recorded as the integer `v * 2^53`; `coin x` is `v > .5` -/
def coin (x : Nat) : Bool := 2 * x > 9007199254740992

def parseInts (s : String) : Option (List Int) :=
  if s == "-" || s == "" then some [] else (s.splitOn ",").mapM String.toInt?
def parseNats (s : String) : Option (List Nat) :=
  if s == "-" || s == "" then some [] else (s.splitOn ",").mapM String.toNat?

def matOfList {n : Nat} (xs : Array Int) : AMat Int n :=
  AMat.ofFn fun i j => xs[i.val * n + j.val]!

def parseMat (n : Nat) (s : String) : Option (AMat Int n) := do
  let xs ← parseInts s
  if xs.length == n * n then some (matOfList xs.toArray) else none

def showMat {n} (R : AMat Int n) : String :=
  ",".intercalate ((List.finRange n).flatMap fun i => (List.finRange n).map fun j => toString (R.get i j))

def showNats (xs : List Nat) : String := if xs.isEmpty then "-" else ",".intercalate (xs.map toString)
def showInts (xs : List Int) : String := if xs.isEmpty then "-" else ",".intercalate (xs.map toString)

/-- `key=value` tokens separated by blanks; first token is the operation name -/
def parseLine (line : String) : String × List (String × String) :=
  match (line.trimAscii.toString.splitOn " ").filter (· ≠ "") with
  | [] => ("", [])
  | op :: kvs => (op, kvs.filterMap fun t => match t.splitOn "=" with
      | [k, v] => some (k, v) | _ => none)

def lookup (kvs : List (String × String)) (k : String) : Option String := (kvs.find? (·.1 == k)).map (·.2)

partial def driverLoop (step : String → String) (h : IO.FS.Stream) (out : IO.FS.Stream) (i : Nat) : IO Unit := do
  let line ← h.getLine
  if line.isEmpty then return ()
  out.putStrLn s!"@{i} {step line}"
  driverLoop step h out (i + 1)

def driverMain (step : String → String) : IO Unit := do
  driverLoop step (← IO.getStdin) (← IO.getStdout) 0

end Bct
