import BctVerif.Model.Basic
/-!
# Executable model for C08 — betweenness counts exactly the shortest paths

Two layers, both core Lean, both run by the driver.

**Definition level** (`dist`, `sigma`, `bcSpec`, `ebcSpec`).  `L : AMat Nat n` is a connection-length
matrix, `L i j = 0` meaning "no connection" and `L i j > 0` the length of the connection.
`dist L s t : Option Nat` (`none` = unreachable) is computed by `n` rounds of first-edge
relaxation, `sigma L s t` = number of minimum-length walks from `s` to `t` by `n` rounds of the
first-edge recursion `σ s t = [s = t] + Σ_{w : L s w + d w t = d s t} σ w t`.  Node and edge
betweenness are the sums of fractions of the property text, in exact rationals.
`Props/C08.lean` proves that `dist` is the true minimum walk length, that `sigma` is the cardinal of
the set of minimum-length walks and that the products used in `sigmaV`/`sigmaE` are the numbers
of minimum-length walks through a node / along a connection.

**Algorithm level** (`betweennessBin`, `brandes`) mirrors `bct/algorithms/centrality.py` statement
for statement: matrix powers `NPd`/`NSPd` and the back-propagation `DP` of `betweenness_bin`; the
Dijkstra / BFS loops with predecessor matrix `P`, path counts `NP`, reverse-order queue `Q`
(unreachable nodes first, `Q[:q+1] = where(...)` with NumPy's length-1 broadcast rule) and the
dependency accumulation of `edge_betweenness_wei`, `edge_betweenness_bin` (`brandes`) and, separately and
without the `EBC` accumulation, of `betweenness_wei` (`betweennessWei`).
`Props/C08.lean` proves each of them equal to `bcSpec` / `ebcSpec` on its domain.
-/
namespace Bct.Between
open Bct

/-- apply `f` `k` times -/
def iter {α : Type} (f : α → α) : Nat → α → α
  | 0, x => x
  | k + 1, x => f (iter f k x)

def sumFin {α : Type} [Add α] [Zero α] {n : Nat} (f : Fin n → α) : α := ((List.finRange n).map f).sum

/-! ## definition level -/

/-- minimum of two extended naturals (`none` = ∞) -/
def omin : Option Nat → Option Nat → Option Nat
  | none, b => b
  | a, none => a
  | some a, some b => some (min a b)

/-- `a + b` for an extended natural `b` -/
def oadd (a : Nat) : Option Nat → Option Nat
  | none => none
  | some b => some (a + b)

abbrev DMat (n : Nat) := AMat (Option Nat) n

def dist0 {n} : DMat n := AMat.ofFn fun s t => if s = t then some 0 else none

/-- one cell of a relaxation round: `min (D s t) (min_{w : L s w ≠ 0} L s w + D w t)` -/
def relaxCell {n} (L : AMat Nat n) (D : DMat n) (s t : Fin n) : Option Nat :=
  (List.finRange n).foldl
    (fun acc w => if L.get s w = 0 then acc else omin acc (oadd (L.get s w) (D.get w t))) (D.get s t)

def relax {n} (L : AMat Nat n) (D : DMat n) : DMat n := AMat.ofFn fun s t => relaxCell L D s t

/-- all-pairs minimum walk length; `none` = no walk -/
def dist {n} (L : AMat Nat n) : DMat n := iter (relax L) n dist0

/-- the connection `s → w` starts a minimum-length walk from `s` to `t` -/
def tight {n} (L : AMat Nat n) (D : DMat n) (s w t : Fin n) : Bool :=
  L.get s w != 0 &&
    (match D.get s t, D.get w t with
     | some d, some e => L.get s w + e == d
     | _, _ => false)

def sigStep {n} (L : AMat Nat n) (D : DMat n) (S : AMat Nat n) : AMat Nat n :=
  AMat.ofFn fun s t =>
    (if s = t then 1 else 0) + sumFin fun w => if tight L D s w t then S.get w t else 0

def sigmaOf {n} (L : AMat Nat n) (D : DMat n) : AMat Nat n :=
  iter (sigStep L D) n (AMat.ofFn fun _ _ => 0)

/-- number of minimum-length walks -/
def sigma {n} (L : AMat Nat n) : AMat Nat n := sigmaOf L (dist L)

/-- number of minimum-length walks from `s` to `t` through `v` -/
def sigmaV {n} (D : DMat n) (S : AMat Nat n) (s t v : Fin n) : Nat :=
  match D.get s v, D.get v t, D.get s t with
  | some a, some b, some c => if a + b = c then S.get s v * S.get v t else 0
  | _, _, _ => 0

/-- number of minimum-length walks from `s` to `t` along the connection `u → w` -/
def sigmaE {n} (L : AMat Nat n) (D : DMat n) (S : AMat Nat n) (s t u w : Fin n) : Nat :=
  if L.get u w = 0 then 0 else
  match D.get s u, D.get w t, D.get s t with
  | some a, some b, some c => if a + L.get u w + b = c then S.get s u * S.get w t else 0
  | _, _, _ => 0

def reach {n} (D : DMat n) (s t : Fin n) : Bool := (D.get s t).isSome

/-- pair dependency of `(s,t)` on node `v` (0 for `s = t`, unreachable pairs, `v ∈ {s,t}`) -/
def pairV {n} (D : DMat n) (S : AMat Nat n) (s t v : Fin n) : Rat :=
  if s ≠ t ∧ s ≠ v ∧ t ≠ v ∧ reach D s t then (sigmaV D S s t v : Rat) / (S.get s t : Rat) else 0

def pairE {n} (L : AMat Nat n) (D : DMat n) (S : AMat Nat n) (s t u w : Fin n) : Rat :=
  if s ≠ t ∧ reach D s t then (sigmaE L D S s t u w : Rat) / (S.get s t : Rat) else 0

/-- dependency of the source `s` on the node `v` (Brandes' `δ_s(v)`) -/
def depOf {n} (D : DMat n) (S : AMat Nat n) (s v : Fin n) : Rat := sumFin fun t => pairV D S s t v

/-- `v` immediately precedes `w` on some minimum-length walk from `s` (the matrix `P` of the code) -/
def pred {n} (L : AMat Nat n) (D : DMat n) (s v w : Fin n) : Bool :=
  L.get v w != 0 &&
    (match D.get s v, D.get s w with
     | some a, some e => a + L.get v w == e
     | _, _ => false)

def bcOf {n} (D : DMat n) (S : AMat Nat n) : Vector Rat n :=
  Vector.ofFn fun v => sumFin fun s => depOf D S s v

def ebcOf {n} (L : AMat Nat n) (D : DMat n) (S : AMat Nat n) : AMat Rat n :=
  AMat.ofFn fun u w => sumFin fun s => sumFin fun t => pairE L D S s t u w

/-- node betweenness from the definition -/
def bcSpec {n} (L : AMat Nat n) : Vector Rat n := bcOf (dist L) (sigma L)
/-- edge betweenness from the definition -/
def ebcSpec {n} (L : AMat Nat n) : AMat Rat n := ebcOf L (dist L) (sigma L)

/-! ## algorithm level -/

inductive BErr | valueError | unsupported | fuel
  deriving Repr, DecidableEq

def BErr.str : BErr → String
  | .valueError => "ValueError" | .unsupported => "unsupported" | .fuel => "fuel"

def matMul {n} (A B : AMat Nat n) : AMat Nat n :=
  AMat.ofFn fun i j => sumFin fun k => A.get i k * B.get k j

def anyNZ {n} (A : AMat Nat n) : Bool :=
  (List.finRange n).any fun i => (List.finRange n).any fun j => A.get i j != 0

structure BinSt (n : Nat) where
  d : Nat
  NPd : AMat Nat n
  NSPd : AMat Nat n
  NSP : AMat Nat n
  Lm : AMat Nat n

/-- the `while np.any(NSPd)` loop of `betweenness_bin` -/
def binLoop {n} (G : AMat Nat n) : Nat → BinSt n → Except BErr (BinSt n)
  | 0, _ => .error .fuel
  | fuel + 1, st =>
    if !anyNZ st.NSPd then .ok st else
    let d := st.d + 1
    let NPd := matMul st.NSPd G   -- `NPd = np.dot(NSPd, G)`: only shortest paths are extended (counts stay finite)
    let NSPd : AMat Nat n := AMat.ofFn fun i j => if st.Lm.get i j = 0 then NPd.get i j else 0
    let NSP : AMat Nat n := AMat.ofFn fun i j => st.NSP.get i j + NSPd.get i j
    let Lm : AMat Nat n := AMat.ofFn fun i j => st.Lm.get i j + (if NSPd.get i j != 0 then d else 0)
    binLoop G fuel { d, NPd, NSPd, NSP, Lm }

/-- the `for d in range(diam, 1, -1)` loop: `k` counts the remaining iterations, `d = k + 1` -/
def binBack {n} (G : AMat Nat n) (Linf : DMat n) (NSP : AMat Nat n) : Nat → AMat Rat n → AMat Rat n
  | 0, DP => DP
  | k + 1, DP =>
    let d := k + 2
    -- (L == d) * (1 + DP) / NSP
    let X : AMat Rat n := AMat.ofFn fun i j =>
      if Linf.get i j == some d then (1 + DP.get i j) / (NSP.get i j : Rat) else 0
    let DPd1 : AMat Rat n := AMat.ofFn fun i j =>
      (sumFin fun k' => X.get i k' * (G.get j k' : Rat)) *
        (if Linf.get i j == some (d - 1) then (NSP.get i j : Rat) else 0)
    binBack G Linf NSP k (AMat.ofFn fun i j => DP.get i j + DPd1.get i j)

/-- `betweenness_bin` -/
def betweennessBin {n} (G : AMat Nat n) : Except BErr (Vector Rat n) := do
  let diag1 : AMat Nat n := AMat.ofFn fun i j => if i = j then 1 else G.get i j
  let st ← binLoop G (n * n + 2) { d := 1, NPd := G, NSPd := G, NSP := diag1, Lm := diag1 }
  let Linf : DMat n := AMat.ofFn fun i j =>
    if i = j then some 0 else if st.Lm.get i j = 0 then none else some (st.Lm.get i j)
  let NSP : AMat Nat n := AMat.ofFn fun i j => if st.NSP.get i j = 0 then 1 else st.NSP.get i j
  let diam := st.d - 1
  let DP := binBack G Linf NSP (diam - 1) (AMat.ofFn fun _ _ => 0)
  return Vector.ofFn fun j => sumFin fun i => DP.get i j

/-- per-source state of the Brandes-style loops -/
structure SrcSt (n : Nat) where
  D : Vector (Option Nat) n      -- `np.inf` = none (bin variant: `some 1` = flag set, `none` = 0)
  NP : Vector Nat n
  S : Vector Bool n
  P : AMat Bool n
  Q : Vector Nat n
  q : Nat                        -- Python's `q + 1` (number of free slots)
  G1 : AMat Nat n

def olt : Option Nat → Option Nat → Bool
  | some a, some b => a < b
  | some _, none => true
  | none, _ => false

def clearCols {n} (G : AMat Nat n) (V : List (Fin n)) : AMat Nat n :=
  AMat.ofFn fun i j => if V.contains j then 0 else G.get i j

/-- `Q[q] = v; q -= 1` -/
def push {n} (st : SrcSt n) (v : Fin n) : Except BErr (SrcSt n) :=
  if h : 0 < st.q ∧ st.q - 1 < n then
    .ok { st with Q := st.Q.set (st.q - 1) v.val h.2, q := st.q - 1 }
  else .error .unsupported

/-- inner `for w in W` body of the weighted variants -/
def relaxW {n} (v : Fin n) (st : SrcSt n) (w : Fin n) : SrcSt n :=
  let Duw := match st.D[v] with
    | some dv => some (dv + st.G1.get v w)
    | none => none
  if olt Duw st.D[w] then
    { st with D := st.D.set w Duw, NP := st.NP.set w st.NP[v],
              P := AMat.ofFn fun i j => if i = w then decide (j = v) else st.P.get i j }
  else if Duw == st.D[w] then
    { st with NP := st.NP.set w (st.NP[w] + st.NP[v]), P := st.P.set w v true }
  else st

/-- inner `for w in W` body of `edge_betweenness_bin` -/
def relaxB {n} (v : Fin n) (st : SrcSt n) (w : Fin n) : SrcSt n :=
  if st.D[w].isSome then
    { st with NP := st.NP.set w (st.NP[w] + st.NP[v]), P := st.P.set w v true }
  else
    { st with D := st.D.set w (some 1), NP := st.NP.set w st.NP[v], P := st.P.set w v true }

def nbrs {n} (G : AMat Nat n) (v : Fin n) : List (Fin n) := (List.finRange n).filter fun w => G.get v w != 0

/-- `for v in V:` -/
def settle {n} (wei : Bool) : List (Fin n) → SrcSt n → Except BErr (SrcSt n)
  | [], st => .ok st
  | v :: V, st =>
    match push st v with
    | .error e => .error e
    | .ok st1 => settle wei V ((nbrs st1.G1 v).foldl (if wei then relaxW v else relaxB v) st1)

/-- `Q[:q+1], = np.where(mask)` with NumPy's broadcast rule for a single index -/
def fillFront {n} (st : SrcSt n) (idx : List (Fin n)) : Except BErr (SrcSt n) :=
  if idx.length = st.q then
    .ok { st with Q := Vector.ofFn fun i => if h : i.val < idx.length then (idx[i.val]'h).val else st.Q[i] }
  else match idx with
    | [x] => .ok { st with Q := Vector.ofFn fun i => if i.val < st.q then x.val else st.Q[i] }
    | _ => .error .valueError

def ominL : List (Option Nat) → Option Nat
  | [] => none
  | x :: xs => omin x (ominL xs)

/-- `S[V] = 0; G1[:, V] = 0; for v in V: …` -/
def weiBatch {n} (V : List (Fin n)) (st : SrcSt n) : Except BErr (SrcSt n) :=
  settle true V { st with S := Vector.ofFn fun i => st.S[i] && !V.contains i, G1 := clearCols st.G1 V }

/-- the three ways the body of `while True:` ends -/
inductive Next (n : Nat) where
  | done                          -- `D[S].size == 0`
  | fill (idx : List (Fin n))     -- `np.isinf(np.min(D[S]))`: `Q[:q+1], = np.where(np.isinf(D))`
  | batch (V : List (Fin n))      -- `V, = np.where(np.logical_and(D == np.min(D[S]), S))`

def weiNext {n} (st : SrcSt n) : Next n :=
  let uns := (List.finRange n).filter fun i => st.S[i]
  if uns.isEmpty then .done else
  match ominL (uns.map fun i => st.D[i]) with
  | none => .fill ((List.finRange n).filter fun i => st.D[i].isNone)
  | some m => .batch ((List.finRange n).filter fun i => st.S[i] && st.D[i] == some m)

/-- `while True:` of `betweenness_wei` / `edge_betweenness_wei` -/
def weiLoop {n} : Nat → List (Fin n) → SrcSt n → Except BErr (SrcSt n)
  | 0, _, _ => .error .fuel
  | fuel + 1, V, st =>
    match weiBatch V st with
    | .error e => .error e
    | .ok st1 =>
      match weiNext st1 with
      | .done => .ok st1
      | .fill idx => fillFront st1 idx
      | .batch V' => weiLoop fuel V' st1

/-- `while V.size:` of `edge_betweenness_bin` -/
def bfsLoop {n} : Nat → List (Fin n) → SrcSt n → Except BErr (SrcSt n)
  | 0, _, _ => .error .fuel
  | fuel + 1, V, st =>
    if V.isEmpty then
      let un := (List.finRange n).filter fun i => st.D[i].isNone
      if un.isEmpty then .ok st else fillFront st un
    else
      match settle false V { st with G1 := clearCols st.G1 V } with
      | .error e => .error e
      | .ok st1 => bfsLoop fuel ((List.finRange n).filter fun j => V.any fun v => st1.G1.get v j != 0) st1

structure Acc (n : Nat) where
  BC : Vector Rat n
  EBC : AMat Rat n
  DP : Vector Rat n

/-- `for v in np.where(P[w, :])[0]:` -/
def backInner {n} (st : SrcSt n) (w : Fin n) : List (Fin n) → Acc n → Except BErr (Acc n)
  | [], a => .ok a
  | v :: vs, a =>
    if st.NP[w] = 0 then .error .unsupported else
    let x : Rat := (1 + a.DP[w]) * (st.NP[v] : Rat) / (st.NP[w] : Rat)
    backInner st w vs { a with DP := a.DP.set v (a.DP[v] + x), EBC := a.EBC.set v w (a.EBC.get v w + x) }

/-- `for w in Q[:n-1]:` -/
def backOuter {n} (st : SrcSt n) : List Nat → Acc n → Except BErr (Acc n)
  | [], a => .ok a
  | wn :: ws, a =>
    if h : wn < n then do
      let w : Fin n := ⟨wn, h⟩
      let a := { a with BC := a.BC.set w (a.BC[w] + a.DP[w]) }
      let a ← backInner st w ((List.finRange n).filter fun v => st.P.get w v) a
      backOuter st ws a
    else .error .unsupported

def initSt {n} (wei : Bool) (G : AMat Nat n) (u : Fin n) : SrcSt n :=
  { D := Vector.ofFn fun i => if i = u then some (if wei then 0 else 1) else none
    NP := Vector.ofFn fun i => if i = u then 1 else 0
    S := Vector.ofFn fun _ => true
    P := AMat.ofFn fun _ _ => false
    Q := Vector.ofFn fun _ => 0
    q := n
    G1 := G }

/-- one source `u` of the outer `for u in range(n)` -/
def source {n} (wei : Bool) (G : AMat Nat n) (a : Acc n) (u : Fin n) : Except BErr (Acc n) := do
  let st ← (if wei then weiLoop (n + 1) [u] (initSt wei G u) else bfsLoop (n + 2) [u] (initSt wei G u))
  backOuter st (st.Q.toList.take (n - 1)) { a with DP := Vector.ofFn fun _ => 0 }

def sources {n} (wei : Bool) (G : AMat Nat n) : List (Fin n) → Acc n → Except BErr (Acc n)
  | [], a => .ok a
  | u :: us, a => do
    let a ← source wei G a u
    sources wei G us a

/-- `edge_betweenness_wei` when `wei = true` (`betweenness_wei` has its own model `betweennessWei`), `edge_betweenness_bin` when `wei = false`; returns `(EBC, BC)` -/
def brandes {n} (wei : Bool) (G : AMat Nat n) : Except BErr (AMat Rat n × Vector Rat n) := do
  let a ← sources wei G (List.finRange n)
    { BC := Vector.ofFn fun _ => 0, EBC := AMat.ofFn fun _ _ => 0, DP := Vector.ofFn fun _ => 0 }
  return (a.EBC, a.BC)

/-! ### `betweenness_wei`: the node routine has its own loop, without the `EBC` accumulation

The forward pass of `betweenness_wei` is textually the one of `edge_betweenness_wei` (`weiLoop`);
its back-propagation is `DP[v] += (1 + DP[w]) * NP[v] / NP[w]` with no `EBC`. -/

structure AccN (n : Nat) where
  BC : Vector Rat n
  DP : Vector Rat n

/-- `for v in np.where(P[w, :])[0]: DP[v] += (1 + DP[w]) * NP[v] / NP[w]` -/
def backInnerN {n} (st : SrcSt n) (w : Fin n) : List (Fin n) → AccN n → Except BErr (AccN n)
  | [], a => .ok a
  | v :: vs, a =>
    if st.NP[w] = 0 then .error .unsupported else
    backInnerN st w vs
      { a with DP := a.DP.set v (a.DP[v] + (1 + a.DP[w]) * (st.NP[v] : Rat) / (st.NP[w] : Rat)) }

/-- `for w in Q[:n-1]: BC[w] += DP[w]; …` -/
def backOuterN {n} (st : SrcSt n) : List Nat → AccN n → Except BErr (AccN n)
  | [], a => .ok a
  | wn :: ws, a =>
    if h : wn < n then
      match backInnerN st ⟨wn, h⟩ ((List.finRange n).filter fun v => st.P.get ⟨wn, h⟩ v)
          { a with BC := a.BC.set (⟨wn, h⟩ : Fin n) (a.BC[(⟨wn, h⟩ : Fin n)] + a.DP[(⟨wn, h⟩ : Fin n)]) } with
      | .error e => .error e
      | .ok a1 => backOuterN st ws a1
    else .error .unsupported

def sourceN {n} (G : AMat Nat n) (bc : Vector Rat n) (u : Fin n) : Except BErr (Vector Rat n) :=
  match weiLoop (n + 1) [u] (initSt true G u) with
  | .error e => .error e
  | .ok st =>
    match backOuterN st (st.Q.toList.take (n - 1)) { BC := bc, DP := Vector.ofFn fun _ => 0 } with
    | .error e => .error e
    | .ok a => .ok a.BC

def sourcesN {n} (G : AMat Nat n) : List (Fin n) → Vector Rat n → Except BErr (Vector Rat n)
  | [], bc => .ok bc
  | u :: us, bc =>
    match sourceN G bc u with
    | .error e => .error e
    | .ok bc1 => sourcesN G us bc1

/-- `betweenness_wei` -/
def betweennessWei {n} (G : AMat Nat n) : Except BErr (Vector Rat n) :=
  sourcesN G (List.finRange n) (Vector.ofFn fun _ => 0)

/-! ## driver -/

def showRat (x : Rat) : String := s!"{x.num}/{x.den}"

def showRats (xs : List Rat) : String := if xs.isEmpty then "-" else ",".intercalate (xs.map showRat)

def showVecR {n} (v : Vector Rat n) : String := showRats v.toList

def showMatR {n} (A : AMat Rat n) : String :=
  showRats ((List.finRange n).flatMap fun i => (List.finRange n).map fun j => A.get i j)

def showON : Option Nat → String
  | none => "inf"
  | some d => toString d

def parseNMat (n : Nat) (s : String) : Option (AMat Nat n) := do
  let xs ← parseNats s
  if xs.length == n * n then
    let a := xs.toArray
    some (AMat.ofFn fun i j => a[i.val * n + j.val]!)
  else none

def step (line : String) : String :=
  let (op, kv) := parseLine line
  let res : Option String := do
    let n ← (← lookup kv "n").toNat?
    let L ← parseNMat n (← lookup kv "L")
    -- optional common denominator: the lengths are `L / den` (rational); betweenness only depends on the
    -- numerators (`C08.bc_spec_rational`), distances are printed divided by `den`
    let den ← (match lookup kv "den" with
      | none => some 1
      | some d => match d.toNat? with
        | some k => if k = 0 then none else some k
        | none => none)
    let cells : List (Fin n × Fin n) := (List.finRange n).flatMap fun i => (List.finRange n).map fun j => (i, j)
    if op == "spec" then
      let D := dist L
      let S := sigmaOf L D
      let ds := ",".intercalate (cells.map fun (i, j) =>
        if (lookup kv "den").isSome then
          (match D.get i j with | none => "inf" | some d => showRat ((d : Rat) / (den : Rat)))
        else showON (D.get i j))
      let ss := ",".intercalate (cells.map fun (i, j) => toString (S.get i j))
      some s!"d={if n == 0 then "-" else ds} sig={if n == 0 then "-" else ss} bc={showVecR (bcOf D S)} ebc={showMatR (ebcOf L D S)}"
    else if op == "betweenness_bin" then
      match betweennessBin L with
      | .error e => some s!"error={e.str}"
      | .ok bc => some s!"bc={showVecR bc}"
    else if op == "betweenness_wei" then
      match betweennessWei L with
      | .error e => some s!"error={e.str}"
      | .ok bc => some s!"bc={showVecR bc}"
    else if op == "edge_betweenness_wei" then
      match brandes true L with
      | .error e => some s!"error={e.str}"
      | .ok (ebc, bc) => some s!"ebc={showMatR ebc} bc={showVecR bc}"
    else if op == "edge_betweenness_bin" then
      match brandes false L with
      | .error e => some s!"error={e.str}"
      | .ok (ebc, bc) => some s!"ebc={showMatR ebc} bc={showVecR bc}"
    else none
  res.getD "error=protocol"

end Bct.Between
