import BctVerif.Model.Between
/-!
# Source-extracted `betweenness_wei` and `edge_betweenness_wei`: IR, interpreter, decidable checks (T-gen, C08)

`translate/cores.py` reads `bct/algorithms/centrality.py` with `ast` on every check run and writes every statement of the two
routines, which share this text (the node routine has no `EBC`, and one statement in the innermost loop of the back-propagation):

    n = len(G)
    BC = np.zeros((n,))
    EBC = np.zeros((n, n))
    for u in range(n):
        D = np.tile(np.inf, n)            # np.tile(np.inf, (n,)) in betweenness_wei
        D[u] = 0
        NP = np.zeros((n,))
        NP[u] = 1
        S = np.ones((n,), dtype=bool)
        P = np.zeros((n, n))
        Q = np.zeros((n,), dtype=int)
        q = n - 1
        G1 = G.copy()
        V = [u]
        while True:
            S[V] = 0
            G1[:, V] = 0
            for v in V:
                Q[q] = v
                q -= 1
                W, = np.where(G1[v, :])
                for w in W:
                    Duw = D[v] + G1[v, w]
                    if Duw < D[w]:
                        D[w] = Duw
                        NP[w] = NP[v]
                        P[w, :] = 0
                        P[w, v] = 1
                    elif Duw == D[w]:
                        NP[w] += NP[v]
                        P[w, v] = 1
            if D[S].size == 0:
                break
            if np.isinf(np.min(D[S])):
                Q[:q + 1], = np.where(np.isinf(D))
                break
            V, = np.where(np.logical_and(D == np.min(D[S]), S))
        DP = np.zeros((n,))
        for w in Q[:n - 1]:
            BC[w] += DP[w]
            for v in np.where(P[w, :])[0]:
                DPvw = (1 + DP[w]) * NP[v] / NP[w]
                DP[v] += DPvw
                EBC[v, w] += DPvw
    return EBC, BC

as `WeiIR` values into `BctVerif/Gen/CoresBetw.lean`, with the obligations `weiOk <reference> ir = true := by decide`.  The nesting
of the loops, the two `break` tests and the `if … elif …` are the shape of the IR; every block of simple statements, every loop
header and every test is data.  Floats are rationals or `inf`; names live in six sorts (scalars, float vectors, integer vectors,
boolean vectors, float matrices, index arrays).  A negative or too large index, a zero divisor, an unbound name, arithmetic that
is not part of the language (`inf - inf`, `inf * x`, …), an empty `np.min` and a shape mismatch of the slice assignment stop the
run.  `Props/CoresBwei.lean` proves that programs that pass compute `Between.betweennessWei` and `Between.brandes true`.

Core Lean only.
-/
namespace Bct.CoreIR.Bwei
open Bct Bct.Between

/-- a float: a rational or `inf` -/
inductive F
  | fin (q : Rat)
  | inf
  deriving DecidableEq

namespace F
def add : F → F → F
  | fin a, fin b => fin (a + b)
  | _, _ => inf
def lt : F → F → Bool
  | fin a, fin b => a < b
  | fin _, inf => true
  | inf, _ => false
def min (a b : F) : F := if lt b a then b else a
def isInf : F → Bool
  | inf => true
  | fin _ => false
end F

/-- scalar values: Python integers and floats -/
inductive SV
  | int (z : Int)
  | flt (f : F)
  deriving DecidableEq

namespace SV
def toF : SV → F
  | int z => .fin (z : Rat)
  | flt f => f
def add : SV → SV → SV
  | int a, int b => int (a + b)
  | a, b => flt (a.toF.add b.toF)
/-- `a - b`, `a * b`, `a / b` on finite values only -/
def sub : SV → SV → Option SV
  | int a, int b => some (int (a - b))
  | a, b => match a.toF, b.toF with
    | .fin x, .fin y => some (flt (.fin (x - y)))
    | _, _ => none
def mul : SV → SV → Option SV
  | int a, int b => some (int (a * b))
  | a, b => match a.toF, b.toF with
    | .fin x, .fin y => some (flt (.fin (x * y)))
    | _, _ => none
def div (a b : SV) : Option SV :=
  match a.toF, b.toF with
  | .fin x, .fin y => if y = 0 then none else some (flt (.fin (x / y)))
  | _, _ => none
end SV

inductive SEx
  | var (x : String)
  | lit (k : Int)
  | add (a b : SEx)
  | sub (a b : SEx)
  | mul (a b : SEx)
  | div (a b : SEx)
  /-- `v[i]` for a float vector -/
  | at1 (v : String) (i : SEx)
  /-- `m[i, j]` for a float matrix -/
  | at2 (m : String) (i j : SEx)
  deriving DecidableEq, Repr

inductive Stmt
  /-- `x = len(m)` -/
  | setLen (x m : String)
  /-- `x = np.zeros((d,))` -/
  | zeros1 (x d : String)
  /-- `x = np.zeros((d,), dtype=int)` -/
  | zeros1i (x d : String)
  /-- `x = np.zeros((d1, d2))` -/
  | zeros2 (x d1 d2 : String)
  /-- `x = np.tile(np.inf, d)` (`tuple = false`) or `x = np.tile(np.inf, (d,))` (`tuple = true`) -/
  | tileInf (x d : String) (tuple : Bool)
  /-- `x = np.ones((d,), dtype=bool)` -/
  | onesB (x d : String)
  /-- `v[i] = e` (float vector) -/
  | set1 (v : String) (i e : SEx)
  /-- `v[i] = e` (integer vector) -/
  | set1i (v : String) (i e : SEx)
  /-- `v[i] += e` (float vector) -/
  | aug1 (v : String) (i e : SEx)
  /-- `m[i, j] = e` -/
  | set2 (m : String) (i j e : SEx)
  /-- `m[i, j] += e` -/
  | aug2 (m : String) (i j e : SEx)
  /-- `m[i, :] = k` -/
  | setRow (m : String) (i : SEx) (k : Int)
  /-- `x = e` (scalar) -/
  | letS (x : String) (e : SEx)
  /-- `x -= e` (scalar) -/
  | subS (x : String) (e : SEx)
  /-- `x = m.copy()` (matrix) -/
  | copy (x m : String)
  /-- `x = [e]` -/
  | single (x : String) (e : SEx)
  /-- `s[l] = k` for a boolean vector `s` and an index array `l` -/
  | clearB (s l : String) (k : Int)
  /-- `m[:, l] = k` for an index array `l` -/
  | clearCols (m l : String) (k : Int)
  /-- `x, = np.where(m[i, :])` -/
  | whereRow (x m : String) (i : SEx)
  /-- `x, = np.where(d == np.min(d'[s]))` -/
  | whereEqMin (x d d' s : String)
  /-- `x, = np.where(np.logical_and(d == np.min(d'[s]), s'))` (`s'` a boolean vector) -/
  | whereEqMinIn (x d d' s s' : String)
  /-- `v[:hi], = np.where(np.isinf(d))` (integer vector `v`, float vector `d`) -/
  | fillPrefixInf (v : String) (hi : SEx) (d : String)
  deriving DecidableEq, Repr

inductive Cond
  /-- `a < b` -/
  | lt (a b : SEx)
  /-- `a == b` -/
  | eq (a b : SEx)
  /-- `d[s].size == 0` -/
  | selEmpty (d s : String)
  /-- `np.isinf(np.min(d[s]))` -/
  | minSelInf (d s : String)
  deriving DecidableEq, Repr

structure WeiIR where
  name : String
  recognised : Bool
  origins : List (String × String)
  param : String
  pre : List Stmt
  /-- `for <srcVar> in range(<srcN>):` -/
  srcVar : String
  srcN : String
  init : List Stmt
  /-- `while True:` <head> -/
  head : List Stmt
  /-- `for <vVar> in <vIter>:` -/
  vVar : String
  vIter : String
  visit : List Stmt
  /-- `for <wVar> in <wIter>:` -/
  wVar : String
  wIter : String
  relaxPre : List Stmt
  /-- `if <c1>: <s1> elif <c2>: <s2>` -/
  c1 : Cond
  s1 : List Stmt
  c2 : Cond
  s2 : List Stmt
  /-- `if <exit1>: break` -/
  exit1 : Cond
  /-- `if <exit2>: <fill>; break` -/
  exit2 : Cond
  fill : List Stmt
  next : List Stmt
  mid : List Stmt
  /-- `for <bwVar> in <bwVec>[:<bwHi>]:` -/
  bwVar : String
  bwVec : String
  bwHi : SEx
  acc : List Stmt
  /-- `for <bvVar> in np.where(<bvMat>[<bvRow>, :])[0]:` -/
  bvVar : String
  bvMat : String
  bvRow : SEx
  dep : List Stmt
  /-- the returned names: a vector, or a matrix and a vector -/
  ret : List String
  deriving DecidableEq, Repr

variable {n : Nat}

structure Env (n : Nat) where
  sc : String → Option SV
  vec : String → Option (Vector F n)
  ivec : String → Option (Vector Int n)
  bvec : String → Option (Vector Bool n)
  mat : String → Option (AMat F n)
  lst : String → Option (List (Fin n))

/-- a Python integer as an index; negative indices are not part of the language -/
def idx (s : SV) : Option (Fin n) :=
  match s with
  | .int z => if h : 0 ≤ z ∧ z.toNat < n then some ⟨z.toNat, h.2⟩ else none
  | .flt _ => none

def eval (E : Env n) : SEx → Option SV
  | .var x => E.sc x
  | .lit k => some (.int k)
  | .add a b => match eval E a, eval E b with
    | some x, some y => some (x.add y)
    | _, _ => none
  | .sub a b => match eval E a, eval E b with
    | some x, some y => x.sub y
    | _, _ => none
  | .mul a b => match eval E a, eval E b with
    | some x, some y => x.mul y
    | _, _ => none
  | .div a b => match eval E a, eval E b with
    | some x, some y => x.div y
    | _, _ => none
  | .at1 v i => match eval E i with
    | some s => match idx (n := n) s, E.vec v with
      | some k, some X => some (.flt X[k])
      | _, _ => none
    | none => none
  | .at2 m i j => match eval E i, eval E j with
    | some s, some t => match idx (n := n) s, idx (n := n) t, E.mat m with
      | some a, some b, some M => some (.flt (M.get a b))
      | _, _, _ => none
    | _, _ => none

def evalIdx (E : Env n) (e : SEx) : Option (Fin n) :=
  match eval E e with
  | some s => idx s
  | none => none

def isDim (E : Env n) (d : String) : Bool := E.sc d == some (.int n)

/-- the entries of `d` selected by the boolean vector `s`, in order -/
def sel (D : Vector F n) (S : Vector Bool n) : List F := ((List.finRange n).filter fun i => S[i]).map fun i => D[i]

/-- `np.min` of a non-empty list -/
def minL : List F → Option F
  | [] => none
  | x :: xs => some (xs.foldl F.min x)

/-- `v[:hi], = idx`: the slice has `min hi n` cells; as many values, or a single one that is broadcast -/
def fillFrontV (Q : Vector Int n) (hi : Int) (l : List (Fin n)) : Option (Vector Int n) :=
  if 0 ≤ hi then
    let len := min hi.toNat n
    if l.length = len then
      some (Vector.ofFn fun i => if h : i.val < l.length then ((l[i.val]'h).val : Int) else Q[i])
    else match l with
      | [x] => some (Vector.ofFn fun i => if i.val < len then (x.val : Int) else Q[i])
      | _ => none
  else none

def exec (E : Env n) : Stmt → Option (Env n)
  | .setLen x m => match E.mat m with
    | some _ => some { E with sc := fun y => if y = x then some (.int n) else E.sc y }
    | none => none
  | .zeros1 x d => if isDim E d then some { E with vec := fun y => if y = x then some (Vector.ofFn fun _ => .fin 0) else E.vec y } else none
  | .zeros1i x d => if isDim E d then some { E with ivec := fun y => if y = x then some (Vector.ofFn fun _ => 0) else E.ivec y } else none
  | .zeros2 x d1 d2 =>
    if isDim E d1 && isDim E d2 then some { E with mat := fun y => if y = x then some (AMat.ofFn fun _ _ => .fin 0) else E.mat y } else none
  | .tileInf x d _ => if isDim E d then some { E with vec := fun y => if y = x then some (Vector.ofFn fun _ => .inf) else E.vec y } else none
  | .onesB x d => if isDim E d then some { E with bvec := fun y => if y = x then some (Vector.ofFn fun _ => true) else E.bvec y } else none
  | .set1 v i e => match E.vec v, evalIdx E i, eval E e with
    | some X, some k, some s => some { E with vec := fun y => if y = v then some (X.set k s.toF) else E.vec y }
    | _, _, _ => none
  | .set1i v i e => match E.ivec v, evalIdx E i, eval E e with
    | some X, some k, some (.int z) => some { E with ivec := fun y => if y = v then some (X.set k z) else E.ivec y }
    | _, _, _ => none
  | .aug1 v i e => match E.vec v, evalIdx E i, eval E e with
    | some X, some k, some s => some { E with vec := fun y => if y = v then some (X.set k (X[k].add s.toF)) else E.vec y }
    | _, _, _ => none
  | .set2 m i j e => match E.mat m, evalIdx E i, evalIdx E j, eval E e with
    | some M, some a, some b, some s => some { E with mat := fun y => if y = m then some (M.set a b s.toF) else E.mat y }
    | _, _, _, _ => none
  | .aug2 m i j e => match E.mat m, evalIdx E i, evalIdx E j, eval E e with
    | some M, some a, some b, some s => some { E with mat := fun y => if y = m then some (M.set a b ((M.get a b).add s.toF)) else E.mat y }
    | _, _, _, _ => none
  | .setRow m i k => match E.mat m, evalIdx E i with
    | some M, some a =>
      some { E with mat := fun y => if y = m then some (AMat.ofFn fun r c => if r = a then F.fin (k : Rat) else M.get r c) else E.mat y }
    | _, _ => none
  | .letS x e => match eval E e with
    | some s => some { E with sc := fun y => if y = x then some s else E.sc y }
    | none => none
  | .subS x e => match E.sc x, eval E e with
    | some a, some s => match a.sub s with
      | some r => some { E with sc := fun y => if y = x then some r else E.sc y }
      | none => none
    | _, _ => none
  | .copy x m => match E.mat m with
    | some M => some { E with mat := fun y => if y = x then some M else E.mat y }
    | none => none
  | .single x e => match evalIdx E e with
    | some k => some { E with lst := fun y => if y = x then some [k] else E.lst y }
    | none => none
  | .clearB s l k => match E.bvec s, E.lst l with
    | some S, some L =>
      some { E with bvec := fun y => if y = s then some (Vector.ofFn fun i => if L.contains i then k != 0 else S[i]) else E.bvec y }
    | _, _ => none
  | .clearCols m l k => match E.mat m, E.lst l with
    | some M, some L =>
      some { E with mat := fun y => if y = m then some (AMat.ofFn fun i j => if L.contains j then F.fin (k : Rat) else M.get i j) else E.mat y }
    | _, _ => none
  | .whereRow x m i => match E.mat m, evalIdx E i with
    | some M, some a => some { E with lst := fun y => if y = x then some ((List.finRange n).filter fun w => M.get a w != .fin 0) else E.lst y }
    | _, _ => none
  | .whereEqMin x d d' s => match E.vec d, E.vec d', E.bvec s with
    | some D, some D', some S => match minL (sel D' S) with
      | some m => some { E with lst := fun y => if y = x then some ((List.finRange n).filter fun i => D[i] == m) else E.lst y }
      | none => none
    | _, _, _ => none
  | .whereEqMinIn x d d' s s' => match E.vec d, E.vec d', E.bvec s, E.bvec s' with
    | some D, some D', some S, some S' => match minL (sel D' S) with
      | some m => some { E with lst := fun y => if y = x then some ((List.finRange n).filter fun i => D[i] == m && S'[i]) else E.lst y }
      | none => none
    | _, _, _, _ => none
  | .fillPrefixInf v hi d => match E.ivec v, eval E hi, E.vec d with
    | some Q, some (.int z), some D =>
      match fillFrontV Q z ((List.finRange n).filter fun i => D[i].isInf) with
      | some Q' => some { E with ivec := fun y => if y = v then some Q' else E.ivec y }
      | none => none
    | _, _, _ => none

def execs : List Stmt → Env n → Option (Env n)
  | [], E => some E
  | s :: ss, E => match exec E s with
    | some E' => execs ss E'
    | none => none

def evalCond (E : Env n) : Cond → Option Bool
  | .lt a b => match eval E a, eval E b with
    | some x, some y => some (x.toF.lt y.toF)
    | _, _ => none
  | .eq a b => match eval E a, eval E b with
    | some x, some y => some (x.toF == y.toF)
    | _, _ => none
  | .selEmpty d s => match E.vec d, E.bvec s with
    | some D, some S => some (sel D S).isEmpty
    | _, _ => none
  | .minSelInf d s => match E.vec d, E.bvec s with
    | some D, some S => match minL (sel D S) with
      | some m => some m.isInf
      | none => none
    | _, _ => none

/-- `for x in <indices>: body` -/
def forList (x : String) (body : Env n → Option (Env n)) : List (Fin n) → Env n → Option (Env n)
  | [], E => some E
  | v :: vs, E =>
    match body { E with sc := fun y => if y = x then some (.int v.val) else E.sc y } with
    | some E' => forList x body vs E'
    | none => none

/-- `for x in <integers>: body` -/
def forInts (x : String) (body : Env n → Option (Env n)) : List Int → Env n → Option (Env n)
  | [], E => some E
  | z :: zs, E =>
    match body { E with sc := fun y => if y = x then some (.int z) else E.sc y } with
    | some E' => forInts x body zs E'
    | none => none

/-- `l[:z]` for a Python integer `z` -/
def takeTo {α : Type} (l : List α) (z : Int) : List α :=
  if 0 ≤ z then l.take z.toNat else l.take (l.length - z.natAbs)

/-- body of `for w in W:` -/
def runW (ir : WeiIR) (E : Env n) : Option (Env n) :=
  match execs ir.relaxPre E with
  | some E1 => match evalCond E1 ir.c1 with
    | some true => execs ir.s1 E1
    | some false => match evalCond E1 ir.c2 with
      | some true => execs ir.s2 E1
      | some false => some E1
      | none => none
    | none => none
  | none => none

/-- body of `for v in V:` -/
def runV (ir : WeiIR) (E : Env n) : Option (Env n) :=
  match execs ir.visit E with
  | some E1 => match E1.lst ir.wIter with
    | some W => forList ir.wVar (runW ir) W E1
    | none => none
  | none => none

/-- `while True:` on fuel -/
def whileTrue (ir : WeiIR) : Nat → Env n → Option (Env n)
  | 0, _ => none
  | fuel + 1, E =>
    match execs ir.head E with
    | some E1 => match E1.lst ir.vIter with
      | some V => match forList ir.vVar (runV ir) V E1 with
        | some E2 => match evalCond E2 ir.exit1 with
          | some true => some E2
          | some false => match evalCond E2 ir.exit2 with
            | some true => execs ir.fill E2
            | some false => match execs ir.next E2 with
              | some E3 => whileTrue ir fuel E3
              | none => none
            | none => none
          | none => none
        | none => none
      | none => none
    | none => none

/-- body of `for w in Q[:n - 1]:` -/
def runBW (ir : WeiIR) (E : Env n) : Option (Env n) :=
  match execs ir.acc E with
  | some E1 => match E1.mat ir.bvMat, evalIdx E1 ir.bvRow with
    | some M, some a => forList ir.bvVar (execs ir.dep) ((List.finRange n).filter fun v => M.get a v != .fin 0) E1
    | _, _ => none
  | none => none

/-- the back-propagation loop -/
def runBack (ir : WeiIR) (E : Env n) : Option (Env n) :=
  match E.ivec ir.bwVec, eval E ir.bwHi with
  | some Q, some (.int z) => forInts ir.bwVar (runBW ir) (takeTo Q.toList z) E
  | _, _ => none

/-- body of `for u in range(n):` -/
def runSrc (ir : WeiIR) (fuel : Nat) (E : Env n) : Option (Env n) :=
  match execs ir.init E with
  | some E1 => match whileTrue ir fuel E1 with
    | some E2 => match execs ir.mid E2 with
      | some E3 => runBack ir E3
      | none => none
    | none => none
  | none => none

/-- a returned value -/
inductive Res (n : Nat)
  | vec (v : Vector F n)
  | mat (M : AMat F n)

/-- the returned values: `return <vector>` or `return <matrix>, <vector>` -/
def results (E : Env n) : List String → Option (List (Res n))
  | [v] => (E.vec v).map fun x => [.vec x]
  | [m, v] => match E.mat m, E.vec v with
    | some M, some x => some [.mat M, .vec x]
    | _, _ => none
  | _ => none

/-- the whole routine on the argument; `range(<srcN>)` must be the range of the dimension -/
def run (ir : WeiIR) (fuel : Nat) (G : AMat F n) : Option (List (Res n)) :=
  match execs ir.pre { sc := fun _ => none, vec := fun _ => none, ivec := fun _ => none, bvec := fun _ => none,
                       mat := fun y => if y = ir.param then some G else none, lst := fun _ => none } with
  | some E0 =>
    if isDim E0 ir.srcN then
      match forList ir.srcVar (runSrc ir fuel) (List.finRange n) E0 with
      | some E1 => results E1 ir.ret
      | none => none
    else none
  | none => none

/-! ### the reference programs -/

def refInit (tuple : Bool) : List Stmt :=
  [ .tileInf "D" "n" tuple, .set1 "D" (.var "u") (.lit 0), .zeros1 "NP" "n", .set1 "NP" (.var "u") (.lit 1), .onesB "S" "n",
    .zeros2 "P" "n" "n", .zeros1i "Q" "n", .letS "q" (.sub (.var "n") (.lit 1)), .copy "G1" "G", .single "V" (.var "u") ]

def depExpr : SEx := .div (.mul (.add (.lit 1) (.at1 "DP" (.var "w"))) (.at1 "NP" (.var "v"))) (.at1 "NP" (.var "w"))

def refNode : WeiIR :=
  { name := "betweenness_wei", recognised := true,
    origins := [("BRANDES2001", "from bct/citations.py:BRANDES2001"), ("BibTeX", "from bct/due.py:BibTeX"),
                ("KINTALI2008", "from bct/citations.py:KINTALI2008"), ("bool", "builtin"), ("due", "from bct/due.py:due"),
                ("int", "builtin"), ("len", "builtin"), ("np", "module numpy"), ("range", "builtin")],
    param := "G",
    pre := [ .setLen "n" "G", .zeros1 "BC" "n" ],
    srcVar := "u", srcN := "n",
    init := refInit true,
    head := [ .clearB "S" "V" 0, .clearCols "G1" "V" 0 ],
    vVar := "v", vIter := "V",
    visit := [ .set1i "Q" (.var "q") (.var "v"), .subS "q" (.lit 1), .whereRow "W" "G1" (.var "v") ],
    wVar := "w", wIter := "W",
    relaxPre := [ .letS "Duw" (.add (.at1 "D" (.var "v")) (.at2 "G1" (.var "v") (.var "w"))) ],
    c1 := .lt (.var "Duw") (.at1 "D" (.var "w")),
    s1 := [ .set1 "D" (.var "w") (.var "Duw"), .set1 "NP" (.var "w") (.at1 "NP" (.var "v")), .setRow "P" (.var "w") 0,
            .set2 "P" (.var "w") (.var "v") (.lit 1) ],
    c2 := .eq (.var "Duw") (.at1 "D" (.var "w")),
    s2 := [ .aug1 "NP" (.var "w") (.at1 "NP" (.var "v")), .set2 "P" (.var "w") (.var "v") (.lit 1) ],
    exit1 := .selEmpty "D" "S",
    exit2 := .minSelInf "D" "S",
    fill := [ .fillPrefixInf "Q" (.add (.var "q") (.lit 1)) "D" ],
    next := [ .whereEqMinIn "V" "D" "D" "S" "S" ],
    mid := [ .zeros1 "DP" "n" ],
    bwVar := "w", bwVec := "Q", bwHi := .sub (.var "n") (.lit 1),
    acc := [ .aug1 "BC" (.var "w") (.at1 "DP" (.var "w")) ],
    bvVar := "v", bvMat := "P", bvRow := .var "w",
    dep := [ .aug1 "DP" (.var "v") depExpr ],
    ret := ["BC"] }

def refEdge : WeiIR :=
  { refNode with
    name := "edge_betweenness_wei",
    origins := [("BRANDES2001", "from bct/citations.py:BRANDES2001"), ("BibTeX", "from bct/due.py:BibTeX"), ("bool", "builtin"),
                ("due", "from bct/due.py:due"), ("int", "builtin"), ("len", "builtin"), ("np", "module numpy"), ("range", "builtin")],
    pre := [ .setLen "n" "G", .zeros1 "BC" "n", .zeros2 "EBC" "n" "n" ],
    init := refInit false,
    dep := [ .letS "DPvw" depExpr, .aug1 "DP" (.var "v") (.var "DPvw"), .aug2 "EBC" (.var "v") (.var "w") (.var "DPvw") ],
    ret := ["EBC", "BC"] }

/-- the decidable obligation generated for `betweenness_wei` / `edge_betweenness_wei` -/
def weiOk (ref ir : WeiIR) : Bool := ir == ref

end Bct.CoreIR.Bwei
