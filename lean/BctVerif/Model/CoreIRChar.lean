import BctVerif.Model.Dist
/-!
# Source-extracted `charpath`: IR, interpreter, decidable check (T-gen, C03)

`translate/cores.py` reads `bct/algorithms/distance.py` with `ast` on every check run and writes every statement of

    def charpath(D, include_diagonal=False, include_infinite=True):
        D = D.copy()
        if not include_diagonal:
            np.fill_diagonal(D, np.nan)
        if not include_infinite:
            D[np.isinf(D)] = np.nan
        Dv = D[np.logical_not(np.isnan(D))].ravel()
        lambda_ = np.mean(Dv)
        efficiency = np.mean(1 / Dv)
        ecc = np.array(np.ma.masked_where(np.isnan(D), D).max(axis=1))
        radius = np.min(ecc)
        diameter = np.max(ecc)
        return lambda_, efficiency, ecc, radius, diameter

as a `CharIR` value into `BctVerif/Gen/CoresChar.lean`, with the obligation `charOk ir = true := by decide`.

Cells are floats: a non-negative extended rational (`Ext`), `nan`, the mask mark of a masked array, or booleans.  Values are
matrices, vectors, one-dimensional arrays of any length (the result of boolean-mask indexing, in row-major order) and scalars.
`np.mean` of an empty array is `nan`; `np.min` / `np.max` of an empty array raise (the value is the absorbing error); `1 / x` is `Ext.inv`
(`1/0 = inf`, `1/inf = 0`); the maximum of a fully masked row is masked, and `np.array(·)` of the result holds the fill value
`1e20` there (`Dist.maskedFill`).  `Props/CoresChar.lean` proves that a program that passes computes `Dist.charpath`, `Dist.eccOf`
and `Dist.radiusDiameter`.

Core Lean only.
-/
namespace Bct.CoreIR.Char
open Bct Bct.Dist

inductive C
  | ext (e : Ext)
  | nan
  /-- a masked cell of a masked array -/
  | masked
  | bool (b : Bool)
  | err
  deriving DecidableEq

namespace C
def isnan : C → C
  | ext _ => bool false
  | nan => bool true
  | _ => err
def isinf : C → C
  | ext e => bool (!e.isFin)
  | nan => bool false
  | _ => err
def lnot : C → C
  | bool b => bool (!b)
  | _ => err
/-- `a / b`; only `1 / x` is part of the language -/
def div : C → C → C
  | ext (.fin q), ext e => if q = 1 then ext e.inv else err
  | _, _ => err
def toExt? : C → Option Ext
  | ext e => some e
  | _ => none
end C

inductive Val (n : Nat)
  | mat (M : AMat C n)
  | vec (v : Vector C n)
  /-- a one-dimensional array of any length -/
  | lst (l : List C)
  | sc (c : C)
  | err

inductive Ex
  | ref (x : String)
  | nanLit
  | lit (k : Nat)
  /-- `a.copy()` -/
  | copy (a : Ex)
  | isnan (a : Ex)
  | isinf (a : Ex)
  | lnot (a : Ex)
  /-- `a[m]` for a boolean matrix `m` -/
  | select (a m : Ex)
  /-- `a.ravel()` -/
  | ravel (a : Ex)
  | mean (a : Ex)
  | npMin (a : Ex)
  | npMax (a : Ex)
  | div (a b : Ex)
  /-- `np.ma.masked_where(c, a)` -/
  | maskedWhere (c a : Ex)
  /-- `a.max(axis=k)` -/
  | maxAxis (a : Ex) (axis : Nat)
  /-- `np.array(a)` -/
  | npArray (a : Ex)
  deriving DecidableEq, Repr

inductive Simple
  /-- `np.fill_diagonal(m, e)` -/
  | fillDiag (m : String) (e : Ex)
  /-- `m[c] = e` -/
  | setMask (m : String) (c e : Ex)
  deriving DecidableEq, Repr

inductive Stmt
  | bind (x : String) (e : Ex)
  /-- `if not <flag>: <statements>` -/
  | ifNot (flag : String) (body : List Simple)
  deriving DecidableEq, Repr

structure CharIR where
  recognised : Bool
  origins : List (String × String)
  params : List String
  defaults : List (String × String)
  body : List Stmt
  ret : List String
  deriving DecidableEq, Repr

variable {n : Nat}

structure Env (n : Nat) where
  val : String → Option (Val n)
  flag : String → Option Bool

def mapCells (f : C → C) : Val n → Val n
  | .mat A => .mat (AMat.ofFn fun i j => f (A.get i j))
  | .vec a => .vec (Vector.ofFn fun i => f a[i])
  | .lst l => .lst (l.map f)
  | .sc x => .sc (f x)
  | .err => .err

/-- `np.mean` of a one-dimensional array of extended rationals -/
def meanC (l : List C) : C :=
  match l.mapM C.toExt? with
  | none => .err
  | some [] => .nan
  | some (x :: xs) =>
    match (x :: xs).foldl (· + ·) (Ext.fin 0) with
    | .fin s => .ext (.fin (s / ((x :: xs).length : Nat)))
    | .inf => .ext .inf

/-- `np.min` / `np.max` of a vector of extended rationals; no value for an empty vector (NumPy raises) -/
def reduceC (f : Ext → Ext → Ext) (l : List C) : C :=
  match l.mapM C.toExt? with
  | some (x :: xs) => .ext (xs.foldl f x)
  | _ => .err

/-- maximum of the unmasked cells of one row of a masked array; masked if there is none -/
def rowMax (l : List C) : C :=
  match (l.filter fun c => c != .masked).mapM C.toExt? with
  | none => .err
  | some [] => .masked
  | some (x :: xs) => .ext (xs.foldl Ext.max x)

def isBoolC : C → Bool
  | .bool _ => true
  | _ => false
/-- one cell of `np.ma.masked_where(m, a)` -/
def maskedCell (m a : C) : C :=
  match m with
  | .bool true => .masked
  | .bool false => a
  | _ => .err
/-- one cell of `x[m] = s` -/
def storeCell (m s old : C) : C :=
  match m with
  | .bool true => s
  | .bool false => old
  | _ => .err

def eval (E : Env n) : Ex → Val n
  | .ref x => match E.val x with
    | some v => v
    | none => .err
  | .nanLit => .sc .nan
  | .lit k => .sc (.ext (.fin k))
  | .copy a => match eval E a with
    | .mat A => .mat A
    | _ => .err
  | .isnan a => mapCells C.isnan (eval E a)
  | .isinf a => mapCells C.isinf (eval E a)
  | .lnot a => mapCells C.lnot (eval E a)
  | .select a m => match eval E a, eval E m with
    | .mat A, .mat M =>
      if (cells n).all fun p => isBoolC (M.get p.1 p.2) then
        .lst (((cells n).filter fun p => M.get p.1 p.2 == .bool true).map fun p => A.get p.1 p.2)
      else .err
    | _, _ => .err
  | .ravel a => match eval E a with
    | .lst l => .lst l
    | _ => .err
  | .mean a => match eval E a with
    | .lst l => .sc (meanC l)
    | _ => .err
  | .npMin a => match eval E a with
    | .vec v => .sc (reduceC Ext.min ((List.finRange n).map fun i => v[i]))
    | _ => .err
  | .npMax a => match eval E a with
    | .vec v => .sc (reduceC Ext.max ((List.finRange n).map fun i => v[i]))
    | _ => .err
  | .div a b => match eval E a, eval E b with
    | .sc x, .lst l => .lst (l.map fun y => C.div x y)
    | _, _ => .err
  | .maskedWhere c a => match eval E c, eval E a with
    | .mat M, .mat A => .mat (AMat.ofFn fun i j => maskedCell (M.get i j) (A.get i j))
    | _, _ => .err
  | .maxAxis a axis => match eval E a with
    | .mat A => if axis = 1 then .vec (Vector.ofFn fun i => rowMax ((List.finRange n).map fun j => A.get i j)) else .err
    | _ => .err
  | .npArray a => match eval E a with
    | .vec v => .vec (Vector.ofFn fun i => if v[i] = .masked then .ext maskedFill else v[i])
    | _ => .err

def execSimple (E : Env n) : Simple → Option (Env n)
  | .fillDiag m e => match E.val m, eval E e with
    | some (.mat M), .sc s =>
      some { E with val := fun y => if y = m then some (.mat (AMat.ofFn fun i j => if i = j then s else M.get i j)) else E.val y }
    | _, _ => none
  | .setMask m c e => match E.val m, eval E c, eval E e with
    | some (.mat M), .mat K, .sc s =>
      some { E with val := fun y => if y = m then some (.mat (AMat.ofFn fun i j => storeCell (K.get i j) s (M.get i j))) else E.val y }
    | _, _, _ => none

def execSimples : List Simple → Env n → Option (Env n)
  | [], E => some E
  | s :: ss, E => match execSimple E s with
    | some E' => execSimples ss E'
    | none => none

def exec (E : Env n) : Stmt → Option (Env n)
  | .bind x e => some { E with val := fun y => if y = x then some (eval E e) else E.val y }
  | .ifNot f body => match E.flag f with
    | some true => some E
    | some false => execSimples body E
    | none => none

def execs : List Stmt → Env n → Option (Env n)
  | [], E => some E
  | s :: ss, E => match exec E s with
    | some E' => execs ss E'
    | none => none

/-- the whole routine on `(D, include_diagonal, include_infinite)` -/
def run (ir : CharIR) (D : AMat C n) (incDiag incInf : Bool) : Option (List (Val n)) :=
  match ir.params with
  | [pD, pA, pB] =>
    if pD ≠ pA ∧ pD ≠ pB ∧ pA ≠ pB then
      match execs ir.body { val := fun y => if y = pD then some (.mat D) else none,
                            flag := fun y => if y = pA then some incDiag else if y = pB then some incInf else none } with
      | some E => ir.ret.mapM E.val
      | none => none
    else none
  | _ => none

def refIR : CharIR :=
  { recognised := true,
    origins := [("np", "module numpy")],
    params := ["D", "include_diagonal", "include_infinite"],
    defaults := [("include_diagonal", "False"), ("include_infinite", "True")],
    body := [ .bind "D" (.copy (.ref "D")),
              .ifNot "include_diagonal" [.fillDiag "D" .nanLit],
              .ifNot "include_infinite" [.setMask "D" (.isinf (.ref "D")) .nanLit],
              .bind "Dv" (.ravel (.select (.ref "D") (.lnot (.isnan (.ref "D"))))),
              .bind "lambda_" (.mean (.ref "Dv")),
              .bind "efficiency" (.mean (.div (.lit 1) (.ref "Dv"))),
              .bind "ecc" (.npArray (.maxAxis (.maskedWhere (.isnan (.ref "D")) (.ref "D")) 1)),
              .bind "radius" (.npMin (.ref "ecc")),
              .bind "diameter" (.npMax (.ref "ecc")) ],
    ret := ["lambda_", "efficiency", "ecc", "radius", "diameter"] }

/-- the decidable obligation generated for `charpath` -/
def charOk (ir : CharIR) : Bool := ir == refIR

end Bct.CoreIR.Char
