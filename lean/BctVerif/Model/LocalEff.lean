import BctVerif.Model.Dist
import BctVerif.Model.Cluster
/-!
# Executable model of the two local-efficiency loops of `bct/algorithms/efficiency.py`

`efficiency_bin(G, local=True)` and `efficiency_wei(Gw, local=True)` (the Wang et al. 2016 variant), node by node as coded:

* neighbour set `V = where(G[u,:] | G[:,u])` (in and out neighbours), sub-matrix `G[np.ix_(V, V)]`;
* inverse distances inside the sub-graph: `distance_inv` of `efficiency_bin` is, line for line, the loop of `distance_bin`
  followed by `1/D` and `fill_diagonal(D, 0)` — modelled by `Bct.Dist.distBin` on the sub-matrix; `distance_inv_wei` is the
  Dijkstra of `distance_wei` on connection lengths — modelled by `Bct.Dist.dijkstra`;
* `se = e + e.T`, `sa = G[u,V] + G[V,u]`, `numer = sum(outer(s, s) * se) / 2`, `if numer != 0: E[u] = numer / (sum(sa)**2 - sum(sa*sa))`.

The weighted routine takes cube roots of the weights (`sw = cuberoot(Gw[u,V]) + cuberoot(Gw[V,u])`, lengths
`cuberoot(1/Gw)`), irrational in general: like `Model/Cluster.lean` the model takes `W` and a matrix `R` standing for
`cuberoot(W)`; the entry point computes `R` with the exact rational cube root `Cluster.rootMat`, so it runs on 0/1 input
and on perfect-cube weights (`error=notcube` otherwise).  A per-node result is `Option Rat`; `none` = no finite float
(fuel of a distance model exhausted — proved impossible in C03 — or a division by zero).
-/
namespace Bct.LocalEff
open Bct Bct.Dist

variable {n : Nat}

/-- `Σ_{a < k} f a` -/
def ksum {k : Nat} (f : Fin k → Rat) : Rat := ((List.finRange k).map f).sum

/-- `V, = np.where(np.logical_or(G[u, :], G[:, u].T))` -/
def nbrs (G : AMat Rat n) (u : Fin n) : List (Fin n) :=
  (List.finRange n).filter fun j => decide (G.get u j ≠ 0 ∨ G.get j u ≠ 0)

/-- `G[np.ix_(V, V)]` -/
def subMat (G : AMat Rat n) (V : List (Fin n)) : AMat Rat V.length :=
  AMat.ofFn fun a b => G.get (V.get a) (V.get b)

/-- no zero distance between distinct nodes (then `1/D` is finite off the diagonal) -/
def finiteInv {k : Nat} (D : AMat Ext k) : Bool :=
  (List.finRange k).all fun a => (List.finRange k).all fun b => decide (a = b) || decide (D.get a b ≠ Ext.fin 0)

/-- entry `(a,b)` of `1/D` after `np.fill_diagonal(D, 0)`; `1/inf = 0` -/
def invCell {k : Nat} (D : AMat Ext k) (a b : Fin k) : Rat :=
  if a = b then 0 else match D.get a b with
    | .inf => 0
    | .fin d => 1 / d

/-- the arithmetic of one node: `s` are the (cube-rooted) link weights of the neighbours in the numerator, `w` the 0/1/2
link counts in the denominator, `D` the distance matrix of the neighbourhood sub-graph -/
def core {k : Nat} (s w : Fin k → Rat) (D : AMat Ext k) : Option Rat :=
  if !finiteInv D then none else
  let numer := (ksum fun a => ksum fun b => s a * s b * (invCell D a b + invCell D b a)) / 2
  if numer = 0 then some 0 else
  let denom := (ksum w) * (ksum w) - ksum fun a => w a * w a
  if denom = 0 then none else some (numer / denom)

/-- link vector `M[u, V] + M[V, u]` -/
def links (M : AMat Rat n) (u : Fin n) (V : List (Fin n)) : Fin V.length → Rat :=
  fun a => M.get u (V.get a) + M.get (V.get a) u

/-- the loop body of `efficiency_bin(·, local=True)` on the binarised matrix `B` -/
def effBinOn (B : AMat Rat n) (u : Fin n) : Option Rat :=
  let V := nbrs B u
  match distBin (subMat B V) with
  | none => none
  | some D => core (links B u V) (links B u V) D

/-- `efficiency_bin(G, local=True)[u]` (`G = binarize(G)` first) -/
def effBinNode (G : AMat Rat n) (u : Fin n) : Option Rat := effBinOn (Cluster.adj G) u

/-- `efficiency_wei(W, local=True)[u]` with `R = cuberoot(W)`: lengths `cuberoot(1/W) = 1/R` -/
def effWeiNode (W R : AMat Rat n) (u : Fin n) : Option Rat :=
  let V := nbrs W u
  match dijkstra (lenMat .inv (subMat R V)) with
  | none => none
  | some r => core (links R u V) (links (Cluster.adj W) u V) r.1

def localEffBin (G : AMat Rat n) : Vector (Option Rat) n := Vector.ofFn fun u => effBinNode G u
def localEffWei (W R : AMat Rat n) : Vector (Option Rat) n := Vector.ofFn fun u => effWeiNode W R u

/-- `op n=<n> W=<row-major rationals>` → `E=…` -/
def step (line : String) : String :=
  let (op, kv) := parseLine line
  let res : Option String := do
    let n ← (← lookup kv "n").toNat?
    let W ← Cluster.parseRatMat n (← lookup kv "W")
    match op with
    | "eff_bin_local" => some s!"E={Cluster.showVec (localEffBin W)}"
    | "eff_wei_local" => some (Cluster.withRoot W fun R => s!"E={Cluster.showVec (localEffWei W R)}")
    | _ => none
  res.getD "error=protocol"

end Bct.LocalEff
