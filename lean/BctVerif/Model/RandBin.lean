import BctVerif.Model.Basic
/-!
# Executable model of `randomizer_bin_und` (`bct/algorithms/reference.py`)

Mirrors the repaired routine step by step: binarise, symmetry check, save the diagonal, complement when
`k > nr_poss_edges / 2`, exclude fully connected nodes, the edge sweep `for it in range(k)` (draw
`random_sample() > alpha`, hole search, `np.where` row-major list of candidate mates, `randint(nummates)`,
orientation coin, the eight 0/1 assignments, the edge-index update loop exactly as coded), restore full
nodes, un-complement, restore the diagonal.

The Python code marks the diagonal with `np.inf` so that a diagonal cell is neither `== 0` (a hole) nor
`== 1` (a mate) and is ignored by `np.triu(R, 1)`.  The model keeps the *work matrix* with a zero
diagonal and carries the sentinel as the explicit test `x ≠ y` inside `is0` / `is1`; the saved diagonal
is put back at the end, as `R[np.diag_indices(ax)] = savediag` does.

Draws (recorded from the real run): every `random_sample()` as the natural `v·2^53`, `randint(m)` as its
value.  `alpha` arrives as the exact rational `num/den` of the Python float.
-/
namespace Bct.RandBin
open Bct

variable {n k : Nat}

/-! ### matrix preparation -/

/-- `W[W != 0] = 1` -/
def binarize (A : AMat Int n) : AMat Int n := AMat.ofFn fun i j => if A.get i j != 0 then 1 else 0

/-- `np.allclose(R, R.T)` on a 0/1 matrix -/
def isSymm (R : AMat Int n) : Bool :=
  (List.finRange n).all fun i => (List.finRange n).all fun j => R.get i j == R.get j i

/-- the work matrix: off-diagonal part (the diagonal is the `inf` sentinel, represented by `x = y`) -/
def offDiag (R : AMat Int n) : AMat Int n := AMat.ofFn fun i j => if i = j then 0 else R.get i j

/-- `np.logical_not(R)` away from the sentinel diagonal -/
def compl (R : AMat Int n) : AMat Int n :=
  AMat.ofFn fun i j => if i = j then 0 else if R.get i j != 0 then 0 else 1

/-- `np.where(np.triu(R, 1))`: truthy cells above the diagonal, row-major -/
def edgeCells (R : AMat Int n) : List (Fin n × Fin n) :=
  (List.finRange n).flatMap fun i =>
    ((List.finRange n).filter fun j => decide (i.val < j.val) && (R.get i j != 0)).map fun j => (i, j)

/-- `np.sum(np.triu(R,1), axis=0)[v] + np.sum(np.triu(R,1), axis=1)[v]` -/
def triuDeg (R : AMat Int n) (v : Fin n) : Int :=
  ((List.finRange n).map fun u => if u.val < v.val then R.get u v else 0).sum +
  ((List.finRange n).map fun u => if v.val < u.val then R.get v u else 0).sum

/-- the mask of fully connected nodes -/
def fullMask (R : AMat Int n) : Vector Bool n := Vector.ofFn fun v => triuDeg R v == (Int.ofNat n - 1)

/-- `R[fullnodes, :] = x; R[:, fullnodes] = x` (diagonal stays the sentinel) -/
def fillFull (R : AMat Int n) (F : Vector Bool n) (x : Int) : AMat Int n :=
  AMat.ofFn fun i j => if i = j then 0 else if F[i] || F[j] then x else R.get i j

/-! ### the sweep -/

/-- `R[x, y] == 0` / `R[x, y] == 1` with the `inf` diagonal -/
def is0 (R : AMat Int n) (x y : Fin n) : Bool := x != y && R.get x y == 0
def is1 (R : AMat Int n) (x y : Fin n) : Bool := x != y && R.get x y == 1

/-- `np.intersect1d(np.where(R[:, a] == 0), np.where(R[:, b] == 0))` -/
def holes (R : AMat Int n) (a b : Fin n) : List (Fin n) :=
  (List.finRange n).filter fun x => is0 R x a && is0 R x b

/-- `np.where(R[np.ix_(H, H)] == 1)`, row-major, as node pairs -/
def mates (R : AMat Int n) (H : List (Fin n)) : List (Fin n × Fin n) :=
  H.flatMap fun p => (H.filter fun q => is1 R p q).map fun q => (p, q)

/-- the eight assignments, program order -/
def swapCells (R : AMat Int n) (a b c d : Fin n) : AMat Int n :=
  (((((((R.set a b 0).set c d 0).set b a 0).set d c 0).set a c 1).set b d 1).set c a 1).set d b 1

abbrev EVec (n k : Nat) := Vector (Fin n) k × Vector (Fin n) k

/-- one pass of `for m in range(k)` of the edge-index update -/
def updStep (it : Fin k) (b c d : Fin n) (ij : EVec n k) (m : Fin k) : EVec n k :=
  if ij.1[m] = d ∧ ij.2[m] = c then (ij.1.set it c, ij.2.set m b)
  else if ij.1[m] = c ∧ ij.2[m] = d then (ij.1.set m b, ij.2.set it c)
  else ij

def updEdges (it : Fin k) (b c d : Fin n) (ij : EVec n k) : EVec n k :=
  (List.finRange k).foldl (updStep it b c d) ij

structure St (n k : Nat) where
  R : AMat Int n
  i : Vector (Fin n) k
  j : Vector (Fin n) k

/-- the accepted swap: cells, then the edge-index update -/
def applySwap (s : St n k) (it : Fin k) (c d : Fin n) : St n k :=
  let a := s.i[it]; let b := s.j[it]
  let ij := updEdges it b c d (s.i, s.j)
  { R := swapCells s.R a b c d, i := ij.1, j := ij.2 }

/-- `random_sample() > alpha` for the recorded `u = v·2^53` and `alpha = num/den` -/
def skip (num den u : Nat) : Bool := u * den > num * 9007199254740992

/-- body of `for it in range(k)` -/
def sweepStep (num den : Nat) (s : St n k) (it : Fin k) : List Nat → Except Err (St n k × List Nat)
  | [] => .error .outOfDraws
  | u :: ds =>
    if skip num den u then .ok (s, ds) else
    let M := mates s.R (holes s.R s.i[it] s.j[it])
    if M.isEmpty then .ok (s, ds) else
    match ds with
    | x :: cn :: ds' =>
      if h : x < M.length then
        let p := M[x]
        let cd : Fin n × Fin n := if coin cn then (p.1, p.2) else (p.2, p.1)
        .ok (applySwap s it cd.1 cd.2, ds')
      else .error .badDraw
    | _ => .error .outOfDraws

def sweep (num den : Nat) : List (Fin k) → St n k → List Nat → Except Err (St n k × List Nat)
  | [], s, ds => .ok (s, ds)
  | it :: its, s, ds => do
    let (s', ds') ← sweepStep num den s it ds
    sweep num den its s' ds'

def mkState (R : AMat Int n) (cells : Array (Fin n × Fin n)) : St n cells.size :=
  { R := R, i := Vector.ofFn fun e => cells[e].1, j := Vector.ofFn fun e => cells[e].2 }

/-- put the saved diagonal back -/
def withDiag (R B : AMat Int n) : AMat Int n := AMat.ofFn fun i j => if i = j then B.get i i else R.get i j

/-- everything between the complement decision and the un-complement, on the work matrix `R1` -/
def core (R1 : AMat Int n) (num den : Nat) (ds : List Nat) : Except Err (AMat Int n × List Nat) := do
  let F := fullMask R1
  let R2 := fillFull R1 F 0
  let cells := (edgeCells R2).toArray
  let k := cells.size
  if k == 0 || 2 * k + 2 ≥ n * (n - 1) then .error .param
  let (s, rest) ← sweep num den (List.finRange k) (mkState R2 cells) ds
  .ok (fillFull s.R F 1, rest)

/-- the whole routine -/
def run (A : AMat Int n) (num den : Nat) (ds : List Nat) : Except Err (AMat Int n × List Nat) := do
  let B := binarize A
  if !isSymm B then .error .param
  let R0 := offDiag B
  let swap : Bool := 4 * (edgeCells R0).length > n * (n - 1)
  let R1 := if swap then compl R0 else R0
  let (R4, rest) ← core R1 num den ds
  let R5 := if swap then compl R4 else R4
  .ok (withDiag R5 B, rest)

/-! ### driver -/

def parseFrac (s : String) : Option (Nat × Nat) :=
  match s.splitOn "/" with
  | [p, q] => do
    let p ← p.toNat?
    let q ← q.toNat?
    if q == 0 then none else some (p, q)
  | _ => none

def step (line : String) : String :=
  let (op, kv) := parseLine line
  let res : Option String := do
    if op != "randomizer_bin_und" then none
    let n ← (← lookup kv "n").toNat?
    let R ← parseMat n (← lookup kv "R")
    let (num, den) ← parseFrac (← lookup kv "alpha")
    let ds ← parseNats (← lookup kv "draws")
    match run R num den ds with
    | .error e => some s!"error={e.str}"
    | .ok (R', rest) => some s!"R={showMat R'} left={rest.length}"
  res.getD "error=protocol"

end Bct.RandBin
