import BctVerif.Model.Basic
/-!
# Executable model of `get_components` / `number_of_components` (`bct/algorithms/clustering.py`)

    if not np.all(A == A.T): raise BCTParamError
    A = binarize(A, copy=True); n = len(A); np.fill_diagonal(A, 1)
    edge_map = [{u,v} for u in range(n) for v in range(n) if A[u,v] == 1]
    union_sets = []
    for item in edge_map:
        temp = []
        for s in union_sets:
            if not s.isdisjoint(item): item = s.union(item)
            else: temp.append(s)
        temp.append(item)
        union_sets = temp
    comps = np.array([i+1 for v in range(n) for i in range(len(union_sets)) if v in union_sets[i]])
    comp_sizes = np.array([len(s) for s in union_sets])

A Python set of nodes is a characteristic vector `NSet n = Vector Bool n` (so there is one
representation per set and `len` is a count of `true`s).  The scan is modelled literally: row-major
edge order, the growing `item` absorbs *every* set it touches, untouched sets are carried over in
order, the merged set goes to the end, labels are final list positions + 1.
-/
namespace Bct.Comp
open Bct

variable {n : Nat}

abbrev NSet (n : Nat) := Vector Bool n

namespace NSet
def mem (s : NSet n) (v : Fin n) : Bool := s[v]
/-- `s.isdisjoint(t)` -/
def disjoint (s t : NSet n) : Bool := (List.finRange n).all fun v => !(s[v] && t[v])
/-- `s.union(t)` -/
def union (s t : NSet n) : NSet n := Vector.ofFn fun v => s[v] || t[v]
/-- `len(s)` -/
def size (s : NSet n) : Nat := ((List.finRange n).filter fun v => s[v]).length
/-- `{u, v}` -/
def pair (u v : Fin n) : NSet n := Vector.ofFn fun x => x == u || x == v
end NSet

/-- the inner `for s in union_sets` loop followed by `temp.append(item)` -/
def scan : List (NSet n) → NSet n → List (NSet n) → List (NSet n)
  | [], item, temp => temp ++ [item]
  | s :: ss, item, temp =>
    if !(NSet.disjoint s item) then scan ss (NSet.union s item) temp else scan ss item (temp ++ [s])

/-- cells `(u, v)` in row-major order with `A[u,v] == 1` after `binarize` and `fill_diagonal(A, 1)` -/
def edgeList (A : AMat Int n) : List (Fin n × Fin n) :=
  (List.finRange n).flatMap fun u =>
    ((List.finRange n).filter fun v => u == v || A.get u v != 0).map fun v => (u, v)

def unionSets (A : AMat Int n) : List (NSet n) :=
  (edgeList A).foldl (fun sets e => scan sets (NSet.pair e.1 e.2) []) []

/-- `[i+1 for v in range(n) for i in range(len(union_sets)) if v in union_sets[i]]` -/
def labels (sets : List (NSet n)) : List Nat :=
  (List.finRange n).flatMap fun v =>
    sets.zipIdx.filterMap fun p => if p.1[v] then some (p.2 + 1) else none

def isSymm (A : AMat Int n) : Bool :=
  (List.finRange n).all fun i => (List.finRange n).all fun j => A.get i j == A.get j i

/-- `get_components(A)` → `(comps, comp_sizes)` or `BCTParamError` -/
def getComponents (A : AMat Int n) : Except Err (List Nat × List Nat) :=
  if isSymm A then
    let sets := unionSets A
    .ok (labels sets, sets.map NSet.size)
  else .error .param

/-- `number_of_components(A)` -/
def numberOfComponents (A : AMat Int n) : Except Err Nat :=
  (getComponents A).map fun r => r.2.length

def step (line : String) : String :=
  let (op, kv) := parseLine line
  let res : Option String := do
    let n ← (← lookup kv "n").toNat?    -- n = 0 is a legal input: bct returns two empty arrays / 0
    let A ← parseMat n (← lookup kv "A")
    if op == "get_components" then
      match getComponents A with
      | .ok (c, s) => some s!"comps={showNats c} sizes={showNats s}"
      | .error e => some s!"error={e.str}"
    else if op == "number_of_components" then
      match numberOfComponents A with
      | .ok m => some s!"m={m}"
      | .error e => some s!"error={e.str}"
    else none
  res.getD "error=protocol"

end Bct.Comp
