import BctVerif.Model.Comp
/-!
# Source-extracted `get_components`: IR, interpreter, decidable check (T-gen, C16)

`translate/cores.py` reads `bct/algorithms/clustering.py` with `ast` on every check run and writes every statement of
`get_components` — the symmetry guard, `binarize` / `fill_diagonal`, the `edge_map` comprehension, the merge loop over
`union_sets`, the two result comprehensions — as a `CompIR` value into `BctVerif/Gen/CoresComp.lean`, with the obligation
`compOk ir = true := by decide`.

The merge loop is a small statement language over named sets and named lists of sets (`temp = []`, `for s in L: …`,
`if not s.isdisjoint(item): item = s.union(item) else: temp.append(s)`, `temp.append(item)`, `union_sets = temp`); the
comprehensions and the prologue are dedicated statements whose fields are the names and literals of the source.  The
interpreter `run` executes the program on `Comp.NSet`; `compOk` is the only place that knows what the routine is expected
to contain.  `Props/CoresComp.lean` proves that a program that passes computes exactly `Comp.getComponents`.

Core Lean only.
-/
namespace Bct.CoreIR.Comp
open Bct Bct.Comp

/-- statements without loops (the body of `for s in union_sets`) -/
inductive IStmt
  /-- `x = a.union(b)` -/
  | assignUnion (x a b : String)
  /-- `l.append(x)` -/
  | append (l x : String)
  /-- `if not a.isdisjoint(b): t else: e` -/
  | ifNotDisjoint (a b : String) (t e : IStmt)
  deriving DecidableEq, Repr

/-- the body of `for item in edge_map` -/
inductive OStmt
  /-- `x = []` -/
  | listInit (x : String)
  /-- `for v in l: body` -/
  | forIn (v l : String) (body : List IStmt)
  | append (l x : String)
  /-- `x = y` for list names (the two names then denote the same list object) -/
  | assignList (x y : String)
  deriving DecidableEq, Repr

/-- everything `translate/cores.py` extracts from `get_components` -/
structure CompIR where
  recognised : Bool
  param : String
  /-- further parameters (not used by any statement) and default values as source text (`no_depend=False`) -/
  extraParams : List String
  defaults : List (String × String)
  /-- where every global name the function uses comes from (`translate/cores.py` resolves imports to definitions):
  `(name, "def <file>:<name>" | "class <file>:<name>" | "module <m>" | "builtin" | "from <file>:<name>")`, sorted by name -/
  origins : List (String × String)
  /-- `if not np.all(<guardL> == <guardR>.T): raise <exc>(…)` -/
  guardL : String
  guardR : String
  exc : String
  /-- `<binTarget> = binarize(<binArg>, copy=True)` -/
  binTarget : String
  binArg : String
  /-- `<dim> = len(<dimOf>)` -/
  dim : String
  dimOf : String
  /-- `np.fill_diagonal(<diagMat>, <diagVal>)` -/
  diagMat : String
  diagVal : Int
  /-- `<em> = [{<e1>, <e2>} for <outer> in range(<ob>) for <inner> in range(<ib>) if <emMat>[<row>, <col>] == <emLit>]` -/
  em : String
  e1 : String
  e2 : String
  outer : String
  ob : String
  inner : String
  ib : String
  emMat : String
  row : String
  col : String
  emLit : Int
  /-- `<sets> = []` then `for <item> in <loopOver>: body` -/
  sets : String
  item : String
  loopOver : String
  body : List OStmt
  /-- `<comps> = np.array([<cIdx2> + <cAdd> for <cNode> in range(<cBound>) for <cIdx> in range(len(<cLen>)) if <cMem> in <cList>[<cIdx3>]])` -/
  comps : String
  cIdx2 : String
  cAdd : Nat
  cNode : String
  cBound : String
  cIdx : String
  cLen : String
  cMem : String
  cList : String
  cIdx3 : String
  /-- `<sizes> = np.array([len(<sVar2>) for <sVar> in <sList>])` -/
  sizes : String
  sVar2 : String
  sVar : String
  sList : String
  ret : List String
  deriving DecidableEq, Repr

/-! ### interpreter -/

variable {n : Nat}

structure Env (n : Nat) where
  set : String → Option (NSet n)
  list : String → Option (List (NSet n))
  /-- list names that currently denote the same list object as another name -/
  aliased : String → Bool

namespace Env
def setSet (E : Env n) (x : String) (s : NSet n) : Env n :=
  { E with set := fun y => if y = x then some s else E.set y }
/-- bind `x` to a fresh list -/
def setList (E : Env n) (x : String) (l : List (NSet n)) : Env n :=
  { E with list := fun y => if y = x then some l else E.list y,
           aliased := fun y => if y = x then false else E.aliased y }
end Env

/-- `none` = NameError, or an in-place `append` to a list object that is reachable under a second name (the value semantics
of this interpreter would then not be Python's) -/
def iexec (E : Env n) : IStmt → Option (Env n)
  | .assignUnion x a b =>
    match E.set a, E.set b with
    | some s, some t => some (E.setSet x (NSet.union s t))
    | _, _ => none
  | .append l x =>
    match E.list l, E.set x with
    | some L, some s => if E.aliased l then none else some { E with list := fun y => if y = l then some (L ++ [s]) else E.list y }
    | _, _ => none
  | .ifNotDisjoint a b t e =>
    match E.set a, E.set b with
    | some s, some u => if !(NSet.disjoint s u) then iexec E t else iexec E e
    | _, _ => none

def iexecs : List IStmt → Env n → Option (Env n)
  | [], E => some E
  | s :: ss, E => match iexec E s with
    | some E' => iexecs ss E'
    | none => none

/-- does the statement append to the list named `l` (the list being iterated must not grow) -/
def IStmt.appendsTo (l : String) : IStmt → Bool
  | .assignUnion _ _ _ => false
  | .append l' _ => l' == l
  | .ifNotDisjoint _ _ t e => t.appendsTo l || e.appendsTo l

/-- `for v in <elements>: body` -/
def forSets (v : String) (body : List IStmt) : List (NSet n) → Env n → Option (Env n)
  | [], E => some E
  | s :: ss, E => match iexecs body (E.setSet v s) with
    | some E' => forSets v body ss E'
    | none => none

def oexec (E : Env n) : OStmt → Option (Env n)
  | .listInit x => some (E.setList x [])
  | .forIn v l body =>
    match E.list l with
    | some L => if body.any (IStmt.appendsTo l) then none else forSets v body L E
    | none => none
  | .append l x => iexec E (.append l x)
  | .assignList x y =>
    match E.list y with
    | some L => some { E with list := fun z => if z = x then some L else E.list z,
                              aliased := fun z => if z = x ∨ z = y then true else E.aliased z }
    | none => none

def oexecs : List OStmt → Env n → Option (Env n)
  | [], E => some E
  | s :: ss, E => match oexec E s with
    | some E' => oexecs ss E'
    | none => none

/-- `for item in <elements>: body` -/
def forItems (item : String) (body : List OStmt) : List (NSet n) → Env n → Option (Env n)
  | [], E => some E
  | s :: ss, E => match oexecs body (E.setSet item s) with
    | some E' => forItems item body ss E'
    | none => none

/-- the `edge_map` comprehension on the prepared matrix `A'` (binarised, diagonal filled) -/
def edgeMap (ir : CompIR) (A' : AMat Int n) : Option (List (NSet n)) :=
  let pick (o i : Fin n) (nm : String) : Option (Fin n) :=
    if nm = ir.outer then some o else if nm = ir.inner then some i else none
  if ir.outer = ir.inner then none else
  -- every name must resolve (independently of the cell): check on the names, then the `getD` below is never reached
  if [ir.row, ir.col, ir.e1, ir.e2].all (fun nm => nm = ir.outer || nm = ir.inner) then
    some ((List.finRange n).flatMap fun o => (List.finRange n).filterMap fun i =>
      match pick o i ir.row, pick o i ir.col, pick o i ir.e1, pick o i ir.e2 with
      | some r, some c, some a, some b => if A'.get r c = ir.emLit then some (NSet.pair a b) else none
      | _, _, _, _ => none)
  else none

/-- the whole routine; `Except` carries the exception name (`NameError` for any use of an unbound / mistyped name) -/
def run (ir : CompIR) (A : AMat Int n) : Except String (List Nat × List Nat) :=
  -- guard: both names are the parameter
  if ir.guardL = ir.param ∧ ir.guardR = ir.param then
    if !(isSymm A) then .error ir.exc else
    -- A = binarize(A, copy=True); n = len(A); np.fill_diagonal(A, 1)
    if ir.binArg = ir.param ∧ ir.dimOf = ir.binTarget ∧ ir.diagMat = ir.binTarget ∧ ir.emMat = ir.binTarget ∧
       ir.ob = ir.dim ∧ ir.ib = ir.dim ∧ ir.cBound = ir.dim then
      let A' : AMat Int n := AMat.ofFn fun i j => if i = j then ir.diagVal else if A.get i j ≠ 0 then 1 else A.get i j
      match edgeMap ir A' with
      | none => .error "NameError"
      | some edges =>
        if ir.loopOver = ir.em then
          let E0 : Env n := { set := fun _ => none, list := fun y => if y = ir.sets then some [] else none, aliased := fun _ => false }
          match forItems ir.item ir.body edges E0 with
          | none => .error "NameError"
          | some E =>
            -- the two result comprehensions read the final list
            if ir.cLen = ir.cList ∧ ir.cIdx2 = ir.cIdx ∧ ir.cIdx3 = ir.cIdx ∧ ir.cMem = ir.cNode ∧ ir.cNode ≠ ir.cIdx ∧
               ir.sVar2 = ir.sVar ∧ ir.ret = [ir.comps, ir.sizes] ∧ ir.comps ≠ ir.sizes then
              match E.list ir.cList, E.list ir.sList with
              | some L, some L' =>
                .ok ((List.finRange n).flatMap (fun v => L.zipIdx.filterMap fun p => if p.1[v] then some (p.2 + ir.cAdd) else none),
                     L'.map NSet.size)
              | _, _ => .error "NameError"
            else .error "NameError"
        else .error "NameError"
    else .error "NameError"
  else .error "NameError"

/-! ### what `get_components` is expected to contain -/

def refBody : List OStmt :=
  [ .listInit "temp",
    .forIn "s" "union_sets"
      [ .ifNotDisjoint "s" "item" (.assignUnion "item" "s" "item") (.append "temp" "s") ],
    .append "temp" "item",
    .assignList "union_sets" "temp" ]

def refIR : CompIR :=
  { recognised := true, param := "A", extraParams := ["no_depend"], defaults := [("no_depend", "False")],
    origins := [("BCTParamError", "class bct/utils/miscellaneous_utilities.py:BCTParamError"), ("binarize", "def bct/utils/other.py:binarize"),
                ("len", "builtin"), ("np", "module numpy"), ("range", "builtin")],
    guardL := "A", guardR := "A", exc := "BCTParamError",
    binTarget := "A", binArg := "A", dim := "n", dimOf := "A", diagMat := "A", diagVal := 1,
    em := "edge_map", e1 := "u", e2 := "v", outer := "u", ob := "n", inner := "v", ib := "n", emMat := "A", row := "u", col := "v",
    emLit := 1,
    sets := "union_sets", item := "item", loopOver := "edge_map", body := refBody,
    comps := "comps", cIdx2 := "i", cAdd := 1, cNode := "v", cBound := "n", cIdx := "i", cLen := "union_sets", cMem := "v",
    cList := "union_sets", cIdx3 := "i",
    sizes := "comp_sizes", sVar2 := "s", sVar := "s", sList := "union_sets",
    ret := ["comps", "comp_sizes"] }

/-- the decidable obligation generated for `get_components` -/
def compOk (ir : CompIR) : Bool := ir == refIR

/-! ### `number_of_components`

    def number_of_components(A):
        _, csizes = get_components(A)
        return len(csizes)
-/

structure NumIR where
  recognised : Bool
  origins : List (String × String)
  param : String
  /-- `<discard>, <sizes> = <callee>(<arg>)` -/
  discard : String
  sizes : String
  callee : String
  arg : String
  /-- `return len(<lenOf>)` -/
  lenOf : String
  deriving DecidableEq, Repr

/-- the routine with the extracted `get_components` as the callee -/
def runNum (ir : NumIR) (gc : CompIR) (A : AMat Int n) : Except String Nat :=
  if ir.arg = ir.param ∧ ir.lenOf = ir.sizes ∧ ir.discard ≠ ir.sizes ∧ ir.callee = "get_components" then
    match run gc A with
    | .ok r => .ok r.2.length
    | .error e => .error e
  else .error "NameError"

def refNum : NumIR :=
  { recognised := true,
    origins := [("get_components", "def bct/algorithms/clustering.py:get_components"), ("len", "builtin")],
    param := "A", discard := "_", sizes := "csizes", callee := "get_components", arg := "A", lenOf := "csizes" }

/-- the decidable obligation generated for `number_of_components` -/
def numOk (ir : NumIR) : Bool := ir == refNum

end Bct.CoreIR.Comp
