import BctVerif.Model.Rewire
import BctVerif.Model.Comp
/-!
# The input pre-checks of `randmio_und_connected` / `latmio_und_connected`

    if not np.allclose(R, R.T): raise BCTParamError("Input must be undirected")
    if number_of_components(R) > 1: raise BCTParamError("Input is not connected")

`precheck` mirrors the two statements with the executable model of `number_of_components`
(`Model/Comp.lean`, C16).  Inputs are integer matrices, so `allclose` is equality.  The driver `step`
runs the pre-check for the two undirected `_connected` routines and hands every accepted line (and
every other routine) to `Bct.Rewire.step` unchanged.
-/
namespace Bct.RewirePre
open Bct

def precheck {n} (R : AMat Int n) : Except Err Unit :=
  if !(Comp.isSymm R) then .error .param
  else match Comp.numberOfComponents R with
    | .error e => .error e
    | .ok m => if m > 1 then .error .param else .ok ()

def step (line : String) : String :=
  let (op, kv) := parseLine line
  if op == "randmio_und_connected" || op == "latmio_und_connected" then
    let res : Option String := do
      let n ← (← lookup kv "n").toNat?
      if n < 2 then none
      let R ← parseMat n (← lookup kv "R")
      match precheck R with
      | .error e => some s!"error={e.str}"
      | .ok () => some (Rewire.step line)
    res.getD "error=protocol"
  else Rewire.step line

end Bct.RewirePre
