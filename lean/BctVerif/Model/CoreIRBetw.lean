import BctVerif.Model.Between
/-!
# Source-extracted `betweenness_bin`: IR, interpreter, decidable check (T-gen, C08)

`translate/cores.py` reads `bct/algorithms/centrality.py` with `ast` on every check run and writes every statement of

    def betweenness_bin(G):
        G = np.array(G, dtype=float)
        n = len(G)
        I = np.eye(n)
        d = 1
        NPd = G.copy()
        NSPd = G.copy()
        NSP = G.copy()
        L = G.copy()
        NSP[np.where(I)] = 1
        L[np.where(I)] = 1
        while np.any(NSPd):
            d += 1
            NPd = np.dot(NSPd, G)
            NSPd = NPd * (L == 0)
            NSP += NSPd
            L = L + d * (NSPd != 0)
        L[L == 0] = np.inf
        L[np.where(I)] = 0
        NSP[NSP == 0] = 1
        DP = np.zeros((n, n))
        diam = d - 1
        for d in range(diam, 1, -1):
            DPd1 = np.dot(((L == d) * (1 + DP) / NSP), G.T) * ((L == (d - 1)) * NSP)
            DP += DPd1
        return np.sum(DP, axis=0)

as a `BetwIR` value into `BctVerif/Gen/CoresBetw.lean`, with the obligation `betwOk ir = true := by decide`.  Cells are floats
holding a rational number or `inf`, or booleans; scalars are Python integers.  The interpreter evaluates whole-array
expressions cell by cell (right-hand sides completely before the store), `np.dot` as the sum of products over the inner index
of two *expressions*, `.T` by swapping the indices.  Division by zero, arithmetic with `inf`, and a truth test of anything but
a number are errors (the routine never does any of these).  `Props/CoresBetw.lean` proves that a program that passes computes
exactly `Between.betweennessBin`.

Core Lean only.
-/
namespace Bct.CoreIR.Betw
open Bct Bct.Between

inductive V
  /-- a float holding a rational number -/
  | num (q : Rat)
  | inf
  | bool (b : Bool)
  | err
  deriving DecidableEq

namespace V
def add : V → V → V
  | num a, num b => num (a + b)
  | _, _ => err
def sub : V → V → V
  | num a, num b => num (a - b)
  | _, _ => err
/-- `a * b`: numbers, a number and a boolean, two booleans -/
def mul : V → V → V
  | num a, num b => num (a * b)
  | num a, bool b => num (if b then a else 0)
  | bool a, num b => num (if a then b else 0)
  | bool a, bool b => bool (a && b)
  | _, _ => err
/-- true division; a zero divisor is an error (NumPy warns and stores `inf`/`nan`) -/
def div : V → V → V
  | num a, num b => if b = 0 then err else num (a / b)
  | _, _ => err
def eq : V → V → V
  | num a, num b => bool (a == b)
  | inf, num _ => bool false
  | num _, inf => bool false
  | inf, inf => bool true
  | _, _ => err
def ne : V → V → V
  | num a, num b => bool (a != b)
  | inf, num _ => bool true
  | num _, inf => bool true
  | inf, inf => bool false
  | _, _ => err
/-- `np.array(·, dtype=float)` of one cell -/
def asFloat : V → V
  | num a => num a
  | inf => inf
  | bool b => num (if b then 1 else 0)
  | err => err
/-- truth value of a cell for `np.where` / `np.any` -/
def truthy : V → Option Bool
  | num a => some (a != 0)
  | inf => some true
  | bool b => some b
  | err => none
end V

inductive Ex
  /-- a matrix name (elementwise use; `.copy()` of a matrix is the matrix) -/
  | ref (m : String)
  /-- a scalar name, broadcast -/
  | scal (x : String)
  | lit (k : Nat)
  | infLit
  /-- `np.array(a, dtype=float)` -/
  | asFloat (a : Ex)
  /-- `np.eye(x)` for a scalar name -/
  | eye (x : String)
  /-- `np.zeros((x, y))` for scalar names -/
  | zeros (x y : String)
  | add (a b : Ex)
  | sub (a b : Ex)
  | mul (a b : Ex)
  | div (a b : Ex)
  | eq (a b : Ex)
  | ne (a b : Ex)
  /-- `np.dot(a, b)` of two matrix expressions -/
  | dot (a b : Ex)
  /-- `a.T` -/
  | tr (a : Ex)
  deriving DecidableEq, Repr

inductive Stmt
  /-- `x = e` for a matrix -/
  | bind (x : String) (e : Ex)
  /-- `x = len(m)` -/
  | setLen (x m : String)
  /-- `x = <integer literal>` -/
  | setScal (x : String) (k : Int)
  /-- `x = y - <integer literal>` for scalars -/
  | letSub (x y : String) (k : Int)
  /-- `x += <integer literal>` (scalar) -/
  | incr (x : String) (k : Int)
  /-- `x += e` (matrix) -/
  | augAdd (x : String) (e : Ex)
  /-- `m[c] = e` for a boolean expression `c` -/
  | setMask (m : String) (c e : Ex)
  /-- `m[np.where(w)] = e` for a matrix name `w` -/
  | setWhere (m w : String) (e : Ex)
  deriving DecidableEq, Repr

structure BetwIR where
  recognised : Bool
  origins : List (String × String)
  param : String
  pre : List Stmt
  /-- `while np.any(<cond>):` -/
  cond : String
  body : List Stmt
  mid : List Stmt
  /-- `for <loopVar> in range(<loopHi>, <loopLo>, <loopStep>):` -/
  loopVar : String
  loopHi : String
  loopLo : Int
  loopStep : Int
  back : List Stmt
  /-- `return np.sum(<ret>, axis=<retAxis>)` -/
  ret : String
  retAxis : Nat
  deriving DecidableEq, Repr

variable {n : Nat}

structure Env (n : Nat) where
  mat : String → Option (AMat V n)
  sc : String → Option Int

/-- sum of a list of cells, from the float `0` -/
def sumV (l : List V) : V := l.foldr V.add (.num 0)

def eval (E : Env n) : Ex → Fin n → Fin n → V
  | .ref m, i, j => match E.mat m with
    | some M => M.get i j
    | none => .err
  | .scal x, _, _ => match E.sc x with
    | some z => .num z
    | none => .err
  | .lit k, _, _ => .num k
  | .infLit, _, _ => .inf
  | .asFloat a, i, j => V.asFloat (eval E a i j)
  | .eye x, i, j => match E.sc x with
    | some z => if z = n then .num (if i = j then 1 else 0) else .err
    | none => .err
  | .zeros x y, _, _ => match E.sc x, E.sc y with
    | some z, some w => if z = n ∧ w = n then .num 0 else .err
    | _, _ => .err
  | .add a b, i, j => V.add (eval E a i j) (eval E b i j)
  | .sub a b, i, j => V.sub (eval E a i j) (eval E b i j)
  | .mul a b, i, j => V.mul (eval E a i j) (eval E b i j)
  | .div a b, i, j => V.div (eval E a i j) (eval E b i j)
  | .eq a b, i, j => V.eq (eval E a i j) (eval E b i j)
  | .ne a b, i, j => V.ne (eval E a i j) (eval E b i j)
  | .dot a b, i, j => sumV ((List.finRange n).map fun k => V.mul (eval E a i k) (eval E b k j))
  | .tr a, i, j => eval E a j i

/-- a value stored into a float array -/
def stored : V → V
  | .num q => .num q
  | .inf => .inf
  | .bool b => .num (if b then 1 else 0)
  | .err => .err

/-- one cell of `m[np.where(w)] = e` -/
def whereCell (t : Option Bool) (new old : V) : V :=
  match t with
  | some true => new
  | some false => old
  | none => .err

def exec (E : Env n) : Stmt → Option (Env n)
  | .bind x e => some { E with mat := fun y => if y = x then some (AMat.ofFn fun i j => eval E e i j) else E.mat y }
  | .setLen x m => match E.mat m with
    | some _ => some { E with sc := fun y => if y = x then some (n : Int) else E.sc y }
    | none => none
  | .setScal x k => some { E with sc := fun y => if y = x then some k else E.sc y }
  | .letSub x y k => match E.sc y with
    | some v => some { E with sc := fun z => if z = x then some (v - k) else E.sc z }
    | none => none
  | .incr x k => match E.sc x with
    | some v => some { E with sc := fun y => if y = x then some (v + k) else E.sc y }
    | none => none
  | .augAdd x e => match E.mat x with
    | some M => some { E with mat := fun y => if y = x then some (AMat.ofFn fun i j => V.add (M.get i j) (eval E e i j)) else E.mat y }
    | none => none
  | .setMask m c e => match E.mat m with
    | some M => some { E with mat := fun y => if y = m then some (AMat.ofFn fun i j =>
        match eval E c i j with
        | .bool true => stored (eval E e i j)
        | .bool false => M.get i j
        | _ => .err) else E.mat y }
    | none => none
  | .setWhere m w e => match E.mat m, E.mat w with
    | some M, some W => some { E with mat := fun y => if y = m then some (AMat.ofFn fun i j =>
        whereCell (W.get i j).truthy (stored (eval E e i j)) (M.get i j)) else E.mat y }
    | _, _ => none

def execs : List Stmt → Env n → Option (Env n)
  | [], E => some E
  | s :: ss, E => match exec E s with
    | some E' => execs ss E'
    | none => none

/-- `np.any(M)`; `none` if a cell has no truth value -/
def anyV (M : AMat V n) : Option Bool :=
  if (List.finRange n).all fun i => (List.finRange n).all fun j => ((M.get i j).truthy).isSome then
    some ((List.finRange n).any fun i => (List.finRange n).any fun j => (M.get i j).truthy == some true)
  else none

/-- `while np.any(cond): body` on fuel -/
def whileAny (cond : String) (body : List Stmt) : Nat → Env n → Option (Env n)
  | 0, _ => none
  | fuel + 1, E =>
    match E.mat cond with
    | some L => match anyV L with
      | some true => match execs body E with
        | some E' => whileAny cond body fuel E'
        | none => none
      | some false => some E
      | none => none
    | none => none

/-- `range(hi, lo, -1)`; other steps are not part of the language -/
def pyRange (hi lo step : Int) : Option (List Int) :=
  if step = -1 then some ((List.range (hi - lo).toNat).map fun (t : Nat) => hi - (t : Int)) else none

/-- `for x in <values>: body` -/
def forEach (x : String) (body : List Stmt) : List Int → Env n → Option (Env n)
  | [], E => some E
  | v :: vs, E =>
    match execs body { E with sc := fun y => if y = x then some v else E.sc y } with
    | some E' => forEach x body vs E'
    | none => none

/-- `np.sum(M, axis=0)` -/
def colSums (M : AMat V n) : Vector V n := Vector.ofFn fun j => sumV ((List.finRange n).map fun i => M.get i j)

/-- the whole routine on the argument -/
def run (ir : BetwIR) (fuel : Nat) (G : AMat V n) : Option (Vector V n) :=
  match execs ir.pre { mat := fun y => if y = ir.param then some G else none, sc := fun _ => none } with
  | none => none
  | some E1 => match whileAny ir.cond ir.body fuel E1 with
    | none => none
    | some E2 => match execs ir.mid E2 with
      | none => none
      | some E3 => match E3.sc ir.loopHi with
        | none => none
        | some hi => match pyRange hi ir.loopLo ir.loopStep with
          | none => none
          | some ds => match forEach ir.loopVar ir.back ds E3 with
            | none => none
            | some E4 => if ir.retAxis = 0 then (E4.mat ir.ret).map colSums else none

def refIR : BetwIR :=
  { recognised := true,
    origins := [("BRANDES2001", "from bct/citations.py:BRANDES2001"), ("BibTeX", "from bct/due.py:BibTeX"),
                ("KINTALI2008", "from bct/citations.py:KINTALI2008"), ("due", "from bct/due.py:due"), ("float", "builtin"),
                ("len", "builtin"), ("np", "module numpy"), ("range", "builtin")],
    param := "G",
    pre := [ .bind "G" (.asFloat (.ref "G")), .setLen "n" "G", .bind "I" (.eye "n"), .setScal "d" 1,
             .bind "NPd" (.ref "G"), .bind "NSPd" (.ref "G"), .bind "NSP" (.ref "G"), .bind "L" (.ref "G"),
             .setWhere "NSP" "I" (.lit 1), .setWhere "L" "I" (.lit 1) ],
    cond := "NSPd",
    body := [ .incr "d" 1, .bind "NPd" (.dot (.ref "NSPd") (.ref "G")),
              .bind "NSPd" (.mul (.ref "NPd") (.eq (.ref "L") (.lit 0))),
              .augAdd "NSP" (.ref "NSPd"),
              .bind "L" (.add (.ref "L") (.mul (.scal "d") (.ne (.ref "NSPd") (.lit 0)))) ],
    mid := [ .setMask "L" (.eq (.ref "L") (.lit 0)) .infLit, .setWhere "L" "I" (.lit 0),
             .setMask "NSP" (.eq (.ref "NSP") (.lit 0)) (.lit 1), .bind "DP" (.zeros "n" "n"), .letSub "diam" "d" 1 ],
    loopVar := "d", loopHi := "diam", loopLo := 1, loopStep := -1,
    back := [ .bind "DPd1" (.mul
                (.dot (.div (.mul (.eq (.ref "L") (.scal "d")) (.add (.lit 1) (.ref "DP"))) (.ref "NSP")) (.tr (.ref "G")))
                (.mul (.eq (.ref "L") (.sub (.scal "d") (.lit 1))) (.ref "NSP"))),
              .augAdd "DP" (.ref "DPd1") ],
    ret := "DP", retAxis := 0 }

/-- the decidable obligation generated for `betweenness_bin` -/
def betwOk (ir : BetwIR) : Bool := ir == refIR

end Bct.CoreIR.Betw
