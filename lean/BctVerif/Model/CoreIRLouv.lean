import BctVerif.Model.Modularity
/-!
# T-gen for the node-moving pass of `modularity_louvain_und` / `modularity_louvain_dir` — IR, interpreter, check

`translate/cores.py` (family `modq`) maps, on every check run, the statements of the body of `while True:` from the degree
vectors to the end of `while flag:` to a `SweepIR` value; the generated obligations compare it with `refUnd` / `refDir`.

    k = np.sum(W, axis=0)
    Km = k.copy()
    Knm = W.copy()
    m = np.arange(n) + 1
    flag = True
    it = 0
    while flag:
        it += 1
        if it > 1000:
            raise BCTParamError(…)
        flag = False
        for i in rng.permutation(n):
            ma = m[i] - 1
            dQ = ((Knm[i, :] - Knm[i, ma] + W[i, i]) - gamma * k[i] * (Km - Km[ma] + k[i]) / s)
            dQ[ma] = 0
            max_dq = np.max(dQ)
            if max_dq > 1e-10:
                j = np.argmax(dQ)
                Knm[:, j] += W[:, i]
                Knm[:, ma] -= W[:, i]
                Km[j] += k[i]
                Km[ma] -= k[i]
                m[i] = j + 1
                flag = True

(the directed routine has two gain terms `dq_o`, `dq_i`, `dq = (dq_o + dq_i) / 2`, and eight updates).  The IR has a fixed shape:
one field per name and literal, the gain terms as `GainTerm` records, the updates as `ColUpd` / `VecUpd` records.  Arithmetic is exact
(`Rat`), as in `Model/Modularity.lean`; `np.max` / `np.argmax` are the first maximum (`Modularity.argmaxFirst`); the threshold literal
`1e-10` is read as the decimal fraction it denotes.  The interpreter works on named matrices and vectors; `m` is kept as the
0-based labels `m - 1` (the three offsets `- 1`, `+ 1`, `+ 1` must agree).  A zero total weight `s` stops the run.
-/
namespace Bct.CoreIR.Louv
open Bct Bct.Modularity

/-- `<t> = (<a1>[<i1>, :] - <a2>[<i2>, <ma1>] + <w>[<wi>, <wj>]) - <g> * <k1>[<k1i>] * (<km1> - <km2>[<ma2>] + <k2>[<k2i>]) / <s>` -/
structure GainTerm where
  t : String
  a1 : String
  i1 : String
  a2 : String
  i2 : String
  ma1 : String
  w : String
  wi : String
  wj : String
  g : String
  k1 : String
  k1i : String
  km1 : String
  km2 : String
  ma2 : String
  k2 : String
  k2i : String
  s : String
  deriving DecidableEq, Repr

/-- `<mat>[:, <c>] += <src>[:, <si>]` (`plus`) or `-=`; `srcRow`: the source is `<src>[<si>, :].T` -/
structure ColUpd where
  mat : String
  c : String
  plus : Bool
  src : String
  si : String
  srcRow : Bool
  deriving DecidableEq, Repr

/-- `<vec>[<c>] += <src>[<si>]` (`plus`) or `-=` -/
structure VecUpd where
  vec : String
  c : String
  plus : Bool
  src : String
  si : String
  deriving DecidableEq, Repr

structure SweepIR where
  recognised : Bool
  name : String
  origins : List (String × String)
  params : List String
  defaults : List (String × String)
  /-- `<sT> = np.sum(<sOf>)` in the prologue of the routine (the total weight) -/
  sT : String
  sOf : String
  /-- `<t> = np.sum(<w>, axis=<axis>)` as `(t, w, axis)`; `<t> = <src>.copy()` as `(t, src)` -/
  sums : List (String × String × Nat)
  copies : List (String × String)
  /-- `<m> = np.arange(<mN>) + <mOff>`, `<fl> = True`, `<it> = <it0>` -/
  m : String
  mN : String
  mOff : Nat
  fl : String
  flInit : Bool
  it : String
  it0 : Nat
  /-- `while <wTest>:` `<itI> += <itBy>`; `if <itT> > <itLim>: raise <exc>(…)`; `<flR> = <flRVal>` -/
  wTest : String
  itI : String
  itBy : Nat
  itT : String
  itLim : Nat
  exc : String
  flR : String
  flRVal : Bool
  /-- `for <u> in <rng>.permutation(<pn>):` -/
  u : String
  rng : String
  pn : String
  /-- `<ma> = <maOf>[<maI>] - <maOff>` -/
  ma : String
  maOf : String
  maI : String
  maOff : Nat
  terms : List GainTerm
  /-- `<dq> = (<c1> + <c2>) / <cd>` as `(dq, c1, c2, cd)`; absent when there is one term -/
  comb : Option (String × String × String × Nat)
  /-- `<z>[<zi>] = <zv>`, `<mx> = np.max(<mxOf>)`, `if <tl> > <thrNum>/<thrDen>:`, `<j> = np.argmax(<amOf>)` -/
  z : String
  zi : String
  zv : Nat
  mx : String
  mxOf : String
  tl : String
  thrNum : Nat
  thrDen : Nat
  j : String
  amOf : String
  cols : List ColUpd
  vecs : List VecUpd
  /-- `<sm>[<smi>] = <smv> + <smOff>`, `<flS> = <flSVal>` -/
  sm : String
  smi : String
  smv : String
  smOff : Nat
  flS : String
  flSVal : Bool
  deriving DecidableEq, Repr

/-- the name of the vector that is maximised -/
def SweepIR.dq (ir : SweepIR) : String :=
  match ir.comb, ir.terms with
  | some (d, _, _, _), _ => d
  | none, [t] => t.t
  | none, _ => ""

/-- the weight matrix is the first parameter, the resolution the second -/
def SweepIR.wName (ir : SweepIR) : String := ir.params.headD ""
def SweepIR.gName (ir : SweepIR) : String := (ir.params.drop 1).headD ""

def GainTerm.coherent (ir : SweepIR) (t : GainTerm) : Bool :=
  t.a2 == t.a1 && t.i1 == ir.u && t.i2 == ir.u && t.ma1 == ir.ma && t.w == ir.wName && t.wi == ir.u && t.wj == ir.u && t.g == ir.gName &&
  t.k1i == ir.u && t.km2 == t.km1 && t.ma2 == ir.ma && t.k2i == ir.u && t.s == ir.sT

/-- the names of the source refer to each other as they must -/
def SweepIR.coherent (ir : SweepIR) : Bool :=
  let wName := ir.wName
  let gName := ir.gName
  let sName := ir.sT
  2 ≤ ir.params.length && ir.sOf == wName &&
  ir.sums.all (fun x => x.2.1 == wName && x.2.2 < 2) && ir.mOff == 1 && ir.flInit && ir.it0 == 0 &&
  ir.wTest == ir.fl && ir.itI == ir.it && ir.itBy == 1 && ir.itT == ir.it && ir.flR == ir.fl && !ir.flRVal &&
  ir.pn == ir.mN && ir.maOf == ir.m && ir.maI == ir.u && ir.maOff == ir.mOff &&
  ir.terms.all (GainTerm.coherent ir) &&
  (match ir.comb, ir.terms with
    | some (_, c1, c2, cd), [t1, t2] => c1 == t1.t && c2 == t2.t && cd != 0
    | none, [_] => true
    | _, _ => false) &&
  ir.z == ir.dq && ir.zi == ir.ma && ir.zv == 0 && ir.mxOf == ir.dq && ir.tl == ir.mx && ir.thrDen != 0 && ir.amOf == ir.dq &&
  ir.cols.all (fun c => (c.c == ir.j || c.c == ir.ma) && c.src == wName && c.si == ir.u) &&
  ir.vecs.all (fun v => (v.c == ir.j || v.c == ir.ma) && v.si == ir.u) &&
  ir.sm == ir.m && ir.smi == ir.u && ir.smv == ir.j && ir.smOff == ir.mOff && ir.flS == ir.fl && ir.flSVal &&
  decide (([wName, gName, sName, ir.m, ir.fl, ir.it, ir.u, ir.ma, ir.mx, ir.j, ir.dq] ++ ir.sums.map (·.1) ++ ir.copies.map (·.1)).Nodup)

variable {n : Nat}

structure Env (n : Nat) where
  mats : List (String × RMat n)
  vecs : List (String × RVec n)
  lab : Lab n
  s : Rat
  γ : Rat

def Env.mat (E : Env n) (x : String) : Option (RMat n) := E.mats.lookup x
def Env.vec (E : Env n) (x : String) : Option (RVec n) := E.vecs.lookup x

def setKey {α : Type} (l : List (String × α)) (x : String) (v : α) : List (String × α) :=
  l.map fun p => if p.1 = x then (p.1, v) else p

/-- the statements before `while flag:` -/
def runInit (ir : SweepIR) (W : RMat n) (s γ : Rat) : Option (Env n) :=
  if !ir.coherent then none else
  let wName := ir.wName
  let vecs : List (String × RVec n) := ir.sums.map fun x => (x.1, Vector.ofFn fun i => if x.2.2 = 0 then colSum W i else rowSum W i)
  let copyV := ir.copies.filterMap fun c => (vecs.lookup c.2).map fun v => (c.1, v)
  let copyM := ir.copies.filterMap fun c => if c.2 = wName then some (c.1, W) else none
  if copyV.length + copyM.length = ir.copies.length then
    some { mats := (wName, W) :: copyM, vecs := vecs ++ copyV, lab := idLab n, s := s, γ := γ }
  else none

/-- one gain term at node `u`, module `ma` -/
def evalTerm (E : Env n) (t : GainTerm) (u ma : Fin n) : Option (Fin n → Rat) :=
  match E.mat t.a1, E.mat t.w, E.vec t.k1, E.vec t.km1, E.vec t.k2 with
  | some A, some W, some k1, some Km, some k2 =>
    some fun c => (A.get u c - A.get u ma + W.get u u) - E.γ * k1[u] * (Km[c] - Km[ma] + k2[u]) / E.s
  | _, _, _, _, _ => none

/-- the maximised vector, before `dq[ma] = 0` -/
def evalGain (ir : SweepIR) (E : Env n) (u ma : Fin n) : Option (Fin n → Rat) :=
  match ir.comb, ir.terms with
  | none, [t] => evalTerm E t u ma
  | some (_, _, _, cd), [t1, t2] =>
    match evalTerm E t1 u ma, evalTerm E t2 u ma with
    | some f1, some f2 => some fun c => (f1 c + f2 c) / (cd : Rat)
    | _, _ => none
  | _, _ => none

def applyCol (ir : SweepIR) (u ma mb : Fin n) (E : Env n) (c : ColUpd) : Option (Env n) :=
  match E.mat c.mat, E.mat c.src with
  | some M, some S =>
    let tgt := if c.c = ir.j then mb else ma
    let col : Fin n → Rat := fun r => if c.srcRow then S.get u r else S.get r u
    some { E with mats := setKey E.mats c.mat (AMat.ofFn fun r t => if t = tgt then (if c.plus then M.get r t + col r else M.get r t - col r) else M.get r t) }
  | _, _ => none

def applyVec (ir : SweepIR) (u ma mb : Fin n) (E : Env n) (v : VecUpd) : Option (Env n) :=
  match E.vec v.vec, E.vec v.src with
  | some V, some S =>
    let tgt := if v.c = ir.j then mb else ma
    some { E with vecs := setKey E.vecs v.vec (Vector.ofFn fun t => if t = tgt then (if v.plus then V[t] + S[u] else V[t] - S[u]) else V[t]) }
  | _, _ => none

def foldOpt {α β : Type} (f : α → β → Option α) : List β → α → Option α
  | [], a => some a
  | b :: bs, a => match f a b with
    | some a' => foldOpt f bs a'
    | none => none

/-- the body of `for u in rng.permutation(n):` for one node; the flag says whether the node moved -/
def runVisit (ir : SweepIR) (E : Env n) (u : Fin n) : Option (Env n × Bool) :=
  if !ir.coherent || E.s = 0 then none
  else
    let ma := E.lab[u]
    match evalGain ir E u ma with
    | none => none
    | some f =>
      let dq : Fin n → Rat := fun c => if c = ma then (ir.zv : Rat) else f c
      match argmaxFirst dq n with
      | none => some (E, false)
      | some (mb, mx) =>
        if (ir.thrNum : Rat) / (ir.thrDen : Rat) < mx then
          match foldOpt (applyCol ir u ma mb) ir.cols E with
          | none => none
          | some E1 =>
            match foldOpt (applyVec ir u ma mb) ir.vecs E1 with
            | none => none
            | some E2 => some ({ E2 with lab := E2.lab.set u mb }, true)
        else some (E, false)

/-- one sweep `for u in rng.permutation(n):` in the recorded order `us`; the flag says whether any node moved -/
def runPass (ir : SweepIR) (us : List (Fin n)) (r : Env n × Bool) : Option (Env n × Bool) :=
  foldOpt (fun (acc : Env n × Bool) u => (runVisit ir acc.1 u).map fun p => (p.1, acc.2 || p.2)) us r

/-! ## reference programs -/

def refOrigins : List (String × String) :=
  [("BCTParamError", "class bct/utils/miscellaneous_utilities.py:BCTParamError"), ("BLONDEL2008", "from bct/citations.py:BLONDEL2008"),
   ("BibTeX", "from bct/due.py:BibTeX"), ("REICHARDT2006", "from bct/citations.py:REICHARDT2006"),
   ("RUBINOV2011", "from bct/citations.py:RUBINOV2011"), ("due", "from bct/due.py:due"), ("float", "builtin"),
   ("get_rng", "def bct/utils/miscellaneous_utilities.py:get_rng"), ("int", "builtin"), ("len", "builtin"), ("np", "module numpy"),
   ("range", "builtin")]

def refTermU : GainTerm :=
  { t := "dQ", a1 := "Knm", i1 := "i", a2 := "Knm", i2 := "i", ma1 := "ma", w := "W", wi := "i", wj := "i", g := "gamma",
    k1 := "k", k1i := "i", km1 := "Km", km2 := "Km", ma2 := "ma", k2 := "k", k2i := "i", s := "s" }

def refUnd : SweepIR :=
  { recognised := true, name := "modularity_louvain_und", origins := refOrigins,
    params := ["W", "gamma", "hierarchy", "seed"], defaults := [("gamma", "1"), ("hierarchy", "False"), ("seed", "None")],
    sT := "s", sOf := "W",
    sums := [("k", "W", 0)], copies := [("Km", "k"), ("Knm", "W")],
    m := "m", mN := "n", mOff := 1, fl := "flag", flInit := true, it := "it", it0 := 0,
    wTest := "flag", itI := "it", itBy := 1, itT := "it", itLim := 1000, exc := "BCTParamError", flR := "flag", flRVal := false,
    u := "i", rng := "rng", pn := "n", ma := "ma", maOf := "m", maI := "i", maOff := 1,
    terms := [refTermU], comb := none,
    z := "dQ", zi := "ma", zv := 0, mx := "max_dq", mxOf := "dQ", tl := "max_dq", thrNum := 1, thrDen := 10000000000, j := "j", amOf := "dQ",
    cols := [{ mat := "Knm", c := "j", plus := true, src := "W", si := "i", srcRow := false },
             { mat := "Knm", c := "ma", plus := false, src := "W", si := "i", srcRow := false }],
    vecs := [{ vec := "Km", c := "j", plus := true, src := "k", si := "i" }, { vec := "Km", c := "ma", plus := false, src := "k", si := "i" }],
    sm := "m", smi := "i", smv := "j", smOff := 1, flS := "flag", flSVal := true }

def refTermO : GainTerm :=
  { t := "dq_o", a1 := "knm_o", i1 := "u", a2 := "knm_o", i2 := "u", ma1 := "ma", w := "W", wi := "u", wj := "u", g := "gamma",
    k1 := "k_o", k1i := "u", km1 := "km_i", km2 := "km_i", ma2 := "ma", k2 := "k_i", k2i := "u", s := "s" }

def refTermI : GainTerm :=
  { t := "dq_i", a1 := "knm_i", i1 := "u", a2 := "knm_i", i2 := "u", ma1 := "ma", w := "W", wi := "u", wj := "u", g := "gamma",
    k1 := "k_i", k1i := "u", km1 := "km_o", km2 := "km_o", ma2 := "ma", k2 := "k_o", k2i := "u", s := "s" }

def refDir : SweepIR :=
  { refUnd with
    name := "modularity_louvain_dir",
    sums := [("k_o", "W", 1), ("k_i", "W", 0)], copies := [("km_o", "k_o"), ("km_i", "k_i"), ("knm_o", "W"), ("knm_i", "W")],
    u := "u", maI := "u", terms := [refTermO, refTermI], comb := some ("dq", "dq_o", "dq_i", 2),
    z := "dq", mxOf := "dq", j := "mb", amOf := "dq",
    cols := [{ mat := "knm_o", c := "mb", plus := true, src := "W", si := "u", srcRow := true },
             { mat := "knm_o", c := "ma", plus := false, src := "W", si := "u", srcRow := true },
             { mat := "knm_i", c := "mb", plus := true, src := "W", si := "u", srcRow := false },
             { mat := "knm_i", c := "ma", plus := false, src := "W", si := "u", srcRow := false }],
    vecs := [{ vec := "km_o", c := "mb", plus := true, src := "k_o", si := "u" }, { vec := "km_o", c := "ma", plus := false, src := "k_o", si := "u" },
             { vec := "km_i", c := "mb", plus := true, src := "k_i", si := "u" }, { vec := "km_i", c := "ma", plus := false, src := "k_i", si := "u" }],
    smi := "u", smv := "mb" }

/-- the decidable obligation generated for the node-moving pass of the two Louvain routines -/
def sweepOk (ref ir : SweepIR) : Bool := ir == ref

end Bct.CoreIR.Louv
