import BctVerif.Model.CoreIRDijk
/-!
# T-gen for the nested `distance_inv_wei` of `efficiency_wei` — the Dijkstra part as a `Dijk.DijkIR` value

    def distance_inv_wei(G):
        n = len(G)
        D = np.zeros((n, n))
        D[np.logical_not(np.eye(n))] = np.inf
        for u in range(n):
            S = np.ones((n,), dtype=bool)
            G1 = G.copy()
            V = [u]
            while True:
                S[V] = 0
                G1[:, V] = 0
                for v in V:
                    W, = np.where(G1[v, :])
                    td = np.array([D[u, W].flatten(), (D[u, v] + G1[v, W]).flatten()])
                    D[u, W] = np.min(td, axis=0)
                if D[u, S].size == 0:
                    break
                minD = np.min(D[u, S])
                if np.isinf(minD):
                    break
                V, = np.where(D[u, :] == minD)
        np.fill_diagonal(D, 1)
        D = 1 / D
        np.fill_diagonal(D, 0)
        return D

The statements up to the end of the row loop are `distance_wei` without the matrix `B`; they are mapped to the statement language of
`Model/CoreIRDijk.lean` and run by its interpreter `Dijk.runDijk`.  The store `D[u, W] = np.min(td, axis=0)` is read as the two
statements `<tmp> = np.min(td, axis=0)`, `D[u, W] = <tmp>` (the right-hand side is evaluated completely before the store) with the
temporary named `"np.min(td, axis=0)"`, which is not an identifier.  The three statements after the loop are fields of
`DinvIR`; `Model/CoreIREffW.lean` applies them to the distance matrix (`invMatOf`).
-/
namespace Bct.CoreIR.Dinv
open Bct Bct.Dist Bct.CoreIR.Dijk

def tmpMin : String := "np.min(td, axis=0)"

def refBodyD : List Stmt :=
  [ .whereRow "W" "G1" "v",
    .stack2 "td" (.rowAt "D" "u" "W") (.addScalar "D" "u" "v" (.rowAt "G1" "v" "W")),
    .minAxis0 tmpMin "td",
    .storeRow "D" "u" "W" tmpMin ]

def refWhileD : List WStmt :=
  [ .clearVec "S" "V",
    .zeroCols "G1" "V",
    .forNodes "v" "V" refBodyD,
    .breakIfNoneLeft "D" "u" "S",
    .minMasked "minD" "D" "u" "S",
    .breakIfInf "minD",
    .whereEqRow "V" "D" "u" "minD" ]

/-- the Dijkstra part of `distance_inv_wei` -/
def refDinvD : DijkIR :=
  { recognised := true, origins := [],
    param := "G",
    pre := [.len "n" "G", .zerosMat "D" "n" "n", .setOffDiagInf "D" "n"],
    rowVar := "u", rowBound := "n",
    rowPre := [.onesVec "S" "n", .copyMat "G1" "G", .listOf "V" "u"],
    whileBody := refWhileD,
    ret := ["D"] }

/-- the nested function: the Dijkstra part and `np.fill_diagonal(<f1M>, <f1V>)`, `<invT> = <invNum> / <invOf>`, `np.fill_diagonal(<f2M>, <f2V>)`, `return <ret>` -/
structure DinvIR where
  name : String
  dijk : DijkIR
  f1M : String
  f1V : Nat
  invT : String
  invNum : Nat
  invOf : String
  f2M : String
  f2V : Nat
  ret : String
  deriving DecidableEq, Repr

def DinvIR.coherent (ir : DinvIR) : Bool :=
  ir.dijk.ret == [ir.ret] && ir.f1M == ir.ret && ir.invT == ir.ret && ir.invOf == ir.ret && ir.f2M == ir.ret && ir.f1V != 0

def refDinv : DinvIR :=
  { name := "distance_inv_wei", dijk := refDinvD, f1M := "D", f1V := 1, invT := "D", invNum := 1, invOf := "D", f2M := "D", f2V := 0, ret := "D" }

end Bct.CoreIR.Dinv
