import BctVerif.Model.Basic
/-!
# Executable model of the k-core / s-core routines

`kcore_bu`, `kcore_bd`, `score_wu` (`bct/algorithms/core.py`) and `kcoreness_centrality_bu/_bd`
(`bct/algorithms/centrality.py`).

All three peeling routines are the same loop

    while True:
        deg = <degree vector of the current matrix>
        ff, = np.where(np.logical_and(deg < k, deg > 0))
        if ff.size == 0: break
        iter += 1;  M[ff, :] = 0;  M[:, ff] = 0
        peelorder.append(ff);  peellevel.append(iter * ones(len(ff)))
    kn = np.sum(deg > 0)

and differ only in the degree vector: `degrees_und` (number of nonzero cells of the column),
`degrees_dir` (nonzero cells of the column + nonzero cells of the row), `strengths_und` (column sum).
`peelLoop` is that loop with the degree function as a parameter and fuel (= `n` at the call sites;
`Lemmas/Core.lean` proves that the fuel can never run out before the loop's own exit test fires).
Core Lean only: `Int` cells for the binary routines, core `Rat` cells and strengths for `score_wu`.
-/
namespace Bct.Core
open Bct

variable {α β : Type} {n : Nat}

structure Out (α : Type) (n : Nat) where
  M : AMat α n
  kn : Nat
  /-- `peelorder`: one group (ascending, as `np.where` lists them) per peeling round -/
  order : List (List (Fin n))
  /-- `peellevel`: for every group the round number, repeated once per member -/
  level : List (List Nat)

/-- `M[ff, :] = 0; M[:, ff] = 0` with `ff` given as a mask -/
def zeroOut (z : α) (M : AMat α n) (dead : Vector Bool n) : AMat α n :=
  AMat.ofFn fun i j => if dead[i] || dead[j] then z else M.get i j

/-- `np.sum(deg > 0)` -/
def countPos (deg : AMat α n → Fin n → β) (pos : β → Bool) (M : AMat α n) : Nat :=
  ((List.finRange n).filter fun v => pos (deg M v)).length

/-- the peeling loop. `small d` is `0 < d ∧ d < k`, `pos d` is `0 < d`. -/
def peelLoop (z : α) (deg : AMat α n → Fin n → β) (small pos : β → Bool) :
    Nat → AMat α n → Nat → List (List (Fin n)) → List (List Nat) → Out α n
  | 0, M, _, ord, lev => ⟨M, countPos deg pos M, ord, lev⟩
  | fuel + 1, M, it, ord, lev =>
    let dead : Vector Bool n := Vector.ofFn fun v => small (deg M v)
    let ff := (List.finRange n).filter fun v => dead[v]
    if ff.isEmpty then ⟨M, countPos deg pos M, ord, lev⟩
    else peelLoop z deg small pos fuel (zeroOut z M dead) (it + 1) (ord ++ [ff])
      (lev ++ [ff.map fun _ => it + 1])

/-! ### the three degree vectors -/

/-- `degrees_und`: `np.sum(binarize(M), axis=0)` -/
def degBu (M : AMat Int n) (v : Fin n) : Nat :=
  ((List.finRange n).map fun w => if M.get w v ≠ 0 then 1 else 0).sum

/-- `degrees_dir`: column count + row count of the binarised matrix -/
def degBd (M : AMat Int n) (v : Fin n) : Nat :=
  ((List.finRange n).map fun w => (if M.get w v ≠ 0 then 1 else 0) + (if M.get v w ≠ 0 then 1 else 0)).sum

/-- `strengths_und`: `np.sum(M, axis=0)` -/
def strWu (M : AMat Rat n) (v : Fin n) : Rat :=
  ((List.finRange n).map fun w => M.get w v).sum

def smallNat (k d : Nat) : Bool := decide (0 < d) && decide (d < k)
def posNat (d : Nat) : Bool := decide (0 < d)
def smallRat (s d : Rat) : Bool := decide (0 < d) && decide (d < s)
def posRat (d : Rat) : Bool := decide (0 < d)

def kcoreBu (A : AMat Int n) (k : Nat) : Out Int n :=
  peelLoop 0 degBu (smallNat k) posNat n A 0 [] []

def kcoreBd (A : AMat Int n) (k : Nat) : Out Int n :=
  peelLoop 0 degBd (smallNat k) posNat n A 0 [] []

def scoreWu (A : AMat Rat n) (s : Rat) : Out Rat n :=
  peelLoop 0 strWu (smallRat s) posRat n A 0 [] []

/-! ### k-coreness centrality

    for k in range(N):
        CIJkcore, kn[k] = kcore(CIJ, k)
        ss = np.sum(CIJkcore, axis=0) > 0
        coreness[ss] = k

(`kcoreness_centrality_bu`; the directed routine scans `2N-1` values of `k` and tests in+out sums, see `corenessOfBd`)
-/

/-- `np.sum(M, axis=0)[v]` (plain column sum, no binarisation) -/
def colSum (M : AMat Int n) (v : Fin n) : Int :=
  ((List.finRange n).map fun w => M.get w v).sum

/-- the value of `coreness[v]` after the loop over `ks`: the last `k` whose test `ss[v]` held -/
def lastHit (P : Nat → Bool) (ks : List Nat) : Nat :=
  ks.foldl (fun c k => if P k then k else c) 0

def corenessOf (kcore : Nat → Out Int n) : (Fin n → Nat) × List Nat :=
  let cores : Vector (Out Int n) n := Vector.ofFn fun k => kcore k.val
  (fun v => lastHit (fun k => if h : k < n then decide (0 < colSum (cores[k]).M v) else false) (List.range n),
   (List.finRange n).map fun k => (cores[k]).kn)

/-- `np.sum(M, axis=1)[v]` (plain row sum) -/
def rowSum (M : AMat Int n) (v : Fin n) : Int :=
  ((List.finRange n).map fun w => M.get v w).sum

/-- `kcoreness_centrality_bd` (as repaired):

    kn = np.zeros((max(2 * N - 1, 0),))
    for k in range(2 * N - 1):
        CIJkcore, kn[k] = kcore_bd(CIJ, k)
        ss = (np.sum(CIJkcore, axis=0) + np.sum(CIJkcore, axis=1)) > 0
        coreness[ss] = k
-/
def corenessOfBd (kcore : Nat → Out Int n) : (Fin n → Nat) × List Nat :=
  let cores : Vector (Out Int n) (2 * n - 1) := Vector.ofFn fun k => kcore k.val
  (fun v => lastHit (fun k => if h : k < 2 * n - 1 then
      decide (0 < colSum (cores[k]).M v + rowSum (cores[k]).M v) else false) (List.range (2 * n - 1)),
   (List.finRange (2 * n - 1)).map fun k => (cores[k]).kn)

def kcorenessBd (A : AMat Int n) : (Fin n → Nat) × List Nat := corenessOfBd (kcoreBd A)

/-- `CIJund = CIJ + CIJ.T; if np.any(CIJund > 1): CIJ = np.array(CIJund > 0, dtype=float)` -/
def prepBu (A : AMat Int n) : AMat Int n :=
  if (List.finRange n).any fun i => (List.finRange n).any fun j => decide (A.get i j + A.get j i > 1) then
    AMat.ofFn fun i j => if A.get i j + A.get j i > 0 then 1 else 0
  else A

def kcorenessBu (A : AMat Int n) : (Fin n → Nat) × List Nat := corenessOf (kcoreBu (prepBu A))

/-! ### driver -/

def parseRat (s : String) : Option Rat :=
  match s.splitOn "/" with
  | [a] => (fun (x : Int) => (x : Rat)) <$> a.toInt?
  | [a, b] => do
    let p ← a.toInt?
    let q ← b.toNat?
    if q == 0 then none else some (mkRat p q)
  | _ => none

def showRat (r : Rat) : String := s!"{r.num}/{r.den}"

def parseRatMat (n : Nat) (s : String) : Option (AMat Rat n) := do
  let xs ← if s == "-" || s == "" then some [] else (s.splitOn ",").mapM parseRat
  if xs.length == n * n then
    let a := xs.toArray
    some (AMat.ofFn fun i j => a[i.val * n + j.val]!)
  else none

def showRatMat (R : AMat Rat n) : String :=
  ",".intercalate ((List.finRange n).flatMap fun i => (List.finRange n).map fun j => showRat (R.get i j))

def showGroups {γ : Type} (f : γ → String) (gs : List (List γ)) : String :=
  if gs.isEmpty then "-" else ";".intercalate (gs.map fun g => ",".intercalate (g.map f))

def showOutInt (o : Out Int n) : String :=
  s!"M={showMat o.M} kn={o.kn} order={showGroups (fun (v : Fin n) => toString v.val) o.order} level={showGroups (fun (x : Nat) => toString x) o.level}"

def showCoreness (r : (Fin n → Nat) × List Nat) : String :=
  s!"coreness={showNats ((List.finRange n).map r.1)} kn={showNats r.2}"

def step (line : String) : String :=
  let (op, kv) := parseLine line
  let res : Option String := do
    let n ← (← lookup kv "n").toNat?    -- n = 0 is a legal input: bct returns the empty matrix / empty vectors and size 0
    if op == "score_wu" then
      let A ← parseRatMat n (← lookup kv "A")
      let s ← parseRat (← lookup kv "s")
      let o := scoreWu A s
      some s!"M={showRatMat o.M} kn={o.kn}"
    else
      let A ← parseMat n (← lookup kv "A")
      if op == "kcore_bu" then
        let k ← (← lookup kv "k").toNat?
        some (showOutInt (kcoreBu A k))
      else if op == "kcore_bd" then
        let k ← (← lookup kv "k").toNat?
        some (showOutInt (kcoreBd A k))
      else if op == "kcoreness_bu" then some (showCoreness (kcorenessBu A))
      else if op == "kcoreness_bd" then some (showCoreness (kcorenessBd A))
      else none
  res.getD "error=protocol"

end Bct.Core
