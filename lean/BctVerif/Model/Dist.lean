import BctVerif.Model.Basic
/-!
# Executable models of bct's distance / path routines (core Lean only)

`distance_wei_floyd` (+ `retrieve_shortest_path`), `distance_wei`, `distance_bin`, `breadth`/`breadthdist`,
`reachdist`, `charpath`, `efficiency_bin`, `efficiency_wei` (global), `rout_efficiency` (global part),
`navigation_wu`.  Lengths and distances live in `Ext = ℚ ∪ {∞}`; all matrices are `AMat`.
Loops that are `while` loops in Python run on fuel and return `none` when the fuel is exhausted
(never a default value); the theorems are stated for `some` results.
-/
namespace Bct.Dist
open Bct

/-! ## extended rationals -/

inductive Ext | fin (q : Rat) | inf
  deriving DecidableEq

namespace Ext
def add : Ext → Ext → Ext
  | fin a, fin b => fin (a + b)
  | _, _ => inf
instance : Add Ext := ⟨add⟩
/-- strict comparison, `∞` is the largest element -/
def lt : Ext → Ext → Bool
  | fin a, fin b => decide (a < b)
  | fin _, inf => true
  | inf, _ => false
def isFin : Ext → Bool
  | fin _ => true
  | inf => false
/-- `np.minimum`; on ties the first argument -/
def min (a b : Ext) : Ext := if lt b a then b else a
/-- `1 / x` as numpy computes it on non-negative floats: `1/0 = ∞`, `1/∞ = 0` -/
def inv : Ext → Ext
  | fin q => if q = 0 then inf else fin (1 / q)
  | inf => fin 0
end Ext

def showRat (q : Rat) : String := if q.den = 1 then toString q.num else s!"{q.num}/{q.den}"
def Ext.str : Ext → String
  | .fin q => showRat q
  | .inf => "inf"

def parseRat (s : String) : Option Rat :=
  match s.splitOn "/" with
  | [a] => (fun (x : Int) => (x : Rat)) <$> a.toInt?
  | [a, b] => do
    let x ← a.toInt?
    let y ← b.toNat?
    if y = 0 then none else some (mkRat x y)
  | _ => none
def parseExt (s : String) : Option Ext := if s == "inf" then some .inf else Ext.fin <$> parseRat s

def parseMatWith {α : Type} [Inhabited α] (f : String → Option α) (n : Nat) (s : String) : Option (AMat α n) := do
  let xs ← (if s == "-" || s == "" then some [] else (s.splitOn ",").mapM f)
  let a := xs.toArray
  if a.size == n * n then some (AMat.ofFn fun i j => a[i.val * n + j.val]!) else none

instance : Inhabited Ext := ⟨.inf⟩

def cells (n : Nat) : List (Fin n × Fin n) := (List.finRange n).flatMap fun i => (List.finRange n).map fun j => (i, j)
def offDiag (n : Nat) : List (Fin n × Fin n) := (cells n).filter fun p => p.1 ≠ p.2
def showMatWith {α : Type} {n} (f : α → String) (A : AMat α n) : String :=
  if n = 0 then "-" else ",".intercalate ((cells n).map fun p => f (A.get p.1 p.2))
def showPath {n} (p : List (Fin n)) : String := if p.isEmpty then "-" else ".".intercalate (p.map fun x => toString x.val)
def showVecWith {α : Type} {n} (f : α → String) (v : Vector α n) : String :=
  if n = 0 then "-" else ",".intercalate (v.toList.map f)

/-! ## distance_wei_floyd and retrieve_shortest_path -/

structure FSt (n : Nat) where
  D : AMat Ext n
  hops : AMat Nat n
  P : AMat (Fin n) n

/-- `SPL` = the length matrix (∞ = no connection), `hops = (adjacency != 0)`, `Pmat[i,j] = j` -/
def fInit {n} (L : AMat Ext n) : FSt n where
  D := L
  hops := AMat.ofFn fun i j => if (L.get i j).isFin then 1 else 0
  P := AMat.ofFn fun _ j => j

/-- one pass of `for k in range(n)`: every cell with `SPL > SPL[:,k] + SPL[k,:]` is rewritten, all reads are
of the matrices before the pass (numpy evaluates the right-hand sides first) -/
def fStage {n} (s : FSt n) (k : Fin n) : FSt n where
  D := AMat.ofFn fun i j =>
    if Ext.lt (s.D.get i k + s.D.get k j) (s.D.get i j) then s.D.get i k + s.D.get k j else s.D.get i j
  hops := AMat.ofFn fun i j =>
    if Ext.lt (s.D.get i k + s.D.get k j) (s.D.get i j) then s.hops.get i k + s.hops.get k j else s.hops.get i j
  P := AMat.ofFn fun i j =>
    if Ext.lt (s.D.get i k + s.D.get k j) (s.D.get i j) then s.P.get i k else s.P.get i j

/-- `SPL[I] = 0; hops[I], Pmat[I] = 0, 0` -/
def fFinal {n} (s : FSt n) : FSt n where
  D := AMat.ofFn fun i j => if i = j then .fin 0 else s.D.get i j
  hops := AMat.ofFn fun i j => if i = j then 0 else s.hops.get i j
  P := AMat.ofFn fun i j => if i = j then ⟨0, i.pos⟩ else s.P.get i j

def floydLoop {n} (L : AMat Ext n) : FSt n := (List.finRange n).foldl fStage (fInit L)
def floyd {n} (L : AMat Ext n) : FSt n := fFinal (floydLoop L)

/-- the `for ind in range(1, len(path))` loop: `s = Pmat[s, t]; path[ind] = s` -/
def retrieveGo {n} (P : AMat (Fin n) n) (t : Fin n) : Nat → Fin n → List (Fin n)
  | 0, _ => []
  | k + 1, s => P.get s t :: retrieveGo P t k (P.get s t)

/-- `retrieve_shortest_path(s, t, hops, Pmat)`; `[]` when `hops[s,t] == 0` -/
def retrieve {n} (hops : AMat Nat n) (P : AMat (Fin n) n) (s t : Fin n) : List (Fin n) :=
  if hops.get s t = 0 then [] else s :: retrieveGo P t (hops.get s t) s

inductive Transform | none | inv
/-- connection weight/length → length (`0 → ∞`; `'inv'`: `1/w`) -/
def lenOf (tr : Transform) (a : Rat) : Ext :=
  if a = 0 then .inf else match tr with
    | .none => .fin a
    | .inv => .fin (1 / a)
def lenMat {n} (tr : Transform) (A : AMat Rat n) : AMat Ext n := AMat.ofFn fun i j => lenOf tr (A.get i j)

/-! ## distance_wei (Dijkstra with simultaneous settling of all nodes at the current minimum) -/

structure DSt (n : Nat) where
  D : Vector Ext n      -- row `D[u, :]`
  B : Vector Nat n      -- row `B[u, :]`
  S : Vector Bool n     -- `true` = distance still temporary

/-- body of `for v in V`: `W` = out-neighbours of `v` whose column of `G1` has not been cleared (= still
temporary); `D[u,W] = min(old, D[u,v] + G1[v,W])`, `B[u,ind] = B[u,v] + 1` where the new value is strictly smaller.
(A missing connection has length `∞`, so `D[u,v] + ∞` never wins: ranging over all temporary `w` is the same.) -/
def relaxFrom {n} (L : AMat Ext n) (st : DSt n) (v : Fin n) : DSt n where
  D := Vector.ofFn fun w => if st.S[w] && Ext.lt (st.D[v] + L.get v w) st.D[w] then st.D[v] + L.get v w else st.D[w]
  B := Vector.ofFn fun w => if st.S[w] && Ext.lt (st.D[v] + L.get v w) st.D[w] then st.B[v] + 1 else st.B[w]
  S := st.S

/-- `S[V] = 0` (and `G1[:, V] = 0`, represented by `S`) -/
def settle {n} (st : DSt n) (V : List (Fin n)) : DSt n :=
  { st with S := Vector.ofFn fun w => st.S[w] && !(V.contains w) }

def minOver {n} (D : Vector Ext n) (ws : List (Fin n)) : Ext := ws.foldl (fun m w => Ext.min m D[w]) .inf

def dLoop {n} (L : AMat Ext n) : Nat → DSt n → List (Fin n) → Option (DSt n)
  | 0, _, _ => none
  | fuel + 1, st, V =>
    let st1 := V.foldl (relaxFrom L) (settle st V)
    let temp := (List.finRange n).filter fun w => st1.S[w]
    if temp.isEmpty then some st1            -- `D[u,S].size == 0`
    else
      let m := minOver st1.D temp
      if m = .inf then some st1              -- `np.isinf(minD)`
      else dLoop L fuel st1 ((List.finRange n).filter fun x => st1.D[x] = m)

/-- row `u` of `D` (0 at `u`, ∞ elsewhere) and `B` (zeros); `S = ones` -/
def dInit {n} (u : Fin n) : DSt n where
  D := Vector.ofFn fun w => if w = u then .fin 0 else .inf
  B := Vector.ofFn fun _ => 0
  S := Vector.ofFn fun _ => true

def dRow {n} (L : AMat Ext n) (u : Fin n) : Option (DSt n) := dLoop L (n + 1) (dInit u) [u]

def allRows {α : Type} {n} (f : Fin n → Option α) : Option (Vector α n) :=
  if h : ∀ i : Fin n, (f i).isSome then some (Vector.ofFn fun i => (f i).get (h i)) else none

/-- `distance_wei(G)`; `G` is given as its length matrix (`0 → ∞`) -/
def dijkstra {n} (L : AMat Ext n) : Option (AMat Ext n × AMat Nat n) :=
  (allRows (dRow L)).map fun rows => (Vector.ofFn fun u => rows[u].D, Vector.ofFn fun u => rows[u].B)

/-! ## distance_bin (algebraic shortest paths) -/

def matMul {n} (X Y : AMat Nat n) : AMat Nat n :=
  AMat.ofFn fun i j => (List.finRange n).foldl (fun acc k => acc + X.get i k * Y.get k j) 0

/-- `(X @ Y != 0).astype(float)`: the matrix power is kept as a 0/1 reachability matrix (no walk counts) -/
def boolMul {n} (X Y : AMat Nat n) : AMat Nat n :=
  AMat.ofFn fun i j => if (List.finRange n).foldl (fun acc k => acc + X.get i k * Y.get k j) 0 = 0 then 0 else 1

def binarize {n} (A : AMat Rat n) : AMat Nat n := AMat.ofFn fun i j => if A.get i j = 0 then 0 else 1

def anyTrue {n} (M : AMat Bool n) : Bool := (cells n).any fun p => M.get p.1 p.2

/-- `while np.any(L): D += n*L; n += 1; nPATH = (nPATH @ G != 0); L = (nPATH != 0) * (D == 0)` -/
def binLoop {n} (G : AMat Nat n) : Nat → Nat → AMat Nat n → AMat Nat n → AMat Bool n → Option (AMat Nat n)
  | 0, _, _, _, _ => none
  | fuel + 1, k, nPATH, D, L =>
    if anyTrue L then
      let D' : AMat Nat n := AMat.ofFn fun i j => D.get i j + (if L.get i j then k else 0)
      let nP := boolMul nPATH G
      binLoop G fuel (k + 1) nP D' (AMat.ofFn fun i j => nP.get i j != 0 && D'.get i j == 0)
    else some D

/-- the loop shared by `distance_bin` and `efficiency_bin.distance_inv`; result still has 0 for "no path" -/
def binRaw {n} (G : AMat Nat n) : Option (AMat Nat n) :=
  binLoop G (n * n + 2) 1 G (AMat.ofFn fun i j => if i = j then 1 else 0) (AMat.ofFn fun i j => G.get i j != 0)

/-- `D[D == 0] = inf; fill_diagonal(D, 0)` -/
def distBin {n} (A : AMat Rat n) : Option (AMat Ext n) :=
  (binRaw (binarize A)).map fun D => AMat.ofFn fun i j =>
    if i = j then .fin 0 else if D.get i j = 0 then .inf else .fin (D.get i j : Nat)

/-! ## breadth / breadthdist -/

structure BSt (n : Nat) where
  color : Vector Nat n     -- 0 white, 1 gray, 2 black
  dist : Vector Ext n
  branch : Vector Int n

/-- `if distance[v] == 0: distance[v] = distance[u] + 1` ("this allows the source distance itself to be recorded") -/
def quirk {n} (u : Fin n) (st : BSt n) (v : Fin n) : BSt n :=
  if st.dist[v] = .fin 0 then { st with dist := st.dist.set v (st.dist[u] + .fin 1) } else st

/-- `color[v] = gray; distance[v] = distance[u] + 1; branch[v] = u` -/
def paint {n} (u : Fin n) (st : BSt n) (v : Fin n) : BSt n where
  color := st.color.set v 1
  dist := st.dist.set v (st.dist[u] + .fin 1)
  branch := st.branch.set v (u.val : Int)

/-- body of `for v in ns` for one `v`; returns the new state and whether `v` was appended to `Q` -/
def visit {n} (u : Fin n) (st : BSt n) (v : Fin n) : BSt n × Bool :=
  if (quirk u st v).color[v] = 0 then (paint u (quirk u st v) v, true) else (quirk u st v, false)

/-- `color[u] = black` -/
def blackenSt {n} (st : BSt n) (u : Fin n) : BSt n := { st with color := st.color.set u 2 }

def bfsLoop {n} (A : AMat Rat n) : Nat → BSt n → List (Fin n) → Option (BSt n)
  | _, st, [] => some st
  | 0, _, _ :: _ => none
  | fuel + 1, st, u :: Q =>
    let ns := (List.finRange n).filter fun v => A.get u v ≠ 0
    let r := ns.foldl (fun (acc : BSt n × List (Fin n)) v =>
      ((visit u acc.1 v).1, if (visit u acc.1 v).2 then acc.2 ++ [v] else acc.2)) (st, [])
    bfsLoop A fuel (blackenSt r.1 u) (Q ++ r.2)

def bInit {n} (src : Fin n) : BSt n where
  color := Vector.ofFn fun v => if v = src then 1 else 0
  dist := Vector.ofFn fun v => if v = src then .fin 0 else .inf
  branch := Vector.ofFn fun v => if v = src then -1 else 0

def breadth {n} (A : AMat Rat n) (src : Fin n) : Option (BSt n) := bfsLoop A (n + 1) (bInit src) [src]

/-- `breadthdist`: rows from `breadth`, `D[D == 0] = inf`, `R = (D != inf)` -/
def breadthdist {n} (A : AMat Rat n) : Option (AMat Bool n × AMat Ext n) :=
  (allRows (breadth A)).map fun rows =>
    let D : AMat Ext n := AMat.ofFn fun i j => if rows[i].dist[j] = .fin 0 then .inf else rows[i].dist[j]
    (AMat.ofFn fun i j => (D.get i j).isFin, D)

/-! ## reachdist -/

structure RSt (n : Nat) where
  Cp : AMat Nat n      -- `CIJpwr`
  R : AMat Bool n
  D : AMat Nat n       -- the counter matrix `D += R`

/-- first three lines of `reachdist2`: `CIJpwr = (CIJpwr @ CIJ != 0); R = R | (CIJpwr != 0); D += R` -/
def reachStep {n} (C : AMat Nat n) (s : RSt n) : RSt n :=
  let Cp := boolMul s.Cp C
  let R' : AMat Bool n := AMat.ofFn fun i j => s.R.get i j || Cp.get i j != 0
  { Cp := Cp, R := R', D := AMat.ofFn fun i j => s.D.get i j + (if R'.get i j then 1 else 0) }

/-- `reachdist2`, recursion on the number of times `powr <= n` can still hold -/
def reachGo {n} (C : AMat Nat n) (rows cols : List (Fin n)) : Nat → Nat → RSt n → RSt n × Nat
  | 0, powr, s => (reachStep C s, powr)
  | rem + 1, powr, s =>
    if rows.any fun i => cols.any fun j => !((reachStep C s).R.get i j) then
      reachGo C rows cols rem (powr + 1) (reachStep C s)
    else (reachStep C s, powr)

/-- `D = powr - D + 1; D[D == n+2] = inf; D[:, id0] = inf; D[od0, :] = inf` for one cell -/
def reachOutCell (n powr cnt : Nat) (hasIn hasOut : Bool) : Ext :=
  if ((powr : Int) - (cnt : Int) + 1 = (n : Int) + 2) || !hasIn || !hasOut then .inf
  else .fin (((powr : Int) - (cnt : Int) + 1 : Int) : Rat)

def inDeg {n} (C : AMat Nat n) (j : Fin n) : Nat := (List.finRange n).foldl (fun a i => a + C.get i j) 0
def outDeg {n} (C : AMat Nat n) (i : Fin n) : Nat := (List.finRange n).foldl (fun a j => a + C.get i j) 0

/-- `reachdist(CIJ)` with `ensure_binary=True` -/
def reachdist {n} (A : AMat Rat n) : AMat Bool n × AMat Ext n :=
  let C := binarize A
  let cols := (List.finRange n).filter fun j => inDeg C j != 0
  let rows := (List.finRange n).filter fun i => outDeg C i != 0
  -- `powr <= n` is tested with powr = 2, 3, …: it can hold `n - 1` times
  let r := reachGo C rows cols (n - 1) 2 { Cp := C, R := AMat.ofFn fun i j => C.get i j != 0, D := C }
  (r.1.R, AMat.ofFn fun i j => reachOutCell n r.2 (r.1.D.get i j) (inDeg C j != 0) (outDeg C i != 0))

/-! ### the same computation in an evaluation order that is fast under `lean --run`

`reachGo` mentions `reachStep C s` inside the closure of `rows.any …`, so the interpreter recomputes the matrix product for
every tested cell (minutes at n = 40). The driver therefore evaluates `reachdistF`, in which every intermediate value is an
argument of a non-inlined function (evaluated exactly once); `Props/C03.lean: reachdistF_eq` proves `reachdistF = reachdist`,
so the theorems about `reachdist` are theorems about what the driver prints. (`reachdist` itself is left untouched: other
modules prove facts about its exact shape.) -/

@[noinline] def reachRF {n} (R : AMat Bool n) (Cp : AMat Nat n) : AMat Bool n :=
  AMat.ofFn fun i j => R.get i j || Cp.get i j != 0
@[noinline] def reachDF {n} (D : AMat Nat n) (R' : AMat Bool n) : AMat Nat n :=
  AMat.ofFn fun i j => D.get i j + (if R'.get i j then 1 else 0)
@[noinline] def reachStepWithF {n} (s : RSt n) (Cp : AMat Nat n) (R' : AMat Bool n) : RSt n :=
  { Cp := Cp, R := R', D := reachDF s.D R' }
@[noinline] def reachStepWith2F {n} (s : RSt n) (Cp : AMat Nat n) : RSt n := reachStepWithF s Cp (reachRF s.R Cp)
def reachStepF {n} (C : AMat Nat n) (s : RSt n) : RSt n := reachStepWith2F s (boolMul s.Cp C)

/-- the tail of `reachdist2` for the state `s'` its first three lines produced -/
def reachGoF' {n} (C : AMat Nat n) (rows cols : List (Fin n)) : Nat → Nat → RSt n → RSt n × Nat
  | 0, powr, s' => (s', powr)
  | rem + 1, powr, s' =>
    if rows.any fun i => cols.any fun j => !(s'.R.get i j) then reachGoF' C rows cols rem (powr + 1) (reachStepF C s')
    else (s', powr)

@[noinline] def reachOutF {n} (C : AMat Nat n) (powr : Nat) (D : AMat Nat n) : AMat Ext n :=
  AMat.ofFn fun i j => reachOutCell n powr (D.get i j) (inDeg C j != 0) (outDeg C i != 0)
@[noinline] def reachPackF {n} (C : AMat Nat n) (r : RSt n × Nat) : AMat Bool n × AMat Ext n := (r.1.R, reachOutF C r.2 r.1.D)
@[noinline] def reachRunF {n} (C : AMat Nat n) : RSt n × Nat :=
  reachGoF' C ((List.finRange n).filter fun i => outDeg C i != 0) ((List.finRange n).filter fun j => inDeg C j != 0) (n - 1) 2
    (reachStepF C { Cp := C, R := AMat.ofFn fun i j => C.get i j != 0, D := C })
@[noinline] def reachdistCF {n} (C : AMat Nat n) : AMat Bool n × AMat Ext n := reachPackF C (reachRunF C)
def reachdistF {n} (A : AMat Rat n) : AMat Bool n × AMat Ext n := reachdistCF (binarize A)

/-! ## executable certificate check for hop-distance matrices (used for `breadthdist` / `reachdist` outputs) -/

/-- `D` with the diagonal read as 0 -/
def dz {n} (D : AMat Ext n) (i k : Fin n) : Ext := if i = k then .fin 0 else D.get i k

def isNatExt : Ext → Bool
  | .fin q => q.den == 1 && decide (0 ≤ q.num)
  | .inf => true

/-- for every ordered pair `i ≠ j`: the entry is a natural number or `∞`; it is at most `D i k + 1` for every
connection `k → j`; and if finite it equals `D i k + 1` for some connection `k → j` (diagonal of `D` read as 0).
`Lemmas/DistCert.lean` proves that a matrix passing this check is the hop-distance matrix off the diagonal. -/
def hopCert {n} (A : AMat Rat n) (D : AMat Ext n) : Bool :=
  (cells n).all fun p =>
    p.1 == p.2 ||
    (isNatExt (D.get p.1 p.2) &&
     ((List.finRange n).all fun k => A.get k p.2 == 0 || !(Ext.lt (dz D p.1 k + .fin 1) (D.get p.1 p.2))) &&
     (!(D.get p.1 p.2).isFin || (List.finRange n).any fun k => A.get k p.2 != 0 && D.get p.1 p.2 == dz D p.1 k + .fin 1))

/-- reachability flags agree with finiteness of the distances off the diagonal -/
def flagsOK {n} (R : AMat Bool n) (D : AMat Ext n) : Bool :=
  (offDiag n).all fun p => R.get p.1 p.2 == (D.get p.1 p.2).isFin

/-! ## charpath and the global efficiencies -/

def sumExt (xs : List Ext) : Ext := xs.foldl (· + ·) (.fin 0)
/-- `np.mean`; `none` = mean of an empty selection (NaN) -/
def meanExt (xs : List Ext) : Option Ext :=
  if xs.isEmpty then none else
    match sumExt xs with
    | .fin s => some (.fin (s / (xs.length : Nat)))
    | .inf => some .inf

/-- `charpath(D, include_diagonal, include_infinite)` → (lambda, efficiency) -/
def charpath {n} (D : AMat Ext n) (incDiag incInf : Bool) : Option Ext × Option Ext :=
  let cs := if incDiag then cells n else offDiag n
  let vals := (cs.map fun p => D.get p.1 p.2).filter fun x => incInf || x.isFin
  (meanExt vals, meanExt (vals.map Ext.inv))

/-- `np.maximum`; on ties the first argument -/
def Ext.max (a b : Ext) : Ext := if Ext.lt a b then b else a

/-- what `np.array(np.ma.masked_where(...).max(axis=1))` holds for a row whose cells are all masked: the default fill value
of a float masked array, `1e20` -/
def maskedFill : Ext := .fin 100000000000000000000

/-- the cells of row `i` that `charpath` leaves unmasked: the diagonal cell only with `include_diagonal`, infinite cells
only with `include_infinite` -/
def eccCells {n} (D : AMat Ext n) (incDiag incInf : Bool) (i : Fin n) : List Ext :=
  (((List.finRange n).filter fun j => incDiag || i ≠ j).map fun j => D.get i j).filter fun x => incInf || x.isFin

/-- `ecc[i]` of `charpath`: the largest unmasked cell of row `i` -/
def eccOf {n} (D : AMat Ext n) (incDiag incInf : Bool) (i : Fin n) : Ext :=
  match eccCells D incDiag incInf i with
  | [] => maskedFill
  | x :: xs => xs.foldl Ext.max x

/-- `radius = np.min(ecc)`, `diameter = np.max(ecc)`; `none` for `n = 0` (NumPy raises on an empty reduction) -/
def radiusDiameter {n} (D : AMat Ext n) (incDiag incInf : Bool) : Option (Ext × Ext) :=
  match (List.finRange n).map (eccOf D incDiag incInf) with
  | [] => none
  | e :: es => some (es.foldl Ext.min e, es.foldl Ext.max e)

/-- `sum over i ≠ j of 1/D[i,j]  /  (n*n - n)`; `none` = 0/0 -/
def meanInvOff {n} (D : AMat Ext n) : Option Ext :=
  if n < 2 then none else
    match sumExt ((offDiag n).map fun p => (D.get p.1 p.2).inv) with
    | .fin s => some (.fin (s / ((n * n - n : Nat) : Rat)))
    | .inf => some .inf

def efficiencyBin {n} (A : AMat Rat n) : Option (Option Ext) := (distBin A).map meanInvOff
/-- `efficiency_wei(W)` global: lengths `1/w`, Dijkstra, mean inverse -/
def efficiencyWei {n} (W : AMat Rat n) : Option (Option Ext) :=
  (dijkstra (lenMat .inv W)).map fun r => meanInvOff r.1
/-- `rout_efficiency(D, transform)` → (GErout, Erout) -/
def routEfficiency {n} (tr : Transform) (A : AMat Rat n) : Option Ext × AMat Ext n :=
  let SPL := (floyd (lenMat tr A)).D
  (meanInvOff SPL, AMat.ofFn fun i j => if i = j then .fin 0 else (SPL.get i j).inv)

/-! ### rout_efficiency: the local part `Eloc` -/

/-- `Gu, = np.where(np.logical_or(D[u, :], D[:, u].T))` -/
def routNbrs {n} (A : AMat Rat n) (u : Fin n) : List (Fin n) :=
  (List.finRange n).filter fun j => decide (A.get u j ≠ 0 ∨ A.get j u ≠ 0)

/-- `D[Gu, :][:, Gu]` -/
def subMatV {n} (A : AMat Rat n) (V : List (Fin n)) : AMat Rat V.length :=
  AMat.ofFn fun a b => A.get (V.get a) (V.get b)

/-- `e = 1 / e; np.fill_diagonal(e, 0); np.sum(e) / nGu` for the shortest-path matrix `e` of the neighbourhood sub-graph;
`none` = 0/0 (a node without neighbours) -/
def routLocalOf {k} (SPL : AMat Ext k) : Option Ext :=
  if k = 0 then none else
    match sumExt ((offDiag k).map fun p => (SPL.get p.1 p.2).inv) with
    | .fin s => some (.fin (s / (k : Nat)))
    | .inf => some .inf

/-- `Eloc[u]` of `rout_efficiency(D, transform)` -/
def routLocalNode {n} (tr : Transform) (A : AMat Rat n) (u : Fin n) : Option Ext :=
  routLocalOf (floyd (lenMat tr (subMatV A (routNbrs A u)))).D

/-! ## navigation_wu -/

structure NavRes (n : Nat) where
  bin : Ext
  wei : Ext
  dis : Ext
  path : List (Fin n)

/-- `np.argmin` over a list: first minimum -/
def argminFirst {n} (f : Fin n → Rat) : List (Fin n) → Option (Fin n)
  | [] => none
  | x :: xs => some (xs.foldl (fun b y => if f y < f b then y else b) x)

/-- the `while curr_node != target` loop; `path` is kept reversed; `none` = fuel exhausted (Python would not
have stopped within that many steps either) -/
def navGo {n} (L Dm : AMat Rat n) (maxHops : Option Nat) (target : Fin n) :
    Nat → Fin n → Fin n → Nat → Rat → Rat → List (Fin n) → Option (NavRes n)
  | 0, _, _, _, _, _, _ => none
  | fuel + 1, curr, last, plb, plw, pld, path =>
    if curr = target then some ⟨.fin (plb : Nat), .fin plw, .fin pld, path.reverse⟩
    else
      match argminFirst (fun x => Dm.get target x) ((List.finRange n).filter fun x => L.get curr x ≠ 0) with
      | none => some ⟨.inf, .inf, .inf, path.reverse⟩
      | some next =>
        if next = last || (match maxHops with | some h => decide (plb > h) | none => false) then
          some ⟨.inf, .inf, .inf, path.reverse⟩
        else navGo L Dm maxHops target fuel next curr (plb + 1) (plw + L.get curr next) (pld + Dm.get curr next) (next :: path)

def navPair {n} (L Dm : AMat Rat n) (maxHops : Option Nat) (fuel : Nat) (i j : Fin n) : Option (NavRes n) :=
  navGo L Dm maxHops j fuel i i 0 0 0 [i]

structure NavOut (n : Nat) where
  sr : Rat
  bin : AMat Ext n
  wei : AMat Ext n
  dis : AMat Ext n
  paths : AMat (List (Fin n)) n     -- `paths[(i,j)]` for i ≠ j; `[]` on the diagonal (no key in the Python dict)

/-- result of the pair loop for `(i,j)`, `none` on the diagonal (`continue`) -/
def navCell {n} (L Dm : AMat Rat n) (maxHops : Option Nat) (fuel : Nat) (i j : Fin n) : Option (NavRes n) :=
  if i = j then none else navPair L Dm maxHops fuel i j

def navigation {n} (L Dm : AMat Rat n) (maxHops : Option Nat) (fuel : Nat) : Option (NavOut n) :=
  if ∀ i : Fin n, ∀ j : Fin n, i ≠ j → (navPair L Dm maxHops fuel i j).isSome then
    let pick (f : NavRes n → Ext) : AMat Ext n :=
      AMat.ofFn fun i j => match navCell L Dm maxHops fuel i j with | some r => f r | none => .inf
    let bin := pick (·.bin)
    -- `sr = 1 - (len(inf_ixes) - n) / (n**2 - n)`: the diagonal holds `n` of the infinite entries of `PL_bin`
    let failed := ((offDiag n).filter fun p => !(bin.get p.1 p.2).isFin).length
    some { sr := 1 - (failed : Rat) / ((n * n - n : Nat) : Rat), bin := bin, wei := pick (·.wei), dis := pick (·.dis),
           paths := AMat.ofFn fun i j => match navCell L Dm maxHops fuel i j with | some r => r.path | none => [] }
  else none

/-! ## driver -/

def showOptExt : Option Ext → String
  | some x => x.str
  | none => "nan"
def bstr (b : Bool) : String := if b then "1" else "0"

def parseTransform (s : Option String) : Option Transform :=
  match s with
  | none => some .none
  | some "none" => some .none
  | some "inv" => some .inv
  | _ => none

def asFinOpt (n x : Nat) : Option (Fin n) := if h : x < n then some ⟨x, h⟩ else none

def step (line : String) : String :=
  let (op, kv) := parseLine line
  let res : Option String := do
    let n ← (← lookup kv "n").toNat?
    match op with
    | "floyd" =>
      let A ← parseMatWith parseRat n (← lookup kv "A")
      match parseTransform (lookup kv "transform") with
      | none => some "error=ValueError"      -- `raise ValueError("Unexpected transform type…")`
      | some tr =>
      let r := floyd (lenMat tr A)
      let paths := (offDiag n).map fun p => showPath (retrieve r.hops r.P p.1 p.2)
      some s!"SPL={showMatWith Ext.str r.D} hops={showMatWith toString r.hops} P={showMatWith (fun (x : Fin n) => toString x.val) r.P} paths={if paths.isEmpty then "-" else ";".intercalate paths}"
    | "floydlen" =>
      -- `distance_wei_floyd` on an explicitly given matrix of exact lengths (`inf` = no connection; zero lengths allowed):
      -- the state after any transform whose values are exact, e.g. `'log'` on a matrix whose weights are all 1
      let L ← parseMatWith parseExt n (← lookup kv "L")
      let r := floyd L
      let paths := (offDiag n).map fun p => showPath (retrieve r.hops r.P p.1 p.2)
      some s!"SPL={showMatWith Ext.str r.D} hops={showMatWith toString r.hops} P={showMatWith (fun (x : Fin n) => toString x.val) r.P} paths={if paths.isEmpty then "-" else ";".intercalate paths}"
    | "dijkstra" =>
      let A ← parseMatWith parseRat n (← lookup kv "A")
      match dijkstra (lenMat .none A) with
      | none => some "error=fuel"
      | some (D, B) => some s!"D={showMatWith Ext.str D} B={showMatWith toString B}"
    | "bin" =>
      let A ← parseMatWith parseRat n (← lookup kv "A")
      match distBin A, breadthdist A with
      | some D, some (bR, bD) =>
        let (rR, rD) := reachdistF A
        let cert := bstr (hopCert A D) ++ bstr (hopCert A bD && flagsOK bR bD) ++ bstr (hopCert A rD && flagsOK rR rD)
        some s!"D={showMatWith Ext.str D} bR={showMatWith bstr bR} bD={showMatWith Ext.str bD} rR={showMatWith bstr rR} rD={showMatWith Ext.str rD} cert={cert}"
      | _, _ => some "error=fuel"
    | "breadth" =>
      let A ← parseMatWith parseRat n (← lookup kv "A")
      let s ← asFinOpt n (← (← lookup kv "s").toNat?)
      match breadth A s with
      | none => some "error=fuel"
      | some st => some s!"dist={showVecWith Ext.str st.dist} branch={showVecWith toString st.branch}"
    | "charpath" =>
      let D ← parseMatWith parseExt n (← lookup kv "D")
      let incDiag ← (← lookup kv "diag").toNat?
      let incInf ← (← lookup kv "inf").toNat?
      let (l, e) := charpath D (incDiag != 0) (incInf != 0)
      let ecc := ",".intercalate ((List.finRange n).map fun i => (eccOf D (incDiag != 0) (incInf != 0) i).str)
      let rd := match radiusDiameter D (incDiag != 0) (incInf != 0) with
        | some (r, d) => s!"radius={r.str} diameter={d.str}"
        | none => "radius=nan diameter=nan"
      some s!"lambda={showOptExt l} eff={showOptExt e} ecc={if n = 0 then "-" else ecc} {rd}"
    | "effbin" =>
      let A ← parseMatWith parseRat n (← lookup kv "A")
      match efficiencyBin A with
      | none => some "error=fuel"
      | some e => some s!"E={showOptExt e}"
    | "effwei" =>
      let A ← parseMatWith parseRat n (← lookup kv "A")
      match efficiencyWei A with
      | none => some "error=fuel"
      | some e => some s!"E={showOptExt e}"
    | "rout" =>
      let A ← parseMatWith parseRat n (← lookup kv "A")
      let tr ← parseTransform (lookup kv "transform")
      let (g, E) := routEfficiency tr A
      let eloc := ",".intercalate ((List.finRange n).map fun u => showOptExt (routLocalNode tr A u))
      some s!"GE={showOptExt g} Erout={showMatWith Ext.str E} Eloc={if n = 0 then "-" else eloc}"
    | "nav" =>
      let L ← parseMatWith parseRat n (← lookup kv "L")
      let Dm ← parseMatWith parseRat n (← lookup kv "D")
      let fuel ← (← lookup kv "fuel").toNat?
      let mh ← (match lookup kv "maxhops" with
        | none => some none
        | some "none" => some none
        | some s => s.toNat?.map some)
      if n < 2 then some "error=ZeroDivisionError" else
      match navigation L Dm mh fuel with
      | none => some "error=fuel"
      | some o =>
        let ps := (offDiag n).map fun p => showPath (o.paths.get p.1 p.2)
        some s!"sr={showRat o.sr} bin={showMatWith Ext.str o.bin} wei={showMatWith Ext.str o.wei} dis={showMatWith Ext.str o.dis} paths={if ps.isEmpty then "-" else ";".intercalate ps}"
    | _ => none
  res.getD "error=protocol"

end Bct.Dist
