import BctVerif.Model.CoreIRUtil
/-!
# Source-extracted `threshold_proportional`: IR, interpreter, decidable check (T-gen, C17)

`translate/cores.py` reads `bct/utils/other.py` with `ast` on every check run and writes every statement of

    def threshold_proportional(W, p, copy=True):
        from .miscellaneous_utilities import teachers_round as round
        if p > 1 or p < 0: raise BCTParamError(…)
        if copy: W = W.copy()
        n = len(W)
        np.fill_diagonal(W, 0)
        if np.array_equal(W, W.T):
            W[np.tril_indices(n)] = 0
            ud = 2
        else:
            ud = 1
        ind = np.where(W)
        I = np.argsort(W[ind])[::-1]
        en = int(round((n * n - n) * p / ud))
        W[(ind[0][I][en:], ind[1][I][en:])] = 0
        if ud == 2: W[:, :] = W + W.T
        return W

as a `TpIR` value (one field per name / literal / expression of the source) into `BctVerif/Gen/CoresUtil.lean`, with the obligation
`tpOk ir = true := by decide`.  The interpreter `runTp` checks that the names refer to each other as they must, evaluates the
guard and the argument of `round` with the expression evaluator of `Model/CoreIRUtil.lean`, calls the function the local name
`round` was imported as (looked up, by the resolved origin of the import, in the table of extracted utilities) and slices
`[en:]` the way Python does.  `np.argsort` is an oracle, exactly as in `Thresh.thresholdProportional`: any permutation of the
positions along which the values do not increase.  `Props/CoresUtil.lean` proves that a program that passes computes
`Thresh.thresholdProportional`.

Core Lean only.
-/
namespace Bct.CoreIR.Util
open Bct

structure TpIR where
  recognised : Bool
  origins : List (String × String)
  params : List String
  defaults : List (String × String)
  /-- `from <module> import <name> as <impAlias>` inside the function; `impOrigin` = the definition it resolves to -/
  impAlias : String
  impOrigin : String
  /-- `if <guard>: raise <exc>(…)` -/
  guard : SEx
  exc : String
  copyFlag : String
  copyMat : String
  dim : String
  dimOf : String
  diagMat : String
  diagVal : Int
  /-- `if np.array_equal(<symA>, <symB>.T):` -/
  symA : String
  symB : String
  /-- `<trilMat>[np.tril_indices(<trilDim>)] = <trilVal>`; `<udVar> = <udThen>` / `else: <udVar> = <udElse>` -/
  trilMat : String
  trilDim : String
  trilVal : Int
  udVar : String
  udThen : Nat
  udElse : Nat
  /-- `<indVar> = np.where(<indOf>)` -/
  indVar : String
  indOf : String
  /-- `<ordVar> = np.argsort(<ordMat>[<ordInd>])[::-1]` -/
  ordVar : String
  ordMat : String
  ordInd : String
  /-- `<enVar> = int(<enCallee>(<enArg>))` -/
  enVar : String
  enCallee : String
  enArg : SEx
  /-- `<cutMat>[(<cutInd0>[0][<cutOrd0>][<cutEn0>:], <cutInd1>[1][<cutOrd1>][<cutEn1>:])] = <cutVal>` -/
  cutMat : String
  cutInd0 : String
  cutOrd0 : String
  cutEn0 : String
  cutInd1 : String
  cutOrd1 : String
  cutEn1 : String
  cutVal : Int
  /-- `if <symVar> == <symLit>: <symMat>[:, :] = <symL> + <symR>.T` -/
  symVar : String
  symLit : Nat
  symMat : String
  symL : String
  symR : String
  ret : String
  deriving DecidableEq, Repr

variable {n : Nat}

/-- `l[z:]` for a Python integer `z` -/
def dropFrom {α : Type} (l : List α) (z : Int) : List α :=
  if 0 ≤ z then l.drop z.toNat else l.drop (l.length - z.natAbs)

/-- the names of the source refer to each other as they must -/
def TpIR.coherent (ir : TpIR) (pW pP pC : String) : Bool :=
  ir.copyMat == pW && ir.copyFlag == pC && ir.dimOf == pW && ir.diagMat == pW && ir.symA == pW && ir.symB == pW &&
  ir.trilMat == pW && ir.trilDim == ir.dim && ir.indOf == pW && ir.ordMat == pW && ir.ordInd == ir.indVar &&
  ir.enCallee == ir.impAlias && ir.cutMat == pW && ir.cutInd0 == ir.indVar && ir.cutInd1 == ir.indVar &&
  ir.cutOrd0 == ir.ordVar && ir.cutOrd1 == ir.ordVar && ir.cutEn0 == ir.enVar && ir.cutEn1 == ir.enVar &&
  ir.symVar == ir.udVar && ir.symMat == pW && ir.symL == pW && ir.symR == pW && ir.ret == pW &&
  decide ([pW, pP, pC, ir.dim, ir.udVar, ir.indVar, ir.ordVar, ir.enVar, ir.impAlias].Nodup)

/-- the routine on `(W, p, copy)` with the recorded `argsort` result `order`; errors carry the exception name
(`"bad-draw"`: `order` is not an admissible `argsort` result; `"NameError"` / `"TypeError"`: not a meaningful program) -/
def runTp (o : Oracles) (tbl : List FnIR) (ir : TpIR) (W : AMat Rat n) (p : Rat) (copy : Bool) (order : List Nat) :
    Except String (AMat Rat n) :=
  match ir.params with
  | [pW, pP, pC] =>
    if ir.coherent pW pP pC then
      let E0 : Env n := fun y => if y = pP then some (.sc (.rat p)) else if y = pC then some (.sc (.bool copy)) else none
      match eval o E0 none none ir.guard with
      | .bool true => .error ir.exc
      | .bool false =>
        let W0 : AMat Rat n := AMat.ofFn fun i j => if i = j then (ir.diagVal : Rat) else W.get i j
        let sym : Bool := (List.finRange n).all fun i => (List.finRange n).all fun j => W0.get i j == W0.get j i
        let W1 : AMat Rat n := if sym then AMat.ofFn fun i j => if j.val ≤ i.val then (ir.trilVal : Rat) else W0.get i j else W0
        let ud : Nat := if sym then ir.udThen else ir.udElse
        let ind : List (Fin n × Fin n) := (cellsOf n).filter fun c => W1.get c.1 c.2 ≠ 0
        if order.Perm (List.range ind.length) then
          let sel := order.filterMap fun k => ind[k]?
          if (sel.map fun c => W1.get c.1 c.2).Pairwise (· ≥ ·) then
            let E1 : Env n := fun y => if y = ir.udVar then some (.sc (.nat ud)) else if y = ir.dim then some (.sc (.nat n)) else E0 y
            match tbl.find? (fun f => ir.impOrigin == "def bct/utils/miscellaneous_utilities.py:" ++ f.name) with
            | some f =>
              match runFn (n := n) o f [.sc (eval o E1 none none ir.enArg)] [] with
              | .vals [.int z] _ =>
                let cut := dropFrom sel z
                let W2 : AMat Rat n := AMat.ofFn fun i j => if (i, j) ∈ cut then (ir.cutVal : Rat) else W1.get i j
                .ok (if ud = ir.symLit then AMat.ofFn fun i j => W2.get i j + W2.get j i else W2)
              | _ => .error "TypeError"
            | none => .error "NameError"
          else .error "bad-draw"
        else .error "bad-draw"
      | _ => .error "TypeError"
    else .error "NameError"
  | _ => .error "NameError"

def refTp : TpIR :=
  { recognised := true,
    origins := [("BCTParamError", "class bct/utils/miscellaneous_utilities.py:BCTParamError"), ("int", "builtin"), ("len", "builtin"),
                ("np", "module numpy")],
    params := ["W", "p", "copy"], defaults := [("copy", "True")],
    impAlias := "round", impOrigin := "def bct/utils/miscellaneous_utilities.py:teachers_round",
    guard := .or (.lt (.lit 1 1) (.var "p")) (.lt (.var "p") (.lit 0 1)), exc := "BCTParamError",
    copyFlag := "copy", copyMat := "W", dim := "n", dimOf := "W", diagMat := "W", diagVal := 0,
    symA := "W", symB := "W", trilMat := "W", trilDim := "n", trilVal := 0, udVar := "ud", udThen := 2, udElse := 1,
    indVar := "ind", indOf := "W", ordVar := "I", ordMat := "W", ordInd := "ind",
    enVar := "en", enCallee := "round",
    enArg := .div (.mul (.sub (.mul (.var "n") (.var "n")) (.var "n")) (.var "p")) (.var "ud"),
    cutMat := "W", cutInd0 := "ind", cutOrd0 := "I", cutEn0 := "en", cutInd1 := "ind", cutOrd1 := "I", cutEn1 := "en", cutVal := 0,
    symVar := "ud", symLit := 2, symMat := "W", symL := "W", symR := "W", ret := "W" }

/-- the decidable obligation generated for `threshold_proportional` -/
def tpOk (ir : TpIR) : Bool := ir == refTp

end Bct.CoreIR.Util
