import BctVerif.Model.CoreIRBin
/-!
# Source-extracted `efficiency_bin` (global part): IR, interpreter, decidable check (T-gen, C03)

`translate/cores.py` reads `bct/algorithms/efficiency.py` with `ast` on every check run and writes

    def efficiency_bin(G, local=False):
        def distance_inv(g):
            D = np.eye(len(g))
            n = 1
            nPATH = g.copy()
            L = (nPATH != 0)
            while np.any(L):
                D += n * L
                n += 1
                nPATH = (np.dot(nPATH, g) != 0).astype(float)
                L = (nPATH != 0) * (D == 0)
            D[np.logical_not(D)] = np.inf
            D = 1 / D
            np.fill_diagonal(D, 0)
            return D
        G = binarize(G)
        n = len(G)
        if local:
            …                                   # not extracted
        else:
            e = distance_inv(G)
            E = np.sum(e) / (n * n - n)
        return E

as an `EffIR` value into `BctVerif/Gen/CoresEff.lean`, with the obligation `effOk ir = true := by decide`: the nested function as a
`Bin.BinIR` (the statement language of `distance_bin`, `Model/CoreIRBin.lean`), the statements around the `if`, the test, and the
two statements of the `else` branch.  The statements of the `if local:` branch are **not** extracted: they are not executed when
`local` is false, which is the only case the interpreter (and the link theorem) covers; the extractor still checks that no name
the mapping reads as a global is bound anywhere in the function (including that branch), since that would change what the names
of the extracted part denote.  `Props/CoresEff.lean` proves that a program that passes computes `Dist.efficiencyBin`.

Core Lean only.
-/
namespace Bct.CoreIR.Eff
open Bct Bct.Dist Bct.CoreIR.Bin

/-- integer expressions over the dimension -/
inductive KEx
  | var (x : String)
  | lit (k : Nat)
  | sub (a b : KEx)
  | mul (a b : KEx)
  deriving DecidableEq, Repr

structure EffIR where
  recognised : Bool
  origins : List (String × String)
  params : List String
  defaults : List (String × String)
  /-- the nested `def <innerName>(<inner.param>): …` -/
  innerName : String
  inner : BinIR
  /-- the statements before `<dim> = len(<dimOf>)` -/
  pre : List Stmt
  dim : String
  dimOf : String
  /-- `if <flag>: … else:` -/
  flag : String
  /-- `<res> = <callee>(<arg>)` -/
  res : String
  callee : String
  arg : String
  /-- `<out> = np.sum(<sumOf>) / <den>` -/
  out : String
  sumOf : String
  den : KEx
  ret : String
  deriving DecidableEq, Repr

variable {n : Nat}

/-- the names of the source refer to each other as they must -/
def EffIR.coherent (ir : EffIR) (pG pL : String) : Bool :=
  ir.flag == pL && ir.callee == ir.innerName && ir.dimOf == pG && ir.arg == pG && ir.sumOf == ir.res && ir.ret == ir.out &&
  decide ([pG, pL, ir.innerName, ir.dim, ir.res, ir.out].Nodup)

def evalK (dim : String) (k : Int) : KEx → Option Int
  | .var x => if x = dim then some k else none
  | .lit c => some c
  | .sub a b => match evalK dim k a, evalK dim k b with
    | some x, some y => some (x - y)
    | _, _ => none
  | .mul a b => match evalK dim k a, evalK dim k b with
    | some x, some y => some (x * y)
    | _, _ => none

/-- a float cell as a rational -/
def toQ : V → Option Rat
  | .num k => some (k : Rat)
  | .rat q => some q
  | _ => none

/-- `np.sum` of a matrix of finite floats (row-major, from `0`) -/
def sumCells (M : AMat V n) : Option Rat :=
  (cells n).foldl (fun acc p => match acc, toQ (M.get p.1 p.2) with
    | some a, some x => some (a + x)
    | _, _ => none) (some 0)

/-- the routine with `local = False`: the outer `none` is a failed run, the inner `none` is `nan` (`0 / 0`) -/
def runEff (ir : EffIR) (fuel : Nat) (A : AMat V n) : Option (Option Rat) :=
  match ir.params with
  | [pG, pL] =>
    if ir.coherent pG pL then
      match execs ir.pre ({ mat := fun y => if y = pG then some A else none, sc := fun _ => none } : Env n) with
      | some E1 => match E1.mat ir.arg with
        | some G => match run ir.inner fuel G with
          | some e => match sumCells e, evalK ir.dim (n : Int) ir.den with
            | some s, some d => if d = 0 then (if s = 0 then some none else none) else some (some (s / (d : Rat)))
            | _, _ => none
          | none => none
        | none => none
      | none => none
    else none
  | _ => none

def refInner : BinIR :=
  { recognised := true, origins := [],
    param := "g",
    pre := [ .bind "D" (.eyeLen "g"), .setScal "n" 1, .bind "nPATH" (.ref "g"), .bind "L" (.ne0 (.ref "nPATH")) ],
    cond := "L",
    body := [ .augAdd "D" (.mul (.scal "n") (.ref "L")), .incr "n" 1,
              .bind "nPATH" (.toNum (.ne0 (.dot "nPATH" "g"))),
              .bind "L" (.mul (.ne0 (.ref "nPATH")) (.eq0 (.ref "D"))) ],
    post := [ .setMask "D" (.lnot (.ref "D")) .infLit, .bind "D" (.recip (.ref "D")), .fillDiag "D" 0 ],
    ret := "D" }

def refIR : EffIR :=
  { recognised := true,
    origins := [("BibTeX", "from bct/due.py:BibTeX"), ("FAGIOLO2007", "from bct/citations.py:FAGIOLO2007"),
                ("LATORA2001", "from bct/citations.py:LATORA2001"), ("ONNELA2005", "from bct/citations.py:ONNELA2005"),
                ("RUBINOV2010", "from bct/citations.py:RUBINOV2010"), ("binarize", "def bct/utils/other.py:binarize"),
                ("due", "from bct/due.py:due"), ("float", "builtin"), ("len", "builtin"), ("np", "module numpy"), ("range", "builtin")],
    params := ["G", "local"], defaults := [("local", "False")],
    innerName := "distance_inv", inner := refInner,
    pre := [ .bind "G" (.binarizeD (.ref "G")) ],
    dim := "n", dimOf := "G", flag := "local",
    res := "e", callee := "distance_inv", arg := "G", out := "E", sumOf := "e",
    den := .sub (.mul (.var "n") (.var "n")) (.var "n"), ret := "E" }

/-- the decidable obligation generated for `efficiency_bin` -/
def effOk (ir : EffIR) : Bool := ir == refIR

end Bct.CoreIR.Eff
