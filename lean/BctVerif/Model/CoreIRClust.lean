import BctVerif.Model.Cluster
/-!
# Source-extracted clustering coefficients and transitivities: IR, interpreter, decidable checks (T-gen, C09)

`translate/cores.py` reads `bct/algorithms/clustering.py` with `ast` on every check run and writes every statement of
`clustering_coef_bd`, `clustering_coef_wd`, `clustering_coef_wu`, `transitivity_bd`, `transitivity_bu`, `transitivity_wd`,
`transitivity_wu` (straight-line whole-array programs, e.g.

    S = A + A.T
    K = np.sum(S, axis=1)
    cyc3 = np.diag(np.dot(S, np.dot(S, S))) / 2
    K[np.where(cyc3 == 0)] = np.inf
    CYC3 = K * (K - 1) - 2 * np.diag(np.dot(A, A))
    C = cyc3 / CYC3
    return C

) as `ArrIR` values and the per-node loop of `clustering_coef_bu` as a `BuIR` value into `BctVerif/Gen/CoresClust.lean`, each with
an obligation `clustOk <reference> ir = true := by decide` / `buOk ir = true := by decide`.

Values are matrices, vectors or scalars of cells; a cell is a float holding a rational number, `inf`, an unspecified non-finite
float (`nf`: the result of a division by zero — `nan` or `±inf`), or a boolean.  Arithmetic is elementwise with scalar
broadcast.  Only the operations on `inf` that the routines perform have a value (`inf ± x`, `inf * inf`, `x / inf = 0`); any other
use of `inf`, any arithmetic on `nf` and every ill-shaped operation is an absorbing error.  `cuberoot` is a cell function given
from outside (the callee is resolved and its own body tied in family `util`).  `Props/CoresClust.lean` proves that programs that
pass compute `Cluster.ccBd`, `ccWd`, `ccWu`, `ccBu`, `transBd`, `transBu`, `transWd`, `transWu`.

Core Lean only.
-/
namespace Bct.CoreIR.Clust
open Bct Bct.Cluster

inductive V
  | num (q : Rat)
  | inf
  /-- a non-finite float of unspecified kind (`x / 0`) -/
  | nf
  | bool (b : Bool)
  | err
  deriving DecidableEq

namespace V
/-- a boolean counts as `0` / `1` in arithmetic and sums -/
def asNum : V → V
  | bool b => num (if b then 1 else 0)
  | v => v
def add (a b : V) : V :=
  match a.asNum, b.asNum with
  | num x, num y => num (x + y)
  | inf, num _ => inf
  | num _, inf => inf
  | inf, inf => inf
  | _, _ => err
def sub (a b : V) : V :=
  match a.asNum, b.asNum with
  | num x, num y => num (x - y)
  | inf, num _ => inf
  | _, _ => err
def mul (a b : V) : V :=
  match a.asNum, b.asNum with
  | num x, num y => num (x * y)
  | inf, inf => inf
  | _, _ => err
def div (a b : V) : V :=
  match a.asNum, b.asNum with
  | num x, num y => if y = 0 then nf else num (x / y)
  | num _, inf => num 0
  | _, _ => err
def eq : V → V → V
  | num x, num y => bool (x == y)
  | inf, num _ => bool false
  | num _, inf => bool false
  | inf, inf => bool true
  | bool a, bool b => bool (a == b)
  | _, _ => err
def lnot : V → V
  | bool b => bool (!b)
  | num x => bool (x == 0)
  | inf => bool false
  | _ => err
/-- `.astype(float)` / `np.array(·, dtype=float)` / `np.asarray(·, dtype=float)` of one cell -/
def toFloat : V → V
  | bool b => num (if b then 1 else 0)
  | num x => num x
  | inf => inf
  | nf => nf
  | err => err
def cbrt (cb : Rat → Rat) : V → V
  | num x => num (cb x)
  | _ => err
/-- truth value for `np.where` -/
def truthy : V → Bool
  | num x => x != 0
  | bool b => b
  | inf => true
  | nf => true
  | err => false
/-- a result cell as the model writes it: `none` = not finite -/
def toOpt? : V → Option (Option Rat)
  | num x => some (some x)
  | nf => some none
  | _ => none
end V

/-- a value: matrix, vector or scalar -/
inductive Val (n : Nat)
  | mat (M : AMat V n)
  | vec (v : Vector V n)
  | sc (x : V)
  /-- Python's `None` -/
  | none
  | err

inductive Ex
  | ref (x : String)
  | lit (k : Nat)
  | infLit
  /-- `a.T` -/
  | tr (a : Ex)
  | add (a b : Ex)
  | sub (a b : Ex)
  | mul (a b : Ex)
  | div (a b : Ex)
  | eq (a b : Ex)
  /-- `np.logical_not(a)` -/
  | lnot (a : Ex)
  /-- `a.astype(float)` -/
  | astypeFloat (a : Ex)
  /-- `np.array(a, dtype=float)` -/
  | arrayFloat (a : Ex)
  /-- `np.asarray(a, dtype=float)` -/
  | asarrayFloat (a : Ex)
  /-- `cuberoot(a)` -/
  | cbrt (a : Ex)
  /-- `np.dot(a, b)` of two matrices -/
  | dot (a b : Ex)
  /-- `np.diag(a)` of a matrix -/
  | diag (a : Ex)
  /-- `np.sum(a, axis=k)` -/
  | sumAx (a : Ex) (axis : Nat)
  /-- `np.sum(a)` -/
  | sumAll (a : Ex)
  /-- `np.trace(a)` -/
  | trace (a : Ex)
  /-- `len(a)` of a matrix -/
  | len (a : Ex)
  /-- `np.eye(x)` for a scalar name that holds the dimension -/
  | eye (x : String)
  /-- `np.ones((x,))` for a scalar name that holds the dimension -/
  | ones1 (x : String)
  /-- `np.outer(a, b)` of two vectors -/
  | outer (a b : Ex)
  /-- `np.tile(a, (x, 1))` for a vector and a scalar name that holds the dimension: every row is `a` -/
  | tileRows (a : Ex) (x : String)
  deriving DecidableEq, Repr

inductive Stmt
  | bind (x : String) (e : Ex)
  /-- `v[np.where(c)] = e` for a vector name `v`, a boolean vector `c`, a scalar `e` -/
  | setWhere (v : String) (c e : Ex)
  deriving DecidableEq, Repr

structure ArrIR where
  name : String
  recognised : Bool
  origins : List (String × String)
  param : String
  body : List Stmt
  ret : Ex
  deriving DecidableEq, Repr

variable {n : Nat}

abbrev Env (n : Nat) := String → Option (Val n)

def sumV (l : List V) : V := l.foldr V.add (.num 0)

/-- elementwise binary operation with scalar broadcast -/
def zip2 (f : V → V → V) : Val n → Val n → Val n
  | .mat A, .mat B => .mat (AMat.ofFn fun i j => f (A.get i j) (B.get i j))
  | .vec a, .vec b => .vec (Vector.ofFn fun i => f a[i] b[i])
  | .sc x, .sc y => .sc (f x y)
  | .mat A, .sc y => .mat (AMat.ofFn fun i j => f (A.get i j) y)
  | .sc x, .mat B => .mat (AMat.ofFn fun i j => f x (B.get i j))
  | .vec a, .sc y => .vec (Vector.ofFn fun i => f a[i] y)
  | .sc x, .vec b => .vec (Vector.ofFn fun i => f x b[i])
  | _, _ => .err

def map1 (f : V → V) : Val n → Val n
  | .mat A => .mat (AMat.ofFn fun i j => f (A.get i j))
  | .vec a => .vec (Vector.ofFn fun i => f a[i])
  | .sc x => .sc (f x)
  | .none => .err
  | .err => .err

def eval (cb : Rat → Rat) (E : Env n) : Ex → Val n
  | .ref x => match E x with
    | some v => v
    | none => .err
  | .lit k => .sc (.num k)
  | .infLit => .sc .inf
  | .tr a => match eval cb E a with
    | .mat A => .mat (AMat.ofFn fun i j => A.get j i)
    | _ => .err
  | .add a b => zip2 V.add (eval cb E a) (eval cb E b)
  | .sub a b => zip2 V.sub (eval cb E a) (eval cb E b)
  | .mul a b => zip2 V.mul (eval cb E a) (eval cb E b)
  | .div a b => zip2 V.div (eval cb E a) (eval cb E b)
  | .eq a b => zip2 V.eq (eval cb E a) (eval cb E b)
  | .lnot a => map1 V.lnot (eval cb E a)
  | .astypeFloat a => map1 V.toFloat (eval cb E a)
  | .arrayFloat a => map1 V.toFloat (eval cb E a)
  | .asarrayFloat a => map1 V.toFloat (eval cb E a)
  | .cbrt a => map1 (V.cbrt cb) (eval cb E a)
  | .dot a b => match eval cb E a, eval cb E b with
    | .mat A, .mat B => .mat (AMat.ofFn fun i j => sumV ((List.finRange n).map fun k => V.mul (A.get i k) (B.get k j)))
    | _, _ => .err
  | .diag a => match eval cb E a with
    | .mat A => .vec (Vector.ofFn fun i => A.get i i)
    | .vec v => .mat (AMat.ofFn fun i j => if i = j then v[i] else .num 0)
    | _ => .err
  | .sumAx a axis => match eval cb E a with
    | .mat A =>
      if axis = 1 then .vec (Vector.ofFn fun i => sumV ((List.finRange n).map fun j => A.get i j))
      else if axis = 0 then .vec (Vector.ofFn fun j => sumV ((List.finRange n).map fun i => A.get i j))
      else .err
    | .vec v => if axis = 0 then .sc (sumV ((List.finRange n).map fun i => v[i])) else .err
    | _ => .err
  | .sumAll a => match eval cb E a with
    | .mat A => .sc (sumV ((List.finRange n).map fun i => sumV ((List.finRange n).map fun j => A.get i j)))
    | .vec v => .sc (sumV ((List.finRange n).map fun i => v[i]))
    | _ => .err
  | .trace a => match eval cb E a with
    | .mat A => .sc (sumV ((List.finRange n).map fun i => A.get i i))
    | _ => .err
  | .len a => match eval cb E a with
    | .mat _ => .sc (.num n)
    | _ => .err
  | .eye x => match E x with
    | some (.sc (.num q)) => if q = n then .mat (AMat.ofFn fun i j => .num (if i = j then 1 else 0)) else .err
    | _ => .err
  | .ones1 x => match E x with
    | some (.sc (.num q)) => if q = n then .vec (Vector.ofFn fun _ => .num 1) else .err
    | _ => .err
  | .outer a b => match eval cb E a, eval cb E b with
    | .vec u, .vec v => .mat (AMat.ofFn fun i j => V.mul u[i] v[j])
    | _, _ => .err
  | .tileRows a x => match eval cb E a, E x with
    | .vec v, some (.sc (.num q)) => if q = n then .mat (AMat.ofFn fun _ j => v[j]) else .err
    | _, _ => .err

/-- one cell of `v[np.where(c)] = s` -/
def maskCell (m s old : V) : V :=
  match m with
  | .bool true => s
  | .bool false => old
  | _ => .err

def exec (cb : Rat → Rat) (E : Env n) : Stmt → Option (Env n)
  | .bind x e => match eval cb E e with
    | .err => none
    | v => some fun y => if y = x then some v else E y
  | .setWhere x c e => match E x, eval cb E c, eval cb E e with
    | some (.vec v), .vec m, .sc s =>
      some fun y => if y = x then some (.vec (Vector.ofFn fun i => maskCell m[i] s v[i])) else E y
    | _, _, _ => none

def execs (cb : Rat → Rat) : List Stmt → Env n → Option (Env n)
  | [], E => some E
  | s :: ss, E => match exec cb E s with
    | some E' => execs cb ss E'
    | none => none

/-- the whole routine on the argument -/
def run (cb : Rat → Rat) (ir : ArrIR) (W : AMat V n) : Val n :=
  match execs cb ir.body (fun y => if y = ir.param then some (.mat W) else none) with
  | some E => eval cb E ir.ret
  | none => .err

/-! ### the reference programs -/

def cyc3S : Ex := .div (.diag (.dot (.ref "S") (.dot (.ref "S") (.ref "S")))) (.lit 2)
def maskK : Stmt := .setWhere "K" (.eq (.ref "cyc3") (.lit 0)) .infLit
def possible : Ex := .sub (.mul (.ref "K") (.sub (.ref "K") (.lit 1))) (.mul (.lit 2) (.diag (.dot (.ref "A") (.ref "A"))))
def adjW : Ex := .astypeFloat (.lnot (.eq (.ref "W") (.lit 0)))
def cite (l : List String) : List (String × String) :=
  l.map fun c => (c, if c = "BibTeX" ∨ c = "due" then "from bct/due.py:" ++ c else "from bct/citations.py:" ++ c)

def refCcBd : ArrIR :=
  { name := "clustering_coef_bd", recognised := true,
    origins := cite ["BibTeX", "FAGIOLO2007", "ONNELA2005", "WATTS1998", "due"] ++ [("np", "module numpy")],
    param := "A",
    body := [ .bind "S" (.add (.ref "A") (.tr (.ref "A"))), .bind "K" (.sumAx (.ref "S") 1), .bind "cyc3" cyc3S, maskK,
              .bind "CYC3" possible, .bind "C" (.div (.ref "cyc3") (.ref "CYC3")) ],
    ret := .ref "C" }

def refCcWd : ArrIR :=
  { name := "clustering_coef_wd", recognised := true,
    origins := cite ["BibTeX", "FAGIOLO2007", "ONNELA2005", "WATTS1998"] ++
      [("cuberoot", "def bct/utils/miscellaneous_utilities.py:cuberoot")] ++ cite ["due"] ++ [("float", "builtin"), ("np", "module numpy")],
    param := "W",
    body := [ .bind "A" adjW, .bind "S" (.add (.cbrt (.ref "W")) (.cbrt (.tr (.ref "W")))),
              .bind "K" (.sumAx (.add (.ref "A") (.tr (.ref "A"))) 1), .bind "cyc3" cyc3S, maskK, .bind "CYC3" possible,
              .bind "C" (.div (.ref "cyc3") (.ref "CYC3")) ],
    ret := .ref "C" }

def refCcWu : ArrIR :=
  { name := "clustering_coef_wu", recognised := true,
    origins := cite ["BibTeX", "FAGIOLO2007", "ONNELA2005", "WATTS1998"] ++
      [("cuberoot", "def bct/utils/miscellaneous_utilities.py:cuberoot")] ++ cite ["due"] ++ [("float", "builtin"), ("np", "module numpy")],
    param := "W",
    body := [ .bind "K" (.arrayFloat (.sumAx (.lnot (.eq (.ref "W") (.lit 0))) 1)), .bind "ws" (.cbrt (.ref "W")),
              .bind "cyc3" (.diag (.dot (.ref "ws") (.dot (.ref "ws") (.ref "ws")))), maskK,
              .bind "C" (.div (.ref "cyc3") (.mul (.ref "K") (.sub (.ref "K") (.lit 1)))) ],
    ret := .ref "C" }

def refTransBd : ArrIR :=
  { name := "transitivity_bd", recognised := true,
    origins := cite ["BibTeX", "FAGIOLO2007", "HUMPHRIES2008", "ONNELA2005", "RUBINOV2010", "due"] ++ [("float", "builtin"), ("np", "module numpy")],
    param := "A",
    body := [ .bind "A" (.asarrayFloat (.ref "A")), .bind "S" (.add (.ref "A") (.tr (.ref "A"))), .bind "K" (.sumAx (.ref "S") 1),
              .bind "cyc3" cyc3S, .bind "CYC3" possible ],
    ret := .div (.sumAll (.ref "cyc3")) (.sumAll (.ref "CYC3")) }

def refTransBu : ArrIR :=
  { name := "transitivity_bu", recognised := true,
    origins := cite ["BibTeX", "FAGIOLO2007", "HUMPHRIES2008", "ONNELA2005", "RUBINOV2010", "due"] ++ [("float", "builtin"), ("np", "module numpy")],
    param := "A",
    body := [ .bind "A" (.asarrayFloat (.ref "A")), .bind "tri3" (.trace (.dot (.ref "A") (.dot (.ref "A") (.ref "A")))),
              .bind "tri2" (.sub (.sumAll (.dot (.ref "A") (.ref "A"))) (.trace (.dot (.ref "A") (.ref "A")))) ],
    ret := .div (.ref "tri3") (.ref "tri2") }

def refTransWd : ArrIR :=
  { name := "transitivity_wd", recognised := true,
    origins := cite ["BibTeX", "FAGIOLO2007", "HUMPHRIES2008", "ONNELA2005", "RUBINOV2010"] ++
      [("cuberoot", "def bct/utils/miscellaneous_utilities.py:cuberoot")] ++ cite ["due"] ++ [("float", "builtin"), ("np", "module numpy")],
    param := "W",
    body := [ .bind "A" adjW, .bind "S" (.add (.cbrt (.ref "W")) (.cbrt (.tr (.ref "W")))),
              .bind "K" (.sumAx (.add (.ref "A") (.tr (.ref "A"))) 1), .bind "cyc3" cyc3S, .bind "CYC3" possible ],
    ret := .div (.sumAll (.ref "cyc3")) (.sumAll (.ref "CYC3")) }

def refTransWu : ArrIR :=
  { name := "transitivity_wu", recognised := true,
    origins := cite ["BibTeX", "FAGIOLO2007", "HUMPHRIES2008", "ONNELA2005", "RUBINOV2010"] ++
      [("cuberoot", "def bct/utils/miscellaneous_utilities.py:cuberoot")] ++ cite ["due"] ++ [("np", "module numpy")],
    param := "W",
    body := [ .bind "K" (.sumAx (.lnot (.eq (.ref "W") (.lit 0))) 1), .bind "ws" (.cbrt (.ref "W")),
              .bind "cyc3" (.diag (.dot (.ref "ws") (.dot (.ref "ws") (.ref "ws")))) ],
    ret := .div (.sumAx (.ref "cyc3") 0) (.sumAx (.mul (.ref "K") (.sub (.ref "K") (.lit 1))) 0) }

/-- the decidable obligation generated for each of the seven array routines -/
def clustOk (ref ir : ArrIR) : Bool := ir == ref

/-! ### `clustering_coef_bu`: a loop over the nodes

    n = len(G)
    C = np.zeros((n,))
    for u in range(n):
        V, = np.where(G[u, :])
        k = len(V)
        if k >= 2:
            S = G[np.ix_(V, V)]
            C[u] = np.sum(S) / (k * k - k)
    return C
-/

/-- integer expressions over the neighbour count -/
inductive KEx
  | var (x : String)
  | lit (k : Nat)
  | sub (a b : KEx)
  | mul (a b : KEx)
  deriving DecidableEq, Repr

structure BuIR where
  recognised : Bool
  origins : List (String × String)
  param : String
  /-- `<dim> = len(<dimOf>)` -/
  dim : String
  dimOf : String
  /-- `<out> = np.zeros((<outDim>,))` -/
  out : String
  outDim : String
  /-- `for <node> in range(<nodeN>):` -/
  node : String
  nodeN : String
  /-- `<nb>, = np.where(<nbMat>[<nbRow>, :])` -/
  nb : String
  nbMat : String
  nbRow : String
  /-- `<cnt> = len(<cntOf>)` -/
  cnt : String
  cntOf : String
  /-- `if <testVar> >= <testLit>:` -/
  testVar : String
  testLit : Nat
  /-- `<sub> = <subMat>[np.ix_(<subRows>, <subCols>)]` -/
  sub : String
  subMat : String
  subRows : String
  subCols : String
  /-- `<setVec>[<setIdx>] = np.sum(<sumOf>) / <den>` -/
  setVec : String
  setIdx : String
  sumOf : String
  den : KEx
  ret : String
  deriving DecidableEq, Repr

/-- the names of the source refer to each other as they must -/
def BuIR.coherent (ir : BuIR) : Bool :=
  ir.dimOf == ir.param && ir.outDim == ir.dim && ir.nodeN == ir.dim && ir.nbMat == ir.param && ir.nbRow == ir.node &&
  ir.cntOf == ir.nb && ir.testVar == ir.cnt && ir.subMat == ir.param && ir.subRows == ir.nb && ir.subCols == ir.nb &&
  ir.setVec == ir.out && ir.setIdx == ir.node && ir.sumOf == ir.sub && ir.ret == ir.out &&
  decide ([ir.param, ir.dim, ir.out, ir.node, ir.nb, ir.cnt, ir.sub].Nodup)

def evalK (cnt : String) (k : Int) : KEx → Option Int
  | .var x => if x = cnt then some k else none
  | .lit c => some c
  | .sub a b => match evalK cnt k a, evalK cnt k b with
    | some x, some y => some (x - y)
    | _, _ => none
  | .mul a b => match evalK cnt k a, evalK cnt k b with
    | some x, some y => some (x * y)
    | _, _ => none

/-- the whole routine: one cell of the result per node (the loop bodies do not depend on each other) -/
def runBu (ir : BuIR) (G : AMat V n) : Option (Vector V n) :=
  if ir.coherent then
    some (Vector.ofFn fun u =>
      let nb := (List.finRange n).filter fun j => (G.get u j).truthy
      if (ir.testLit : Int) ≤ (nb.length : Int) then
        match evalK ir.cnt (nb.length : Int) ir.den with
        | some d => V.div (sumV (nb.map fun a => sumV (nb.map fun b => G.get a b))) (.num (d : Rat))
        | none => .err
      else .num 0)
  else none

def refBu : BuIR :=
  { recognised := true,
    origins := cite ["BibTeX", "FAGIOLO2007", "ONNELA2005", "WATTS1998", "due"] ++ [("len", "builtin"), ("np", "module numpy"), ("range", "builtin")],
    param := "G", dim := "n", dimOf := "G", out := "C", outDim := "n", node := "u", nodeN := "n",
    nb := "V", nbMat := "G", nbRow := "u", cnt := "k", cntOf := "V", testVar := "k", testLit := 2,
    sub := "S", subMat := "G", subRows := "V", subCols := "V", setVec := "C", setIdx := "u", sumOf := "S",
    den := .sub (.mul (.var "k") (.var "k")) (.var "k"), ret := "C" }

/-- the decidable obligation generated for `clustering_coef_bu` -/
def buOk (ir : BuIR) : Bool := ir == refBu

end Bct.CoreIR.Clust
