import BctVerif.Model.Dist
/-!
# Source-extracted `retrieve_shortest_path`: IR, interpreter, decidable check (T-gen, C12)

`translate/cores.py` reads `bct/algorithms/distance.py` with `ast` on every check run and writes every statement of

    def retrieve_shortest_path(s, t, hops, Pmat):
        path_length = hops[s, t]
        if path_length != 0:
            path = np.zeros((int(path_length + 1), 1), dtype='int')
            path[0] = s
            for ind in range(1, len(path)):
                s = Pmat[s, t]
                path[ind] = s
        else:
            path = []
        return path

as a `PathIR` value into `BctVerif/Gen/CoresPath.lean`, with the obligation `pathOk ir = true := by decide`.
The interpreter `run` executes the program on natural numbers (node indices, hop counts) and integer arrays (`List Nat`);
an index outside a matrix or an array makes the run fail (`IndexError`).  `Props/CoresPath.lean` proves that a program that
passes computes exactly `Dist.retrieve`.

Core Lean only.
-/
namespace Bct.CoreIR.Path
open Bct Bct.Dist

/-- a scalar expression (node index / count) -/
inductive NEx
  | var (x : String)
  | lit (k : Nat)
  /-- `M[r, c]` for scalar names `r`, `c` -/
  | cell (m r c : String)
  | add (a b : NEx)
  /-- `len(arr)` -/
  | len (arr : String)
  /-- `int(a)` -/
  | toInt (a : NEx)
  deriving DecidableEq, Repr

inductive Stmt
  /-- `x = e` -/
  | bind (x : String) (e : NEx)
  /-- `x = np.zeros((e, 1), dtype='int')` -/
  | zerosCol (x : String) (e : NEx)
  /-- `arr[i] = e` -/
  | setAt (arr : String) (i e : NEx)
  /-- `x = []` -/
  | emptyList (x : String)
  deriving DecidableEq, Repr

structure PathIR where
  recognised : Bool
  origins : List (String × String)
  params : List String
  /-- statements before the `if` -/
  pre : List Stmt
  /-- `if <testVar> != <testLit>:` -/
  testVar : String
  testLit : Nat
  /-- statements of the `if` branch before the loop -/
  thenPre : List Stmt
  /-- `for <loopVar> in range(<lo>, <hi>): loopBody` (last statement of the `if` branch) -/
  loopVar : String
  lo : NEx
  hi : NEx
  loopBody : List Stmt
  elseBody : List Stmt
  /-- `return <ret>` -/
  ret : String
  deriving DecidableEq, Repr

/-! ### interpreter -/

variable {n : Nat}

structure Env (n : Nat) where
  sc : String → Option Nat
  /-- the two matrix arguments: hop counts and predecessors (as natural numbers) -/
  mat : String → Option (AMat Nat n)
  arr : String → Option (List Nat)

def eval (E : Env n) : NEx → Option Nat
  | .var x => E.sc x
  | .lit k => some k
  | .cell m r c =>
    match E.mat m, E.sc r, E.sc c with
    | some M, some i, some j => if h : i < n ∧ j < n then some (M.get ⟨i, h.1⟩ ⟨j, h.2⟩) else none
    | _, _, _ => none
  | .add a b =>
    match eval E a, eval E b with
    | some x, some y => some (x + y)
    | _, _ => none
  | .len a => (E.arr a).map List.length
  | .toInt a => eval E a

def exec (E : Env n) : Stmt → Option (Env n)
  | .bind x e => (eval E e).map fun v => { E with sc := fun y => if y = x then some v else E.sc y }
  | .zerosCol x e => (eval E e).map fun k => { E with arr := fun y => if y = x then some (List.replicate k 0) else E.arr y }
  | .setAt a i e =>
    match E.arr a, eval E i, eval E e with
    | some l, some k, some v => if k < l.length then some { E with arr := fun y => if y = a then some (l.set k v) else E.arr y } else none
    | _, _, _ => none
  | .emptyList x => some { E with arr := fun y => if y = x then some [] else E.arr y }

def execs : List Stmt → Env n → Option (Env n)
  | [], E => some E
  | s :: ss, E => match exec E s with
    | some E' => execs ss E'
    | none => none

/-- `for v in <indices>: body` -/
def forIdx (v : String) (body : List Stmt) : List Nat → Env n → Option (Env n)
  | [], E => some E
  | i :: is, E => match execs body { E with sc := fun y => if y = v then some i else E.sc y } with
    | some E' => forIdx v body is E'
    | none => none

/-- the whole routine on `(s, t, hops, Pmat)`; `none` = NameError / IndexError -/
def run (ir : PathIR) (hops : AMat Nat n) (P : AMat (Fin n) n) (s t : Fin n) : Option (List Nat) :=
  match ir.params with
  | [ps, pt, ph, pp] =>
    let E0 : Env n :=
      { sc := fun y => if y = pt then some t.val else if y = ps then some s.val else none,
        mat := fun y => if y = pp then some (P.map Fin.val) else if y = ph then some hops else none,
        arr := fun _ => none }
    match execs ir.pre E0 with
    | none => none
    | some E1 =>
      match E1.sc ir.testVar with
      | none => none
      | some x =>
        if x ≠ ir.testLit then
          match execs ir.thenPre E1 with
          | none => none
          | some E2 =>
            match eval E2 ir.lo, eval E2 ir.hi with
            | some a, some b =>
              match forIdx ir.loopVar ir.loopBody (List.range' a (b - a)) E2 with
              | some E3 => E3.arr ir.ret
              | none => none
            | _, _ => none
        else
          match execs ir.elseBody E1 with
          | some E2 => E2.arr ir.ret
          | none => none
  | _ => none

/-! ### what `retrieve_shortest_path` is expected to contain -/

def refIR : PathIR :=
  { recognised := true, origins := [("int", "builtin"), ("len", "builtin"), ("np", "module numpy"), ("range", "builtin")],
    params := ["s", "t", "hops", "Pmat"],
    pre := [.bind "path_length" (.cell "hops" "s" "t")],
    testVar := "path_length", testLit := 0,
    thenPre := [.zerosCol "path" (.toInt (.add (.var "path_length") (.lit 1))), .setAt "path" (.lit 0) (.var "s")],
    loopVar := "ind", lo := .lit 1, hi := .len "path",
    loopBody := [.bind "s" (.cell "Pmat" "s" "t"), .setAt "path" (.var "ind") (.var "s")],
    elseBody := [.emptyList "path"],
    ret := "path" }

/-- the decidable obligation generated for `retrieve_shortest_path` -/
def pathOk (ir : PathIR) : Bool := ir == refIR

end Bct.CoreIR.Path
