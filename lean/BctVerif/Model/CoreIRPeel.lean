import BctVerif.Model.Core
/-!
# Source-extracted k-core / s-core peeling: IR, interpreter on `AMat`, decidable checks (T-gen, C15)

`translate/cores.py` reads `bct/algorithms/core.py` (`kcore_bu`, `kcore_bd`, `score_wu`), `bct/algorithms/degree.py`
(`degrees_und`, `degrees_dir`, `strengths_und`, the helpers the three routines call) and `bct/algorithms/centrality.py`
(`kcoreness_centrality_bu/_bd`) with `ast` on every check run and writes every statement of these functions as data
into `BctVerif/Gen/CoresPeel.lean`, with one obligation per function closed by `decide`.

This file has the statement language (whole-array statements over *named* objects, as in the source), a dynamically
typed interpreter (`runPeel`, `runCoreness`) that executes such a program the way NumPy does, and the decidable checks
`helperOk` / `peelOk` / `corenessOk` — the only place that knows what the routines are expected to contain.
`Props/CoresPeel.lean` proves that programs that pass compute exactly `Bct.Core.peelLoop` with the model's degree
functions (`degBu`, `degBd`, `strWu`) resp. `Bct.Core.corenessOf` / `corenessOfBd`.

Core Lean only.
-/
namespace Bct.CoreIR.Peel
open Bct

/-! ### dynamically typed scalars -/

inductive V
  | int (z : Int)
  | rat (q : Rat)
  | bool (b : Bool)
  | err
  deriving DecidableEq

namespace V
def add : V → V → V
  | int a, int b => int (a + b)
  | rat a, rat b => rat (a + b)
  | int a, rat b => rat ((a : Rat) + b)
  | rat a, int b => rat (a + (b : Rat))
  | _, _ => err

def lt : V → V → V
  | int a, int b => bool (decide (a < b))
  | rat a, rat b => bool (decide (a < b))
  | int a, rat b => bool (decide ((a : Rat) < b))
  | rat a, int b => bool (decide (a < (b : Rat)))
  | _, _ => err

def le : V → V → V
  | int a, int b => bool (decide (a ≤ b))
  | rat a, rat b => bool (decide (a ≤ b))
  | int a, rat b => bool (decide ((a : Rat) ≤ b))
  | rat a, int b => bool (decide (a ≤ (b : Rat)))
  | _, _ => err

def land : V → V → V
  | bool a, bool b => bool (a && b)
  | _, _ => err

def lor : V → V → V
  | bool a, bool b => bool (a || b)
  | _, _ => err

/-- one cell of `binarize(W, copy=True)`: `W[W != 0] = 1` -/
def bin : V → V
  | int z => int (if z ≠ 0 then 1 else z)
  | rat q => rat (if q ≠ 0 then 1 else q)
  | _ => err

/-- the zero of the array's dtype (start value of `np.sum`) -/
def zeroLike : V → V
  | int _ => int 0
  | rat _ => rat 0
  | _ => err

/-- the value a cell holds after `M[…] = <integer literal>` -/
def store (old : V) (z : Int) : V :=
  match old with
  | int _ => int z
  | rat _ => rat (z : Rat)
  | _ => err

/-- `.astype(float)` / `dtype=float` of a boolean -/
def toNum : V → V
  | bool b => int (if b then 1 else 0)
  | _ => err
end V

/-- `np.sum` of a list of cells -/
def sumV : List V → V
  | [] => .int 0
  | x :: xs => (x :: xs).foldr V.add x.zeroLike

/-! ### the statement language -/

/-- a matrix-valued expression -/
inductive MEx
  | ref (m : String)
  /-- `a.copy()` -/
  | copy (a : MEx)
  /-- `binarize(a, copy=True)` (the body of `binarize` itself is tied in family `util`) -/
  | binarize (a : MEx)
  /-- `a + b.T` -/
  | addT (a b : MEx)
  /-- `np.array(a > <integer literal>, dtype=float)` -/
  | gtNum (a : MEx) (z : Int)
  deriving DecidableEq, Repr

/-- a vector-valued expression (one value per node), given by its value at node `v` -/
inductive VEx
  | ref (x : String)
  /-- `np.sum(a, axis=0)[v] = Σ_w a[w, v]`; `axis=1`: `Σ_w a[v, w]` -/
  | sum (a : MEx) (axis : Nat)
  | add (a b : VEx)
  /-- an integer literal, broadcast -/
  | lit (z : Int)
  /-- a scalar name (`k`, `s`), broadcast -/
  | scalar (x : String)
  /-- `a < b`; `a > b` is `lt b a` -/
  | lt (a b : VEx)
  /-- `a <= b`; `a >= b` is `le b a` -/
  | le (a b : VEx)
  /-- `np.logical_and(a, b)` -/
  | land (a b : VEx)
  | lor (a b : VEx)
  deriving DecidableEq, Repr

inductive Stmt
  /-- `x = <matrix>` -/
  | bindM (x : String) (e : MEx)
  /-- `x = <vector>` -/
  | bindV (x : String) (e : VEx)
  /-- `t₁, …, tₖ = f(arg)` — a helper of the table (`degrees_und`, `degrees_dir`, `strengths_und`) -/
  | call (targets : List String) (f : String) (arg : MEx)
  /-- `x, = np.where(e)` -/
  | whereV (x : String) (e : VEx)
  /-- `if x.size == 0: break` -/
  | breakIfEmpty (x : String)
  /-- `x += 1` -/
  | incr (x : String)
  /-- `x = <natural literal>` -/
  | setNat (x : String) (z : Nat)
  /-- `m[x, :] = z` / `m[:, x] = z` for an index array `x` -/
  | setRows (m x : String) (z : Int)
  | setCols (m x : String) (z : Int)
  /-- `a, b = ([], [])` -/
  | initLists (xs : List String)
  /-- `l.append(x)` for an index array `x` -/
  | appendIdx (l x : String)
  /-- `l.append(it * np.ones((len(x),)))` -/
  | appendLevel (l it x : String)
  /-- `x = np.sum(<boolean vector>)` -/
  | count (x : String) (e : VEx)
  /-- `if f: s` for a boolean parameter `f` -/
  | ifFlag (f : String) (s : Stmt)
  deriving DecidableEq, Repr

/-- a helper function `def name(param): body; return ret` -/
structure Helper where
  name : String
  recognised : Bool
  param : String
  /-- where every global name the function uses comes from (`translate/cores.py` resolves imports to definitions):
  `(name, "def <file>:<name>" | "class <file>:<name>" | "module <m>" | "builtin" | "from <file>:<name>")`, sorted by name -/
  origins : List (String × String)
  body : List Stmt
  ret : List VEx
  deriving DecidableEq, Repr

/-- `kcore_bu`, `kcore_bd`, `score_wu` as extracted -/
structure PeelIR where
  name : String
  recognised : Bool
  params : List String
  /-- default values of trailing parameters, as source text (`peel=False`) -/
  defaults : List (String × String)
  /-- where every global name the function uses comes from (`translate/cores.py` resolves imports to definitions):
  `(name, "def <file>:<name>" | "class <file>:<name>" | "module <m>" | "builtin" | "from <file>:<name>")`, sorted by name -/
  origins : List (String × String)
  /-- statements before `while True:` -/
  pre : List Stmt
  body : List Stmt
  /-- statements after the loop, before the return(s) -/
  post : List Stmt
  /-- `if <flag>: return <retFlag> else: return <ret>`; `retFlag = none` when there is a single `return` -/
  flag : Option String
  retFlag : List String
  ret : List String
  deriving DecidableEq, Repr

/-! ### interpreter -/

inductive Item (n : Nat)
  | idxs (l : List (Fin n))
  | levels (l : List Nat)
  deriving DecidableEq

/-- a Python object -/
inductive Obj (n : Nat)
  | mat (M : AMat V n)
  | vec (u : Vector V n)
  | idx (l : List (Fin n))
  | nat (k : Nat)
  | scal (s : V)
  | flag (b : Bool)
  | list (l : List (Item n))

abbrev Env (n : Nat) := String → Option (Obj n)

variable {n : Nat}

def Env.set (E : Env n) (x : String) (o : Obj n) : Env n := fun y => if y = x then some o else E y

def evalM (E : Env n) : MEx → Option (AMat V n)
  | .ref m => match E m with
    | some (.mat M) => some M
    | _ => none
  | .copy a => evalM E a
  | .binarize a => (evalM E a).map fun M => M.map V.bin
  | .addT a b =>
    match evalM E a, evalM E b with
    | some A, some B => some (AMat.ofFn fun i j => V.add (A.get i j) (B.get j i))
    | _, _ => none
  | .gtNum a z => (evalM E a).map fun M => M.map fun x => (V.lt (.int z) x).toNum

/-- the cells summed by `np.sum(M, axis)` at node `v` -/
def lane (M : AMat V n) (axis : Nat) (v : Fin n) : List V :=
  (List.finRange n).map fun w => if axis = 0 then M.get w v else M.get v w

def evalV (E : Env n) (v : Fin n) : VEx → V
  | .ref x => match E x with
    | some (.vec u) => u[v]
    | _ => .err
  | .sum a axis =>
    match evalM E a with
    | some M => if axis ≤ 1 then sumV (lane M axis v) else .err
    | none => .err
  | .add a b => V.add (evalV E v a) (evalV E v b)
  | .lit z => .int z
  | .scalar x => match E x with
    | some (.scal s) => s
    | _ => .err
  | .lt a b => V.lt (evalV E v a) (evalV E v b)
  | .le a b => V.le (evalV E v a) (evalV E v b)
  | .land a b => V.land (evalV E v a) (evalV E v b)
  | .lor a b => V.lor (evalV E v a) (evalV E v b)

/-- a boolean vector as the list of nodes where it is true (`np.where` order); `none` if some entry is not a boolean -/
def trueNodes (E : Env n) (e : VEx) : Option (List (Fin n)) :=
  if (List.finRange n).all fun v => match evalV E v e with | .bool _ => true | _ => false
  then some ((List.finRange n).filter fun v => evalV E v e == .bool true) else none

/-- statements allowed inside a helper: plain bindings -/
def execSimple (E : Env n) : Stmt → Option (Env n)
  | .bindM x e => (evalM E e).map fun M => E.set x (.mat M)
  | .bindV x e => some (E.set x (.vec (Vector.ofFn fun v => evalV E v e)))
  | _ => none

def execsSimple : List Stmt → Env n → Option (Env n)
  | [], E => some E
  | s :: ss, E => match execSimple E s with
    | some E' => execsSimple ss E'
    | none => none

def lookupHelper : List Helper → String → Option Helper
  | [], _ => none
  | h :: hs, f => if h.name = f then some h else lookupHelper hs f

/-- `f(M)`: the helper's body in a fresh environment, then its return expressions -/
def runHelper (h : Helper) (M : AMat V n) : Option (List (Vector V n)) :=
  match execsSimple h.body (Env.set (fun _ => none) h.param (.mat M)) with
  | some E => some (h.ret.map fun e => Vector.ofFn fun v => evalV E v e)
  | none => none

def bindAll (E : Env n) : List String → List (Obj n) → Option (Env n)
  | [], [] => some E
  | x :: xs, o :: os => bindAll (E.set x o) xs os
  | _, _ => none

/-- one statement → new environment and whether `break` was executed; `none` = NameError / TypeError -/
def exec (hs : List Helper) (E : Env n) : Stmt → Option (Env n × Bool)
  | .bindM x e => (evalM E e).map fun M => (E.set x (.mat M), false)
  | .bindV x e => some (E.set x (.vec (Vector.ofFn fun v => evalV E v e)), false)
  | .call ts f arg =>
    match lookupHelper hs f, evalM E arg with
    | some h, some M =>
      match runHelper h M with
      | some us => (bindAll E ts (us.map Obj.vec)).map fun E' => (E', false)
      | none => none
    | _, _ => none
  | .whereV x e => (trueNodes E e).map fun ff => (E.set x (.idx ff), false)
  | .breakIfEmpty x => match E x with
    | some (.idx ff) => some (E, ff.isEmpty)
    | _ => none
  | .incr x => match E x with
    | some (.nat k) => some (E.set x (.nat (k + 1)), false)
    | _ => none
  | .setNat x z => some (E.set x (.nat z), false)
  | .setRows m x z => match E m, E x with
    | some (.mat M), some (.idx ff) =>
      some (E.set m (.mat (AMat.ofFn fun i j => if ff.contains i then (M.get i j).store z else M.get i j)), false)
    | _, _ => none
  | .setCols m x z => match E m, E x with
    | some (.mat M), some (.idx ff) =>
      some (E.set m (.mat (AMat.ofFn fun i j => if ff.contains j then (M.get i j).store z else M.get i j)), false)
    | _, _ => none
  | .initLists xs => some (xs.foldl (fun E' x => E'.set x (.list [])) E, false)
  | .appendIdx l x => match E l, E x with
    | some (.list L), some (.idx ff) => some (E.set l (.list (L ++ [.idxs ff])), false)
    | _, _ => none
  | .appendLevel l it x => match E l, E it, E x with
    | some (.list L), some (.nat k), some (.idx ff) => some (E.set l (.list (L ++ [.levels (ff.map fun _ => k)])), false)
    | _, _, _ => none
  | .count x e => (trueNodes E e).map fun ff => (E.set x (.nat ff.length), false)
  | .ifFlag f s => match E f with
    | some (.flag true) => exec hs E s
    | some (.flag false) => some (E, false)
    | _ => none

/-- a statement list; stops after a `break` -/
def execs (hs : List Helper) : List Stmt → Env n → Option (Env n × Bool)
  | [], E => some (E, false)
  | s :: ss, E => match exec hs E s with
    | some (E', true) => some (E', true)
    | some (E', false) => execs hs ss E'
    | none => none

/-- `while True: body` on fuel; `none` when the fuel runs out before a `break` (or on an error) -/
def whileTrue (hs : List Helper) (body : List Stmt) : Nat → Env n → Option (Env n)
  | 0, _ => none
  | fuel + 1, E => match execs hs body E with
    | some (E', true) => some E'
    | some (E', false) => whileTrue hs body fuel E'
    | none => none

def readAll (E : Env n) : List String → Option (List (Obj n))
  | [] => some []
  | x :: xs => match E x, readAll E xs with
    | some o, some os => some (o :: os)
    | _, _ => none

/-- the whole routine on the given argument objects -/
def runPeel (hs : List Helper) (ir : PeelIR) (fuel : Nat) (args : List (Obj n)) : Option (List (Obj n)) :=
  match bindAll (fun _ => none) ir.params args with
  | none => none
  | some E0 =>
    match execs hs ir.pre E0 with
    | some (E1, false) =>
      match whileTrue hs ir.body fuel E1 with
      | some E2 =>
        match execs hs ir.post E2 with
        | some (E3, false) =>
          match ir.flag with
          | none => readAll E3 ir.ret
          | some f => match E3 f with
            | some (.flag true) => readAll E3 ir.retFlag
            | some (.flag false) => readAll E3 ir.ret
            | _ => none
        | _ => none
      | none => none
    | _ => none

/-! ### what the routines are expected to contain -/

def refDegreesUnd : Helper :=
  { name := "degrees_und", recognised := true, param := "CIJ",
    origins := [("binarize", "def bct/utils/other.py:binarize"), ("np", "module numpy")],
    body := [.bindM "CIJ" (.binarize (.ref "CIJ"))],
    ret := [.sum (.ref "CIJ") 0] }

def refDegreesDir : Helper :=
  { name := "degrees_dir", recognised := true, param := "CIJ",
    origins := [("binarize", "def bct/utils/other.py:binarize"), ("np", "module numpy")],
    body := [.bindM "CIJ" (.binarize (.ref "CIJ")),
             .bindV "id" (.sum (.ref "CIJ") 0),
             .bindV "od" (.sum (.ref "CIJ") 1),
             .bindV "deg" (.add (.ref "id") (.ref "od"))],
    ret := [.ref "id", .ref "od", .ref "deg"] }

def refStrengthsUnd : Helper :=
  { name := "strengths_und", recognised := true, param := "CIJ", origins := [("np", "module numpy")], body := [], ret := [.sum (.ref "CIJ") 0] }

def refHelpers : List Helper := [refDegreesUnd, refDegreesDir, refStrengthsUnd]

/-- the decidable obligation generated for the helper table -/
def helpersOk (hs : List Helper) : Bool := hs == refHelpers

/-- the peel condition `np.logical_and(d < k, d > 0)` -/
def peelCond (d k : String) : VEx := .land (.lt (.ref d) (.scalar k)) (.lt (.lit 0) (.ref d))

def kcoreBody (call : Stmt) : List Stmt :=
  [ call,
    .whereV "ff" (peelCond "deg" "k"),
    .breakIfEmpty "ff",
    .incr "iter",
    .setRows "CIJkcore" "ff" 0,
    .setCols "CIJkcore" "ff" 0,
    .ifFlag "peel" (.appendIdx "peelorder" "ff"),
    .ifFlag "peel" (.appendLevel "peellevel" "iter" "ff") ]

def refKcore (name : String) (call : Stmt) (helper : String) : PeelIR :=
  { name := name, recognised := true, params := ["CIJ", "k", "peel"], defaults := [("peel", "False")],
    origins := [("BibTeX", "from bct/due.py:BibTeX"), ("HAGMANN2008", "from bct/citations.py:HAGMANN2008"), (helper, "def bct/algorithms/degree.py:" ++ helper), ("due", "from bct/due.py:due"), ("len", "builtin"), ("np", "module numpy")],
    pre := [.ifFlag "peel" (.initLists ["peelorder", "peellevel"]), .setNat "iter" 0, .bindM "CIJkcore" (.copy (.ref "CIJ"))],
    body := kcoreBody call,
    post := [.count "kn" (.lt (.lit 0) (.ref "deg"))],
    flag := some "peel", retFlag := ["CIJkcore", "kn", "peelorder", "peellevel"], ret := ["CIJkcore", "kn"] }

def refKcoreBu : PeelIR := refKcore "kcore_bu" (.call ["deg"] "degrees_und" (.ref "CIJkcore")) "degrees_und"
def refKcoreBd : PeelIR := refKcore "kcore_bd" (.call ["id", "od", "deg"] "degrees_dir" (.ref "CIJkcore")) "degrees_dir"

def refScoreWu : PeelIR :=
  { name := "score_wu", recognised := true, params := ["CIJ", "s"], defaults := [],
    origins := [("np", "module numpy"), ("strengths_und", "def bct/algorithms/degree.py:strengths_und")],
    pre := [.bindM "CIJscore" (.copy (.ref "CIJ"))],
    body := [ .call ["str"] "strengths_und" (.ref "CIJscore"),
              .whereV "ff" (peelCond "str" "s"),
              .breakIfEmpty "ff",
              .setRows "CIJscore" "ff" 0,
              .setCols "CIJscore" "ff" 0 ],
    post := [.count "sn" (.lt (.lit 0) (.ref "str"))],
    flag := none, retFlag := [], ret := ["CIJscore", "sn"] }

def refPeel : List PeelIR := [refKcoreBu, refKcoreBd, refScoreWu]

/-- the decidable obligation generated per routine: the extracted value is the expected program of that name -/
def peelOk (ir : PeelIR) : Bool := refPeel.any fun r => r.name == ir.name && ir == r

/-! ### k-coreness centrality -/

/-- a natural-number expression over the dimension `N = len(CIJ)` -/
inductive NEx
  | dim (x : String)
  | lit (z : Nat)
  | mul (a b : NEx)
  | sub (a b : NEx)
  | add (a b : NEx)
  | max (a b : NEx)
  deriving DecidableEq, Repr

inductive CStmt
  /-- `N = len(M)` -/
  | len (x m : String)
  | bindM (x : String) (e : MEx)
  /-- `if np.any(m > z): s` -/
  | ifAnyGt (m : MEx) (z : Int) (s : CStmt)
  /-- `x = np.zeros((e,))` -/
  | zeros (x : String) (e : NEx)
  deriving DecidableEq, Repr

/-- `kcoreness_centrality_bu/_bd` as extracted -/
structure CorenessIR where
  name : String
  recognised : Bool
  param : String
  /-- where every global name the function uses comes from (`translate/cores.py` resolves imports to definitions):
  `(name, "def <file>:<name>" | "class <file>:<name>" | "module <m>" | "builtin" | "from <file>:<name>")`, sorted by name -/
  origins : List (String × String)
  pre : List CStmt
  /-- `for <loopVar> in range(<bound>)` -/
  loopVar : String
  bound : NEx
  /-- `<core>, <knArr>[<knIdx>] = <callee>(<callArgs>)` -/
  core : String
  knArr : String
  knIdx : String
  callee : String
  callArgs : List String
  /-- `<ss> = <member>; <out>[<storeIdx>] = <storeVal>` -/
  ss : String
  member : VEx
  out : String
  storeIdx : String
  storeVal : String
  ret : List String
  deriving DecidableEq, Repr

/-- evaluated in `ℤ`: `2 * N - 1` is `-1` for `N = 0` -/
def evalN (dims : String → Option Nat) : NEx → Option Int
  | .dim x => (dims x).map fun (k : Nat) => (k : Int)
  | .lit z => some (z : Int)
  | .mul a b => match evalN dims a, evalN dims b with
    | some x, some y => some (x * y)
    | _, _ => none
  | .sub a b => match evalN dims a, evalN dims b with
    | some x, some y => some (x - y)
    | _, _ => none
  | .add a b => match evalN dims a, evalN dims b with
    | some x, some y => some (x + y)
    | _, _ => none
  | .max a b => match evalN dims a, evalN dims b with
    | some x, some y => some (if x ≤ y then y else x)
    | _, _ => none

structure CEnv (n : Nat) where
  mat : Env n
  dims : String → Option Nat
  /-- lengths of the `np.zeros` arrays -/
  zeros : String → Option Nat

def anyGt (M : AMat V n) (z : Int) : Option Bool :=
  if (List.finRange n).all fun i => (List.finRange n).all fun j => match V.lt (.int z) (M.get i j) with | .bool _ => true | _ => false
  then some ((List.finRange n).any fun i => (List.finRange n).any fun j => V.lt (.int z) (M.get i j) == .bool true) else none

def cexec (E : CEnv n) : CStmt → Option (CEnv n)
  | .len x m => match E.mat m with
    | some (.mat _) => some { E with dims := fun y => if y = x then some n else E.dims y }
    | _ => none
  | .bindM x e => (evalM E.mat e).map fun M => { E with mat := E.mat.set x (.mat M) }
  | .ifAnyGt m z s =>
    match evalM E.mat m with
    | some M => match anyGt M z with
      | some true => cexec E s
      | some false => some E
      | none => none
    | none => none
  | .zeros x e =>
    match evalN E.dims e with
    | some k => if 0 ≤ k then some { E with zeros := fun y => if y = x then some k.toNat else E.zeros y } else none   -- negative dimensions
    | none => none

def cexecs : List CStmt → CEnv n → Option (CEnv n)
  | [], E => some E
  | s :: ss, E => match cexec E s with
    | some E' => cexecs ss E'
    | none => none

/-- the value of `coreness[v]` after the loop: the last `k` of the scanned range whose membership test held at `v` -/
def lastTrue (P : Nat → Bool) (ks : List Nat) : Nat := ks.foldl (fun c k => if P k then k else c) 0

/-- the routine as extracted; `kcore k` is the callee's result `(CIJkcore, kn)` on the prepared matrix.
Result: `coreness` as a function of the node, `kn` as a list.  `none` = NameError, or a store past the end of `kn`
(`IndexError`), or a `coreness` array of a length other than `n`. -/
def runCoreness (ir : CorenessIR) (kcore : AMat V n → Nat → Option (AMat V n × Nat)) (A : AMat V n) :
    Option ((Fin n → Nat) × List Nat) :=
  match cexecs ir.pre { mat := Env.set (fun _ => none) ir.param (.mat A), dims := fun _ => none, zeros := fun _ => none } with
  | none => none
  | some E =>
    match evalN E.dims ir.bound, ir.callArgs, E.zeros ir.knArr, E.zeros ir.out with
    | some bz, [arg, k2], some lk, some lc =>
      match E.mat arg with
      | some (.mat M) =>
      let b := bz.toNat       -- `range` of a negative number is empty
      -- the callee receives the loop variable, `kn` is indexed by it, `coreness[ss] = k` stores it under the mask just computed
      if b ≤ lk ∧ lc = n ∧ ir.ret = [ir.out, ir.knArr] ∧ k2 = ir.loopVar ∧ ir.knIdx = ir.loopVar ∧
         ir.storeIdx = ir.ss ∧ ir.storeVal = ir.loopVar then
        let cores := (List.range b).map fun k => kcore M k
        if cores.all Option.isSome then
          let memb : Nat → Fin n → Bool := fun k v =>
            match kcore M k with
            | some (C, _) => evalV (Env.set (fun _ => none) ir.core (.mat C)) v ir.member == .bool true
            | none => false
          -- `kn = np.zeros(lk)`; entries `0 .. b-1` are assigned
          some (fun v => lastTrue (fun k => memb k v) (List.range b),
                (List.range lk).map fun k => if k < b then (match kcore M k with | some (_, kn) => kn | none => 0) else 0)
        else none
      else none
      | _ => none
    | _, _, _, _ => none

def refCorenessBu : CorenessIR :=
  { name := "kcoreness_centrality_bu", recognised := true, param := "CIJ",
    origins := [("BibTeX", "from bct/due.py:BibTeX"), ("HAGMANN2008", "from bct/citations.py:HAGMANN2008"), ("due", "from bct/due.py:due"), ("float", "builtin"), ("kcore_bu", "def bct/algorithms/core.py:kcore_bu"), ("len", "builtin"), ("np", "module numpy"), ("range", "builtin")],
    pre := [ .len "N" "CIJ",
             .bindM "CIJund" (.addT (.ref "CIJ") (.ref "CIJ")),
             .ifAnyGt (.ref "CIJund") 1 (.bindM "CIJ" (.gtNum (.ref "CIJund") 0)),
             .zeros "coreness" (.dim "N"),
             .zeros "kn" (.dim "N") ],
    loopVar := "k", bound := .dim "N",
    core := "CIJkcore", knArr := "kn", knIdx := "k", callee := "kcore_bu", callArgs := ["CIJ", "k"],
    ss := "ss", member := .lt (.lit 0) (.sum (.ref "CIJkcore") 0), out := "coreness", storeIdx := "ss", storeVal := "k",
    ret := ["coreness", "kn"] }

def refCorenessBd : CorenessIR :=
  { name := "kcoreness_centrality_bd", recognised := true, param := "CIJ",
    origins := [("BibTeX", "from bct/due.py:BibTeX"), ("HAGMANN2008", "from bct/citations.py:HAGMANN2008"), ("due", "from bct/due.py:due"), ("kcore_bd", "def bct/algorithms/core.py:kcore_bd"), ("len", "builtin"), ("max", "builtin"), ("np", "module numpy"), ("range", "builtin")],
    pre := [ .len "N" "CIJ",
             .zeros "coreness" (.dim "N"),
             .zeros "kn" (.max (.sub (.mul (.lit 2) (.dim "N")) (.lit 1)) (.lit 0)) ],
    loopVar := "k", bound := .sub (.mul (.lit 2) (.dim "N")) (.lit 1),
    core := "CIJkcore", knArr := "kn", knIdx := "k", callee := "kcore_bd", callArgs := ["CIJ", "k"],
    ss := "ss", member := .lt (.lit 0) (.add (.sum (.ref "CIJkcore") 0) (.sum (.ref "CIJkcore") 1)),
    out := "coreness", storeIdx := "ss", storeVal := "k", ret := ["coreness", "kn"] }

def corenessOk (ir : CorenessIR) : Bool :=
  (ir.name == "kcoreness_centrality_bu" && ir == refCorenessBu) ||
  (ir.name == "kcoreness_centrality_bd" && ir == refCorenessBd)

end Bct.CoreIR.Peel
