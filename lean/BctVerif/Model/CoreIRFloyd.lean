import BctVerif.Model.Dist
/-!
# Source-extracted core of `distance_wei_floyd`: IR, interpreter on `AMat`, decidable check (T-gen, C03 / C12)

`translate/cores.py` reads `bct/algorithms/distance.py` with `ast` on every check run and writes the statements of
`distance_wei_floyd` — the transform dispatch, the initialisation of `hops` / `Pmat`, the body of `for k in range(n)`
and the epilogue — as a `FloydIR` value into `BctVerif/Gen/CoresFloyd.lean`, with one obligation
`floydOk ir = true := by decide`.

This file contains the statement language (a few whole-array statements over *named* matrices, each with a
per-cell meaning), a dynamically typed interpreter `run` that executes such a program on `AMat (V n) n` the way NumPy
does (right-hand sides are evaluated completely before the store, a masked store `M[p] = e` touches exactly the cells
where `p` is true, `i, j = np.where(p)` names the row / column of the masked cell), and `floydOk`, the only place that
knows what the routine is expected to contain.  `Props/Cores.lean` proves that a program that passes `floydOk` computes
exactly `Bct.Dist.floyd (lenMat tr A)` — the function the C03 / C12 theorems are about.

Core Lean only.
-/
namespace Bct.CoreIR.Floyd
open Bct Bct.Dist

/-! ### dynamically typed cell values -/

/-- a cell of a NumPy array as the model sees it: a length (`ℚ ∪ {∞}`), a count, a node index, a boolean;
`err` = an operation NumPy would not perform this way (it absorbs everything, so a wrong program cannot be read back) -/
inductive V (n : Nat)
  | ext (x : Ext)
  | nat (z : Nat)
  | idx (i : Fin n)
  | bool (b : Bool)
  | err
  deriving DecidableEq

namespace V
variable {n : Nat}

/-- a count is a length when compared with / added to one (`SPL == 0`, `… + 0.0`) -/
def toExt : V n → Option Ext
  | ext x => some x
  | nat z => some (.fin (z : Nat))
  | _ => none

def add : V n → V n → V n
  | nat a, nat b => nat (a + b)
  | ext a, ext b => ext (a + b)
  | ext a, nat b => ext (a + .fin (b : Nat))
  | nat a, ext b => ext (.fin (a : Nat) + b)
  | _, _ => err

/-- `np.min(np.stack([a, b], 2), 2)` -/
def min : V n → V n → V n
  | ext a, ext b => ext (Ext.min a b)
  | _, _ => err

def gt (a b : V n) : V n :=
  match a.toExt, b.toExt with
  | some x, some y => bool (Ext.lt y x)
  | _, _ => err

def ge (a b : V n) : V n :=
  match a.toExt, b.toExt with
  | some x, some y => bool (!Ext.lt x y)
  | _, _ => err

def eq (a b : V n) : V n :=
  match a.toExt, b.toExt with
  | some x, some y => bool (decide (x = y))
  | _, _ => err

def ne (a b : V n) : V n :=
  match a.toExt, b.toExt with
  | some x, some y => bool (decide (x ≠ y))
  | _, _ => err

/-- `1 / a` under `np.errstate(divide='ignore')`: `1/0 = ∞` -/
def recip : V n → V n
  | ext x => ext x.inv
  | nat z => ext (Ext.inv (.fin (z : Nat)))
  | _ => err

/-- `-np.log(a)`; the logarithm is an oracle `nl : ℚ → Ext` (floating point is outside the models) -/
def negLog (nl : Rat → Ext) : V n → V n
  | ext (.fin q) => ext (nl q)
  | nat z => ext (nl (z : Nat))
  | _ => err

/-- `.astype('float')` of a boolean array -/
def toNum : V n → V n
  | bool b => nat (if b then 1 else 0)
  | _ => err

/-- the value a cell holds after `M[…] = new`: NumPy casts to the array's dtype -/
def store (old new : V n) : V n :=
  match old, new with
  | ext _, ext y => ext y
  | ext _, nat z => ext (.fin (z : Nat))
  | nat _, nat z => nat z
  | idx _, idx y => idx y
  | idx _, nat z => if h : z < n then idx ⟨z, h⟩ else err
  | bool _, bool b => bool b
  | _, _ => err
end V

/-! ### the statement language -/

/-- an index expression inside `M[r, c]` -/
inductive Ix
  /-- the row / column of the cell being computed (elementwise use of a whole matrix, `np.repeat` broadcasting) -/
  | row | col
  /-- a scalar name (`k`) -/
  | var (x : String)
  /-- an index array produced by `np.where` (`i`, `j`) -/
  | arr (x : String)
  deriving DecidableEq, Repr

/-- a whole-array expression, given by the value of one cell -/
inductive Ex
  /-- `M[r, c]`: `M` itself is `ref M row col`; `np.repeat(M[:, [k]], n, 1)` is `ref M row (var k)`;
  `np.repeat(M[[k], :], n, 0)` is `ref M (var k) col`; `M[i, k]` with `i` from `np.where` is `ref M (arr i) (var k)` -/
  | ref (m : String) (r c : Ix)
  /-- an integer literal (also `0.0`) -/
  | lit (z : Nat)
  /-- `np.inf` -/
  | inf
  /-- `np.repeat(np.atleast_2d(np.arange(0, n)), n, 0)`: every cell holds its column index -/
  | colIdx
  /-- `np.eye(n)` -/
  | eye
  | add (a b : Ex)
  /-- `np.min(np.stack([a, b], 2), 2)` -/
  | min (a b : Ex)
  /-- `1 / a` -/
  | recip (a : Ex)
  /-- `-np.log(a)` -/
  | negLog (a : Ex)
  | gt (a b : Ex)
  /-- `a >= b`; `a < b` is `gt b a`, `a <= b` is `ge b a` -/
  | ge (a b : Ex)
  | eq (a b : Ex)
  | ne (a b : Ex)
  /-- `np.array(a).astype('float')` of a boolean array -/
  | toNum (a : Ex)
  deriving DecidableEq, Repr

inductive Stmt
  /-- `x = e` (a new array; `.copy()` / `.astype('float')` of a matrix is the matrix) -/
  | bind (x : String) (e : Ex)
  /-- `ri, ci = np.where(p)` for a named boolean matrix `p` -/
  | whereB (ri ci p : String)
  /-- `m[p] = e` — `p` a boolean matrix expression (`ref p row col` for a named mask) -/
  | setMask (m : String) (p : Ex) (e : Ex)
  /-- `x = m.shape[axis]` -/
  | dim (x m : String) (axis : Nat)
  deriving DecidableEq, Repr

/-- a test of the `transform` argument -/
inductive Cond
  | isNone
  | eqStr (s : String)
  | otherwise
  deriving DecidableEq, Repr

inductive Arm
  | stmts (ss : List Stmt)
  | raise (exc : String)
  deriving DecidableEq, Repr

/-- everything `translate/cores.py` extracts from `distance_wei_floyd` -/
structure FloydIR where
  /-- every statement of the function body was recognised (false ⇒ the obligation is unprovable) -/
  recognised : Bool
  /-- first parameter (the matrix) and second parameter (the transform) -/
  param : String
  trParam : String
  /-- default values of the parameters, as source text (`transform=None`) -/
  defaults : List (String × String)
  /-- where every global name the function uses comes from (`translate/cores.py` resolves imports to definitions):
  `(name, "def <file>:<name>" | "class <file>:<name>" | "module <m>" | "builtin" | "from <file>:<name>")`, sorted by name -/
  origins : List (String × String)
  /-- the `if transform is not None: … else: …` tree as a decision list, first match wins
  (`if c: X else: Y` contributes `(¬c ↦ Y)` first when `c` is `… is not None`) -/
  dispatch : List (Cond × Arm)
  /-- statements between the dispatch and the loop -/
  init : List Stmt
  /-- `for <loopVar> in range(<loopBound>)` -/
  loopVar : String
  loopBound : String
  body : List Stmt
  /-- statements between the loop and `return` -/
  epilogue : List Stmt
  /-- the names returned, in order -/
  ret : List String
  deriving Repr

/-! ### interpreter -/

structure Env (n : Nat) where
  mat : String → Option (AMat (V n) n)
  /-- index arrays: `(true, p)` = row indices of `np.where(p)`, `(false, p)` = column indices -/
  arr : String → Option (Bool × String)
  var : String → Option (Fin n)
  /-- names bound to the dimension `n` -/
  dimv : String → Bool

namespace Env
variable {n : Nat}
def setMat (E : Env n) (x : String) (M : AMat (V n) n) : Env n :=
  { E with mat := fun y => if y = x then some M else E.mat y,
           -- index arrays taken from an older value of `x` no longer describe it; a rebound name is no index array
           arr := fun y => if y = x then none else
             match E.arr y with
             | some (r, p) => if p = x then none else some (r, p)
             | none => none }
def setArr (E : Env n) (x : String) (r : Bool) (p : String) : Env n :=
  { E with arr := fun y => if y = x then some (r, p) else E.arr y,
           mat := fun y => if y = x then none else E.mat y }
def setVar (E : Env n) (x : String) (k : Fin n) : Env n :=
  { E with var := fun y => if y = x then some k else E.var y }
def setDim (E : Env n) (x : String) : Env n :=
  { E with dimv := fun y => if y = x then true else E.dimv y }
end Env

variable {n : Nat}

/-- `ctx` = the named mask of the enclosing `m[p] = …`, if any: an index array is usable only there and only
if it came from `np.where` of that same mask -/
def evalIx (E : Env n) (ctx : Option String) (i j : Fin n) : Ix → Option (Fin n)
  | .row => some i
  | .col => some j
  | .var x => E.var x
  | .arr x =>
    match E.arr x, ctx with
    | some (r, p), some q => if p = q then some (if r then i else j) else none
    | _, _ => none

def eval (nl : Rat → Ext) (E : Env n) (ctx : Option String) (i j : Fin n) : Ex → V n
  | .ref m r c =>
    match E.mat m, evalIx E ctx i j r, evalIx E ctx i j c with
    | some M, some a, some b => M.get a b
    | _, _, _ => .err
  | .lit z => .nat z
  | .inf => .ext .inf
  | .colIdx => .idx j
  | .eye => .nat (if i = j then 1 else 0)
  | .add a b => V.add (eval nl E ctx i j a) (eval nl E ctx i j b)
  | .min a b => V.min (eval nl E ctx i j a) (eval nl E ctx i j b)
  | .recip a => V.recip (eval nl E ctx i j a)
  | .negLog a => V.negLog nl (eval nl E ctx i j a)
  | .gt a b => V.gt (eval nl E ctx i j a) (eval nl E ctx i j b)
  | .ge a b => V.ge (eval nl E ctx i j a) (eval nl E ctx i j b)
  | .eq a b => V.eq (eval nl E ctx i j a) (eval nl E ctx i j b)
  | .ne a b => V.ne (eval nl E ctx i j a) (eval nl E ctx i j b)
  | .toNum a => V.toNum (eval nl E ctx i j a)

def maskName : Ex → Option String
  | .ref p .row .col => some p
  | _ => none

/-- one statement; `none` = a name is used before it is bound -/
def exec (nl : Rat → Ext) (E : Env n) : Stmt → Option (Env n)
  | .bind x e => some (E.setMat x (AMat.ofFn fun i j => eval nl E none i j e))
  | .whereB ri ci p =>
    match E.mat p with
    | some _ => some ((E.setArr ri true p).setArr ci false p)
    | none => none
  | .setMask m p e =>
    match E.mat m with
    | some M =>
      some (E.setMat m (AMat.ofFn fun i j =>
        match eval nl E none i j p with
        | .bool true => V.store (M.get i j) (eval nl E (maskName p) i j e)
        | .bool false => M.get i j
        | _ => .err))
    | none => none
  | .dim x m _ =>
    match E.mat m with
    | some _ => some (E.setDim x)
    | none => none

def execs (nl : Rat → Ext) : List Stmt → Env n → Option (Env n)
  | [], E => some E
  | s :: ss, E =>
    match exec nl E s with
    | some E' => execs nl ss E'
    | none => none

def Cond.holds (tr : Option String) : Cond → Bool
  | .isNone => tr.isNone
  | .eqStr s => tr == some s
  | .otherwise => true

def pickArm (tr : Option String) : List (Cond × Arm) → Option Arm
  | [] => none
  | (c, a) :: rest => if c.holds tr then some a else pickArm tr rest

/-- the loop `for k in range(n)` -/
def loop (nl : Rat → Ext) (v : String) (body : List Stmt) : List (Fin n) → Env n → Option (Env n)
  | [], E => some E
  | k :: ks, E =>
    match execs nl body (E.setVar v k) with
    | some E' => loop nl v body ks E'
    | none => none

def readAll (E : Env n) : List String → Option (List (AMat (V n) n))
  | [] => some []
  | x :: xs =>
    match E.mat x, readAll E xs with
    | some M, some Ms => some (M :: Ms)
    | _, _ => none

def env0 (param : String) (A : AMat Rat n) : Env n where
  mat := fun y => if y = param then some (A.map fun a => V.ext (.fin a)) else none
  arr := fun _ => none
  var := fun _ => none
  dimv := fun _ => false

/-- the whole routine as extracted: `error` carries the exception name (`NameError` = the program uses an unbound name) -/
def run (nl : Rat → Ext) (ir : FloydIR) (tr : Option String) (A : AMat Rat n) : Except String (List (AMat (V n) n)) :=
  match pickArm tr ir.dispatch with
  | none => .error "NameError"
  | some (.raise exc) => .error exc
  | some (.stmts ss) =>
    match execs nl ss (env0 ir.param A) with
    | none => .error "NameError"
    | some E1 =>
      match execs nl ir.init E1 with
      | none => .error "NameError"
      | some E2 =>
        if E2.dimv ir.loopBound then
          match loop nl ir.loopVar ir.body (List.finRange n) E2 with
          | none => .error "NameError"
          | some E3 =>
            match execs nl ir.epilogue E3 with
            | none => .error "NameError"
            | some E4 =>
              match readAll E4 ir.ret with
              | some Ms => .ok Ms
              | none => .error "NameError"
        else .error "NameError"

/-- a model state as the interpreter's result list `[SPL, hops, Pmat]` -/
def embed (s : FSt n) : List (AMat (V n) n) := [s.D.map V.ext, s.hops.map V.nat, s.P.map V.idx]

/-! ### what `distance_wei_floyd` is expected to contain -/

def mSelf (m : String) : Ex := .ref m .row .col

def refDispatch : List (Cond × Arm) :=
  [ (.isNone, .stmts [ .bind "SPL" (mSelf "adjacency"),
                       .setMask "SPL" (.eq (mSelf "SPL") (.lit 0)) .inf ]),
    (.eqStr "log", .stmts [ .bind "SPL" (.add (.negLog (mSelf "adjacency")) (.lit 0)) ]),
    (.eqStr "inv", .stmts [ .bind "SPL" (.recip (mSelf "adjacency")),
                            .setMask "SPL" (.eq (mSelf "adjacency") (.lit 0)) .inf ]),
    (.otherwise, .raise "ValueError") ]

def refInit : List Stmt :=
  [ .dim "n" "adjacency" 1,
    .bind "hops" (.toNum (.ne (mSelf "adjacency") (.lit 0))),
    .bind "Pmat" .colIdx ]

/-- the stage: `i2k_k2j = SPL[:, [k]] + SPL[[k], :]`; `path = SPL > i2k_k2j`; `i, j = np.where(path)`;
`hops[path] = hops[i, k] + hops[k, j]`; `Pmat[path] = Pmat[i, k]`; `SPL = min(SPL, i2k_k2j)` -/
def refBody : List Stmt :=
  [ .bind "i2k_k2j" (.add (.ref "SPL" .row (.var "k")) (.ref "SPL" (.var "k") .col)),
    .bind "path" (.gt (mSelf "SPL") (mSelf "i2k_k2j")),
    .whereB "i" "j" "path",
    .setMask "hops" (mSelf "path") (.add (.ref "hops" (.arr "i") (.var "k")) (.ref "hops" (.var "k") (.arr "j"))),
    .setMask "Pmat" (mSelf "path") (.ref "Pmat" (.arr "i") (.var "k")),
    .bind "SPL" (.min (mSelf "SPL") (mSelf "i2k_k2j")) ]

/-- `I = np.eye(n) > 0; SPL[I] = 0; hops[I], Pmat[I] = 0, 0` -/
def refEpilogue : List Stmt :=
  [ .bind "I" (.gt .eye (.lit 0)),
    .setMask "SPL" (mSelf "I") (.lit 0),
    .setMask "hops" (mSelf "I") (.lit 0),
    .setMask "Pmat" (mSelf "I") (.lit 0) ]

def refOrigins : List (String × String) := [("ValueError", "builtin"), ("np", "module numpy"), ("range", "builtin")]

/-- the decidable obligation generated for `distance_wei_floyd` -/
def floydOk (ir : FloydIR) : Bool :=
  ir.recognised && ir.param == "adjacency" && ir.trParam == "transform" && ir.defaults == [("transform", "None")] && ir.origins == refOrigins &&
  ir.dispatch == refDispatch && ir.init == refInit &&
  ir.loopVar == "k" && ir.loopBound == "n" && ir.body == refBody &&
  ir.epilogue == refEpilogue && ir.ret == ["SPL", "hops", "Pmat"]

/-- the reference program as a value (non-vacuity of `floydOk`) -/
def refIR : FloydIR :=
  { recognised := true, param := "adjacency", trParam := "transform", defaults := [("transform", "None")], origins := refOrigins,
    dispatch := refDispatch, init := refInit,
    loopVar := "k", loopBound := "n", body := refBody, epilogue := refEpilogue, ret := ["SPL", "hops", "Pmat"] }

/-- transform argument of the Python call ↦ the model's length matrix (`'log'` through the oracle) -/
def lenMatOf (nl : Rat → Ext) (tr : Option String) (A : AMat Rat n) : Option (AMat Ext n) :=
  match tr with
  | none => some (lenMat .none A)
  | some s =>
    if s = "inv" then some (lenMat .inv A)
    else if s = "log" then some (AMat.ofFn fun i j => nl (A.get i j))
    else none

end Bct.CoreIR.Floyd
