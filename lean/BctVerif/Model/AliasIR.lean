/-!
# Alias / write IR (property C13) — core Lean only

`translate/effects.py` re-emits, on every check run, one IR term per function of bct: which names may be bound to
(views of) which other names' arrays, where arrays are written in place, and which bct functions are called
with which arguments.  Names are numbered per function (`0` is the distinguished name holding the return value).

This file contains the IR, the function table, a heap semantics (`Exec`: all executions, with the set of written
locations) and the decidable flow-sensitive may-alias analysis `analyze` / `safe`.  A call is *inlined*: the
semantics executes the callee's IR in a callee frame whose parameters reach (at most) what the arguments reach,
and the analysis analyses the callee's IR in the calling context, so no callee summary is trusted.  The table
itself (parameter lists + bodies) is the "summary table".  Soundness is proved in `Props/C13.lean`.
-/
namespace Bct.AliasIR

abbrev Name := Nat
abbrev Loc := Nat

/-- the name holding a function's return value -/
def RET : Name := 0

inductive Stmt
  /-- `x = W.copy()`, `np.zeros(..)`, `A * B`, `A[np.ix_(..)]`, …: `x` is bound to arrays nobody else owns -/
  | fresh (x : Name)
  /-- `x = y`, `y.T`, `y[a:b]`, `np.asarray(y)`, `(y, z)`, …: `x` may reach what the `ys` reach;
      `keep` (`x.append(y)`, `x[i] = y` for a container, `return y`): `x` also keeps what it reached before -/
  | alias (x : Name) (ys : List Name) (keep : Bool)
  /-- `x = <operation the translator has no rule for>(ys)`: may write through any of `ys`, result may reach them -/
  | unknown (x : Name) (ys : List Name)
  /-- `x[..] = ..`, `x += ..`, `np.fill_diagonal(x, ..)`, `x.sort()`, `out=x`, … -/
  | write (x : Name)
  /-- `x = f(args)` for a bct function `f` of the table; `args[i]` = the caller's names whose arrays the i-th
      argument may reach -/
  | call (x : Name) (f : Nat) (args : List (List Name))
  | seq (ss : List Stmt)
  | branch (a b : Stmt)
  | loop (body : Stmt)
  deriving Repr

structure FnDecl where
  /-- the parameters, as names of the body, in the positional order used by `call` -/
  params : List Name
  body : Stmt
  deriving Repr

abbrev Table := List (Nat × FnDecl)

def lookup : Table → Nat → Option FnDecl
  | [], _ => none
  | (g, d) :: t, f => if g = f then some d else lookup t f

/-! ## heap semantics -/

/-- `env x l`: array `l` is reachable through name `x` (directly, as a view, or inside a container) -/
abbrev Env := Name → Loc → Prop

def Env.set (env : Env) (x : Name) (P : Loc → Prop) : Env := fun y l => if y = x then P l else env y l

/-- What the caller's names reach after a call of a function with parameters `params` on arguments `args`: every name
    keeps what it reached and, if it was (part of) an argument, may additionally reach whatever the corresponding
    parameter reaches when the callee exits (the callee may have stored something into a container it was handed). -/
def Env.afterCall (env envc' : Env) (params : List Name) (args : List (List Name)) : Env :=
  fun y l => env y l ∨ ∃ p ys, (p, ys) ∈ params.zip args ∧ y ∈ ys ∧ envc' p l

/-- after an operation without a rule on `ys`: each of `ys` may additionally reach what any of them reached -/
def Env.afterUnknown (env : Env) (ys : List Name) : Env :=
  fun y l => env y l ∨ (y ∈ ys ∧ ∃ z, z ∈ ys ∧ env z l)

/-- Big-step execution relative to the set `C` of caller-owned locations, collecting the written locations; the last
    index says whether the statement completed (`true`) or was left by an exception (`false`).
    Every rule is an over-approximation of the Python/NumPy operation it stands for:
    a fresh array is not caller-owned; an alias reaches only what its sources reach (or non-caller arrays);
    a write through `x` hits only locations reachable through `x`; a call runs the callee's body in a frame
    in which only the parameters are bound, each to (part of) what its argument reaches, and afterwards the argument
    names may reach what the parameters reach (`Env.afterCall`).
    Abnormal termination: any statement may raise before doing anything (`abort`), an in-place operation or an
    operation without a rule may raise after writing part of what it may write, an exception in a callee, in the
    head of a sequence or in a loop body propagates; nothing is executed after it. -/
inductive Exec (C : Loc → Prop) (tbl : Table) : Stmt → Env → Env → (Loc → Prop) → Bool → Prop
  | fresh (x env) (P : Loc → Prop) (hP : ∀ l, P l → ¬ C l) :
      Exec C tbl (.fresh x) env (env.set x P) (fun _ => False) true
  | alias (x ys keep env) (P : Loc → Prop)
      (hP : ∀ l, P l → (∃ y, y ∈ ys ∧ env y l) ∨ (keep = true ∧ env x l) ∨ ¬ C l) :
      Exec C tbl (.alias x ys keep) env (env.set x P) (fun _ => False) true
  | unknown (x ys env) (P W : Loc → Prop)
      (hW : ∀ l, W l → ∃ y, y ∈ ys ∧ env y l)
      (hP : ∀ l, P l → (∃ y, y ∈ ys ∧ env y l) ∨ ¬ C l) :
      Exec C tbl (.unknown x ys) env ((env.afterUnknown ys).set x P) W true
  | write (x env) (W : Loc → Prop) (hW : ∀ l, W l → env x l) :
      Exec C tbl (.write x) env env W true
  | call (x f args env d) (envc envc' : Env) (wc : Loc → Prop) (hl : lookup tbl f = some d)
      (hbind : ∀ p l, envc p l → ∃ ys, (p, ys) ∈ d.params.zip args ∧ ∃ y, y ∈ ys ∧ env y l)
      (hb : Exec C tbl d.body envc envc' wc true) :
      Exec C tbl (.call x f args) env ((env.afterCall envc' d.params args).set x (envc' RET)) wc true
  | callUnknown (x f args env) (P W : Loc → Prop) (hl : lookup tbl f = none)
      (hW : ∀ l, W l → ∃ y, y ∈ args.flatten ∧ env y l)
      (hP : ∀ l, P l → (∃ y, y ∈ args.flatten ∧ env y l) ∨ ¬ C l) :
      Exec C tbl (.call x f args) env ((env.afterUnknown args.flatten).set x P) W true
  | seqNil (env) : Exec C tbl (.seq []) env env (fun _ => False) true
  | seqCons (s ss e1 e2 e3 w1 w2 fin) : Exec C tbl s e1 e2 w1 true → Exec C tbl (.seq ss) e2 e3 w2 fin →
      Exec C tbl (.seq (s :: ss)) e1 e3 (fun l => w1 l ∨ w2 l) fin
  | brL (a b e1 e2 w fin) : Exec C tbl a e1 e2 w fin → Exec C tbl (.branch a b) e1 e2 w fin
  | brR (a b e1 e2 w fin) : Exec C tbl b e1 e2 w fin → Exec C tbl (.branch a b) e1 e2 w fin
  | loop0 (b env) : Exec C tbl (.loop b) env env (fun _ => False) true
  | loopS (b e1 e2 e3 w1 w2 fin) : Exec C tbl b e1 e2 w1 true → Exec C tbl (.loop b) e2 e3 w2 fin →
      Exec C tbl (.loop b) e1 e3 (fun l => w1 l ∨ w2 l) fin
  -- abnormal termination
  | abort (s env) : Exec C tbl s env env (fun _ => False) false
  | writeAbort (x env) (W : Loc → Prop) (hW : ∀ l, W l → env x l) :
      Exec C tbl (.write x) env env W false
  | unknownAbort (x ys env) (W : Loc → Prop) (hW : ∀ l, W l → ∃ y, y ∈ ys ∧ env y l) :
      Exec C tbl (.unknown x ys) env (env.afterUnknown ys) W false
  | callAbort (x f args env d) (envc envc' : Env) (wc : Loc → Prop) (hl : lookup tbl f = some d)
      (hbind : ∀ p l, envc p l → ∃ ys, (p, ys) ∈ d.params.zip args ∧ ∃ y, y ∈ ys ∧ env y l)
      (hb : Exec C tbl d.body envc envc' wc false) :
      Exec C tbl (.call x f args) env (env.afterCall envc' d.params args) wc false
  | callUnknownAbort (x f args env) (W : Loc → Prop) (hl : lookup tbl f = none)
      (hW : ∀ l, W l → ∃ y, y ∈ args.flatten ∧ env y l) :
      Exec C tbl (.call x f args) env (env.afterUnknown args.flatten) W false
  | seqAbort (s ss e1 e2 w1) : Exec C tbl s e1 e2 w1 false → Exec C tbl (.seq (s :: ss)) e1 e2 w1 false
  | loopAbort (b e1 e2 w1) : Exec C tbl b e1 e2 w1 false → Exec C tbl (.loop b) e1 e2 w1 false

/-! ## the analysis

Taint sets are bit masks (`Nat`): bit `x` set = name `x` may reach a caller-owned array.  (The kernel evaluates
`Nat` bit operations natively, which keeps the generated `decide` obligations fast.) -/

abbrev TSet := Nat

def memN (x : Name) (T : TSet) : Bool := T.testBit x
def insertN (x : Name) (T : TSet) : TSet := T ||| 2 ^ x
def removeN (x : Name) (T : TSet) : TSet := if T.testBit x then T ^^^ 2 ^ x else T
def unionN (a b : TSet) : TSet := a ||| b
def anyIn (ys : List Name) (T : TSet) : Bool := ys.any (fun y => T.testBit y)
def subset (a b : TSet) : Bool := (a ||| b) == b
def maskOf : List Name → TSet
  | [] => 0
  | x :: xs => insertN x (maskOf xs)

def insertAll : List Name → TSet → TSet
  | [], T => T
  | y :: ys, T => insertAll ys (insertN y T)

/-- after a call: the names of every argument whose parameter is tainted when the callee exits (mask `Tc`) become
    tainted (the callee may have stored a caller-owned array into a container it was handed) -/
def taintBack (Tc : TSet) : List Name → List (List Name) → TSet → TSet
  | p :: ps, a :: as, T => taintBack Tc ps as (if memN p Tc then insertAll a T else T)
  | _, _, T => T

/-- parameters whose argument mentions a tainted name -/
def taintedParams (T : TSet) : List Name → List (List Name) → TSet
  | p :: ps, a :: as => if anyIn a T then insertN p (taintedParams T ps as) else taintedParams T ps as
  | _, _ => 0

/-- loop rule: grow the taint set until one more pass over the body adds nothing (at most `k` passes).
    `loopFix step k T = some inv` ⇒ `T ⊆ inv` and `inv` is inductive for the body (`step inv = some t'`, `t' ⊆ inv`). -/
def loopFix (step : TSet → Option TSet) : Nat → TSet → Option TSet
  | 0, _ => none
  | k + 1, T =>
    match step T with
    | some t' => if subset t' T then some T else loopFix step k (unionN T t')
    | none => none

/-- `analyze tbl fuel s T = some T'`: starting with taint set `T` (names that may reach a caller-owned array), no
    execution of `s` can write a caller-owned array, and `T'` over-approximates the taint afterwards.
    `none` = a write through a tainted name is possible, or an `unknown` operation receives a tainted name, or
    the fuel (term depth × call depth) ran out. -/
def analyze (tbl : Table) : Nat → Stmt → TSet → Option TSet
  | 0, _, _ => none
  | _ + 1, .fresh x, T => some (removeN x T)
  | _ + 1, .alias x ys keep, T =>
      if anyIn ys T then some (insertN x T) else if keep then some T else some (removeN x T)
  | _ + 1, .unknown x ys, T => if anyIn ys T then none else some (removeN x T)
  | _ + 1, .write x, T => if memN x T then none else some T
  | n + 1, .call x f args, T =>
      match lookup tbl f with
      | none => if anyIn args.flatten T then none else some (removeN x T)
      | some d =>
        if taintedParams T d.params args == 0 then some (removeN x T)
        else
          match analyze tbl n d.body (taintedParams T d.params args) with
          | some T' =>
            if memN RET T' then some (insertN x (taintBack T' d.params args T))
            else some (removeN x (taintBack T' d.params args T))
          | none => none
  | _ + 1, .seq [], T => some T
  | n + 1, .seq (s :: ss), T =>
      match analyze tbl n s T with
      | some t => analyze tbl n (.seq ss) t
      | none => none
  | n + 1, .branch a b, T =>
      match analyze tbl n a T, analyze tbl n b T with
      | some t1, some t2 => some (unionN t1 t2)
      | _, _ => none
  | n + 1, .loop b, T => loopFix (analyze tbl n b) 16 T

/-- drop the parameters at the positions listed in `k` -/
def dropAt (k : List Nat) : Nat → List Name → List Name
  | _, [] => []
  | i, p :: ps => if k.contains i then dropAt k (i + 1) ps else p :: dropAt k (i + 1) ps

/-- per-function obligation: with every parameter possibly bound to a caller's array, no write can reach one -/
def safe (tbl : Table) (fuel : Nat) (f : Nat) : Bool :=
  match lookup tbl f with
  | some d => (analyze tbl fuel d.body (maskOf d.params)).isSome
  | none => false

/-- obligation of the `copy=False` variants: only the parameters at positions `k` may be written -/
def safeExcept (tbl : Table) (fuel : Nat) (f : Nat) (k : List Nat) : Bool :=
  match lookup tbl f with
  | some d => (analyze tbl fuel d.body (maskOf (dropAt k 0 d.params))).isSome
  | none => false

end Bct.AliasIR
