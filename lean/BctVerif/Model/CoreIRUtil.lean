import BctVerif.Model.Thresh
import BctVerif.Model.Signed
/-!
# Source-extracted pure utilities: expression-level IR, interpreter, decidable checks (T-gen, C17 / C06)

`translate/cores.py` reads `bct/utils/other.py` (`threshold_absolute`, `binarize`, `normalize`, `invert`, `logtransform`)
and `bct/utils/miscellaneous_utilities.py` (`teachers_round`, `cuberoot`, `pick_four_unique_nodes_quickly`) with `ast` on
every check run and writes every statement of these functions as data into `BctVerif/Gen/CoresUtil.lean`, with one
obligation `utilOk ir = true := by decide` per function.

This file has the expression language (arithmetic, comparisons, `%`, `//`, `**`, `floor`/`ceil`, per-cell use of a matrix
name), the statement language (scalar bindings, a recorded `randint` draw, `if … return … else return …`, and the in-place
array statements `np.fill_diagonal`, `W[mask] = e`, `W /= np.max(…)`, `E = np.where(W); W[E] = e`, `W[...] = e`, the
`.any()` guard), a dynamically typed interpreter `runFn`, and `utilOk`, the only place that knows what the functions are
expected to contain.  `Props/CoresUtil.lean` proves that programs that pass compute exactly `Thresh.teachersRound`,
`Thresh.thresholdAbsolute`, `Thresh.binarize`, `Thresh.normalize`, `Thresh.invert`, `Signed.pickFour` (and, relative to
oracles for `-log` and `x ↦ x^(1/3)`, the guard of `logtransform` and `sign(x)·|x|^(1/3)`).

Core Lean only.
-/
namespace Bct.CoreIR.Util
open Bct

/-! ### dynamically typed scalars / cells -/

inductive SV
  | rat (q : Rat)
  | int (z : Int)
  | nat (k : Nat)
  | bool (b : Bool)
  /-- a non-finite float (`x / 0`, `log` of a non-positive number) -/
  | nan
  | err
  deriving DecidableEq

namespace SV
def toInt? : SV → Option Int
  | int z => some z
  | nat k => some (k : Int)
  | _ => none

def toRat? : SV → Option Rat
  | rat q => some q
  | int z => some (z : Rat)
  | nat k => some ((k : Nat) : Rat)
  | _ => none

def isNan : SV → Bool
  | nan => true
  | _ => false

/-- binary arithmetic with Python / NumPy promotion `nat → int → rat`; `nan` propagates -/
def arith (fN : Nat → Nat → SV) (fZ : Int → Int → SV) (fQ : Rat → Rat → SV) (a b : SV) : SV :=
  if a.isNan || b.isNan then nan else
  match a, b with
  | nat x, nat y => fN x y
  | _, _ =>
    match a.toInt?, b.toInt? with
    | some x, some y => fZ x y
    | _, _ =>
      match a.toRat?, b.toRat? with
      | some x, some y => fQ x y
      | _, _ => err

def add : SV → SV → SV := arith (fun x y => nat (x + y)) (fun x y => int (x + y)) (fun x y => rat (x + y))
def sub : SV → SV → SV := arith (fun x y => int ((x : Int) - y)) (fun x y => int (x - y)) (fun x y => rat (x - y))
def mul : SV → SV → SV := arith (fun x y => nat (x * y)) (fun x y => int (x * y)) (fun x y => rat (x * y))

/-- true division; a zero divisor gives a non-finite float -/
def div (a b : SV) : SV :=
  if a.isNan || b.isNan then nan else
  match a.toRat?, b.toRat? with
  | some x, some y => if y = 0 then nan else rat (x / y)
  | _, _ => err

/-- `a % b` (the result has the sign of the divisor; `x % 1 = x - floor x`) -/
def mod : SV → SV → SV :=
  arith (fun x y => if y = 0 then err else nat (x % y)) (fun x y => if y = 0 then err else int (Int.fmod x y))
    (fun x y => if y = 0 then nan else rat (x - y * ((x / y).floor : Int)))

/-- `a // b` -/
def fdiv : SV → SV → SV :=
  arith (fun x y => if y = 0 then err else nat (x / y)) (fun x y => if y = 0 then err else int (Int.fdiv x y))
    (fun x y => if y = 0 then nan else rat ((x / y).floor : Int))

/-- `a ** b`: natural powers exactly; the exponent `1/3` through the oracle `cb` (cube root of a non-negative rational) -/
def pow (cb : Rat → Option Rat) (a b : SV) : SV :=
  match a, b with
  | nat x, nat y => nat (x ^ y)
  | int x, nat y => int (x ^ y)
  | rat x, nat y => rat (x ^ y)
  | _, rat e =>
    if e = 1 / 3 then
      match a.toRat? with
      | some x => if 0 ≤ x then (match cb x with | some r => rat r | none => err) else nan
      | none => err
    else err
  | _, _ => err

def neg : SV → SV
  | rat q => rat (-q) | int z => int (-z) | nat k => int (-(k : Int)) | nan => nan | _ => err

def abs : SV → SV
  | rat q => rat (if q < 0 then -q else q) | int z => int (if z < 0 then -z else z) | nat k => nat k | nan => nan | _ => err

def sign : SV → SV
  | rat q => rat (if q < 0 then -1 else if q = 0 then 0 else 1)
  | int z => int (if z < 0 then -1 else if z = 0 then 0 else 1)
  | nat k => nat (if k = 0 then 0 else 1)
  | nan => nan
  | _ => err

/-- `int(np.floor(a))`, `int(np.ceil(a))` -/
def floorInt : SV → SV
  | rat q => int q.floor | int z => int z | nat k => int k | _ => err
def ceilInt : SV → SV
  | rat q => int q.ceil | int z => int z | nat k => int k | _ => err

/-- comparisons; anything compared with a non-finite float is false -/
def cmp (f : Rat → Rat → Bool) (a b : SV) : SV :=
  if a.isNan || b.isNan then bool false else
  match a.toRat?, b.toRat? with
  | some x, some y => bool (f x y)
  | _, _ => err

def lt : SV → SV → SV := cmp fun x y => decide (x < y)
def le : SV → SV → SV := cmp fun x y => decide (x ≤ y)
def eq : SV → SV → SV := cmp fun x y => decide (x = y)
def ne (a b : SV) : SV :=
  if a.isNan || b.isNan then bool true else
  match a.toRat?, b.toRat? with
  | some x, some y => bool (decide (x ≠ y))
  | _, _ => err

def and : SV → SV → SV
  | bool a, bool b => bool (a && b)
  | _, _ => err
def or : SV → SV → SV
  | bool a, bool b => bool (a || b)
  | _, _ => err

/-- `-np.log(a)` through an oracle on positive rationals (`none` = not representable); non-positive argument: non-finite -/
def negLog (nl : Rat → Option Rat) (a : SV) : SV :=
  match a.toRat? with
  | some x => if 0 < x then (match nl x with | some r => rat r | none => err) else nan
  | none => if a.isNan then nan else err
/-- the value a cell of a float array holds after an in-place store: NumPy casts to the array's dtype
(the matrices of the models are float arrays; storing into an integer array is not given a meaning here) -/
def store (old new : SV) : SV :=
  match old with
  | rat _ | nan =>
    (match new with
     | nan => nan
     | _ => match new.toRat? with
       | some q => rat q
       | none => err)
  | _ => err
end SV

/-! ### the expression and statement languages -/

inductive SEx
  /-- a scalar name; inside a per-cell context the name of the matrix denotes the cell -/
  | var (x : String)
  /-- a numeric literal with its exact value `num / den` (`0.5` is `1/2`, `1.` is `1`) -/
  | lit (num : Int) (den : Nat)
  /-- `W[E]` inside `W[E] = …` -/
  | at (w e : String)
  | add (a b : SEx) | sub (a b : SEx) | mul (a b : SEx) | div (a b : SEx)
  | mod (a b : SEx) | fdiv (a b : SEx) | pow (a b : SEx)
  | neg (a : SEx) | abs (a : SEx) | sign (a : SEx)
  | floorInt (a : SEx) | ceilInt (a : SEx)
  | lt (a b : SEx) | le (a b : SEx) | eq (a b : SEx) | ne (a b : SEx)
  | and (a b : SEx) | or (a b : SEx)
  | negLog (a : SEx)
  deriving DecidableEq, Repr

inductive Ret
  | expr (e : SEx)
  | tuple (es : List SEx)
  /-- `return f(args)` -/
  | retry (f : String) (args : List String)
  /-- `return W` for a matrix name -/
  | mat (w : String)
  deriving DecidableEq, Repr

inductive Stmt
  | bind (x : String) (e : SEx)
  /-- `x = get_rng(seed)` -/
  | bindRng (x seed : String)
  /-- `x = rng.randint(bound)` -/
  | draw (x rng : String) (bound : SEx)
  /-- `if c: return a else: return b` -/
  | ifRet (c : SEx) (a b : Ret)
  | ret (r : Ret)
  /-- `if flag: W = W.copy()` -/
  | ifCopy (flag w : String)
  /-- `if flag: W = W.astype(float) if W.dtype.kind in 'iub' else W.copy()` -/
  | ifCopyFloat (flag w : String)
  /-- `np.fill_diagonal(W, e)` -/
  | fillDiag (w : String) (e : SEx)
  /-- `W[c] = e` with `c`, `e` per-cell expressions -/
  | setMask (w : String) (c e : SEx)
  /-- `W /= np.max(e)` with `e` a per-cell expression -/
  | idivMax (w : String) (e : SEx)
  /-- `E = np.where(W)` -/
  | whereNZ (e w : String)
  /-- `W[E] = e` -/
  | setAt (w e : String) (v : SEx)
  /-- `if c.any(): raise exc(…)` with `c` a per-cell expression over the matrix `w` -/
  | raiseIfAny (w : String) (c : SEx) (exc : String)
  /-- `W[...] = e` -/
  | setAll (w : String) (e : SEx)
  deriving DecidableEq, Repr

structure FnIR where
  name : String
  recognised : Bool
  params : List String
  /-- default values of trailing parameters, as source text (`copy=True`, `seed=None`) -/
  defaults : List (String × String)
  /-- where every global name the function uses comes from (`translate/cores.py` resolves imports to definitions):
  `(name, "def <file>:<name>" | "class <file>:<name>" | "module <m>" | "builtin" | "from <file>:<name>")`, sorted by name -/
  origins : List (String × String)
  body : List Stmt
  deriving DecidableEq, Repr

/-! ### interpreter -/

inductive Obj (n : Nat)
  | sc (v : SV)
  | mat (M : AMat SV n)
  /-- `np.where(W)` of the matrix named `w`: the nonzero cells at the time of the call -/
  | cells (w : String) (cs : List (Fin n × Fin n))
  /-- the generator object / the seed argument it was made from -/
  | rng
  | seed

abbrev Env (n : Nat) := String → Option (Obj n)

variable {n : Nat}

def Env.set (E : Env n) (x : String) (o : Obj n) : Env n := fun y => if y = x then some o else E y

/-- the oracles: `-log` on positive rationals, cube root on non-negative rationals -/
structure Oracles where
  nl : Rat → Option Rat
  cb : Rat → Option Rat

/-- `cell = some (w, i, j, v)`: we are inside a per-cell context of the matrix named `w`, at cell `(i,j)` holding `v`;
`atCtx = some e`: … of the statement `w[e] = …` -/
def eval (o : Oracles) (E : Env n) (cell : Option (String × SV)) (atCtx : Option String) : SEx → SV
  | .var x =>
    match cell with
    | some (w, v) => if x = w then v else (match E x with | some (.sc s) => s | _ => .err)
    | none => match E x with
      | some (.sc s) => s
      | _ => .err
  | .lit num den =>
    if den = 1 then (if 0 ≤ num then .nat num.toNat else .int num) else if den = 0 then .err else .rat (mkRat num den)
  | .at w e =>
    match cell, atCtx with
    | some (w', v), some e' => if w = w' ∧ e = e' then v else .err
    | _, _ => .err
  | .add a b => SV.add (eval o E cell atCtx a) (eval o E cell atCtx b)
  | .sub a b => SV.sub (eval o E cell atCtx a) (eval o E cell atCtx b)
  | .mul a b => SV.mul (eval o E cell atCtx a) (eval o E cell atCtx b)
  | .div a b => SV.div (eval o E cell atCtx a) (eval o E cell atCtx b)
  | .mod a b => SV.mod (eval o E cell atCtx a) (eval o E cell atCtx b)
  | .fdiv a b => SV.fdiv (eval o E cell atCtx a) (eval o E cell atCtx b)
  | .pow a b => SV.pow o.cb (eval o E cell atCtx a) (eval o E cell atCtx b)
  | .neg a => SV.neg (eval o E cell atCtx a)
  | .abs a => SV.abs (eval o E cell atCtx a)
  | .sign a => SV.sign (eval o E cell atCtx a)
  | .floorInt a => SV.floorInt (eval o E cell atCtx a)
  | .ceilInt a => SV.ceilInt (eval o E cell atCtx a)
  | .lt a b => SV.lt (eval o E cell atCtx a) (eval o E cell atCtx b)
  | .le a b => SV.le (eval o E cell atCtx a) (eval o E cell atCtx b)
  | .eq a b => SV.eq (eval o E cell atCtx a) (eval o E cell atCtx b)
  | .ne a b => SV.ne (eval o E cell atCtx a) (eval o E cell atCtx b)
  | .and a b => SV.and (eval o E cell atCtx a) (eval o E cell atCtx b)
  | .or a b => SV.or (eval o E cell atCtx a) (eval o E cell atCtx b)
  | .negLog a => SV.negLog o.nl (eval o E cell atCtx a)

/-- what a call ends with -/
inductive Outcome (n : Nat)
  | vals (vs : List SV) (rest : List Nat)
  | mat (M : AMat SV n)
  /-- the function calls itself with the same size and the same generator -/
  | retry (rest : List Nat)
  | raise (exc : String)
  /-- the recorded draw list is exhausted / holds a value `randint` cannot return -/
  | outOfDraws
  | badDraw
  /-- NameError / TypeError / a shape the interpreter does not give meaning to -/
  | stuck

structure St (n : Nat) where
  E : Env n
  draws : List Nat

def cellsOf (n : Nat) : List (Fin n × Fin n) :=
  (List.finRange n).flatMap fun i => (List.finRange n).map fun j => (i, j)

/-- `np.max` of a non-empty list of finite cells -/
def maxStep (m y : SV) : SV :=
  match SV.lt m y with
  | .bool true => y
  | .bool false => m
  | _ => .err

def maxCells : List SV → SV
  | [] => .err
  | x :: xs => xs.foldl maxStep x

def doRet (o : Oracles) (self : String) (params : List String) (s : St n) : Ret → Outcome n
  | .expr e => .vals [eval o s.E none none e] s.draws
  | .tuple es => .vals (es.map (eval o s.E none none)) s.draws
  | .mat w => match s.E w with
    | some (.mat M) => .mat M
    | _ => .stuck
  | .retry f args =>
    -- a call of the function itself that passes the size parameter unchanged and the generator made from the seed parameter
    match params, args with
    | [p1, p2], [a1, a2] =>
      if f = self ∧ a1 = p1 then
        match s.E a2, s.E p2 with
        | some .rng, some .seed => .retry s.draws
        | _, _ => .stuck
      else .stuck
    | _, _ => .stuck

/-- one statement: either a new state or the end of the call -/
def exec (o : Oracles) (self : String) (params : List String) (s : St n) : Stmt → Sum (St n) (Outcome n)
  | .bind x e => .inl { s with E := s.E.set x (.sc (eval o s.E none none e)) }
  | .bindRng x seed =>
    match s.E seed with
    | some .seed => .inl { s with E := s.E.set x .rng }
    | some .rng => .inl { s with E := s.E.set x .rng }
    | _ => .inr .stuck
  | .draw x rng bound =>
    match s.E rng, eval o s.E none none bound with
    | some .rng, .nat b =>
      (match s.draws with
      | [] => .inr .outOfDraws
      | d :: rest =>
        if b = 0 then .inr (.raise "ValueError")
        else if d < b then .inl { E := s.E.set x (.sc (.nat d)), draws := rest } else .inr .badDraw)
    | _, _ => .inr .stuck
  | .ifRet c a b =>
    match eval o s.E none none c with
    | .bool true => .inr (doRet o self params s a)
    | .bool false => .inr (doRet o self params s b)
    | _ => .inr .stuck
  | .ret r => .inr (doRet o self params s r)
  | .ifCopy flag w =>
    match s.E flag, s.E w with
    | some (.sc (.bool _)), some (.mat _) => .inl s
    | _, _ => .inr .stuck
  | .ifCopyFloat flag w =>
    match s.E flag, s.E w with
    | some (.sc (.bool _)), some (.mat _) => .inl s
    | _, _ => .inr .stuck
  | .fillDiag w e =>
    match s.E w with
    | some (.mat M) =>
      .inl { s with E := s.E.set w (.mat (AMat.ofFn fun i j => if i = j then (M.get i j).store (eval o s.E none none e) else M.get i j)) }
    | _ => .inr .stuck
  | .setMask w c e =>
    match s.E w with
    | some (.mat M) =>
      .inl { s with E := s.E.set w (.mat (AMat.ofFn fun i j =>
        match eval o s.E (some (w, M.get i j)) none c with
        | .bool true => (M.get i j).store (eval o s.E (some (w, M.get i j)) none e)
        | .bool false => M.get i j
        | _ => .err)) }
    | _ => .inr .stuck
  | .idivMax w e =>
    match s.E w with
    | some (.mat M) =>
      let m := maxCells ((cellsOf n).map fun c => eval o s.E (some (w, M.get c.1 c.2)) none e)
      .inl { s with E := s.E.set w (.mat (M.map fun x => x.store (SV.div x m))) }
    | _ => .inr .stuck
  | .whereNZ e w =>
    match s.E w with
    | some (.mat M) => .inl { s with E := s.E.set e (.cells w ((cellsOf n).filter fun c => SV.ne (M.get c.1 c.2) (.nat 0) == .bool true)) }
    | _ => .inr .stuck
  | .setAt w e v =>
    match s.E w, s.E e with
    | some (.mat M), some (.cells w' cs) =>
      if w' = w then
        .inl { s with E := s.E.set w (.mat (AMat.ofFn fun i j =>
          if cs.contains (i, j) then (M.get i j).store (eval o s.E (some (w, M.get i j)) (some e) v) else M.get i j)) }
      else .inr .stuck
    | _, _ => .inr .stuck
  | .raiseIfAny w c exc =>
    match s.E w with
    | some (.mat M) =>
      let flags := (cellsOf n).map fun cl => eval o s.E (some (w, M.get cl.1 cl.2)) none c
      if flags.all fun f => match f with | .bool _ => true | _ => false then
        if flags.any fun f => f == .bool true then .inr (.raise exc) else .inl s
      else .inr .stuck
    | _ => .inr .stuck
  | .setAll w e =>
    match s.E w with
    | some (.mat M) =>
      .inl { s with E := s.E.set w (.mat (AMat.ofFn fun i j => (M.get i j).store (eval o s.E (some (w, M.get i j)) none e))) }
    | _ => .inr .stuck

/-- falling off the end of the body returns `None`: no result the models know -/
def execs (o : Oracles) (self : String) (params : List String) : List Stmt → St n → Outcome n
  | [], _ => .stuck
  | st :: rest, s =>
    match exec o self params s st with
    | .inl s' => execs o self params rest s'
    | .inr out => out

def bindAll (E : Env n) : List String → List (Obj n) → Option (Env n)
  | [], [] => some E
  | x :: xs, a :: as => bindAll (E.set x a) xs as
  | _, _ => none

/-- one call of the function on the given argument objects and recorded draws -/
def runFn (o : Oracles) (ir : FnIR) (args : List (Obj n)) (draws : List Nat) : Outcome n :=
  match bindAll (fun _ => none) ir.params args with
  | some E => execs o ir.name ir.params ir.body { E := E, draws := draws }
  | none => .stuck

/-- `pick_four_unique_nodes_quickly(n, seed)` with its recursive retries, on the recorded draws -/
def runPick (o : Oracles) (ir : FnIR) (n : Nat) : Nat → List Nat → Except Err (Signed.Quad n × List Nat)
  | 0, _ => .error .outOfDraws
  | fuel + 1, ds =>
    match runFn (n := 0) o ir [.sc (.nat n), .seed] ds with
    | .vals [.nat a, .nat b, .nat c, .nat d] rest =>
      if h : a < n ∧ b < n ∧ c < n ∧ d < n then .ok ((⟨a, h.1⟩, ⟨b, h.2.1⟩, ⟨c, h.2.2.1⟩, ⟨d, h.2.2.2⟩), rest)
      else .error .index
    | .retry rest => runPick o ir n fuel rest
    | .outOfDraws => .error .outOfDraws
    | .badDraw => .error .badDraw
    | .raise _ => .error .param
    | _ => .error .protocol

/-! ### what the functions are expected to contain -/

def half : SEx := .lit 1 2
def zero : SEx := .lit 0 1
def one : SEx := .lit 1 1

def refTeachersRound : FnIR :=
  { name := "teachers_round", recognised := true, params := ["x"], defaults := [], origins := [("int", "builtin"), ("np", "module numpy")],
    body := [ .ifRet (.or (.and (.lt zero (.var "x")) (.le half (.mod (.var "x") one)))
                          (.and (.lt (.var "x") zero) (.lt half (.mod (.var "x") one))))
                (.expr (.ceilInt (.var "x"))) (.expr (.floorInt (.var "x"))) ] }

def refThresholdAbsolute : FnIR :=
  { name := "threshold_absolute", recognised := true, params := ["W", "thr", "copy"], defaults := [("copy", "True")], origins := [("np", "module numpy")],
    body := [ .ifCopy "copy" "W", .fillDiag "W" zero, .setMask "W" (.lt (.var "W") (.var "thr")) zero, .ret (.mat "W") ] }

def refBinarize : FnIR :=
  { name := "binarize", recognised := true, params := ["W", "copy"], defaults := [("copy", "True")], origins := [],
    body := [ .ifCopy "copy" "W", .setMask "W" (.ne (.var "W") zero) one, .ret (.mat "W") ] }

def refNormalize : FnIR :=
  { name := "normalize", recognised := true, params := ["W", "copy"], defaults := [("copy", "True")], origins := [("np", "module numpy")],
    body := [ .ifCopy "copy" "W", .idivMax "W" (.abs (.var "W")), .ret (.mat "W") ] }

def refInvert : FnIR :=
  { name := "invert", recognised := true, params := ["W", "copy"], defaults := [("copy", "True")], origins := [("float", "builtin"), ("np", "module numpy")],
    body := [ .ifCopyFloat "copy" "W", .whereNZ "E" "W", .setAt "W" "E" (.div one (.at "W" "E")), .ret (.mat "W") ] }

def refLogtransform : FnIR :=
  { name := "logtransform", recognised := true, params := ["W", "copy"], defaults := [("copy", "True")],
    origins := [("ValueError", "builtin"), ("np", "module numpy")],
    body := [ .ifCopy "copy" "W",
              .raiseIfAny "W" (.or (.lt one (.var "W")) (.le (.var "W") zero)) "ValueError",
              .setAll "W" (.negLog (.var "W")), .ret (.mat "W") ] }

def refCuberoot : FnIR :=
  { name := "cuberoot", recognised := true, params := ["x"], defaults := [], origins := [("np", "module numpy")],
    body := [ .ret (.expr (.mul (.sign (.var "x")) (.pow (.abs (.var "x")) (.div one (.lit 3 1))))) ] }

def nv : SEx := .var "n"
def kv : SEx := .var "k"
def neq (a b : String) : SEx := .ne (.var a) (.var b)

def refPickFour : FnIR :=
  { name := "pick_four_unique_nodes_quickly", recognised := true, params := ["n", "seed"], defaults := [("seed", "None")],
    origins := [("get_rng", "def bct/utils/miscellaneous_utilities.py:get_rng"),
                ("pick_four_unique_nodes_quickly", "def bct/utils/miscellaneous_utilities.py:pick_four_unique_nodes_quickly")],
    body := [ .bindRng "rng" "seed",
              .draw "k" "rng" (.pow nv (.lit 4 1)),
              .bind "a" (.mod kv nv),
              .bind "b" (.mod (.fdiv kv nv) nv),
              .bind "c" (.mod (.fdiv kv (.pow nv (.lit 2 1))) nv),
              .bind "d" (.mod (.fdiv kv (.pow nv (.lit 3 1))) nv),
              .ifRet (.and (.and (.and (.and (.and (neq "a" "b") (neq "a" "c")) (neq "a" "d")) (neq "b" "c")) (neq "b" "d")) (neq "c" "d"))
                (.tuple [.var "a", .var "b", .var "c", .var "d"]) (.retry "pick_four_unique_nodes_quickly" ["n", "rng"]) ] }

def refFns : List FnIR :=
  [refTeachersRound, refThresholdAbsolute, refBinarize, refNormalize, refInvert, refLogtransform, refCuberoot, refPickFour]

/-! ### primitives of the IR that are bct functions: a structural fingerprint of their definition

`bindRng` gives `rng = get_rng(seed)` the meaning "the generator made from the seed argument; a generator passed as seed is
returned unchanged" (that is what lets the recursive retry of `pick_four_unique_nodes_quickly` continue the same stream).
`get_rng` itself is not interpreted: `translate/cores.py` resolves the name to its definition and emits the normalised source
(`ast.unparse`, docstring and comments dropped) of that definition, which must be the text the meaning above was read from. -/

structure Prim where
  name : String
  /-- `"def <file>:<name>"` of the definition the name resolves to -/
  origin : String
  /-- the parameter list as source text -/
  params : String
  /-- the statements of the body as normalised source text, one entry per line -/
  src : List String
  /-- where its own global names come from -/
  origins : List (String × String)
  deriving DecidableEq, Repr

def refGetRng : Prim :=
  { name := "get_rng", origin := "def bct/utils/miscellaneous_utilities.py:get_rng", params := "seed=None",
    src := ["if seed is None or seed == np.random:",
            "    return np.random.mtrand._rand",
            "elif isinstance(seed, np.random.RandomState):",
            "    return seed",
            "try:",
            "    rstate = np.random.RandomState(seed)",
            "except ValueError:",
            "    rstate = np.random.RandomState(random.Random(seed).randint(0, 2 ** 32 - 1))",
            "return rstate"],
    origins := [("ValueError", "builtin"), ("isinstance", "builtin"), ("np", "module numpy"), ("random", "module random")] }

def primOk (p : Prim) : Bool := p == refGetRng

/-- the decidable obligation generated per function: the extracted value is the expected program of that name -/
def utilOk (ir : FnIR) : Bool := refFns.any fun r => r.name == ir.name && ir == r

/-! ### `weight_conversion`: a dispatch on a string argument to other extracted utilities -/

/-- `if <arg> == <lit>: return <callee>(<args>)` -/
structure DArm where
  lit : String
  callee : String
  args : List String
  deriving DecidableEq, Repr

structure DispatchIR where
  name : String
  recognised : Bool
  params : List String
  defaults : List (String × String)
  origins : List (String × String)
  /-- the parameter every test compares -/
  arg : String
  arms : List DArm
  /-- the exception raised when no test holds -/
  elseExc : String
  deriving DecidableEq, Repr

/-- the routine on `(W, wcm, copy)`: the first arm whose literal equals `wcm` calls its callee (looked up in the table of
extracted utilities by name) on the named arguments -/
def runDispatch (o : Oracles) (tbl : List FnIR) (ir : DispatchIR) (W : AMat SV n) (wcm : String) (copy : Bool) (draws : List Nat) :
    Outcome n :=
  match ir.params with
  | [pW, pS, pC] =>
    if ir.arg = pS ∧ pW ≠ pS ∧ pW ≠ pC ∧ pS ≠ pC then
      match ir.arms.find? (fun a => a.lit == wcm) with
      | some a =>
        match tbl.find? (fun f => f.name == a.callee) with
        | some f =>
          -- arguments are passed positionally; only the matrix and the copy flag can be passed on
          if a.args.all (fun x => x == pW || x == pC) then
            runFn o f (a.args.map fun x => if x = pW then Obj.mat W else Obj.sc (.bool copy)) draws
          else .stuck
        | none => .stuck
      | none => .raise ir.elseExc
    else .stuck
  | _ => .stuck

def refWeightConversion : DispatchIR :=
  { name := "weight_conversion", recognised := true, params := ["W", "wcm", "copy"], defaults := [("copy", "True")],
    origins := [("NotImplementedError", "builtin"), ("binarize", "def bct/utils/other.py:binarize"),
                ("invert", "def bct/utils/other.py:invert"), ("normalize", "def bct/utils/other.py:normalize")],
    arg := "wcm",
    arms := [⟨"binarize", "binarize", ["W", "copy"]⟩, ⟨"normalize", "normalize", ["W", "copy"]⟩, ⟨"lengths", "invert", ["W", "copy"]⟩],
    elseExc := "NotImplementedError" }

def dispatchOk (ir : DispatchIR) : Bool := ir == refWeightConversion

end Bct.CoreIR.Util
