import BctVerif.Model.Basic
/-!
# Executable model of the random-walk and spectral measures (property C18)

Routines modelled (exact arithmetic over core `Rat` / `Int`, no Mathlib):

Weighted inputs are rational matrices (`QMat n`); the driver receives integer numerators and one common
denominator `den=` (`scaleQ`).

* `mean_first_passage_time` (distance.py) : `P = D⁻¹A`, stationary `w`, `Z = (I − P + 1wᵀ)⁻¹`,
  `M i j = (Z j j − Z i j) / w j`.
* `diffusion_efficiency` (efficiency.py) : elementwise inverse of `M` off the diagonal and its mean.
* `pagerank_centrality` (centrality.py) : `B = I − d·A·D1`, `b = (1−d)·f/Σf`, `r = B⁻¹b`, `r / Σr`.
* `findwalks` (distance.py) : slice 0 = 0, slice 1 = C, slice q = (slice q−1)·C.
* `subgraph_centrality` (centrality.py) : the diagonal of `Σ_{m<T} A^m/m!` together with an explicit
  bound of the tail of the exponential series.
* `eigenvector_centrality_und` : the eigen-solver is an *oracle*; `eigPost` is the code after the call
  (`argmax`, `abs`), and `eigCert` certifies a vector handed to it (norm, minimum, Rayleigh quotient,
  residual, Collatz–Wielandt bounds), exactly.  `subPost` is `dot(vecs*vecs, exp(vals))` after `eigh`.

LAPACK (`eig`, `eigh`, `inv`, `solve`) is outside the model: the linear systems are solved by exact
Gauss–Jordan elimination and **every solution is re-checked by the model itself** (`isInvOf`,
`solves`, `stationary`): if a check fails the model returns the explicit error `cert`, never a
default.  The theorems of `Props/C18.lean` are therefore about every `ok` output of the model and do
not depend on the correctness of the elimination.
-/
namespace Bct.Walks
open Bct

inductive WErr | singular | cert | index | zerodiv | terms | protocol
  deriving Repr, DecidableEq

def WErr.str : WErr → String
  | .singular => "singular" | .cert => "cert" | .index => "IndexError"
  | .zerodiv => "zerodiv" | .terms => "terms" | .protocol => "protocol"

abbrev QMat (n : Nat) := AMat Rat n
abbrev QVec (n : Nat) := Vector Rat n

/-- `Σ_{k : Fin n} f k` as a list sum (core only); `Fin.sum_univ_def` turns it into a `Finset` sum -/
def fsum {n : Nat} (f : Fin n → Rat) : Rat := ((List.finRange n).map f).sum
def isum {n : Nat} (f : Fin n → Int) : Int := ((List.finRange n).map f).sum

def allFin (n : Nat) (p : Fin n → Bool) : Bool := (List.finRange n).all p
def anyFin (n : Nat) (p : Fin n → Bool) : Bool := (List.finRange n).any p

def delta {n : Nat} (i j : Fin n) : Rat := if i = j then 1 else 0

def toQ {n : Nat} (A : AMat Int n) : QMat n := AMat.map (fun (x : Int) => (x : Rat)) A

/-- weighted input `A / den` (the harness sends numerators and one common denominator) -/
def scaleQ {n : Nat} (A : AMat Int n) (den : Nat) : QMat n := AMat.ofFn fun i j => (A.get i j : Rat) / (den : Rat)

/-! ## exact Gauss–Jordan elimination on an augmented matrix `[A | B]` -/

abbrev Aug (n m : Nat) := Vector (Vector Rat (n + m)) n

/-- eliminate column `c`: pivot = first row `r ≥ c` with a non-zero entry -/
def elimCol {n m : Nat} (M : Aug n m) (c : Fin n) : Option (Aug n m) := do
  let cc : Fin (n + m) := Fin.castAdd m c
  let p ← (List.finRange n).find? fun r => decide (c.val ≤ r.val) && (M[r][cc] != 0)
  let rowp := M[p]
  let rowc := M[c]
  let M1 := (M.set p rowc).set c rowp
  let piv := rowp[cc]
  let prow : Vector Rat (n + m) := rowp.map (· / piv)
  some (Vector.ofFn fun r => if r = c then prow else
    let f := M1[r][cc]
    Vector.ofFn fun j => M1[r][j] - f * prow[j])

/-- solve `A X = B` (`B` has `m` columns); `none` when a pivot is missing -/
def solveGJ {n m : Nat} (A : QMat n) (B : Vector (Vector Rat m) n) : Option (Vector (Vector Rat m) n) := do
  let aug : Aug n m := Vector.ofFn fun i => A[i] ++ B[i]
  let R ← (List.finRange n).foldlM elimCol aug
  some (Vector.ofFn fun i => Vector.ofFn fun j => R[i][Fin.natAdd n j])

def idMat (n : Nat) : QMat n := AMat.ofFn fun i j => delta i j

def inverseGJ {n : Nat} (A : QMat n) : Option (QMat n) := solveGJ A (idMat n)

def solveVec {n : Nat} (A : QMat n) (b : QVec n) : Option (QVec n) := do
  let X ← solveGJ (m := 1) A (Vector.ofFn fun i => Vector.ofFn fun _ => b[i])
  some (Vector.ofFn fun i => X[i][(0 : Fin 1)])

/-! ## certificates (decidable, re-checked on every run) -/

/-- `A · Z = I` -/
def isInvOf {n : Nat} (A Z : QMat n) : Bool :=
  allFin n fun i => allFin n fun j => fsum (fun k => A.get i k * Z.get k j) == delta i j

/-- `A · x = b` -/
def solves {n : Nat} (A : QMat n) (x b : QVec n) : Bool :=
  allFin n fun i => fsum (fun k => A.get i k * x[k]) == b[i]

/-- `wᵀ P = wᵀ` and `Σ w = 1` -/
def stationary {n : Nat} (P : QMat n) (w : QVec n) : Bool :=
  (allFin n fun j => fsum (fun k => w[k] * P.get k j) == w[j]) && (fsum (fun k : Fin n => w[k]) == 1)

/-! ## mean first passage time -/

def rowSum {n : Nat} (A : QMat n) (i : Fin n) : Rat := fsum fun j => A.get i j

/-- `P = solve(diag(sum(A, axis=1)), A)` -/
def transition {n : Nat} (W : QMat n) : QMat n :=
  AMat.ofFn fun i j => W.get i j / rowSum W i

/-- `I − P + W`, `W = repeat(w, n, 0)` -/
def fundArg {n : Nat} (P : QMat n) (w : QVec n) : QMat n :=
  AMat.ofFn fun i j => delta i j - P.get i j + w[j]

structure MfptOut (n : Nat) where
  P : QMat n
  w : QVec n
  Z : QMat n
  M : QMat n

/-- The stationary vector is obtained from `(I − P + 11ᵀ)ᵀ w = 1` (for an irreducible chain this has
the stationary distribution as unique solution) instead of an eigen-solver, and is then certified. -/
def mfpt {n : Nat} (W : QMat n) : Except WErr (MfptOut n) :=
  if anyFin n fun i => rowSum W i == 0 then .error .singular else
  let P := transition W
  let C : QMat n := AMat.ofFn fun i j => delta i j - P.get j i + 1
  match solveVec C (Vector.ofFn fun _ => 1) with
  | none => .error .singular
  | some w =>
    if !stationary P w then .error .cert else
    if anyFin n fun j => w[j] == 0 then .error .singular else
    match inverseGJ (fundArg P w) with
    | none => .error .singular
    | some Z =>
      if !isInvOf (fundArg P w) Z then .error .cert else
      .ok { P := P, w := w, Z := Z, M := AMat.ofFn fun i j => (Z.get j j - Z.get i j) / w[j] }

/-! ## diffusion efficiency -/

structure DiffOut (n : Nat) where
  M : QMat n
  E : QMat n
  g : Rat

def diffEff {n : Nat} (W : QMat n) : Except WErr (DiffOut n) :=
  match mfpt W with
  | .error e => .error e
  | .ok o =>
    if anyFin n fun i => anyFin n fun j => i != j && o.M.get i j == 0 then .error .zerodiv else
    if n < 2 then .error .zerodiv else
    let E : QMat n := AMat.ofFn fun i j => if i = j then 0 else 1 / o.M.get i j
    .ok { M := o.M, E := E, g := fsum (fun i => fsum fun j => E.get i j) / ((n : Rat) * n - n) }

/-! ## PageRank -/

/-- `deg = sum(A, axis=0); deg[deg == 0] = 1` -/
def colDeg {n : Nat} (W : QMat n) (j : Fin n) : Rat :=
  let s := fsum fun i => W.get i j
  if s = 0 then 1 else s

/-- `B = eye(N) − d · A · diag(1/deg)` -/
def prMat {n : Nat} (W : QMat n) (d : Rat) : QMat n :=
  AMat.ofFn fun i j => delta i j - d * (W.get i j / colDeg W j)

/-- `falff / sum(falff)`, or the uniform prior -/
def prior {n : Nat} (f : Option (Vector Int n)) : Except WErr (QVec n) :=
  match f with
  | none => if n = 0 then .error .zerodiv else .ok (Vector.ofFn fun _ => 1 / (n : Rat))
  | some f =>
    let s := fsum fun i : Fin n => (f[i] : Rat)
    if s = 0 then .error .zerodiv else .ok (Vector.ofFn fun i => (f[i] : Rat) / s)

structure PrOut (n : Nat) where
  f : QVec n      -- normalised prior
  r0 : QVec n     -- solution of the linear system
  r : QVec n      -- r0 / Σ r0

def pagerank {n : Nat} (A : QMat n) (d : Rat) (f : Option (Vector Int n)) : Except WErr (PrOut n) :=
  match prior f with
  | .error e => .error e
  | .ok nf =>
    let b : QVec n := Vector.ofFn fun i => (1 - d) * nf[i]
    match solveVec (prMat A d) b with
    | none => .error .singular
    | some r0 =>
      if !solves (prMat A d) r0 b then .error .cert else
      let s := fsum fun i : Fin n => r0[i]
      if s = 0 then .error .zerodiv else
      .ok { f := nf, r0 := r0, r := Vector.ofFn fun i => r0[i] / s }

/-! ## findwalks -/

def binarize {n : Nat} (A : AMat Int n) : AMat Int n := AMat.map (fun (x : Int) => if x = 0 then (0 : Int) else 1) A

def mulI {n : Nat} (A B : AMat Int n) : AMat Int n :=
  AMat.ofFn fun i j => isum fun k => A.get i k * B.get k j

def zeroI (n : Nat) : AMat Int n := AMat.ofFn fun _ _ => 0

/-- `for q in range(2, n): CIJpwr = dot(CIJpwr, CIJ); Wq[:, :, q] = CIJpwr` -/
def walkLoop {n : Nat} (C : AMat Int n) : Nat → AMat Int n → List (AMat Int n)
  | 0, _ => []
  | k + 1, P => let P' := mulI P C; P' :: walkLoop C k P'

/-- the `n` slices `Wq[:, :, 0..n-1]`; `Wq[:, :, 1] = CIJ` raises `IndexError` for `n < 2` -/
def findwalks {n : Nat} (A : AMat Int n) : Except WErr (List (AMat Int n)) :=
  if n < 2 then .error .index else
  let C := binarize A
  .ok (zeroI n :: C :: walkLoop C (n - 2) C)

def matTotal {n : Nat} (A : AMat Int n) : Int := isum fun i => isum fun j => A.get i j

/-! ## subgraph centrality: truncated exponential series -/

def fact : Nat → Nat
  | 0 => 1
  | k + 1 => (k + 1) * fact k

def idI (n : Nat) : AMat Int n := AMat.ofFn fun i j => if i = j then 1 else 0

/-- `A^m` by repeated right multiplication -/
def powI {n : Nat} (A : AMat Int n) : Nat → AMat Int n
  | 0 => idI n
  | m + 1 => mulI (powI A m) A

/-- `Σ_{m<T} (A^m) i i / m!`, accumulating the powers -/
def expDiagLoop {n : Nat} (A : AMat Int n) : (T : Nat) → (m : Nat) → AMat Int n → QVec n → QVec n
  | 0, _, _, acc => acc
  | T + 1, m, P, acc =>
    expDiagLoop A T (m + 1) (mulI P A) (Vector.ofFn fun i => acc[i] + (P.get i i : Rat) / (fact m : Rat))

def expDiag {n : Nat} (A : AMat Int n) (T : Nat) : QVec n :=
  expDiagLoop A T 0 (idI n) (Vector.ofFn fun _ => 0)

/-- maximal absolute row sum `‖A‖∞` -/
def infNorm {n : Nat} (A : AMat Int n) : Nat :=
  (List.finRange n).foldl (fun acc i => max acc (((List.finRange n).map fun j => (A.get i j).natAbs).sum)) 0

/-- `ρ^T/T! · (T+1)/(T+1−ρ)  ≥  Σ_{m≥T} ρ^m/m!` for `ρ < T+1` -/
def expTail (rho T : Nat) : Except WErr Rat :=
  if rho < T + 1 then .ok (((rho ^ T : Nat) : Rat) / (fact T : Rat) * ((T + 1 : Nat) : Rat) / ((T + 1 - rho : Nat) : Rat))
  else .error .terms

/-! ## eigenvector centrality: certification of an oracle vector -/

structure EigCert where
  nrm2 : Rat                  -- vᵀv
  vmin : Rat                  -- min v
  ray : Rat                   -- vᵀAv / vᵀv
  res2 : Rat                  -- ‖Av − ray·v‖²
  bounds : Option (Rat × Rat) -- min/max of (Av)_i / v_i when v > 0 (Collatz–Wielandt)

def mulVecQ {n : Nat} (A : AMat Int n) (v : QVec n) (i : Fin n) : Rat := fsum fun k => (A.get i k : Rat) * v[k]

def listMin : List Rat → Rat → Rat := fun l x => l.foldl (fun a b => if b < a then b else a) x
def listMax : List Rat → Rat → Rat := fun l x => l.foldl (fun a b => if a < b then b else a) x

def eigCert {n : Nat} (A : AMat Int n) (v : QVec n) : Except WErr EigCert :=
  match List.finRange n with
  | [] => .error .index
  | i0 :: rest =>
    let nrm2 := fsum fun i : Fin n => v[i] * v[i]
    if nrm2 = 0 then .error .zerodiv else
    let ray := (fsum fun i => v[i] * mulVecQ A v i) / nrm2
    let res2 := fsum fun i => (mulVecQ A v i - ray * v[i]) * (mulVecQ A v i - ray * v[i])
    let vmin := listMin (rest.map fun i => v[i]) v[i0]
    let bounds := if 0 < vmin then
        let q : Fin n → Rat := fun i => mulVecQ A v i / v[i]
        some (listMin (rest.map q) (q i0), listMax (rest.map q) (q i0))
      else none
    .ok { nrm2, vmin, ray, res2, bounds }

/-! ## post-processing of the eigen-solver output, as coded (the decomposition itself is an oracle input) -/

def qabs (a : Rat) : Rat := if a < 0 then -a else a

/-- `np.argmax(vals)`: scan left to right, replace the current best only by a strictly larger value -/
def argmaxFrom {n : Nat} (vals : QVec n) : List (Fin n) → Fin n → Fin n
  | [], b => b
  | k :: l, b => argmaxFrom vals l (if vals[b] < vals[k] then k else b)

/-- `eigenvector_centrality_und` after `vals, vecs = linalg.eig(CIJ)`: `i = argmax(vals); abs(vecs[:, i])` -/
def eigPost {n : Nat} (vals : QVec n) (vecs : QMat n) : Except WErr (Fin n × QVec n) :=
  match List.finRange n with
  | [] => .error .index
  | i0 :: rest =>
    let i := argmaxFrom vals rest i0
    .ok (i, Vector.ofFn fun r => qabs (vecs.get r i))

/-- `subgraph_centrality` after `vals, vecs = linalg.eigh(CIJ)` and `ev = np.exp(vals)` (libm is an oracle too):
`np.dot(vecs * vecs, ev)` -/
def subPost {n : Nat} (vecs : QMat n) (ev : QVec n) : QVec n :=
  Vector.ofFn fun i => fsum fun k => vecs.get i k * vecs.get i k * ev[k]

/-! ## driver -/

def showRat (q : Rat) : String := if q.den == 1 then toString q.num else s!"{q.num}/{q.den}"
def showQVec {n : Nat} (v : QVec n) : String := ",".intercalate (v.toList.map showRat)
def showQMat {n : Nat} (A : QMat n) : String :=
  ",".intercalate ((List.finRange n).flatMap fun i => (List.finRange n).map fun j => showRat (A.get i j))

def parseRat (s : String) : Option Rat :=
  match s.splitOn "/" with
  | [p] => do let a ← p.toInt?; some (a : Rat)
  | [p, q] => do
    let a ← p.toInt?
    let b ← q.toNat?
    if b = 0 then none else some ((a : Rat) / (b : Rat))
  | _ => none

def parseQVec (n : Nat) (s : String) : Option (QVec n) := do
  let xs ← (s.splitOn ",").mapM parseRat
  if h : xs.length = n then some (Vector.ofFn fun i => xs[i.val]'(by have := i.isLt; omega)) else none

def parseQMat (n : Nat) (s : String) : Option (QMat n) := do
  let xs ← (s.splitOn ",").mapM parseRat
  if h : xs.length = n * n then
    some (AMat.ofFn fun i j => xs[i.val * n + j.val]'(by
      have hi := i.isLt; have hj := j.isLt
      calc i.val * n + j.val < i.val * n + n := by omega
        _ = (i.val + 1) * n := by rw [Nat.add_mul, Nat.one_mul]
        _ ≤ n * n := Nat.mul_le_mul_right n hi
        _ = xs.length := h.symm))
  else none

def parseIVec (n : Nat) (s : String) : Option (Vector Int n) := do
  let xs ← parseInts s
  if h : xs.length = n then some (Vector.ofFn fun i => xs[i.val]'(by have := i.isLt; omega)) else none

def runOp (op : String) (kv : List (String × String)) : Option String := do
  let n ← (← lookup kv "n").toNat?
  let A ← parseMat n (← lookup kv "A")
  let den ← (match lookup kv "den" with
    | none => some 1
    | some s => do let d ← s.toNat?; if d = 0 then none else some d)
  let W := scaleQ A den
  let err := fun (e : WErr) => s!"error={e.str}"
  match op with
  | "mfpt" =>
    match mfpt W with
    | .error e => some (err e)
    | .ok o => some s!"M={showQMat o.M} w={showQVec o.w}"
  | "diffeff" =>
    match diffEff W with
    | .error e => some (err e)
    | .ok o => some s!"g={showRat o.g} E={showQMat o.E}"
  | "pagerank" =>
    let d ← parseRat (← lookup kv "d")
    let f ← (match lookup kv "f" with
      | none => some none
      | some s => do some (some (← parseIVec n s)))
    match pagerank W d f with
    | .error e => some (err e)
    | .ok o => some s!"r={showQVec o.r} s={showRat (fsum fun i : Fin n => o.r0[i])}"
  | "findwalks" =>
    match findwalks A with
    | .error e => some (err e)
    | .ok sl =>
      let wlq := sl.map matTotal
      some s!"Wq={";".intercalate (sl.map showMat)} twalk={wlq.sum} wlq={showInts wlq}"
  | "expdiag" =>
    let T ← (← lookup kv "terms").toNat?
    match expTail (infNorm A) T with
    | .error e => some (err e)
    | .ok b => some s!"S={showQVec (expDiag A T)} bound={showRat b}"
  | "eigpost" =>
    let vals ← parseQVec n (← lookup kv "vals")
    let vecs ← parseQMat n (← lookup kv "vecs")
    match eigPost vals vecs with
    | .error e => some (err e)
    | .ok (i, v) => some s!"i={i.val} v={showQVec v}"
  | "subpost" =>
    let vecs ← parseQMat n (← lookup kv "vecs")
    let ev ← parseQVec n (← lookup kv "ev")
    some s!"S={showQVec (subPost vecs ev)}"
  | "eigcert" =>
    let v ← parseQVec n (← lookup kv "v")
    match eigCert A v with
    | .error e => some (err e)
    | .ok c =>
      let bs := match c.bounds with
        | some (lo, hi) => s!"lo={showRat lo} hi={showRat hi}"
        | none => "lo=- hi=-"
      some s!"nrm2={showRat c.nrm2} vmin={showRat c.vmin} ray={showRat c.ray} res2={showRat c.res2} {bs}"
  | _ => none

def step (line : String) : String :=
  let (op, kv) := parseLine line
  (runOp op kv).getD "error=protocol"

end Bct.Walks
