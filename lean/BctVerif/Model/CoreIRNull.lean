import BctVerif.Model.Signed
/-!
# T-gen for the signed null models (`null_model_und_sign`, `null_model_dir_sign`, bct/algorithms/reference.py) — IR, interpreter, check

`translate/cores.py` (family `nullm`) maps, on every check run, the whole body of both routines — except the four `np.corrcoef`
statements and the `return` at the end, which are counted — to a `NullIR` value; the generated obligations compare it with
`refUnd` / `refDir`.

    rng = get_rng(seed)
    if not np.array_equal(W, W.T):                     # und only
        raise BCTParamError("Input must be undirected")
    W = W.astype(float)
    n = len(W)
    np.fill_diagonal(W, 0)
    Ap = (W > 0)
    An = (W < 0)
    if np.size(np.where(Ap.flat)) < (n * (n - 1)):
        W_r, eff = randmio_und_signed(W, bin_swaps, seed=rng)
        Ap_r = W_r > 0
        An_r = W_r < 0
    else:
        Ap_r = Ap
        An_r = An
    W0 = np.zeros((n, n))
    for s in (1, -1):
        if s == 1:
            Acur = Ap
            A_rcur = Ap_r
        else:
            Acur = An
            A_rcur = An_r
        S = np.sum(s * W * Acur, axis=0)
        Wv = np.sort(s * W[np.where(np.triu(Acur))])
        i, j = np.where(np.triu(A_rcur))
        Lij, = np.where(np.triu(A_rcur).flat)
        P = np.outer(S, S)
        if wei_freq == 0:
            Oind = np.argsort(P.flat[Lij])
            W0.flat[Lij[Oind]] = s * Wv
        else:
            wsize = np.size(Wv)
            wei_period = int(min(np.round(1 / wei_freq), max(wsize, 1)))
            lq = np.arange(wsize, 0, -wei_period, dtype=int)
            for m in lq:
                Oind = np.argsort(P.flat[Lij])
                R = rng.permutation(m)[:np.min((m, wei_period))]
                for q, r in enumerate(R):
                    o = Oind[r]
                    W0.flat[Lij[o]] = s * Wv[r]
                    f = 1 - Wv[r] / S[i[o]]
                    P[i[o], :] *= f
                    P[:, i[o]] *= f
                    f = 1 - Wv[r] / S[j[o]]
                    P[j[o], :] *= f
                    P[:, j[o]] *= f
                    S[i[o]] -= Wv[r]
                    S[j[o]] -= Wv[r]
                O = Oind[R]
                Lij = np.delete(Lij, O)
                i = np.delete(i, O)
                j = np.delete(j, O)
                Wv = np.delete(Wv, R)
    W0 = W0 + W0.T                                      # und only

The IR has a fixed shape (statements matched positionally, one field per name and literal).  The interpreter first checks that
the names refer to each other as they must (`coherent`) and then runs the routine on exact integer weights, with the inputs of
`Signed.nullModel`:

* the callee (`randmio_und_signed` / `randmio_dir_signed`) is a parameter `rw`;
* every `np.argsort` returns the next entry of the *oracle* `orc` (it must be a permutation of the current index range: `badDraw`
  otherwise); the float bookkeeping that only feeds the sort keys — the strengths `S` / `Si` / `So`, the matrix `P`, the factor `f`
  and their updates (`strs`, `p`, `book`) — is data of the IR that `coherent` checks for shape and names, without a value;
* `np.round(1 / wei_freq)` is a float computation: its result `period` and the truth of `wei_freq == 0` (`freq0`) are inputs; the
  statement `wei_period = int(min(np.round(1 / wei_freq), max(wsize, 1)))` caps it by the number of weights of the sign
  (`signI`: `min period (max wv.length 1)`; `Props/CoresNull.lean` `loopI_min`: the capped loop is the uncapped one);
* `rng.permutation(m)` takes the next `m` recorded draws;
* `i`, `j` and `Lij` hold the row, the column and the flat index of the same cells and are deleted together (checked by
  `coherent`): the interpreter keeps them as one list of cells;
* when the number of cells of the rewired sign pattern differs from the number of weights the run stops with `.index`, as the model
  does (the routine does not test this; that the rewiring preserves the counts is a theorem of C06).
-/
namespace Bct.CoreIR.Null
open Bct Bct.Signed

/-- `<t> = <m> > <lit>` (`gt`) or `<t> = <m> < <lit>` -/
structure MaskDef where
  t : String
  m : String
  gt : Bool
  lit : Int
  deriving DecidableEq, Repr

/-- `<t> = np.sum(<s> * <w> * <a>, axis=<axis>)` -/
structure StrDef where
  t : String
  s : String
  w : String
  a : String
  axis : Nat
  deriving DecidableEq, Repr

/-- the float bookkeeping inside the dealing loop (no value: its only reader is `np.argsort`, an oracle) -/
inductive BStmt
  /-- `<f> = <one> - <wv>[<r>] / <sv>[<idx>[<o>]]` -/
  | setF (f : String) (one : Nat) (wv r sv idx o : String)
  /-- `<p>[<idx>[<o>], :] *= <f>` -/
  | scaleRow (p idx o f : String)
  /-- `<p>[:, <idx>[<o>]] *= <f>` -/
  | scaleCol (p idx o f : String)
  /-- `<sv>[<idx>[<o>]] -= <wv>[<r>]` -/
  | decr (sv idx o wv r : String)
  deriving DecidableEq, Repr

structure NullIR where
  recognised : Bool
  name : String
  origins : List (String × String)
  params : List String
  defaults : List (String × String)
  /-- `<rng> = <rngCallee>(<rngArg>)` -/
  rng : String
  rngCallee : String
  rngArg : String
  /-- `if not np.array_equal(<l>, <r>.T): raise <exc>(…)` as `(l, r, exc)`; absent in the directed routine -/
  guard : Option (String × String × String)
  /-- `<cpT> = <cpOf>.astype(<cpType>)`, `<nT> = len(<nOf>)`, `np.fill_diagonal(<fdM>, <fdV>)` -/
  cpT : String
  cpOf : String
  cpType : String
  nT : String
  nOf : String
  fdM : String
  fdV : Int
  /-- `Ap = W > 0`, `An = W < 0` -/
  ap : MaskDef
  an : MaskDef
  /-- `if np.size(np.where(<szOf>.flat)) < <nL> * (<nR> - <nC>):` -/
  szOf : String
  nL : String
  nR : String
  nC : Nat
  /-- `<wr>, <eff> = <callee>(<cArg1>, <cArg2>, <cKw>=<cSeed>)`, `Ap_r = W_r > 0`, `An_r = W_r < 0` -/
  wr : String
  eff : String
  callee : String
  cArg1 : String
  cArg2 : String
  cKw : String
  cSeed : String
  apr : MaskDef
  anr : MaskDef
  /-- `else:` `<eApr> = <eAp>`, `<eAnr> = <eAn>` -/
  eApr : String
  eAp : String
  eAnr : String
  eAn : String
  /-- `<w0> = np.zeros((<z1>, <z2>))` -/
  w0 : String
  z1 : String
  z2 : String
  /-- `for <sVar> in (<s1>, <s2>):`, `if <sTest> == <sEq>:` `<acur> = <pa>`, `<arcur> = <par>` `else:` `<acurE> = <na>`, `<arcurE> = <nar>` -/
  sVar : String
  s1 : Int
  s2 : Int
  sTest : String
  sEq : Int
  acur : String
  pa : String
  arcur : String
  par : String
  acurE : String
  na : String
  arcurE : String
  nar : String
  /-- the strength vectors -/
  strs : List StrDef
  /-- `<wv> = np.sort(<wvS> * <wvW>[np.where(np.triu(<wvA>))])` (`wvTriu`) or `… <wvW>[<wvA>]` -/
  wv : String
  wvS : String
  wvW : String
  wvA : String
  wvTriu : Bool
  /-- `<iv>, <jv> = np.where(np.triu(<ijA>))` (`ijTriu`) or `np.where(<ijA>)`; `<lij>, = np.where(np.triu(<lijA>).flat)` or `np.where(<lijA>.flat)` -/
  iv : String
  jv : String
  ijA : String
  ijTriu : Bool
  lij : String
  lijA : String
  lijTriu : Bool
  /-- `<p> = np.outer(<po1>, <po2>)` -/
  p : String
  po1 : String
  po2 : String
  /-- `if <fq> == <fqLit>:` `<oind0> = np.argsort(<as0P>.flat[<as0L>])`, `<w0a>.flat[<w0aL>[<w0aO>]] = <w0aS> * <w0aW>` -/
  fq : String
  fqLit : Nat
  oind0 : String
  as0P : String
  as0L : String
  w0a : String
  w0aL : String
  w0aO : String
  w0aS : String
  w0aW : String
  /-- `else:` `<wsize> = np.size(<wsOf>)`, `<period> = <perTy>(<perMin>(np.round(<perOne> / <perOf>), <perMax>(<perMaxA>, <perMaxB>)))`,
  `<lq> = np.arange(<lqA>, <lqB>, -<lqC>, dtype=<lqTy>)`, `for <m> in <mIn>:` -/
  wsize : String
  wsOf : String
  period : String
  perTy : String
  perMin : String
  perOne : Nat
  perOf : String
  perMax : String
  perMaxA : String
  perMaxB : Nat
  lq : String
  lqA : String
  lqB : Nat
  lqC : String
  lqTy : String
  m : String
  mIn : String
  /-- `<oind> = np.argsort(<asP>.flat[<asL>])`, `<rr> = <rRng>.permutation(<rN>)[:np.min((<rM>, <rP>))]`, `for <qv>, <r1> in enumerate(<enumOf>):` -/
  oind : String
  asP : String
  asL : String
  rr : String
  rRng : String
  rN : String
  rM : String
  rP : String
  qv : String
  r1 : String
  enumOf : String
  /-- `<o> = <oOf>[<oIdx>]`, `<w0b>.flat[<w0bL>[<w0bO>]] = <w0bS> * <w0bW>[<w0bR>]`, then the bookkeeping -/
  o : String
  oOf : String
  oIdx : String
  w0b : String
  w0bL : String
  w0bO : String
  w0bS : String
  w0bW : String
  w0bR : String
  book : List BStmt
  /-- `<bigO> = <bigOOf>[<bigOIdx>]` and the deletes `<t> = np.delete(<of>, <idx>)` as `(t, of, idx)` -/
  bigO : String
  bigOOf : String
  bigOIdx : String
  dels : List (String × String × String)
  /-- `<t> = <a> + <b>.T` as `(t, a, b)`; absent in the directed routine -/
  symm : Option (String × String × String)
  /-- number of statements after that (the four correlations and the `return`): not interpreted -/
  tailCount : Nat
  deriving DecidableEq, Repr

/-- is the bookkeeping statement made of the names it may mention -/
def BStmt.wellFormed (f p wv r o iv jv : String) (svs : List String) : BStmt → Bool
  | .setF f' one wv' r' sv idx o' => f' == f && one == 1 && wv' == wv && r' == r && svs.contains sv && (idx == iv || idx == jv) && o' == o
  | .scaleRow p' idx o' f' => p' == p && (idx == iv || idx == jv) && o' == o && f' == f
  | .scaleCol p' idx o' f' => p' == p && (idx == iv || idx == jv) && o' == o && f' == f
  | .decr sv idx o' wv' r' => svs.contains sv && (idx == iv || idx == jv) && o' == o && wv' == wv && r' == r

/-- the name of the temporary factor in the bookkeeping statements -/
def bookF : List BStmt → String
  | .setF f _ _ _ _ _ _ :: _ => f
  | _ => ""

/-- the names of the source refer to each other as they must -/
def NullIR.coherent (ir : NullIR) : Bool :=
  match ir.params with
  | [pW, pSwaps, pFreq, pSeed] =>
    let svs := ir.strs.map (·.t)
    ir.rngArg == pSeed && ir.cpT == pW && ir.cpOf == pW && ir.cpType == "float" && ir.nOf == pW && ir.fdM == pW && ir.fdV == 0 &&
    (match ir.guard with | some (l, r, _) => l == pW && r == pW | none => true) &&
    ir.ap.m == pW && ir.ap.gt && ir.an.m == pW && !ir.an.gt && ir.szOf == ir.ap.t && ir.nL == ir.nT && ir.nR == ir.nT &&
    ir.cArg1 == pW && ir.cArg2 == pSwaps && ir.cKw == "seed" && ir.cSeed == ir.rng &&
    ir.apr.m == ir.wr && ir.apr.gt && ir.apr.lit == ir.ap.lit && ir.anr.m == ir.wr && !ir.anr.gt && ir.anr.lit == ir.an.lit &&
    ir.eApr == ir.apr.t && ir.eAp == ir.ap.t && ir.eAnr == ir.anr.t && ir.eAn == ir.an.t &&
    ir.z1 == ir.nT && ir.z2 == ir.nT &&
    ir.sTest == ir.sVar && ir.sEq == ir.s1 && ir.s1 != ir.s2 && ir.pa == ir.ap.t && ir.par == ir.apr.t && ir.acurE == ir.acur && ir.na == ir.an.t &&
    ir.arcurE == ir.arcur && ir.nar == ir.anr.t &&
    ir.strs.all (fun d => d.s == ir.sVar && d.w == pW && d.a == ir.acur && d.axis < 2) &&
    ir.wvS == ir.sVar && ir.wvW == pW && ir.wvA == ir.acur && ir.ijA == ir.arcur && ir.lijA == ir.arcur &&
    ir.ijTriu == ir.wvTriu && ir.lijTriu == ir.wvTriu &&
    svs.contains ir.po1 && svs.contains ir.po2 &&
    ir.fq == pFreq && ir.fqLit == 0 &&
    ir.as0P == ir.p && ir.as0L == ir.lij && ir.w0a == ir.w0 && ir.w0aL == ir.lij && ir.w0aO == ir.oind0 && ir.w0aS == ir.sVar && ir.w0aW == ir.wv &&
    ir.wsOf == ir.wv && ir.perTy == "int" && ir.perMin == "min" && ir.perOne == 1 && ir.perOf == pFreq && ir.perMax == "max" && ir.perMaxA == ir.wsize &&
    ir.perMaxB == 1 && ir.lqA == ir.wsize && ir.lqB == 0 && ir.lqC == ir.period &&
    ir.lqTy == "int" && ir.mIn == ir.lq &&
    ir.asP == ir.p && ir.asL == ir.lij && ir.rRng == ir.rng && ir.rN == ir.m && ir.rM == ir.m && ir.rP == ir.period &&
    ir.enumOf == ir.rr && ir.oOf == ir.oind && ir.oIdx == ir.r1 &&
    ir.w0b == ir.w0 && ir.w0bL == ir.lij && ir.w0bO == ir.o && ir.w0bS == ir.sVar && ir.w0bW == ir.wv && ir.w0bR == ir.r1 &&
    ir.book.all (BStmt.wellFormed (bookF ir.book) ir.p ir.wv ir.r1 ir.o ir.iv ir.jv svs) &&
    ir.bigOOf == ir.oind && ir.bigOIdx == ir.rr &&
    ir.dels == [(ir.lij, ir.lij, ir.bigO), (ir.iv, ir.iv, ir.bigO), (ir.jv, ir.jv, ir.bigO), (ir.wv, ir.wv, ir.rr)] &&
    (match ir.symm with | some (t, a, b) => t == ir.w0 && a == ir.w0 && b == ir.w0 && ir.wvTriu | none => !ir.wvTriu) &&
    (match ir.guard with | some _ => ir.wvTriu | none => !ir.wvTriu) &&
    decide (([pW, pSwaps, pFreq, pSeed, ir.rng, ir.nT, ir.ap.t, ir.an.t, ir.wr, ir.eff, ir.apr.t, ir.anr.t, ir.w0, ir.sVar, ir.acur, ir.arcur,
      ir.wv, ir.iv, ir.jv, ir.lij, ir.p, ir.wsize, ir.period, ir.lq, ir.m, ir.oind, ir.rr, ir.qv, ir.r1, ir.o, bookF ir.book, ir.bigO]
      ++ svs).Nodup)
  | _ => false

variable {n : Nat}

/-- the cells of a mask `M > lit` / `M < lit` (restricted to the upper triangle by `np.triu`), in row-major order -/
def cellsOf (M : AMat Int n) (d : MaskDef) (triu : Bool) : List (Cell n) :=
  cellsWhere M (fun x => if d.gt then decide (d.lit < x) else decide (x < d.lit)) triu

/-- `for q, r in enumerate(R): o = Oind[r]; W0.flat[Lij[o]] = s * Wv[r]; …` -/
def innerLoop (s : Int) (oind : List Nat) (cells : List (Cell n)) (wv : List Int) : List Nat → AMat Int n → Except Err (AMat Int n)
  | [], W0 => .ok W0
  | r :: R, W0 =>
    match oind[r]? with
    | some o =>
      match cells[o]?, wv[r]? with
      | some c, some w => innerLoop s oind cells wv R (W0.set c.1 c.2 (s * w))
      | _, _ => .error .index
    | none => .error .index

/-- one round: `Oind` from the oracle, the stores, `O = Oind[R]` and the four deletes -/
def roundI (s : Int) (cells : List (Cell n)) (wv : List Int) (W0 : AMat Int n) (oind R : List Nat) :
    Except Err (List (Cell n) × List Int × AMat Int n) :=
  if !isPermOfRange oind cells.length then .error .badDraw
  else
    match innerLoop s oind cells wv R W0 with
    | .error e => .error e
    | .ok W0' => .ok (dropIdx cells (pickIdx oind R), dropIdx wv R, W0')

/-- `for m in np.arange(wsize, 0, -wei_period)` -/
def loopI (s : Int) (period : Nat) : (fuel m : Nat) → List (Cell n) → List Int → AMat Int n → List (List Nat) → List Nat →
    Except Err (AMat Int n × List (List Nat) × List Nat)
  | 0, m, _, _, W0, orc, ds => if m = 0 then .ok (W0, orc, ds) else .error .param
  | fuel + 1, m, cells, wv, W0, orc, ds =>
    if m = 0 then .ok (W0, orc, ds) else
    match orc with
    | [] => .error .outOfDraws
    | oind :: orc' =>
      if ds.length < m then .error .outOfDraws
      else if !isPermOfRange (ds.take m) m then .error .badDraw
      else
        match roundI s cells wv W0 oind ((ds.take m).take (min m period)) with
        | .error e => .error e
        | .ok (cells', wv', W0') => loopI s period fuel (m - period) cells' wv' W0' orc' (ds.drop m)

/-- the body of `for s in (1, -1)` after `Wv`, `i`, `j`, `Lij` have been made -/
def signI (s : Int) (cells : List (Cell n)) (wv : List Int) (freq0 : Bool) (period : Nat) (W0 : AMat Int n) (orc : List (List Nat))
    (ds : List Nat) : Except Err (AMat Int n × List (List Nat) × List Nat) :=
  if cells.length ≠ wv.length then .error .index
  else if freq0 then
    match orc with
    | [] => .error .outOfDraws
    | oind :: orc' =>
      match roundI s cells wv W0 oind (List.range wv.length) with
      | .error e => .error e
      | .ok (_, _, W0') => .ok (W0', orc', ds)
  else if period = 0 then .error .param
  else loopI s (min period (max wv.length 1)) wv.length wv.length cells wv W0 orc ds

/-- the routine; `rw` is the callee (`randmio_und_signed` / `randmio_dir_signed` on the recorded draws) -/
def runNull (ir : NullIR) (rw : AMat Int n → Nat → List Nat → Except Err (AMat Int n × Nat × List Nat))
    (W : AMat Int n) (binSwaps : Nat) (freq0 : Bool) (period : Nat) (orc : List (List Nat)) (ds : List Nat) : Except Err (NullOut n) :=
  if !ir.coherent then .error .protocol
  else if ir.guard.isSome && !isSymm W then .error .param
  else
    let Wc := clearDiag W
    let rew : Except Err (AMat Int n × List Nat) :=
      if (cellsOf Wc ir.ap false).length < n * (n - ir.nC) then
        match rw Wc binSwaps ds with
        | .error e => .error e
        | .ok (Wr, _, rest) => .ok (Wr, rest)
      else .ok (Wc, ds)
    match rew with
    | .error e => .error e
    | .ok (Wr, ds1) =>
      let one (s : Int) (W0 : AMat Int n) (orc : List (List Nat)) (ds : List Nat) :=
        let pos := s == ir.sEq
        signI s (cellsOf Wr (if pos then ir.apr else ir.anr) ir.wvTriu)
          (sortInts ((cellsOf Wc (if pos then ir.ap else ir.an) ir.wvTriu).map fun c => s * Wc.get c.1 c.2)) freq0 period W0 orc ds
      match one ir.s1 (zeroMat n) orc ds1 with
      | .error e => .error e
      | .ok (U1, orc2, ds2) =>
        match one ir.s2 U1 orc2 ds2 with
        | .error e => .error e
        | .ok (U, orc3, ds3) =>
          let W0 := if ir.symm.isSome then AMat.ofFn fun i j => U.get i j + U.get j i else U
          .ok { W0, Wc, Wr, orcLeft := orc3.length, dsLeft := ds3.length }

/-! ## reference programs -/

def refOriginsUnd : List (String × String) :=
  [("BCTParamError", "class bct/utils/miscellaneous_utilities.py:BCTParamError"), ("BibTeX", "from bct/due.py:BibTeX"),
   ("RUBINOV2011", "from bct/citations.py:RUBINOV2011"), ("due", "from bct/due.py:due"), ("enumerate", "builtin"), ("float", "builtin"),
   ("get_rng", "def bct/utils/miscellaneous_utilities.py:get_rng"), ("int", "builtin"), ("len", "builtin"), ("max", "builtin"), ("min", "builtin"),
   ("np", "module numpy"), ("randmio_und_signed", "def bct/algorithms/reference.py:randmio_und_signed")]

def refOriginsDir : List (String × String) :=
  [("BibTeX", "from bct/due.py:BibTeX"), ("RUBINOV2011", "from bct/citations.py:RUBINOV2011"), ("due", "from bct/due.py:due"),
   ("enumerate", "builtin"), ("float", "builtin"), ("get_rng", "def bct/utils/miscellaneous_utilities.py:get_rng"), ("int", "builtin"),
   ("len", "builtin"), ("max", "builtin"), ("min", "builtin"), ("np", "module numpy"), ("randmio_dir_signed", "def bct/algorithms/reference.py:randmio_dir_signed")]

def refUnd : NullIR :=
  { recognised := true, name := "null_model_und_sign", origins := refOriginsUnd,
    params := ["W", "bin_swaps", "wei_freq", "seed"], defaults := [("bin_swaps", "5"), ("wei_freq", "0.1"), ("seed", "None")],
    rng := "rng", rngCallee := "get_rng", rngArg := "seed",
    guard := some ("W", "W", "BCTParamError"),
    cpT := "W", cpOf := "W", cpType := "float", nT := "n", nOf := "W", fdM := "W", fdV := 0,
    ap := { t := "Ap", m := "W", gt := true, lit := 0 }, an := { t := "An", m := "W", gt := false, lit := 0 },
    szOf := "Ap", nL := "n", nR := "n", nC := 1,
    wr := "W_r", eff := "eff", callee := "randmio_und_signed", cArg1 := "W", cArg2 := "bin_swaps", cKw := "seed", cSeed := "rng",
    apr := { t := "Ap_r", m := "W_r", gt := true, lit := 0 }, anr := { t := "An_r", m := "W_r", gt := false, lit := 0 },
    eApr := "Ap_r", eAp := "Ap", eAnr := "An_r", eAn := "An",
    w0 := "W0", z1 := "n", z2 := "n",
    sVar := "s", s1 := 1, s2 := -1, sTest := "s", sEq := 1, acur := "Acur", pa := "Ap", arcur := "A_rcur", par := "Ap_r",
    acurE := "Acur", na := "An", arcurE := "A_rcur", nar := "An_r",
    strs := [{ t := "S", s := "s", w := "W", a := "Acur", axis := 0 }],
    wv := "Wv", wvS := "s", wvW := "W", wvA := "Acur", wvTriu := true,
    iv := "i", jv := "j", ijA := "A_rcur", ijTriu := true, lij := "Lij", lijA := "A_rcur", lijTriu := true,
    p := "P", po1 := "S", po2 := "S",
    fq := "wei_freq", fqLit := 0, oind0 := "Oind", as0P := "P", as0L := "Lij", w0a := "W0", w0aL := "Lij", w0aO := "Oind", w0aS := "s", w0aW := "Wv",
    wsize := "wsize", wsOf := "Wv", period := "wei_period", perTy := "int", perMin := "min", perOne := 1, perOf := "wei_freq", perMax := "max",
    perMaxA := "wsize", perMaxB := 1,
    lq := "lq", lqA := "wsize", lqB := 0, lqC := "wei_period", lqTy := "int", m := "m", mIn := "lq",
    oind := "Oind", asP := "P", asL := "Lij", rr := "R", rRng := "rng", rN := "m", rM := "m", rP := "wei_period",
    qv := "q", r1 := "r", enumOf := "R",
    o := "o", oOf := "Oind", oIdx := "r", w0b := "W0", w0bL := "Lij", w0bO := "o", w0bS := "s", w0bW := "Wv", w0bR := "r",
    book := [ .setF "f" 1 "Wv" "r" "S" "i" "o", .scaleRow "P" "i" "o" "f", .scaleCol "P" "i" "o" "f",
              .setF "f" 1 "Wv" "r" "S" "j" "o", .scaleRow "P" "j" "o" "f", .scaleCol "P" "j" "o" "f",
              .decr "S" "i" "o" "Wv" "r", .decr "S" "j" "o" "Wv" "r" ],
    bigO := "O", bigOOf := "Oind", bigOIdx := "R",
    dels := [("Lij", "Lij", "O"), ("i", "i", "O"), ("j", "j", "O"), ("Wv", "Wv", "R")],
    symm := some ("W0", "W0", "W0"),
    tailCount := 5 }

def refDir : NullIR :=
  { refUnd with
    name := "null_model_dir_sign", origins := refOriginsDir, guard := none, callee := "randmio_dir_signed", eff := "_",
    strs := [{ t := "Si", s := "s", w := "W", a := "Acur", axis := 0 }, { t := "So", s := "s", w := "W", a := "Acur", axis := 1 }],
    wvTriu := false, ijTriu := false, lijTriu := false, po1 := "So", po2 := "Si",
    book := [ .setF "f" 1 "Wv" "r" "So" "i" "o", .scaleRow "P" "i" "o" "f",
              .setF "f" 1 "Wv" "r" "So" "j" "o", .scaleRow "P" "j" "o" "f",
              .decr "So" "i" "o" "Wv" "r", .decr "Si" "j" "o" "Wv" "r" ],
    symm := none }

/-- the decidable obligation generated for the two null models -/
def nullOk (ref ir : NullIR) : Bool := ir == ref

end Bct.CoreIR.Null
