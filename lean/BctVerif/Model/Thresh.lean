import BctVerif.Model.Basic
/-!
# Executable model of bct's thresholding / weight-conversion utilities (property C17) — core Lean only

Mirrors `bct/utils/other.py` (`threshold_absolute`, `threshold_proportional`, `binarize`, `normalize`,
`invert`, `weight_conversion`) and `bct/utils/miscellaneous_utilities.py` (`teachers_round`) step by step
on exact rationals.  Matrices are `AMat Rat n`.

* NumPy's `argsort` is unstable among ties, so the descending order `I = np.argsort(W[ind])[::-1]` is an
  *input oracle* `order : List Nat` (positions into `ind`).  The model checks that it is a permutation of
  `0..len-1` along which the values are non-increasing; anything else is `error=bad-draw`.
* `normalize` of an all-zero matrix is `0/0 = NaN` in Python: the model returns `none`.
* core `Rat` division by zero is `0`: every division below has a literal non-zero divisor or sits under an
  explicit `= 0` test.
-/
namespace Bct.Thresh

variable {n : Nat}

/-! ## teachers_round -/

/-- `teachers_round(x)`: `x % 1` is `x - floor x`;
`if (x > 0 and x % 1 >= .5) or (x < 0 and x % 1 > .5): ceil(x) else: floor(x)` -/
def teachersRound (x : Rat) : Int :=
  let frac : Rat := x - (x.floor : Int)
  if (x > 0 ∧ frac ≥ 1 / 2) ∨ (x < 0 ∧ frac > 1 / 2) then x.ceil else x.floor

/-! ## cell lists and elementwise helpers -/

def absR (x : Rat) : Rat := if x < 0 then -x else x

/-- all cells in row-major order (the order of `np.where`) -/
def cells (n : Nat) : List (Fin n × Fin n) :=
  (List.finRange n).flatMap fun i => (List.finRange n).map fun j => (i, j)

/-- `np.where(W)` : the nonzero cells in row-major order -/
def support (W : AMat Rat n) : List (Fin n × Fin n) := (cells n).filter fun c => W.get c.1 c.2 ≠ 0

/-- `np.fill_diagonal(W, 0)` -/
def zeroDiag (W : AMat Rat n) : AMat Rat n := AMat.ofFn fun i j => if i = j then 0 else W.get i j

/-! ## threshold_absolute -/

/-- `np.fill_diagonal(W, 0); W[W < thr] = 0` -/
def thresholdAbsolute (W : AMat Rat n) (thr : Rat) : AMat Rat n :=
  (zeroDiag W).map fun w => if w < thr then 0 else w

/-! ## threshold_proportional -/

/-- `np.array_equal(W, W.T)` : exact symmetry (the code's test since /repo 98d0750; it was `np.allclose` before, which merged
nearly equal reciprocal weights into one connection) -/
def arrayEqualT (W : AMat Rat n) : Bool :=
  (List.finRange n).all fun i => (List.finRange n).all fun j => W.get i j == W.get j i

/-- `W[np.tril_indices(n)] = 0` : lower triangle including the diagonal -/
def dropLower (W : AMat Rat n) : AMat Rat n := AMat.ofFn fun i j => if j.val ≤ i.val then 0 else W.get i j

/-- state after the preprocessing: the working matrix and whether the symmetric branch (`ud = 2`) was taken -/
structure Pre (n : Nat) where
  W1 : AMat Rat n
  sym : Bool

def pre (W : AMat Rat n) : Pre n :=
  let W0 := zeroDiag W
  if arrayEqualT W0 then ⟨dropLower W0, true⟩ else ⟨W0, false⟩

def udOf (sym : Bool) : Nat := if sym then 2 else 1

/-- `int(round((n * n - n) * p / ud))` with `round = teachers_round` -/
def enOf (n : Nat) (p : Rat) (sym : Bool) : Int :=
  teachersRound ((((n * n - n : Nat) : Rat) * p) / (if sym then 2 else 1))

/-- the cells `(ind[0][I], ind[1][I])` : `order` must be a permutation of `0..len-1` -/
def selection {α : Type} (ind : List α) (order : List Nat) : Except Err (List α) :=
  if order.Perm (List.range ind.length) then .ok (order.filterMap fun k => ind[k]?) else .error .badDraw

/-- `W[(ind[0][I][en:], ind[1][I][en:])] = 0` -/
def keepMask (W1 : AMat Rat n) (sel : List (Fin n × Fin n)) (en : Nat) : AMat Rat n :=
  AMat.ofFn fun i j => if (i, j) ∈ sel.drop en then 0 else W1.get i j

/-- `W[:, :] = W + W.T` -/
def symmetrize (W : AMat Rat n) : AMat Rat n := AMat.ofFn fun i j => W.get i j + W.get j i

def thresholdProportional (W : AMat Rat n) (p : Rat) (order : List Nat) : Except Err (AMat Rat n) :=
  if p > 1 ∨ p < 0 then .error .param else
  let P := pre W
  match selection (support P.W1) order with
  | .error e => .error e
  | .ok sel =>
    -- the oracle must be a descending order of the selected values
    if (sel.map fun c => P.W1.get c.1 c.2).Pairwise (· ≥ ·) then
      let W2 := keepMask P.W1 sel (enOf n p P.sym).toNat
      .ok (if P.sym then symmetrize W2 else W2)
    else .error .badDraw

/-! ## binarize / normalize / invert / weight_conversion -/

/-- `W[W != 0] = 1` -/
def binarize (W : AMat Rat n) : AMat Rat n := W.map fun w => if w ≠ 0 then 1 else w

/-- `np.max(np.abs(W))` (0 for the empty matrix, on which NumPy raises) -/
def maxAbs (W : AMat Rat n) : Rat :=
  (cells n).foldl (fun m c => if m < absR (W.get c.1 c.2) then absR (W.get c.1 c.2) else m) 0

/-- `W /= np.max(np.abs(W))`; `none` = every entry NaN (all-zero input, 0/0) -/
def normalize (W : AMat Rat n) : Option (AMat Rat n) :=
  let m := maxAbs W
  if m = 0 then none else some (W.map fun w => w / m)

/-- `E = np.where(W); W[E] = 1. / W[E]` -/
def invert (W : AMat Rat n) : AMat Rat n := W.map fun w => if w = 0 then w else 1 / w

/-- `weight_conversion(W, wcm)`; an unknown command raises NotImplementedError -/
def weightConversion (W : AMat Rat n) (wcm : String) : Except String (Option (AMat Rat n)) :=
  if wcm = "binarize" then .ok (some (binarize W))
  else if wcm = "normalize" then .ok (normalize W)
  else if wcm = "lengths" then .ok (some (invert W))
  else .error "NotImplementedError"

/-! ## the `copy` flag: every utility starts with `if copy: W = W.copy()`, then works in place on `W` and returns `W`

A call is described by what the caller can observe afterwards: the content of the array object it passed (`arg`), the content
of the returned object (`res`) and whether the two are the same object (`aliased`). -/

structure CallOutcome (n : Nat) where
  arg : AMat Rat n
  res : AMat Rat n
  aliased : Bool

/-- `if copy: W = W.copy()`; the in-place computation `f` runs on that `W`; `return W` -/
def withCopy (copy : Bool) (f : AMat Rat n → AMat Rat n) (W : AMat Rat n) : CallOutcome n :=
  if copy then { arg := W, res := f W, aliased := false } else { arg := f W, res := f W, aliased := true }

def thresholdAbsoluteCall (W : AMat Rat n) (thr : Rat) (copy : Bool) : CallOutcome n :=
  withCopy copy (fun M => thresholdAbsolute M thr) W
def binarizeCall (W : AMat Rat n) (copy : Bool) : CallOutcome n := withCopy copy binarize W
def invertCall (W : AMat Rat n) (copy : Bool) : CallOutcome n := withCopy copy invert W

/-- `normalize`: `none` = every entry NaN (all-zero input; with `copy=False` the NaNs are written into the argument) -/
def normalizeCall (W : AMat Rat n) (copy : Bool) : Option (CallOutcome n) :=
  (normalize W).map fun R => withCopy copy (fun _ => R) W

/-- `threshold_proportional`: the `p` test raises before the copy (argument untouched); otherwise copy, then in place -/
def thresholdProportionalCall (W : AMat Rat n) (p : Rat) (order : List Nat) (copy : Bool) : Except Err (CallOutcome n) :=
  (thresholdProportional W p order).map fun R => withCopy copy (fun _ => R) W

/-- `weight_conversion(W, wcm, copy)` passes `copy` on -/
def weightConversionCall (W : AMat Rat n) (wcm : String) (copy : Bool) : Except String (Option (CallOutcome n)) :=
  if wcm = "binarize" then .ok (some (binarizeCall W copy))
  else if wcm = "normalize" then .ok (normalizeCall W copy)
  else if wcm = "lengths" then .ok (some (invertCall W copy))
  else .error "NotImplementedError"

/-! ## line protocol -/

def parseRat (s : String) : Option Rat :=
  match s.splitOn "/" with
  | [a] => a.toInt?.map fun x => (x : Rat)
  | [a, b] => do
      let x ← a.toInt?
      let y ← b.toNat?
      if y = 0 then none else some ((x : Rat) / (y : Rat))
  | _ => none

def parseRats (s : String) : Option (List Rat) :=
  if s == "-" || s == "" then some [] else (s.splitOn ",").mapM parseRat

def showRat (r : Rat) : String := if r.den = 1 then toString r.num else s!"{r.num}/{r.den}"

def parseRMat (n : Nat) (s : String) : Option (AMat Rat n) := do
  let xs ← parseRats s
  if xs.length == n * n then
    let a := xs.toArray
    some (AMat.ofFn fun i j => a[i.val * n + j.val]!)
  else none

def showRMat (R : AMat Rat n) : String :=
  if n = 0 then "-" else ",".intercalate ((cells n).map fun c => showRat (R.get c.1 c.2))

def showOutcome (o : CallOutcome n) : String :=
  s!"R={showRMat o.res} A={showRMat o.arg} alias={if o.aliased then 1 else 0}"

def showOptRMat : Option (AMat Rat n) → String
  | some R => showRMat R | none => "nan"

def step (line : String) : String :=
  let (op, kv) := parseLine line
  let res : Option String := do
    match op with
    | "tround" =>
      let x ← parseRat (← lookup kv "x")
      some s!"r={teachersRound x}"
    | "tabs" =>
      let n ← (← lookup kv "n").toNat?
      let W ← parseRMat n (← lookup kv "W")
      let thr ← parseRat (← lookup kv "thr")
      some s!"R={showRMat (thresholdAbsolute W thr)}"
    | "tprop" =>
      let n ← (← lookup kv "n").toNat?
      let W ← parseRMat n (← lookup kv "W")
      let p ← parseRat (← lookup kv "p")
      let order ← parseNats (← lookup kv "order")
      match thresholdProportional W p order with
      | .error e => some s!"error={e.str}"
      | .ok R =>
        let P := pre W
        some s!"R={showRMat R} ud={udOf P.sym} en={enOf n p P.sym} nnz={(support P.W1).length}"
    | "binarize" =>
      let n ← (← lookup kv "n").toNat?
      let W ← parseRMat n (← lookup kv "W")
      some s!"R={showRMat (binarize W)}"
    | "normalize" =>
      let n ← (← lookup kv "n").toNat?
      let W ← parseRMat n (← lookup kv "W")
      some s!"R={showOptRMat (normalize W)}"
    | "invert" =>
      let n ← (← lookup kv "n").toNat?
      let W ← parseRMat n (← lookup kv "W")
      some s!"R={showRMat (invert W)}"
    | "wconv" =>
      let n ← (← lookup kv "n").toNat?
      let W ← parseRMat n (← lookup kv "W")
      let wcm ← lookup kv "wcm"
      match weightConversion W wcm with
      | .error e => some s!"error={e}"
      | .ok R => some s!"R={showOptRMat R}"
    | "callsem" =>
      -- the observable outcome of one call with an explicit copy flag: fn=tabs|binarize|normalize|invert|wconv|tprop copy=0|1
      let n ← (← lookup kv "n").toNat?
      let W ← parseRMat n (← lookup kv "W")
      let cp ← (← lookup kv "copy").toNat?
      if cp > 1 then none
      let copy := cp == 1
      match ← lookup kv "fn" with
      | "tabs" =>
        let thr ← parseRat (← lookup kv "thr")
        some (showOutcome (thresholdAbsoluteCall W thr copy))
      | "binarize" => some (showOutcome (binarizeCall W copy))
      | "invert" => some (showOutcome (invertCall W copy))
      | "normalize" => some (match normalizeCall W copy with | some o => showOutcome o | none => "R=nan")
      | "wconv" =>
        let wcm ← lookup kv "wcm"
        some (match weightConversionCall W wcm copy with
          | .error e => s!"error={e}" | .ok none => "R=nan" | .ok (some o) => showOutcome o)
      | "tprop" =>
        let p ← parseRat (← lookup kv "p")
        let order ← parseNats (← lookup kv "order")
        some (match thresholdProportionalCall W p order copy with
          | .error e => s!"error={e.str}" | .ok o => showOutcome o)
      | _ => none
    | _ => none
  res.getD "error=protocol"

end Bct.Thresh
