/-!
# T-gen for the t statistics of `nbs_bct` (bct/nbs.py) — IR, interpreter, decidable check

`translate/cores.py` (family `nbs`) maps, on every check run, the two nested functions of `nbs_bct` and the statements that
call them to the values below; the generated obligations compare them with `refT2`, `refPair`, `refStat`.

    def ttest2_stat_only(x, y, tail):
        t = np.mean(x) - np.mean(y)
        n1, n2 = len(x), len(y)
        vx = np.var(x, ddof=1) if np.ptp(x) else 0.0
        vy = np.var(y, ddof=1) if np.ptp(y) else 0.0
        s = np.sqrt(((n1 - 1) * vx + (n2 - 1) * vy) / (n1 + n2 - 2))
        denom = s * np.sqrt(1 / n1 + 1 / n2)
        if denom == 0:
            return 0
        if tail == 'both':
            return np.abs(t / denom)
        if tail == 'left':
            return -t / denom
        else:
            return t / denom

    def ttest_paired_stat_only(A, B, tail):
        d = A - B
        n = len(d)
        df = n - 1
        sample_ss = np.sum((d - np.mean(d))**2) if np.ptp(d) else 0.0
        unbiased_std = np.sqrt(sample_ss / (n - 1))
        z = np.mean(A - B) / unbiased_std
        t = z * np.sqrt(n)
        if tail == 'both':
            return np.abs(t)
        if tail == 'left':
            return -t
        else:
            return t

    t_stat = np.zeros((m,))
    for i in range(m):
        if paired:
            t_stat[i] = ttest_paired_stat_only(xmat[i, :], ymat[i, :], tail)
        else:
            t_stat[i] = ttest2_stat_only(xmat[i, :], ymat[i, :], tail)
    ind_t, = np.where(t_stat > thresh)

The three IRs have a fixed shape (statements matched positionally, one field per name and literal); the interpreters first check
that the names refer to each other as they must (`coherent`) and then compute with the literals of the IR.  Numbers are elements
of a type `K` with the operations of `Ops K` (the link theorems take `K = ℝ` with `Real.sqrt`: floating point is outside the
models, as in `Model/Nbs.lean`).  Division of NumPy floats by zero gives `±inf` / `nan` (`F K`), which is what
`ttest_paired_stat_only` does for constant differences; every other division by zero, `np.mean` of an empty array, `np.sqrt` of
a negative number and operands of different lengths stop the run (`none`).
-/
namespace Bct.CoreIR.Nbs

/-- the arithmetic the interpreters use -/
structure Ops (K : Type) where
  ofInt : Int → K
  add : K → K → K
  sub : K → K → K
  mul : K → K → K
  div : K → K → K
  neg : K → K
  abs : K → K
  sqrt : K → K
  lt : K → K → Bool
  isZero : K → Bool

/-- a NumPy float: a number, `inf`, `-inf` or `nan` -/
inductive F (K : Type)
  | fin (v : K)
  | pinf
  | ninf
  | nan

variable {K : Type}

def sumK (o : Ops K) (l : List K) : K := l.foldr o.add (o.ofInt 0)

/-- `np.mean(l)` of a non-empty array -/
def meanK (o : Ops K) (l : List K) : K := o.div (sumK o l) (o.ofInt l.length)

def maxK (o : Ops K) : List K → Option K
  | [] => none
  | a :: l => some (l.foldl (fun m b => if o.lt m b then b else m) a)

def minK (o : Ops K) : List K → Option K
  | [] => none
  | a :: l => some (l.foldl (fun m b => if o.lt b m then b else m) a)

/-- `np.ptp(l)`: maximum minus minimum -/
def ptpK (o : Ops K) (l : List K) : Option K :=
  match maxK o l, minK o l with
  | some a, some b => some (o.sub a b)
  | _, _ => none

def powK (o : Ops K) (a : K) : Nat → K
  | 0 => o.ofInt 1
  | k + 1 => o.mul (powK o a k) a

/-- `np.sum((l - np.mean(l))**k)` -/
def devPowSum (o : Ops K) (k : Nat) (l : List K) : K := sumK o (l.map fun a => powK o (o.sub a (meanK o l)) k)

/-- `np.var(l, ddof=c) if np.ptp(l) else 0.0` -/
def varOr (o : Ops K) (ddof : Nat) (l : List K) : Option K :=
  match ptpK o l with
  | none => none
  | some p =>
    if o.isZero p then some (o.ofInt 0)
    else if l.length ≤ ddof then none
    else some (o.div (devPowSum o 2 l) (o.ofInt ((l.length : Int) - ddof)))

/-! ## `ttest2_stat_only` -/

structure T2IR where
  recognised : Bool
  name : String
  params : List String
  defaults : List (String × String)
  /-- `<t> = np.mean(<m1>) - np.mean(<m2>)` -/
  t : String
  m1 : String
  m2 : String
  /-- `<n1>, <n2> = len(<l1>), len(<l2>)` -/
  n1 : String
  n2 : String
  l1 : String
  l2 : String
  /-- `<vx> = np.var(<vxOf>, ddof=<vxDdof>) if np.ptp(<vxPtp>) else <vxElse>`, the same for `<vy>` -/
  vx : String
  vxOf : String
  vxDdof : Nat
  vxPtp : String
  vxElse : String
  vy : String
  vyOf : String
  vyDdof : Nat
  vyPtp : String
  vyElse : String
  /-- `<s> = np.sqrt(((<a1> - <a1c>) * <a1v> + (<a2> - <a2c>) * <a2v>) / (<d1> + <d2> - <dc>))` -/
  s : String
  a1 : String
  a1c : Nat
  a1v : String
  a2 : String
  a2c : Nat
  a2v : String
  d1 : String
  d2 : String
  dc : Nat
  /-- `<denom> = <dl> * np.sqrt(<o1> / <o1n> + <o2> / <o2n>)` -/
  denom : String
  dl : String
  o1 : Nat
  o1n : String
  o2 : Nat
  o2n : String
  /-- `if <zl> == <zlit>: return <zret>` -/
  zl : String
  zlit : Nat
  zret : Nat
  /-- `if <tl1> == <tv1>: return np.abs(<b1> / <b2>)` -/
  tl1 : String
  tv1 : String
  b1 : String
  b2 : String
  /-- `if <tl2> == <tv2>: return -<c1> / <c2>` / `else: return <e1> / <e2>` -/
  tl2 : String
  tv2 : String
  c1 : String
  c2 : String
  e1 : String
  e2 : String
  deriving DecidableEq, Repr

def T2IR.coherent (ir : T2IR) : Bool :=
  match ir.params with
  | [px, py, pt] =>
    ir.defaults == [] && ir.m1 == px && ir.m2 == py && ir.l1 == px && ir.l2 == py &&
    ir.vxOf == px && ir.vxPtp == px && ir.vxElse == "0.0" && ir.vyOf == py && ir.vyPtp == py && ir.vyElse == "0.0" &&
    ir.a1 == ir.n1 && ir.a1v == ir.vx && ir.a2 == ir.n2 && ir.a2v == ir.vy && ir.d1 == ir.n1 && ir.d2 == ir.n2 &&
    ir.dl == ir.s && ir.o1n == ir.n1 && ir.o2n == ir.n2 && ir.zl == ir.denom &&
    ir.tl1 == pt && ir.b1 == ir.t && ir.b2 == ir.denom && ir.tl2 == pt && ir.c1 == ir.t && ir.c2 == ir.denom &&
    ir.e1 == ir.t && ir.e2 == ir.denom &&
    decide ([px, py, pt, ir.t, ir.n1, ir.n2, ir.vx, ir.vy, ir.s, ir.denom].Nodup)
  | _ => false

/-- the value `ttest2_stat_only(x, y, tail)` returns -/
def runT2 (o : Ops K) (ir : T2IR) (x y : List K) (tail : String) : Option (F K) :=
  if !ir.coherent then none
  else if x.length = 0 ∨ y.length = 0 then none
  else
    match varOr o ir.vxDdof x, varOr o ir.vyDdof y with
    | some vx, some vy =>
      let n1 : Int := x.length
      let n2 : Int := y.length
      if n1 + n2 - ir.dc = 0 then none
      else
        let arg := o.div (o.add (o.mul (o.ofInt (n1 - ir.a1c)) vx) (o.mul (o.ofInt (n2 - ir.a2c)) vy)) (o.ofInt (n1 + n2 - ir.dc))
        let arg2 := o.add (o.div (o.ofInt ir.o1) (o.ofInt n1)) (o.div (o.ofInt ir.o2) (o.ofInt n2))
        if o.lt arg (o.ofInt 0) || o.lt arg2 (o.ofInt 0) then none
        else
          let denom := o.mul (o.sqrt arg) (o.sqrt arg2)
          let t := o.sub (meanK o x) (meanK o y)
          if o.isZero (o.sub denom (o.ofInt ir.zlit)) then some (.fin (o.ofInt ir.zret))
          else if o.isZero denom then none
          else if tail = ir.tv1 then some (.fin (o.abs (o.div t denom)))
          else if tail = ir.tv2 then some (.fin (o.div (o.neg t) denom))
          else some (.fin (o.div t denom))
    | _, _ => none

/-! ## `ttest_paired_stat_only` -/

structure PairIR where
  recognised : Bool
  name : String
  params : List String
  defaults : List (String × String)
  /-- `<d> = <dA> - <dB>` -/
  d : String
  dA : String
  dB : String
  /-- `<n> = len(<nOf>)` -/
  n : String
  nOf : String
  /-- `<df> = <dfL> - <dfC>` (not used afterwards) -/
  df : String
  dfL : String
  dfC : Nat
  /-- `<ss> = np.sum((<ssD> - np.mean(<ssM>))**<ssPow>) if np.ptp(<ssPtp>) else <ssElse>` -/
  ss : String
  ssD : String
  ssM : String
  ssPow : Nat
  ssPtp : String
  ssElse : String
  /-- `<std> = np.sqrt(<stdNum> / (<stdN> - <stdC>))` -/
  std : String
  stdNum : String
  stdN : String
  stdC : Nat
  /-- `<z> = np.mean(<zA> - <zB>) / <zDen>` -/
  z : String
  zA : String
  zB : String
  zDen : String
  /-- `<t> = <tZ> * np.sqrt(<tN>)` -/
  t : String
  tZ : String
  tN : String
  /-- `if <tl1> == <tv1>: return np.abs(<r1>)`; `if <tl2> == <tv2>: return -<r2>` / `else: return <r3>` -/
  tl1 : String
  tv1 : String
  r1 : String
  tl2 : String
  tv2 : String
  r2 : String
  r3 : String
  deriving DecidableEq, Repr

def PairIR.coherent (ir : PairIR) : Bool :=
  match ir.params with
  | [pA, pB, pt] =>
    ir.defaults == [] && ir.dA == pA && ir.dB == pB && ir.nOf == ir.d && ir.dfL == ir.n &&
    ir.ssD == ir.d && ir.ssM == ir.d && ir.ssPtp == ir.d && ir.ssElse == "0.0" &&
    ir.stdNum == ir.ss && ir.stdN == ir.n && ir.zA == pA && ir.zB == pB && ir.zDen == ir.std && ir.tZ == ir.z && ir.tN == ir.n &&
    ir.tl1 == pt && ir.r1 == ir.t && ir.tl2 == pt && ir.r2 == ir.t && ir.r3 == ir.t &&
    decide ([pA, pB, pt, ir.d, ir.n, ir.df, ir.ss, ir.std, ir.z, ir.t].Nodup)
  | _ => false

/-- `a / b` for two NumPy floats -/
def divNp (o : Ops K) (a b : K) : F K :=
  if o.isZero b then (if o.lt (o.ofInt 0) a then .pinf else if o.lt a (o.ofInt 0) then .ninf else .nan)
  else .fin (o.div a b)

/-- `z * r` for a NumPy float `z` and a finite `r` -/
def mulFin (o : Ops K) (z : F K) (r : K) : F K :=
  match z with
  | .fin a => .fin (o.mul a r)
  | .pinf => if o.lt (o.ofInt 0) r then .pinf else if o.lt r (o.ofInt 0) then .ninf else .nan
  | .ninf => if o.lt (o.ofInt 0) r then .ninf else if o.lt r (o.ofInt 0) then .pinf else .nan
  | .nan => .nan

def absF (o : Ops K) : F K → F K
  | .fin a => .fin (o.abs a)
  | .pinf => .pinf
  | .ninf => .pinf
  | .nan => .nan

def negF (o : Ops K) : F K → F K
  | .fin a => .fin (o.neg a)
  | .pinf => .ninf
  | .ninf => .pinf
  | .nan => .nan

/-- the value `ttest_paired_stat_only(A, B, tail)` returns -/
def runPair (o : Ops K) (ir : PairIR) (A B : List K) (tail : String) : Option (F K) :=
  if !ir.coherent then none
  else if A.length ≠ B.length ∨ A.length = 0 then none
  else
    let d := List.zipWith o.sub A B
    match ptpK o d with
    | none => none
    | some p =>
      let ss := if o.isZero p then o.ofInt 0 else devPowSum o ir.ssPow d
      if (d.length : Int) - ir.stdC = 0 then none
      else
        let arg := o.div ss (o.ofInt ((d.length : Int) - ir.stdC))
        if o.lt arg (o.ofInt 0) then none
        else
          let z := divNp o (meanK o (List.zipWith o.sub A B)) (o.sqrt arg)
          let t := mulFin o z (o.sqrt (o.ofInt d.length))
          if tail = ir.tv1 then some (absF o t)
          else if tail = ir.tv2 then some (negF o t)
          else some t

/-! ## the statements that use them -/

structure StatIR where
  recognised : Bool
  origins : List (String × String)
  params : List String
  defaults : List (String × String)
  /-- `<tstat> = np.zeros((<zN>,))` -/
  tstat : String
  zN : String
  /-- `for <i> in range(<iN>):` `if <pTest>:` -/
  i : String
  iN : String
  pTest : String
  /-- `<pT>[<pI>] = <pF>(<pA>[<pAi>, :], <pB>[<pBi>, :], <pTail>)` -/
  pT : String
  pI : String
  pF : String
  pA : String
  pAi : String
  pB : String
  pBi : String
  pTail : String
  /-- `else:` `<uT>[<uI>] = <uF>(<uA>[<uAi>, :], <uB>[<uBi>, :], <uTail>)` -/
  uT : String
  uI : String
  uF : String
  uA : String
  uAi : String
  uB : String
  uBi : String
  uTail : String
  /-- `<ind>, = np.where(<cL> > <cR>)` -/
  ind : String
  cL : String
  cR : String
  deriving DecidableEq, Repr

def StatIR.coherent (s : StatIR) (t2 : T2IR) (pr : PairIR) : Bool :=
  s.params.contains s.pTest && s.params.contains s.pTail && s.params.contains s.cR &&
  s.iN == s.zN && s.pT == s.tstat && s.uT == s.tstat && s.cL == s.tstat &&
  s.pI == s.i && s.pAi == s.i && s.pBi == s.i && s.uI == s.i && s.uAi == s.i && s.uBi == s.i &&
  s.uA == s.pA && s.uB == s.pB && s.uTail == s.pTail && s.pF == pr.name && s.uF == t2.name &&
  decide ([s.pTest, s.pTail, s.cR, s.tstat, s.i, s.pA, s.pB, s.ind, pr.name, t2.name].Nodup)

/-- `t > thresh` for a NumPy float -/
def gtF (o : Ops K) (v : F K) (thr : K) : Bool :=
  match v with
  | .fin a => o.lt thr a
  | .pinf => true
  | .ninf => false
  | .nan => false

/-- whether the index of a row is in `ind_t`: `x`, `y` are the rows `xmat[i, :]`, `ymat[i, :]` -/
def runStat (o : Ops K) (s : StatIR) (t2 : T2IR) (pr : PairIR) (paired : Bool) (x y : List K) (tail : String) (thr : K) : Option Bool :=
  if !s.coherent t2 pr then none
  else (if paired then runPair o pr x y tail else runT2 o t2 x y tail).map fun v => gtF o v thr

/-! ## reference programs -/

def refT2 : T2IR :=
  { recognised := true, name := "ttest2_stat_only", params := ["x", "y", "tail"], defaults := [],
    t := "t", m1 := "x", m2 := "y", n1 := "n1", n2 := "n2", l1 := "x", l2 := "y",
    vx := "vx", vxOf := "x", vxDdof := 1, vxPtp := "x", vxElse := "0.0",
    vy := "vy", vyOf := "y", vyDdof := 1, vyPtp := "y", vyElse := "0.0",
    s := "s", a1 := "n1", a1c := 1, a1v := "vx", a2 := "n2", a2c := 1, a2v := "vy", d1 := "n1", d2 := "n2", dc := 2,
    denom := "denom", dl := "s", o1 := 1, o1n := "n1", o2 := 1, o2n := "n2",
    zl := "denom", zlit := 0, zret := 0,
    tl1 := "tail", tv1 := "both", b1 := "t", b2 := "denom",
    tl2 := "tail", tv2 := "left", c1 := "t", c2 := "denom", e1 := "t", e2 := "denom" }

def refPair : PairIR :=
  { recognised := true, name := "ttest_paired_stat_only", params := ["A", "B", "tail"], defaults := [],
    d := "d", dA := "A", dB := "B", n := "n", nOf := "d", df := "df", dfL := "n", dfC := 1,
    ss := "sample_ss", ssD := "d", ssM := "d", ssPow := 2, ssPtp := "d", ssElse := "0.0",
    std := "unbiased_std", stdNum := "sample_ss", stdN := "n", stdC := 1,
    z := "z", zA := "A", zB := "B", zDen := "unbiased_std", t := "t", tZ := "z", tN := "n",
    tl1 := "tail", tv1 := "both", r1 := "t", tl2 := "tail", tv2 := "left", r2 := "t", r3 := "t" }

def refStat : StatIR :=
  { recognised := true,
    origins := [("BCTParamError", "class bct/utils/miscellaneous_utilities.py:BCTParamError"), ("BibTeX", "from bct/due.py:BibTeX"),
                ("ZALESKY2010", "from bct/citations.py:ZALESKY2010"), ("due", "from bct/due.py:due"),
                ("get_components", "def bct/algorithms/clustering.py:get_components"),
                ("get_rng", "def bct/utils/miscellaneous_utilities.py:get_rng"), ("len", "builtin"), ("np", "module numpy"),
                ("print", "builtin"), ("range", "builtin")],
    params := ["x", "y", "thresh", "k", "tail", "paired", "verbose", "seed"],
    defaults := [("k", "1000"), ("tail", "'both'"), ("paired", "False"), ("verbose", "False"), ("seed", "None")],
    tstat := "t_stat", zN := "m", i := "i", iN := "m", pTest := "paired",
    pT := "t_stat", pI := "i", pF := "ttest_paired_stat_only", pA := "xmat", pAi := "i", pB := "ymat", pBi := "i", pTail := "tail",
    uT := "t_stat", uI := "i", uF := "ttest2_stat_only", uA := "xmat", uAi := "i", uB := "ymat", uBi := "i", uTail := "tail",
    ind := "ind_t", cL := "t_stat", cR := "thresh" }

/-- the decidable obligations generated for the two nested functions and the statements that call them -/
def t2Ok (ir : T2IR) : Bool := ir == refT2
def pairOk (ir : PairIR) : Bool := ir == refPair
def statOk (ir : StatIR) : Bool := ir == refStat

end Bct.CoreIR.Nbs
