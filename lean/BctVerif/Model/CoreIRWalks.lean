import BctVerif.Model.CoreIRClust
import BctVerif.Model.Walks
/-!
# Source-extracted `pagerank_centrality`: IR, interpreter, decidable check (T-gen, C18)

`translate/cores.py` reads `bct/algorithms/centrality.py` with `ast` on every check run and writes every statement of

    def pagerank_centrality(A, d, falff=None):
        from scipy import linalg
        N = len(A)
        if falff is None:
            norm_falff = np.ones((N,)) / N
        else:
            norm_falff = falff / np.sum(falff)
        deg = np.sum(A, axis=0)
        deg[deg == 0] = 1
        D1 = np.diag(1 / deg)
        B = np.eye(N) - d * np.dot(A, D1)
        b = (1 - d) * norm_falff
        r = linalg.solve(B, b)
        r /= np.sum(r)
        return r

as a `PrIR` value into `BctVerif/Gen/CoresWalks.lean`, with the obligation `prOk ir = true := by decide`.  Expressions are those of
the whole-array language of `Model/CoreIRClust.lean`.  `linalg.solve(B, b)` is an oracle: the run is given a vector and continues
only if `B` and `b` are finite and the vector solves `B x = b` exactly (the function the local name `linalg` was imported as is
part of the IR).  `Props/CoresWalks.lean` proves that a program that passes builds `Walks.prMat`, `Walks.prior` and the
right-hand side of `Walks.pagerank`, and normalises the solution as the model does.

Core Lean only.
-/
namespace Bct.CoreIR.Walks
open Bct Bct.CoreIR.Clust

inductive WStmt
  /-- `x = e` -/
  | bind (x : String) (e : Ex)
  /-- `if p is None: x = e1` / `else: x = e2` -/
  | bindIfNone (x p : String) (e1 e2 : Ex)
  /-- `v[c] = e` for a vector name `v`, a boolean vector `c`, a scalar `e` -/
  | setMask (v : String) (c e : Ex)
  /-- `x = <mod>.solve(a, b)` -/
  | solve (x mod : String) (a b : Ex)
  /-- `x /= e` -/
  | augDiv (x : String) (e : Ex)
  deriving DecidableEq, Repr

structure PrIR where
  recognised : Bool
  origins : List (String × String)
  params : List String
  defaults : List (String × String)
  /-- `from <module> import <name>` inside the function: (local name, what it resolves to) -/
  imports : List (String × String)
  body : List WStmt
  ret : Ex
  deriving DecidableEq, Repr

variable {n : Nat}

/-- one cell as a rational (`0` if it is not a finite number; only used behind `isNum` checks) -/
def cellQ : V → Rat
  | .num q => q
  | _ => 0
def isNum : V → Bool
  | .num _ => true
  | _ => false

/-- `B x = b` exactly, for a matrix and a vector of finite numbers -/
def solvesV (B : AMat V n) (x : Vector Rat n) (b : Vector V n) : Bool :=
  ((List.finRange n).all fun i => isNum b[i] && (List.finRange n).all fun j => isNum (B.get i j)) &&
  (List.finRange n).all fun i => ((List.finRange n).map fun k => cellQ (B.get i k) * x[k]).sum == cellQ b[i]

def exec (sol : Vector Rat n) (imports : List (String × String)) (E : Env n) : WStmt → Option (Env n)
  | .bind x e => match eval id E e with
    | .err => none
    | v => some fun y => if y = x then some v else E y
  | .bindIfNone x p e1 e2 => match E p with
    | some .none => (match eval id E e1 with
      | .err => none
      | v => some fun y => if y = x then some v else E y)
    | some _ => (match eval id E e2 with
      | .err => none
      | v => some fun y => if y = x then some v else E y)
    | none => none
  | .setMask x c e => match E x, eval id E c, eval id E e with
    | some (.vec v), .vec m, .sc s => some fun y => if y = x then some (.vec (Vector.ofFn fun i => maskCell m[i] s v[i])) else E y
    | _, _, _ => none
  | .solve x mod a b =>
    if imports.lookup mod = some "external scipy:linalg" then
      match eval id E a, eval id E b with
      | .mat B, .vec bv => if solvesV B sol bv then some fun y => if y = x then some (.vec (Vector.ofFn fun i => .num sol[i])) else E y else none
      | _, _ => none
    else none
  | .augDiv x e => match E x, eval id E e with
    | some v, w => (match zip2 V.div v w with
      | .err => none
      | r => some fun y => if y = x then some r else E y)
    | none, _ => none

def execs (sol : Vector Rat n) (imports : List (String × String)) : List WStmt → Env n → Option (Env n)
  | [], E => some E
  | s :: ss, E => match exec sol imports E s with
    | some E' => execs sol imports ss E'
    | none => none

/-- the returned vector, if every cell is a finite number -/
def finish : Val n → Option (Vector Rat n)
  | .vec v => if (List.finRange n).all fun i => isNum v[i] then some (Vector.ofFn fun i => cellQ v[i]) else none
  | _ => none

/-- the whole routine on `(A, d, falff)` with the oracle `sol` for `linalg.solve` -/
def run (sol : Vector Rat n) (ir : PrIR) (A : AMat V n) (d : Rat) (f : Option (Vector V n)) : Option (Vector Rat n) :=
  match ir.params with
  | [pA, pd, pf] =>
    if pA ≠ pd ∧ pA ≠ pf ∧ pd ≠ pf then
      match execs sol ir.imports ir.body (fun y => if y = pA then some (.mat A) else if y = pd then some (.sc (.num d))
          else if y = pf then some (match f with | some v => .vec v | none => .none) else none) with
      | some E => finish (eval id E ir.ret)
      | none => none
    else none
  | _ => none

def refPr : PrIR :=
  { recognised := true,
    origins := [("BOLDI2009", "from bct/citations.py:BOLDI2009"), ("BibTeX", "from bct/due.py:BibTeX"),
                ("MORRISON2005", "from bct/citations.py:MORRISON2005"), ("due", "from bct/due.py:due"), ("len", "builtin"),
                ("np", "module numpy")],
    params := ["A", "d", "falff"], defaults := [("falff", "None")],
    imports := [("linalg", "external scipy:linalg")],
    body := [ .bind "N" (.len (.ref "A")),
              .bindIfNone "norm_falff" "falff" (.div (.ones1 "N") (.ref "N")) (.div (.ref "falff") (.sumAll (.ref "falff"))),
              .bind "deg" (.sumAx (.ref "A") 0),
              .setMask "deg" (.eq (.ref "deg") (.lit 0)) (.lit 1),
              .bind "D1" (.diag (.div (.lit 1) (.ref "deg"))),
              .bind "B" (.sub (.eye "N") (.mul (.ref "d") (.dot (.ref "A") (.ref "D1")))),
              .bind "b" (.mul (.sub (.lit 1) (.ref "d")) (.ref "norm_falff")),
              .solve "r" "linalg" (.ref "B") (.ref "b"),
              .augDiv "r" (.sumAll (.ref "r")) ],
    ret := .ref "r" }

/-- the decidable obligation generated for `pagerank_centrality` -/
def prOk (ir : PrIR) : Bool := ir == refPr

/-! # `mean_first_passage_time`

    def mean_first_passage_time(adjacency):
        P = np.linalg.solve(np.diag(np.sum(adjacency, axis=1)), adjacency)
        n = len(P)
        D, V = np.linalg.eig(P.T)
        aux = np.abs(D - 1)
        index = np.where(aux == aux.min())[0]
        if aux[index] > 10e-3:
            raise ValueError(…)
        w = V[:, index].T
        w = w / np.sum(w)
        W = np.real(np.repeat(w, n, 0))
        I = np.eye(n)
        Z = np.linalg.inv(I - P + W)
        mfpt = (np.repeat(np.atleast_2d(np.diag(Z)), n, 0) - Z) / W
        return mfpt

The twelve statements are matched positionally; every name and literal is a field of `MfptIR`.  `np.linalg.solve`, `np.linalg.eig`
and `np.linalg.inv` are oracles: the run is given their results; the results of `solve` and `inv` are accepted only if they are exact
(`D · X = A`, `(I − P + W) · Z = I`), the result of `eig` (real eigenvalues and eigenvectors) is used as it is.  -/

structure MfptIR where
  recognised : Bool
  origins : List (String × String)
  param : String
  /-- `<pVar> = np.linalg.solve(np.diag(np.sum(<sumOf>, axis=<sumAxis>)), <rhs>)` -/
  pVar : String
  sumOf : String
  sumAxis : Nat
  rhs : String
  /-- `<dim> = len(<dimOf>)` -/
  dim : String
  dimOf : String
  /-- `<evals>, <evecs> = np.linalg.eig(<eigOf>.T)` -/
  evals : String
  evecs : String
  eigOf : String
  /-- `<aux> = np.abs(<auxOf> - <auxShift>)` -/
  aux : String
  auxOf : String
  auxShift : Nat
  /-- `<idx> = np.where(<idxL> == <idxR>.min())[0]` -/
  idx : String
  idxL : String
  idxR : String
  /-- `if <tolVec>[<tolIdx>] > <tolNum>/<tolDen>: raise <exc>(…)` -/
  tolVec : String
  tolIdx : String
  tolNum : Nat
  tolDen : Nat
  exc : String
  /-- `<w> = <wMat>[:, <wIdx>].T` -/
  w : String
  wMat : String
  wIdx : String
  /-- `<w2> = <w2Num> / np.sum(<w2Den>)` -/
  w2 : String
  w2Num : String
  w2Den : String
  /-- `<bigW> = np.real(np.repeat(<repOf>, <repN>, <repAxis>))` -/
  bigW : String
  repOf : String
  repN : String
  repAxis : Nat
  /-- `<eye> = np.eye(<eyeN>)` -/
  eye : String
  eyeN : String
  /-- `<z> = np.linalg.inv(<zI> - <zP> + <zW>)` -/
  z : String
  zI : String
  zP : String
  zW : String
  /-- `<out> = (np.repeat(np.atleast_2d(np.diag(<outDiag>)), <outN>, <outAxis>) - <outSub>) / <outDiv>` -/
  out : String
  outDiag : String
  outN : String
  outAxis : Nat
  outSub : String
  outDiv : String
  ret : String
  deriving DecidableEq, Repr

/-- the names of the source refer to each other as they must, and the axes are the ones the interpreter implements -/
def MfptIR.coherent (ir : MfptIR) : Bool :=
  ir.sumOf == ir.param && ir.sumAxis == 1 && ir.rhs == ir.param && ir.dimOf == ir.pVar && ir.eigOf == ir.pVar &&
  ir.auxOf == ir.evals && ir.idxL == ir.aux && ir.idxR == ir.aux && ir.tolVec == ir.aux && ir.tolIdx == ir.idx &&
  ir.wMat == ir.evecs && ir.wIdx == ir.idx && ir.w2 == ir.w && ir.w2Num == ir.w && ir.w2Den == ir.w && ir.repOf == ir.w &&
  ir.repN == ir.dim && ir.repAxis == 0 && ir.eyeN == ir.dim && ir.zI == ir.eye && ir.zP == ir.pVar && ir.zW == ir.bigW &&
  ir.outDiag == ir.z && ir.outN == ir.dim && ir.outAxis == 0 && ir.outSub == ir.z && ir.outDiv == ir.bigW && ir.ret == ir.out &&
  decide ([ir.param, ir.pVar, ir.dim, ir.evals, ir.evecs, ir.aux, ir.idx, ir.w, ir.bigW, ir.eye, ir.z, ir.out].Nodup)

def absQ (x : Rat) : Rat := if x < 0 then -x else x

/-- the routine on `adjacency` with the results of `solve` (`Xp`), `eig` (`Dv`, `Vm`) and `inv` (`Zm`) -/
def runMfpt (ir : MfptIR) (W : AMat Rat n) (Xp : AMat Rat n) (Dv : Vector Rat n) (Vm Zm : AMat Rat n) : Option (AMat Rat n) :=
  if ir.coherent then
    let rs : Fin n → Rat := fun i => ((List.finRange n).map fun j => W.get i j).sum
    -- `solve(diag(rs), W)` is accepted if exact
    if (List.finRange n).all fun i => (List.finRange n).all fun j => rs i * Xp.get i j == W.get i j then
      let aux : Fin n → Rat := fun i => absQ (Dv[i] - (ir.auxShift : Rat))
      match (List.finRange n).map aux with
      | [] => none
      | a :: as =>
        let m := as.foldl (fun x y => if y < x then y else x) a
        match (List.finRange n).filter fun i => aux i == m with
        | [k] =>
          if (ir.tolNum : Rat) / (ir.tolDen : Rat) < aux k then none else
          let s := ((List.finRange n).map fun i => Vm.get i k).sum
          if s = 0 then none else
          let w : Fin n → Rat := fun j => Vm.get j k / s
          if (List.finRange n).all fun i => (List.finRange n).all fun j =>
              ((List.finRange n).map fun l => ((if i = l then 1 else 0) - Xp.get i l + w l) * Zm.get l j).sum == (if i = j then 1 else 0) then
            if (List.finRange n).all fun j => w j != 0 then
              some (AMat.ofFn fun i j => (Zm.get j j - Zm.get i j) / w j)
            else none
          else none
        | _ => none
    else none
  else none

def refMfpt : MfptIR :=
  { recognised := true,
    origins := [("ValueError", "builtin"), ("len", "builtin"), ("np", "module numpy")],
    param := "adjacency",
    pVar := "P", sumOf := "adjacency", sumAxis := 1, rhs := "adjacency", dim := "n", dimOf := "P",
    evals := "D", evecs := "V", eigOf := "P", aux := "aux", auxOf := "D", auxShift := 1,
    idx := "index", idxL := "aux", idxR := "aux", tolVec := "aux", tolIdx := "index", tolNum := 1, tolDen := 100, exc := "ValueError",
    w := "w", wMat := "V", wIdx := "index", w2 := "w", w2Num := "w", w2Den := "w",
    bigW := "W", repOf := "w", repN := "n", repAxis := 0, eye := "I", eyeN := "n", z := "Z", zI := "I", zP := "P", zW := "W",
    out := "mfpt", outDiag := "Z", outN := "n", outAxis := 0, outSub := "Z", outDiv := "W", ret := "mfpt" }

/-- the decidable obligation generated for `mean_first_passage_time` -/
def mfptOk (ir : MfptIR) : Bool := ir == refMfpt

end Bct.CoreIR.Walks
