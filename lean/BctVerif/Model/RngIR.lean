/-!
# RNG-effect IR (property C05) — core Lean only

`translate/effects.py` re-emits, on every check run, one `Stmt` skeleton per bct function that has a
`seed` parameter or is (transitively) called by one.  A skeleton keeps only what matters for the
reproducibility contract: where the local generator is bound (`rng = get_rng(seed)`), which generator
every random draw goes through, which seed argument nested bct calls receive, and the control
structure around them.

This file contains the IR, the function table, the decidable discipline check `ok`, two semantics
(a relational one over an abstract world of generator states, and a deterministic one over explicit
random streams) and a hand model of `get_rng`.  The meta-theorems are in `Props/C05.lean`.
-/
namespace Bct.RngIR

/-- the generator a draw goes through -/
inductive Gen
  | localRng    -- the object returned by `get_rng(seed)` (or the seed parameter used as a generator)
  | globalRng   -- `np.random.<draw>` / `np.random.mtrand._rand` / `get_rng()` / `get_rng(None)`
  | pyRandom    -- the `random` module of the standard library
  | unknown     -- anything the translator cannot classify
  deriving DecidableEq, Repr

/-- what a nested bct call receives as its `seed` argument -/
inductive SeedArg
  | rngObj      -- the local generator object
  | seedParam   -- the caller's own (never reassigned) `seed` parameter
  | noneLit     -- a literal `None`
  | absent      -- no seed argument at all
  | other       -- anything else
  deriving DecidableEq, Repr

inductive Stmt
  | bindRng
  | draw (g : Gen)
  | call (callee : String) (a : SeedArg)
  | seq (ss : List Stmt)
  | branch (a b : Stmt)
  | loop (body : Stmt)
  deriving Repr

/-- one translated function: does it have a `seed` parameter, and its skeleton -/
structure FnDecl where
  hasSeed : Bool
  body : Stmt
  deriving Repr

abbrev Table := List (String × FnDecl)

def lookup : Table → String → Option FnDecl
  | [], _ => none
  | (g, d) :: t, f => if g = f then some d else lookup t f

/-! ## the discipline check -/

/-- may a function of kind `seedful` (has a seed parameter) call `f` with seed argument `a`? -/
def okCall (tbl : Table) (seedful : Bool) (f : String) (a : SeedArg) : Bool :=
  match lookup tbl f with
  | none => false
  | some d => if d.hasSeed then seedful && (a == .rngObj || a == .seedParam) else a == .absent

mutual
/-- the discipline: a function with a seed parameter draws only from its local generator and forwards the
    generator (or its own seed parameter) to every seed-accepting callee; a function without a seed
    parameter contains no random draw at all.  Unknown callees fail. -/
def okS (tbl : Table) (seedful : Bool) : Stmt → Bool
  | .bindRng => seedful
  | .draw g => seedful && g == .localRng
  | .call f a => okCall tbl seedful f a
  | .seq ss => okL tbl seedful ss
  | .branch a b => okS tbl seedful a && okS tbl seedful b
  | .loop b => okS tbl seedful b
def okL (tbl : Table) (seedful : Bool) : List Stmt → Bool
  | [] => true
  | s :: ss => okS tbl seedful s && okL tbl seedful ss
end

/-! ### restart safety: `get_rng(seed)` on an *integer* seed makes a fresh generator at every call

With `seed = k` every `get_rng(seed)` — the function's own `rng = get_rng(seed)` and the `get_rng` inside a callee
that is handed `seed=seed` — builds a new `RandomState(k)` at position 0, whereas with `seed = RandomState(k)` they all
return the one object, which keeps advancing.  The two agree only if every such *restart* happens before the stream
has been consumed in this frame, and nothing is consumed after the seed parameter was forwarded.  `flow` checks this
along every path: `fresh` = nothing consumed yet, `used` = consumed through the local generator, `done` = the seed
parameter was forwarded to a callee (the callee consumed "the" stream from position 0). -/

inductive FState | fresh | used | done
  deriving DecidableEq, Repr

def FState.rank : FState → Nat
  | .fresh => 0 | .used => 1 | .done => 2

def FState.join (a b : FState) : FState := if a.rank ≤ b.rank then b else a
def FState.le (a b : FState) : Bool := a.rank ≤ b.rank

mutual
def flow (tbl : Table) : Stmt → FState → Option FState
  | .bindRng, q => if q = .fresh then some .fresh else none
  | .draw _, q => if q = .done then none else some .used
  | .call f a, q =>
      match lookup tbl f with
      | none => none
      | some d =>
        if d.hasSeed then
          (if a = .seedParam then (if q = .fresh then some .done else none)
           else (if q = .done then none else some .used))
        else some q
  | .seq ss, q => flowL tbl ss q
  | .branch a b, q =>
      match flow tbl a q, flow tbl b q with
      | some x, some y => some (x.join y)
      | _, _ => none
  | .loop b, q =>
      match flow tbl b q with
      | none => none
      | some q1 =>
        match flow tbl b (q.join q1) with
        | none => none
        | some q2 =>
          match flow tbl b ((q.join q1).join q2) with
          | none => none
          | some q3 => if q3.le ((q.join q1).join q2) then some ((q.join q1).join q2) else none
def flowL (tbl : Table) : List Stmt → FState → Option FState
  | [], q => some q
  | s :: ss, q =>
      match flow tbl s q with
      | some q' => flowL tbl ss q'
      | none => none
end

def okDecl (tbl : Table) (d : FnDecl) : Bool :=
  okS tbl d.hasSeed d.body && (!d.hasSeed || (flow tbl d.body .fresh).isSome)

/-- every function of the table is disciplined -/
def okTable (tbl : Table) : Bool := tbl.all fun p => okDecl tbl p.2

/-- the per-function obligation emitted by the translator: `ok tbl "f" = true` -/
def ok (tbl : Table) (f : String) : Bool :=
  match lookup tbl f with
  | none => false
  | some d => okDecl tbl d

/-! ## semantics 1: relational, over an abstract world -/

/-- what a frame's local generator is: a private stream (the caller gave a seed), the process-global NumPy
    generator (no seed given) or nothing (function without a seed parameter) -/
inductive Local | priv | glob | none
  deriving DecidableEq, Repr

/-- state of everything a result could depend on apart from arguments and the private seeded stream:
    number of draws taken from NumPy's global generator, from Python's global `random`, and whether any
    source outside these was consulted -/
structure World where
  npGlobal : Nat
  pyGlobal : Nat
  untracked : Bool
  deriving DecidableEq, Repr

def hitLocal : Local → World → World
  | .priv, w => w
  | .glob, w => { w with npGlobal := w.npGlobal + 1 }
  | .none, w => { w with untracked := true }

def hit : Gen → Local → World → World
  | .localRng, l, w => hitLocal l w
  | .globalRng, _, w => { w with npGlobal := w.npGlobal + 1 }
  | .pyRandom, _, w => { w with pyGlobal := w.pyGlobal + 1 }
  | .unknown, _, w => { w with untracked := true }

/-- local generator of the callee's frame.  `get_rng` (see `getRng` below) passes a generator object through,
    turns `None` into the global generator and an integer into a fresh private stream, so forwarding the
    generator object or the seed parameter keeps the caller's kind; a missing/`None` seed means the global
    generator; any other argument is of unknown provenance. -/
def calleeLocal (hasSeed : Bool) (a : SeedArg) (l : Local) : Local :=
  if hasSeed then
    match a with
    | .rngObj => l
    | .seedParam => l
    | .noneLit => .glob
    | .absent => .glob
    | .other => .none
  else .none

/-- all executions of a skeleton: free choice of branch directions and loop counts; a call executes the
    callee's skeleton in the callee's frame; a call to a function outside the table is an untracked effect. -/
inductive Exec (tbl : Table) : Local → Stmt → World → World → Prop
  | bind (l w) : Exec tbl l .bindRng w w
  | draw (l g w) : Exec tbl l (.draw g) w (hit g l w)
  | call (l f a d w w') (hl : lookup tbl f = some d)
      (hb : Exec tbl (calleeLocal d.hasSeed a l) d.body w w') : Exec tbl l (.call f a) w w'
  | callUnknown (l f a w) (hl : lookup tbl f = Option.none) :
      Exec tbl l (.call f a) w { w with untracked := true }
  | seqNil (l w) : Exec tbl l (.seq []) w w
  | seqCons (l s ss w1 w2 w3) : Exec tbl l s w1 w2 → Exec tbl l (.seq ss) w2 w3 →
      Exec tbl l (.seq (s :: ss)) w1 w3
  | brL (l a b w1 w2) : Exec tbl l a w1 w2 → Exec tbl l (.branch a b) w1 w2
  | brR (l a b w1 w2) : Exec tbl l b w1 w2 → Exec tbl l (.branch a b) w1 w2
  | loop0 (l b w) : Exec tbl l (.loop b) w w
  | loopS (l b w1 w2 w3) : Exec tbl l b w1 w2 → Exec tbl l (.loop b) w2 w3 → Exec tbl l (.loop b) w1 w3

/-! ## semantics 2: deterministic, over explicit random streams

Arguments are fixed, so every control decision of the real routine is a function of the values it has drawn
so far; `ctl` is that (arbitrary) function.  The four sources are infinite streams; the state records the
values observed (`hist`), the number of control decisions taken and how far each stream has been consumed. -/

structure Streams where
  priv : Nat → Nat
  np : Nat → Nat
  py : Nat → Nat
  unk : Nat → Nat

structure St where
  hist : List Nat
  steps : Nat
  privPos : Nat
  npPos : Nat
  pyPos : Nat
  unkPos : Nat
  deriving DecidableEq, Repr

inductive Src | priv | np | py | unk
  deriving DecidableEq, Repr

def srcOfLocal : Local → Src
  | .priv => .priv
  | .glob => .np
  | .none => .unk

def srcOf : Gen → Local → Src
  | .localRng, l => srcOfLocal l
  | .globalRng, _ => .np
  | .pyRandom, _ => .py
  | .unknown, _ => .unk

def pull (σ : Streams) : Src → St → St
  | .priv, st => { st with hist := σ.priv st.privPos :: st.hist, privPos := st.privPos + 1 }
  | .np, st => { st with hist := σ.np st.npPos :: st.hist, npPos := st.npPos + 1 }
  | .py, st => { st with hist := σ.py st.pyPos :: st.hist, pyPos := st.pyPos + 1 }
  | .unk, st => { st with hist := σ.unk st.unkPos :: st.hist, unkPos := st.unkPos + 1 }

def tick (st : St) : St := { st with steps := st.steps + 1 }

/-- fuel-bounded deterministic run; `none` = fuel exhausted (a longer run exists for more fuel) -/
def run (tbl : Table) (σ : Streams) (ctl : List Nat → Nat → Bool) : Nat → Local → Stmt → St → Option St
  | 0, _, _, _ => none
  | _ + 1, _, .bindRng, st => some st
  | _ + 1, l, .draw g, st => some (pull σ (srcOf g l) st)
  | n + 1, l, .call f a, st =>
      match lookup tbl f with
      | some d => run tbl σ ctl n (calleeLocal d.hasSeed a l) d.body st
      | none => some (pull σ .unk st)
  | _ + 1, _, .seq [], st => some st
  | n + 1, l, .seq (s :: ss), st =>
      match run tbl σ ctl n l s st with
      | some st' => run tbl σ ctl n l (.seq ss) st'
      | none => none
  | n + 1, l, .branch a b, st =>
      if ctl st.hist st.steps then run tbl σ ctl n l a (tick st) else run tbl σ ctl n l b (tick st)
  | n + 1, l, .loop b, st =>
      if ctl st.hist st.steps then
        match run tbl σ ctl n l b (tick st) with
        | some st' => run tbl σ ctl n l (.loop b) st'
        | none => none
      else some (tick st)

/-! ## hand model of `bct.utils.get_rng` -/

/-- what a caller can pass as `seed` -/
inductive SeedVal
  | none                          -- `None`
  | npRandom                      -- the module `np.random`
  | randomState (k pos : Nat)     -- a `RandomState` constructed from `k` that has already made `pos` draws
  | int (k : Nat)                 -- an integer accepted by `RandomState(k)`
  deriving DecidableEq, Repr

/-- a generator: the process-global one, or the one determined by (construction seed, draws made so far) -/
inductive RngRef
  | global
  | stream (k pos : Nat)
  deriving DecidableEq, Repr

/-- `get_rng`: `None` / `np.random` ↦ the global instance, a `RandomState` ↦ itself, an int ↦ a fresh
    `RandomState(int)` -/
def getRng : SeedVal → RngRef
  | .none => .global
  | .npRandom => .global
  | .randomState k pos => .stream k pos
  | .int k => .stream k 0

/-- the frame kind that `get_rng(seed)` produces -/
def localOf (s : SeedVal) : Local :=
  match getRng s with
  | .global => .glob
  | .stream _ _ => .priv

/-! ## the seeded semantics obtains its generator through `getRng`

Private streams are indexed by the construction seed: `privOf k` is the stream of `RandomState(k)`.  `runSeed` is the
run of a function body for a caller-supplied `seed` value: `getRng` decides the kind of frame and where in which stream
the local generator stands (an int: position 0 of stream `k`; a `RandomState` built from `k` that made `pos` draws:
position `pos` of the same stream; `None` / `np.random`: the global generator). -/

structure SeedStreams where
  privOf : Nat → Nat → Nat
  np : Nat → Nat
  py : Nat → Nat
  unk : Nat → Nat

def SeedStreams.streams (σ : SeedStreams) (k : Nat) : Streams := ⟨σ.privOf k, σ.np, σ.py, σ.unk⟩

/-- the run of a body whose `seed` is an *integer*: `rng = get_rng(seed)` makes a fresh generator (position 0), a callee
    that is handed the seed parameter makes its own fresh generator (position 0) and leaves the caller's untouched; a
    callee that is handed the generator object continues it (that callee's frame is an object frame: `run … .priv`). -/
def runInt (tbl : Table) (σ : Streams) (ctl : List Nat → Nat → Bool) : Nat → Stmt → St → Option St
  | 0, _, _ => none
  | _ + 1, .bindRng, st => some { st with privPos := 0 }
  | _ + 1, .draw g, st => some (pull σ (srcOf g .priv) st)
  | n + 1, .call f a, st =>
      match lookup tbl f with
      | some d =>
        if d.hasSeed && a == .seedParam then
          match runInt tbl σ ctl n d.body { st with privPos := 0 } with
          | some st' => some { st' with privPos := st.privPos }
          | none => none
        else run tbl σ ctl n (calleeLocal d.hasSeed a .priv) d.body st
      | none => some (pull σ .unk st)
  | _ + 1, .seq [], st => some st
  | n + 1, .seq (s :: ss), st =>
      match runInt tbl σ ctl n s st with
      | some st' => runInt tbl σ ctl n (.seq ss) st'
      | none => none
  | n + 1, .branch a b, st =>
      if ctl st.hist st.steps then runInt tbl σ ctl n a (tick st) else runInt tbl σ ctl n b (tick st)
  | n + 1, .loop b, st =>
      if ctl st.hist st.steps then
        match runInt tbl σ ctl n b (tick st) with
        | some st' => runInt tbl σ ctl n (.loop b) st'
        | none => none
      else some (tick st)

/-- run for a caller-supplied seed value: `None` / `np.random` → unseeded frame; a `RandomState` built from `k` that made
    `pos` draws → object frame at position `pos` of stream `k` (what `getRng` returns, and returns again at every call);
    an int `k` → `runInt` on stream `k` (`getRng (.int k) = .stream k 0` at *every* `get_rng` call) -/
def runSeed (tbl : Table) (σ : SeedStreams) (ctl : List Nat → Nat → Bool) (n : Nat) (s : SeedVal) (body : Stmt)
    (st : St) : Option St :=
  match s with
  | .none => run tbl (σ.streams 0) ctl n .glob body st
  | .npRandom => run tbl (σ.streams 0) ctl n .glob body st
  | .randomState k pos => run tbl (σ.streams k) ctl n .priv body { st with privPos := pos }
  | .int k => runInt tbl (σ.streams k) ctl n body { st with privPos := 0 }

end Bct.RngIR
