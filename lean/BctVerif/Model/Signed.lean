import BctVerif.Model.Basic
/-!
# Executable model of the signed null models of `bct/algorithms/reference.py`

`randmio_dir_signed`, `randmio_und_signed`, `null_model_dir_sign`, `null_model_und_sign` and
`pick_four_unique_nodes_quickly` (bct/utils/miscellaneous_utilities.py).

Every random draw is an explicit input (`List Nat`): `randint(n**4)` values as themselves,
`permutation(m)` as its m values.  The `np.argsort` results of the dealing loop of the null models
(float products, not reproducible exactly) are a second explicit input, the *oracle*
(`List (List Nat)`, one entry per `argsort` call); the model checks that every entry is a
permutation of the current index range — the only fact about `argsort` the theorems use.

Written against the repaired routines (D13: negative weights are dealt as negative, the directed
null model calls `randmio_dir_signed`).
-/
namespace Bct.Signed
open Bct

abbrev Cell (n : Nat) := Fin n × Fin n
abbrev Quad (n : Nat) := Fin n × Fin n × Fin n × Fin n

/-! ### `pick_four_unique_nodes_quickly` -/

/-- `k = rng.randint(n**4)`, the four base-`n` digits of `k`, retry (recursive call on the same
generator) unless they are pairwise distinct. -/
def pickFour (n : Nat) : List Nat → Except Err (Quad n × List Nat)
  | [] => .error .outOfDraws
  | k :: ds =>
    if hn : 0 < n then
      if k < n ^ 4 then
        let a : Fin n := ⟨k % n, Nat.mod_lt _ hn⟩
        let b : Fin n := ⟨k / n % n, Nat.mod_lt _ hn⟩
        let c : Fin n := ⟨k / n ^ 2 % n, Nat.mod_lt _ hn⟩
        let d : Fin n := ⟨k / n ^ 3 % n, Nat.mod_lt _ hn⟩
        if a ≠ b ∧ a ≠ c ∧ a ≠ d ∧ b ≠ c ∧ b ≠ d ∧ c ≠ d then .ok ((a, b, c, d), ds)
        else pickFour n ds
      else .error .badDraw
    else .error .param

/-! ### the sign-guarded exchange -/

/-- the rewiring condition: `sign(ab)==sign(cd) and sign(ad)==sign(cb) and sign(ab)!=sign(ad)` -/
def guard {n} (R : AMat Int n) (a b c d : Fin n) : Bool :=
  Int.sign (R.get a b) == Int.sign (R.get c d) &&
  Int.sign (R.get a d) == Int.sign (R.get c b) &&
  Int.sign (R.get a b) != Int.sign (R.get a d)

/-- `randmio_dir_signed`: `R[a,d]=r0_ab; R[a,b]=r0_ad; R[c,b]=r0_cd; R[c,d]=r0_cb` -/
def swapDir {n} (R : AMat Int n) (a b c d : Fin n) : AMat Int n :=
  let ab := R.get a b; let cd := R.get c d; let ad := R.get a d; let cb := R.get c b
  (((R.set a d ab).set a b ad).set c b cd).set c d cb

/-- `randmio_und_signed`: `R[a,d]=R[d,a]=r0_ab; R[a,b]=R[b,a]=r0_ad; R[c,b]=R[b,c]=r0_cd; R[c,d]=R[d,c]=r0_cb` -/
def swapUnd {n} (R : AMat Int n) (a b c d : Fin n) : AMat Int n :=
  let ab := R.get a b; let cd := R.get c d; let ad := R.get a d; let cb := R.get c b
  (((((((R.set a d ab).set d a ab).set a b ad).set b a ad).set c b cd).set b c cd).set c d cb).set d c cb

def swap {n} (und : Bool) (R : AMat Int n) (a b c d : Fin n) : AMat Int n :=
  if und then swapUnd R a b c d else swapDir R a b c d

/-- one pass of the attempt body on four given nodes: `some` new matrix iff the guard accepts -/
def signedStep {n} (und : Bool) (R : AMat Int n) (a b c d : Fin n) : Option (AMat Int n) :=
  if guard R a b c d then some (swap und R a b c d) else none

/-- `att = 0; while att <= max_attempts: pick; if guard: swap; eff += 1; break; att += 1`
(`budget = max_attempts + 1`) -/
def attempts {n} (und : Bool) : (budget : Nat) → AMat Int n → List Nat → Except Err (AMat Int n × Bool × List Nat)
  | 0, R, ds => .ok (R, false, ds)
  | budget + 1, R, ds =>
    match pickFour n ds with
    | .error e => .error e
    | .ok ((a, b, c, d), rest) =>
      match signedStep und R a b c d with
      | some R' => .ok (R', true, rest)
      | none => attempts und budget R rest

/-- `for it in range(int(itr))` -/
def iters {n} (und : Bool) (maxAtt : Nat) : Nat → AMat Int n → Nat → List Nat → Except Err (AMat Int n × Nat × List Nat)
  | 0, R, eff, ds => .ok (R, eff, ds)
  | it + 1, R, eff, ds =>
    match attempts und (maxAtt + 1) R ds with
    | .error e => .error e
    | .ok (R', moved, rest) => iters und maxAtt it R' (if moved then eff + 1 else eff) rest

/-- `randmio_dir_signed` (`und = false`: `itr *= n(n-1)`, `max_attempts = n`) and
`randmio_und_signed` (`und = true`: `itr *= int(n(n-1)/2)`, `max_attempts = int(round(n/2))`) -/
def run {n} (und : Bool) (R : AMat Int n) (itr : Nat) (ds : List Nat) : Except Err (AMat Int n × Nat × List Nat) :=
  -- fewer than four nodes: no four distinct nodes exist, nothing can be rewired (`if n < 4: return R, 0`; without this
  -- guard `pick_four_unique_nodes_quickly` recurses until RecursionError — former finding C06-small-n-recursion)
  if n < 4 then .ok (R, 0, ds)
  else if und then iters true (roundHalfEven n 2) (itr * (n * (n - 1) / 2)) R 0 ds
  else iters false n (itr * (n * (n - 1))) R 0 ds

/-! ### the dealing stage of the null models -/

/-- `np.where(mask)` in row-major order; `triu = true` restricts to `i ≤ j` (`np.triu`) -/
def cellsWhere {n} (W : AMat Int n) (p : Int → Bool) (triu : Bool) : List (Cell n) :=
  (List.finRange n).flatMap fun i =>
    ((List.finRange n).filter fun j => p (W.get i j) && (!triu || decide (i.val ≤ j.val))).map fun j => (i, j)

def isPos (x : Int) : Bool := decide (0 < x)
def isNeg (x : Int) : Bool := decide (x < 0)

/-- `np.delete(l, I)` -/
def dropIdx {α} (l : List α) (I : List Nat) : List α :=
  (l.zipIdx.filter fun p => !I.contains p.2).map (·.1)

/-- `l[I]` (fancy indexing); used only after `I.all (· < l.length)` has been checked -/
def pickIdx {α} (l : List α) (I : List Nat) : List α := I.filterMap (l[·]?)

/-- is `p` a permutation of `0 … m-1` (what `np.argsort` / `rng.permutation(m)` return) -/
def isPermOfRange (p : List Nat) (m : Nat) : Bool :=
  p.length == m && p.all (· < m) && decide p.Nodup

structure DealSt (n : Nat) where
  cells : List (Cell n)          -- `Lij` (with `i`, `j`)
  wv : List Int                  -- `Wv`
  asg : List (Cell n × Int)      -- assignments `W0.flat[Lij[o]] = s * Wv[r]` made so far, as (cell, Wv[r])

/-- one sorting round: `Oind` from the oracle, `R = rs`; `o = Oind[r]`, cell `Lij[o]` gets `Wv[r]`,
then `Lij = delete(Lij, Oind[R])`, `Wv = delete(Wv, R)` -/
def dealRound {n} (st : DealSt n) (oind rs : List Nat) : Except Err (DealSt n) :=
  if !isPermOfRange oind st.cells.length then .error .badDraw
  else if !(decide rs.Nodup && rs.all (· < st.wv.length) && rs.all (· < oind.length)) then .error .index
  else
    let O := pickIdx oind rs
    .ok { cells := dropIdx st.cells O, wv := dropIdx st.wv rs,
          asg := st.asg ++ (pickIdx st.cells O).zip (pickIdx st.wv rs) }

/-- `for m in np.arange(wsize, 0, -wei_period)`; every round takes one oracle entry and the m values
of `rng.permutation(m)`, of which the first `min(m, wei_period)` are used -/
def dealLoop {n} (period : Nat) : (fuel m : Nat) → DealSt n → List (List Nat) → List Nat →
    Except Err (DealSt n × List (List Nat) × List Nat)
  | 0, m, st, orc, ds => if m = 0 then .ok (st, orc, ds) else .error .param
  | fuel + 1, m, st, orc, ds =>
    if m = 0 then .ok (st, orc, ds) else
    match orc with
    | [] => .error .outOfDraws
    | oind :: orc' =>
      if ds.length < m then .error .outOfDraws
      else if !isPermOfRange (ds.take m) m then .error .badDraw
      else
        match dealRound st oind ((ds.take m).take (min m period)) with
        | .error e => .error e
        | .ok st' => dealLoop period fuel (m - period) st' orc' (ds.drop m)

/-- the body of `for s in (1, -1)` for one sign: returns the (cell, |weight|) assignments.
`period = 0` encodes `wei_freq == 0` (one `argsort`, `W0.flat[Lij[Oind]] = s * Wv`). -/
def dealSign {n} (cells : List (Cell n)) (wv : List Int) (period : Nat) (orc : List (List Nat)) (ds : List Nat) :
    Except Err (List (Cell n × Int) × List (List Nat) × List Nat) :=
  if cells.length ≠ wv.length then .error .index else
  if period = 0 then
    match orc with
    | [] => .error .outOfDraws
    | oind :: orc' =>
      match dealRound { cells, wv, asg := [] } oind (List.range wv.length) with
      | .error e => .error e
      | .ok st => .ok (st.asg, orc', ds)
  else
    match dealLoop period wv.length wv.length { cells, wv, asg := [] } orc ds with
    | .error e => .error e
    | .ok (st, orc', ds') => .ok (st.asg, orc', ds')

def zeroMat (n : Nat) : AMat Int n := AMat.ofFn fun _ _ => 0

/-- write the assignments of one sign into `W0` -/
def writeAsg {n} (s : Int) (W0 : AMat Int n) (asg : List (Cell n × Int)) : AMat Int n :=
  asg.foldl (fun M p => M.set p.1.1 p.1.2 (s * p.2)) W0

def clearDiag {n} (W : AMat Int n) : AMat Int n := AMat.ofFn fun i j => if i = j then 0 else W.get i j

def isSymm {n} (R : AMat Int n) : Bool :=
  (List.finRange n).all fun i => (List.finRange n).all fun j => R.get i j == R.get j i

/-- insertion sort (structural, so that the kernel can evaluate the model in the `example`s) -/
def insertSorted (x : Int) : List Int → List Int
  | [] => [x]
  | y :: l => if x ≤ y then x :: y :: l else y :: insertSorted x l

def sortInts : List Int → List Int
  | [] => []
  | x :: l => insertSorted x (sortInts l)

/-- sorted weight vector `np.sort(s * W[Acur])` (und: `W[np.where(np.triu(Acur))]`) -/
def sortedWeights {n} (W : AMat Int n) (s : Int) (p : Int → Bool) (triu : Bool) : List Int :=
  sortInts ((cellsWhere W p triu).map fun c => s * W.get c.1 c.2)

structure NullOut (n : Nat) where
  W0 : AMat Int n
  Wc : AMat Int n        -- the input with cleared diagonal
  Wr : AMat Int n        -- the rewired sign pattern carrier `W_r`
  orcLeft : Nat
  dsLeft : Nat

/-- `null_model_dir_sign` (`und = false`) / `null_model_und_sign` (`und = true`).
`period = round(1 / wei_freq)` (0 for `wei_freq == 0`). -/
def nullModel {n} (und : Bool) (W : AMat Int n) (binSwaps period : Nat) (orc : List (List Nat)) (ds : List Nat) :
    Except Err (NullOut n) :=
  if und && !isSymm W then .error .param else
  let Wc := clearDiag W
  let rew : Except Err (AMat Int n × List Nat) :=
    if (cellsWhere Wc isPos false).length < n * (n - 1) then
      match run und Wc binSwaps ds with
      | .error e => .error e
      | .ok (Wr, _, rest) => .ok (Wr, rest)
    else .ok (Wc, ds)
  match rew with
  | .error e => .error e
  | .ok (Wr, ds1) =>
    match dealSign (cellsWhere Wr isPos und) (sortedWeights Wc 1 isPos und) period orc ds1 with
    | .error e => .error e
    | .ok (asgP, orc2, ds2) =>
      match dealSign (cellsWhere Wr isNeg und) (sortedWeights Wc (-1) isNeg und) period orc2 ds2 with
      | .error e => .error e
      | .ok (asgN, orc3, ds3) =>
        let U := writeAsg (-1) (writeAsg 1 (zeroMat n) asgP) asgN
        let W0 := if und then AMat.ofFn fun i j => U.get i j + U.get j i else U
        .ok { W0, Wc, Wr, orcLeft := orc3.length, dsLeft := ds3.length }

/-! ### strength correlations: exact covariance / variances (scaled by n²) -/

def posPart (x : Int) : Int := if 0 < x then x else 0
def negPart (x : Int) : Int := if x < 0 then -x else 0

def colSum {n} (W : AMat Int n) (f : Int → Int) (j : Fin n) : Int := (List.finRange n).foldl (fun acc i => acc + f (W.get i j)) 0
def rowSum {n} (W : AMat Int n) (f : Int → Int) (i : Fin n) : Int := (List.finRange n).foldl (fun acc j => acc + f (W.get i j)) 0

/-- `(n·Σxy − ΣxΣy, n·Σx² − (Σx)², n·Σy² − (Σy)²)`: Pearson r = first / sqrt(second · third) -/
def covTriple (xs ys : List Int) : Int × Int × Int :=
  let n : Int := xs.length
  let sx := xs.foldl (· + ·) 0; let sy := ys.foldl (· + ·) 0
  let sxy := (xs.zip ys).foldl (fun acc p => acc + p.1 * p.2) 0
  let sxx := xs.foldl (fun acc x => acc + x * x) 0; let syy := ys.foldl (fun acc y => acc + y * y) 0
  (n * sxy - sx * sy, n * sxx - sx * sx, n * syy - sy * sy)

def showTriple (t : Int × Int × Int) : String := s!"{t.1},{t.2.1},{t.2.2}"

/-- ± in-strength (column sums) / out-strength (row sums) sequences: `np.sum(W * (W > 0), axis=0)` … -/
def inStrength {n} (W : AMat Int n) (f : Int → Int) : List Int := (List.finRange n).map (colSum W f)
def outStrength {n} (W : AMat Int n) (f : Int → Int) : List Int := (List.finRange n).map (rowSum W f)

structure CorrOut where
  rpi : Int × Int × Int
  rpo : Int × Int × Int
  rni : Int × Int × Int
  rno : Int × Int × Int

/-- the exact ingredients of the four returned correlations `rpos_in, rpos_ou, rneg_in, rneg_ou` -/
def corrTriples {n} (W W0 : AMat Int n) : CorrOut :=
  { rpi := covTriple (inStrength W posPart) (inStrength W0 posPart),
    rpo := covTriple (outStrength W posPart) (outStrength W0 posPart),
    rni := covTriple (inStrength W negPart) (inStrength W0 negPart),
    rno := covTriple (outStrength W negPart) (outStrength W0 negPart) }

def corrLine {n} (W W0 : AMat Int n) : String :=
  let c := corrTriples W W0
  s!"rpi={showTriple c.rpi} rpo={showTriple c.rpo} rni={showTriple c.rni} rno={showTriple c.rno}"

/-! ### `wei_period = np.round(1 / wei_freq)` in IEEE doubles -/

/-- the double nearest to a/b (a, b > 0; round half to even at 53 significant bits) as an exact fraction -/
def flDiv (a b : Nat) : Nat × Nat :=
  let t0 : Int := 52 - (Int.ofNat (Nat.log2 a) - Int.ofNat (Nat.log2 b))
  let scaled (t : Int) : Nat × Nat := if t ≥ 0 then (a * 2 ^ t.toNat, b) else (a, b * 2 ^ (-t).toNat)
  let q0 := (scaled t0).1 / (scaled t0).2
  let t : Int := if q0 < 2 ^ 52 then t0 + 1 else if q0 ≥ 2 ^ 53 then t0 - 1 else t0
  let s := roundHalfEven (scaled t).1 (scaled t).2
  if t ≥ 0 then (s, 2 ^ t.toNat) else (s * 2 ^ (-t).toNat, 1)

/-- `np.round(1 / wei_freq).astype(int)` for the double `wei_freq = p/q` (0 encodes `wei_freq == 0`) -/
def periodOf (p q : Nat) : Nat :=
  if p = 0 ∨ q = 0 then 0 else
  let y := flDiv q p
  roundHalfEven y.1 y.2

/-! ### driver -/

def parseOracle (s : String) : Option (List (List Nat)) :=
  if s == "-" || s == "" then some [] else (s.splitOn ";").mapM parseNats

def step (line : String) : String :=
  let (op, kv) := parseLine line
  let res : Option String := do
    let n ← (← lookup kv "n").toNat?
    let R ← parseMat n (← lookup kv "R")
    let itr ← (← lookup kv "itr").toNat?
    let ds ← parseNats (← lookup kv "draws")
    if op == "randmio_dir_signed" || op == "randmio_und_signed" then
      match run (op == "randmio_und_signed") R itr ds with
      | .error e => some s!"error={e.str}"
      | .ok (R', eff, rest) => some s!"R={showMat R'} eff={eff} left={rest.length}"
    else if op == "null_model_dir_sign" || op == "null_model_und_sign" then
      let period ← (match (← lookup kv "freq").splitOn "/" with
        | [p, q] => do
          let p ← p.toNat?; let q ← q.toNat?
          if q = 0 then none else if p = 0 then some 0 else if periodOf p q = 0 then none else some (periodOf p q)
        | _ => none)
      let orc ← parseOracle (← lookup kv "oracle")
      match nullModel (op == "null_model_und_sign") R itr period orc ds with
      | .error e => some s!"error={e.str}"
      | .ok o => some s!"W0={showMat o.W0} left={o.dsLeft} oleft={o.orcLeft} {corrLine o.Wc o.W0}"
    else none
  res.getD "error=protocol"

end Bct.Signed
