import BctVerif.Model.CoreIRDinv
import BctVerif.Model.CoreIREff
/-!
# T-gen for `efficiency_wei` (bct/algorithms/efficiency.py), global part — IR, interpreter, decidable check

    def efficiency_wei(Gw, local=False):
        if local not in (True, False, 'local', 'global', 'original'):
            raise BCTParamError(…)
        def distance_inv_wei(G): …                      # `Model/CoreIRDinv.lean`
        n = len(Gw)
        Gl = invert(Gw, copy=True)
        A = np.array((Gw != 0), dtype=int)
        if local == 'original':
            …                                           # counted
        elif local in (True, 'local'):
            …                                           # counted
        elif local in (False, 'global'):
            e = distance_inv_wei(Gl)
            E = np.sum(e) / (n * n - n)
        return E

`WeiIR` has a fixed shape: the nested function as a `Dinv.DinvIR`, the three statements before the `if` chain, the tests of the three
branches (the compared literals as source text), the two statements of the last branch, the returned name; the statements of the two
`local` branches are counted here (they are a separate tie).  The interpreter covers `local = False`: that value is not equal to
`'original'`, not in `(True, 'local')` and in `(False, 'global')` — `coherent` requires exactly these literals.
`invert(·, copy=True)` is the utility of `bct/utils/other.py` (`1 / w` on the non-zero entries; tied separately in family `util` and
folded into the generated file as `prim_invert`).
-/
namespace Bct.CoreIR.EffW
open Bct Bct.Dist Bct.CoreIR.Dijk Bct.CoreIR.Dinv Bct.CoreIR.Eff

structure WeiIR where
  recognised : Bool
  origins : List (String × String)
  params : List String
  defaults : List (String × String)
  /-- `if <guardT> not in (<guardKeys>): raise <guardExc>(…)` (the literals as source text) -/
  guardT : String
  guardKeys : List String
  guardExc : String
  inner : DinvIR
  /-- `<dim> = len(<dimOf>)` -/
  dim : String
  dimOf : String
  /-- `<gl> = <glCallee>(<glArg>, <glKw>=<glKwVal>)` -/
  gl : String
  glCallee : String
  glArg : String
  glKw : String
  glKwVal : String
  /-- `<adj> = np.array((<adjOf> != <adjLit>), dtype=<adjDtype>)` -/
  adj : String
  adjOf : String
  adjLit : Nat
  adjDtype : String
  /-- the chain `if <t> == <k>:` / `elif <t> in (<k>, …):` as `(tested name, is it `in`, literals as source text, number of statements)` -/
  tests : List (String × Bool × List String × Nat)
  /-- last branch: `<res> = <callee>(<arg>)`, `<out> = np.sum(<sumOf>) / <den>` -/
  res : String
  callee : String
  arg : String
  out : String
  sumOf : String
  den : KEx
  ret : String
  deriving DecidableEq, Repr

def WeiIR.coherent (ir : WeiIR) : Bool :=
  match ir.params with
  | [pG, pL] =>
    ir.guardT == pL && ir.guardKeys.contains "False" && ir.dimOf == pG && ir.glCallee == "invert" && ir.glArg == pG && ir.glKw == "copy" && ir.glKwVal == "True" &&
    ir.adjOf == pG && ir.adjLit == 0 && ir.adjDtype == "int" &&
    (match ir.tests with
      | [(t1, false, ["'original'"], _), (t2, true, ["True", "'local'"], _), (t3, true, ["False", "'global'"], 2)] => t1 == pL && t2 == pL && t3 == pL
      | _ => false) &&
    ir.callee == ir.inner.name && ir.arg == ir.gl && ir.sumOf == ir.res && ir.ret == ir.out &&
    decide ([pG, pL, ir.inner.name, ir.dim, ir.gl, ir.adj, ir.res, ir.out].Nodup)
  | _ => false

variable {n : Nat}

/-- one cell of `invert(·, copy=True)` on a float matrix -/
def invertCell : V → V
  | .ext (.fin q) => .ext (.fin (if q = 0 then 0 else 1 / q))
  | v => v

/-- `x + fin 0`-neutral sum of all cells, row-major -/
def sumCellsExt (M : AMat Ext n) : Ext := sumExt ((cells n).map fun p => M.get p.1 p.2)

/-- the inverse-distance matrix that the nested function returns, from the Dijkstra part's distance matrix -/
def invMatOf (ir : DinvIR) (D : AMat V n) : Option (AMat Ext n) :=
  if ir.invNum = 1 ∧ (List.finRange n).all (fun i => (List.finRange n).all fun j => match D.get i j with | .ext _ => true | _ => false) then
    some (AMat.ofFn fun i j => if i = j then Ext.fin (ir.f2V : Rat) else match D.get i j with | .ext d => d.inv | _ => Ext.fin 0)
  else none

/-- the nested function on a float matrix of lengths (`0` = no connection) -/
def runInner (ir : DinvIR) (fuel : Nat) (G : AMat V n) : Option (AMat Ext n) :=
  if !ir.coherent then none
  else match runDijk ir.dijk fuel G with
    | some [D] => invMatOf ir D
    | _ => none

/-- the routine with `local = False` on the float matrix of weights: outer `none` = a failed run, inner `none` = `nan` (`0 / 0`) -/
def runWei (ir : WeiIR) (fuel : Nat) (Gw : AMat V n) : Option (Option Ext) :=
  if !ir.coherent then none
  else
    let Gl : AMat V n := AMat.ofFn fun i j => invertCell (Gw.get i j)
    match runInner ir.inner fuel Gl, evalK ir.dim (n : Int) ir.den with
    | some e, some d =>
      match sumCellsExt e with
      | .fin s => if d = 0 then (if s = 0 then some none else none) else some (some (.fin (s / (d : Rat))))
      | .inf => if d = 0 then none else if 0 < d then some (some .inf) else none
    | _, _ => none

def refWei : WeiIR :=
  { recognised := true,
    origins := [("BCTParamError", "class bct/utils/miscellaneous_utilities.py:BCTParamError"), ("BibTeX", "from bct/due.py:BibTeX"),
                ("FAGIOLO2007", "from bct/citations.py:FAGIOLO2007"), ("LATORA2001", "from bct/citations.py:LATORA2001"),
                ("ONNELA2005", "from bct/citations.py:ONNELA2005"), ("RUBINOV2010", "from bct/citations.py:RUBINOV2010"), ("bool", "builtin"),
                ("cuberoot", "def bct/utils/miscellaneous_utilities.py:cuberoot"), ("due", "from bct/due.py:due"), ("int", "builtin"),
                ("invert", "def bct/utils/other.py:invert"), ("len", "builtin"), ("np", "module numpy"), ("range", "builtin")],
    params := ["Gw", "local"], defaults := [("local", "False")],
    guardT := "local", guardKeys := ["True", "False", "'local'", "'global'", "'original'"], guardExc := "BCTParamError",
    inner := refDinv, dim := "n", dimOf := "Gw",
    gl := "Gl", glCallee := "invert", glArg := "Gw", glKw := "copy", glKwVal := "True",
    adj := "A", adjOf := "Gw", adjLit := 0, adjDtype := "int",
    tests := [("local", false, ["'original'"], 2), ("local", true, ["True", "'local'"], 2), ("local", true, ["False", "'global'"], 2)],
    res := "e", callee := "distance_inv_wei", arg := "Gl", out := "E", sumOf := "e",
    den := .sub (.mul (.var "n") (.var "n")) (.var "n"), ret := "E" }

/-- the decidable obligation generated for the global part of `efficiency_wei` -/
def weiOk (ir : WeiIR) : Bool := ir == refWei

end Bct.CoreIR.EffW
