import BctVerif.Model.Rewire
/-!
# Source-extracted swap kernels: data format, symbolic executor, concrete executor, decidable check

`translate/kernels.py` reads `bct/algorithms/reference.py` with `ast` on every check run and writes, for
each of the twelve rewiring routines, a `Kernel` value into `BctVerif/Gen/Kernels.lean`: the literal
cell assignments of the accepted-swap block in program order, the edge-list rewrites, the optional
orientation flip, the guard cells, the bindings of the names `a b c d`.  Nothing in this file knows
what the routines *should* do except `expected` / `kernelOk`; `Props/C01Kernel.lean` proves that a
kernel passing `kernelOk` computes exactly `Rewire.swapDir` / `Rewire.swapUnd` (the functions the C01
theorems are about) when executed concretely on `AMat Int n`.

Core Lean only.
-/
namespace Bct.Kernel
open Bct

/-- the four node names of the source: 0 = a, 1 = b, 2 = c, 3 = d -/
abbrev Sym := Fin 4
abbrev Cell := Sym × Sym

def a : Sym := 0
def b : Sym := 1
def c : Sym := 2
def d : Sym := 3

/-- right-hand side of an extracted statement `R[x,y] = …` -/
inductive Src
  /-- `R[z,w]`, read when the statement executes -/
  | cell (c : Cell)
  /-- a local name bound to `R[z,w]` before the block (`r0_zw`) -/
  | saved (c : Cell)
  /-- an integer literal (`0`, `1`) -/
  | const (v : Int)
  deriving DecidableEq, Repr

/-- one extracted statement `R[dst] = src` -/
structure Assign where
  dst : Cell
  src : Src
  deriving DecidableEq, Repr

/-- which edge-index array / which of the two drawn edge indices -/
inductive Arr | i | j
  deriving DecidableEq, Repr
inductive EIdx | e1 | e2
  deriving DecidableEq, Repr

/-- one extracted statement `i[e] = v` / `j[e] = v` -/
structure EdgeWrite where
  arr : Arr
  idx : EIdx
  val : Sym
  deriving DecidableEq, Repr

/-- a binding `x = i[e]` / `x = j[e]` of one of the four names -/
structure Bind where
  name : Sym
  arr : Arr
  idx : EIdx
  deriving DecidableEq, Repr

inductive Kind | dir | und | dirSigned | undSigned | binUnd
  deriving DecidableEq, Repr

structure Kernel where
  kind : Kind
  /-- the extractor recognised every statement of the block (false ⇒ obligation unprovable) -/
  recognised : Bool
  /-- `a = i[e1]; b = j[e1]; c = i[e2]; d = j[e2]` (empty for the routines that draw four nodes) -/
  binds : List Bind
  /-- the pairs tested by `if a != c and a != d and b != c and b != d` -/
  distinct : List (Sym × Sym)
  /-- `i[e2] = d; j[e2] = c` under `if rng.random_sample() > .5` -/
  flip : List EdgeWrite
  /-- `c = i[e2]; d = j[e2]` following the flip -/
  rebind : List Bind
  /-- cells of the rewired matrix that `if not (R[a,d] or R[c,b] …)` requires to be empty -/
  guard : List Cell
  /-- cells of the mask matrix in the same test (`randomize_graph_partial_und`: both orientations of (a,d), (c,b)) -/
  maskGuard : List Cell
  /-- signed routines: `sign(R x) == sign(R y)` (true) / `!=` (false) conjuncts -/
  signGuard : List (Cell × Cell × Bool)
  /-- lattice condition `Σ D[x]*R[y] >= Σ D[x]*R[y]`: the (D cell, R cell) products of each side -/
  latLhs : List (Cell × Cell)
  latRhs : List (Cell × Cell)
  /-- the cell assignments of the accepted-swap block, program order -/
  assigns : List Assign
  /-- the edge-list rewrites of the accepted-swap block, program order -/
  edges : List EdgeWrite
  /-- number of `eff += 1` / `nswap += 1` statements in the block -/
  incr : Nat
  deriving Repr

/-! ### symbolic execution over the 16 cells `{a,b,c,d}²` -/

inductive Val
  /-- the value the cell held when the block was entered -/
  | tok (c : Cell)
  | const (v : Int)
  deriving DecidableEq, Repr

abbrev SymState := Cell → Val

def srcVal (S : SymState) : Src → Val
  | .cell s => S s
  | .saved s => .tok s
  | .const v => .const v

def symStep (S : SymState) (x : Assign) : SymState :=
  let v := srcVal S x.src
  fun c => if c = x.dst then v else S c

def symExec (as : List Assign) : SymState := as.foldl symStep (fun c => Val.tok c)

/-- equality on all 16 cells -/
def symEq (S T : SymState) : Bool :=
  (List.finRange 4).all fun i => (List.finRange 4).all fun j => S (i, j) == T (i, j)

/-! ### concrete execution on `AMat Int n`, exactly like `Rewire.swapDir` (`AMat.set` / `AMat.get`) -/

def srcGet {n} (ρ : Sym → Fin n) (R0 R : AMat Int n) : Src → Int
  | .cell s => R.get (ρ s.1) (ρ s.2)
  | .saved s => R0.get (ρ s.1) (ρ s.2)
  | .const v => v

def conStep {n} (ρ : Sym → Fin n) (R0 R : AMat Int n) (x : Assign) : AMat Int n :=
  R.set (ρ x.dst.1) (ρ x.dst.2) (srcGet ρ R0 R x.src)

/-- run the extracted assignments on `R`; `saved` sources read the matrix as it was on entry -/
def conExec {n} (ρ : Sym → Fin n) (as : List Assign) (R : AMat Int n) : AMat Int n :=
  as.foldl (conStep ρ R) R

def evalVal {n} (ρ : Sym → Fin n) (R : AMat Int n) : Val → Int
  | .tok c => R.get (ρ c.1) (ρ c.2)
  | .const v => v

/-- placement of the four names at concrete nodes -/
def place {n} (na nb nc nd : Fin n) : Sym → Fin n := fun s =>
  match s with
  | ⟨0, _⟩ => na
  | ⟨1, _⟩ => nb
  | ⟨2, _⟩ => nc
  | _ => nd

/-! ### the edge list: four symbolic slots `i[e1] j[e1] i[e2] j[e2]` -/

abbrev Slots := Arr → EIdx → Sym

/-- on entry `a = i[e1], b = j[e1], c = i[e2], d = j[e2]` -/
def slots0 : Slots := fun ar e =>
  match ar, e with
  | .i, .e1 => a | .j, .e1 => b | .i, .e2 => c | .j, .e2 => d

def slotStep (S : Slots) (w : EdgeWrite) : Slots :=
  fun ar e => if ar = w.arr ∧ e = w.idx then w.val else S ar e

def slotExec (ws : List EdgeWrite) : Slots := ws.foldl slotStep slots0

def slotsAre (S : Slots) (ie1 je1 ie2 je2 : Sym) : Bool :=
  S .i .e1 == ie1 && S .j .e1 == je1 && S .i .e2 == ie2 && S .j .e2 == je2

abbrev EVec (n k : Nat) := Vector (Fin n) k × Vector (Fin n) k

def edgeStep {n k} (ρ : Sym → Fin n) (e1 e2 : Fin k) (ij : EVec n k) (w : EdgeWrite) : EVec n k :=
  let e : Fin k := match w.idx with | .e1 => e1 | .e2 => e2
  match w.arr with
  | .i => (ij.1.set e (ρ w.val), ij.2)
  | .j => (ij.1, ij.2.set e (ρ w.val))

def edgeExec {n k} (ρ : Sym → Fin n) (e1 e2 : Fin k) (ws : List EdgeWrite) (ij : EVec n k) : EVec n k :=
  ws.foldl (edgeStep ρ e1 e2) ij

/-! ### what each kind of routine is expected to do -/

def expectedDir : SymState := fun x =>
  if x = (a, d) then .tok (a, b) else if x = (a, b) then .const 0
  else if x = (c, b) then .tok (c, d) else if x = (c, d) then .const 0 else .tok x

def expectedUnd : SymState := fun x =>
  if x = (a, d) then .tok (a, b) else if x = (a, b) then .const 0
  else if x = (d, a) then .tok (b, a) else if x = (b, a) then .const 0
  else if x = (c, b) then .tok (c, d) else if x = (c, d) then .const 0
  else if x = (b, c) then .tok (d, c) else if x = (d, c) then .const 0 else .tok x

/-- exchange of the saved values between (a,b)↔(a,d) and (c,d)↔(c,b) -/
def expectedDirSigned : SymState := fun x =>
  if x = (a, d) then .tok (a, b) else if x = (a, b) then .tok (a, d)
  else if x = (c, b) then .tok (c, d) else if x = (c, d) then .tok (c, b) else .tok x

/-- the same exchange written to both orientations of each cell -/
def expectedUndSigned : SymState := fun x =>
  if x = (a, d) ∨ x = (d, a) then .tok (a, b) else if x = (a, b) ∨ x = (b, a) then .tok (a, d)
  else if x = (c, b) ∨ x = (b, c) then .tok (c, d) else if x = (c, d) ∨ x = (d, c) then .tok (c, b) else .tok x

/-- `randomizer_bin_und`: edges a–b, c–d removed, a–c, b–d created -/
def expectedBinUnd : SymState := fun x =>
  if x = (a, b) ∨ x = (b, a) ∨ x = (c, d) ∨ x = (d, c) then .const 0
  else if x = (a, c) ∨ x = (c, a) ∨ x = (b, d) ∨ x = (d, b) then .const 1 else .tok x

def expected : Kind → SymState
  | .dir => expectedDir | .und => expectedUnd | .dirSigned => expectedDirSigned
  | .undSigned => expectedUndSigned | .binUnd => expectedBinUnd

def stdBinds : List Bind := [⟨a, .i, .e1⟩, ⟨b, .j, .e1⟩, ⟨c, .i, .e2⟩, ⟨d, .j, .e2⟩]
def stdDistinct : List (Sym × Sym) := [(a, c), (a, d), (b, c), (b, d)]
def stdGuard : List Cell := [(a, d), (c, b)]
/-- the mask is tested in both orientations of the two new edges (`randomize_graph_partial_und`) -/
def stdMaskGuard : List Cell := [(a, d), (c, b), (d, a), (b, c)]
/-- equality of cell lists as sets -/
def cellsEq (xs ys : List Cell) : Bool := xs.all (fun x => ys.contains x) && ys.all (fun y => xs.contains y)
def stdSignGuard : List (Cell × Cell × Bool) :=
  [((a, b), (c, d), true), ((a, d), (c, b), true), ((a, b), (a, d), false)]
def stdLatLhs : List (Cell × Cell) := [((a, b), (a, b)), ((c, d), (c, d))]
def stdLatRhs : List (Cell × Cell) := [((a, d), (a, b)), ((c, b), (c, d))]

/-- the flip leaves `(i[e2], j[e2]) = (d, c)` and the two names are re-read from the list -/
def flipOk (ker : Kernel) : Bool :=
  slotsAre (slotExec ker.flip) a b d c && ker.rebind == [⟨c, .i, .e2⟩, ⟨d, .j, .e2⟩]

/-- after the accepted swap the two list entries name the new edges `(a,d)` and `(c,b)` -/
def edgesOk (ker : Kernel) : Bool := slotsAre (slotExec ker.edges) a d c b

def cellsOk (ker : Kernel) : Bool := symEq (symExec ker.assigns) (expected ker.kind)

def latOkShape (ker : Kernel) : Bool :=
  (ker.latLhs == [] && ker.latRhs == []) || (ker.latLhs == stdLatLhs && ker.latRhs == stdLatRhs)

/-- the decidable obligation generated per routine -/
def kernelOk (ker : Kernel) : Bool :=
  ker.recognised && cellsOk ker &&
  match ker.kind with
  | .dir =>
      ker.binds == stdBinds && ker.distinct == stdDistinct && ker.flip == [] && ker.rebind == [] &&
      ker.guard == stdGuard && ker.maskGuard == [] && ker.signGuard == [] && latOkShape ker &&
      edgesOk ker && ker.incr == 1
  | .und =>
      ker.binds == stdBinds && ker.distinct == stdDistinct && flipOk ker &&
      ker.guard == stdGuard && (ker.maskGuard == [] || cellsEq ker.maskGuard stdMaskGuard) && ker.signGuard == [] &&
      latOkShape ker && edgesOk ker && ker.incr == 1
  | .dirSigned | .undSigned =>
      ker.binds == [] && ker.flip == [] && ker.rebind == [] && ker.guard == [] && ker.maskGuard == [] &&
      ker.signGuard == stdSignGuard && ker.latLhs == [] && ker.latRhs == [] && ker.edges == [] && ker.incr == 1
  | .binUnd =>
      ker.flip == [] && ker.guard == [] && ker.maskGuard == [] && ker.signGuard == [] &&
      ker.latLhs == [] && ker.latRhs == [] && ker.edges == []

/-! ### reference kernels (what `Rewire.swapDir` / `swapUnd` are, as data) -/

def refDir : List Assign :=
  [⟨(a, d), .cell (a, b)⟩, ⟨(a, b), .const 0⟩, ⟨(c, b), .cell (c, d)⟩, ⟨(c, d), .const 0⟩]

def refUnd : List Assign :=
  [⟨(a, d), .cell (a, b)⟩, ⟨(a, b), .const 0⟩, ⟨(d, a), .cell (b, a)⟩, ⟨(b, a), .const 0⟩,
   ⟨(c, b), .cell (c, d)⟩, ⟨(c, d), .const 0⟩, ⟨(b, c), .cell (d, c)⟩, ⟨(d, c), .const 0⟩]

def refBinUnd : List Assign :=
  [⟨(a, b), .const 0⟩, ⟨(c, d), .const 0⟩, ⟨(b, a), .const 0⟩, ⟨(d, c), .const 0⟩,
   ⟨(a, c), .const 1⟩, ⟨(b, d), .const 1⟩, ⟨(c, a), .const 1⟩, ⟨(d, b), .const 1⟩]

def refDirSigned : List Assign :=
  [⟨(a, d), .saved (a, b)⟩, ⟨(a, b), .saved (a, d)⟩, ⟨(c, b), .saved (c, d)⟩, ⟨(c, d), .saved (c, b)⟩]

def refUndSigned : List Assign :=
  [⟨(a, d), .saved (a, b)⟩, ⟨(d, a), .saved (a, b)⟩, ⟨(a, b), .saved (a, d)⟩, ⟨(b, a), .saved (a, d)⟩,
   ⟨(c, b), .saved (c, d)⟩, ⟨(b, c), .saved (c, d)⟩, ⟨(c, d), .saved (c, b)⟩, ⟨(d, c), .saved (c, b)⟩]

/-- the accepted swap of `randmio_dir_signed`: four values read first, then exchanged -/
def swapDirSigned {n} (R : AMat Int n) (a b c d : Fin n) : AMat Int n :=
  let r0_ab := R.get a b; let r0_cd := R.get c d; let r0_ad := R.get a d; let r0_cb := R.get c b
  (((R.set a d r0_ab).set a b r0_ad).set c b r0_cd).set c d r0_cb

/-- the accepted swap of `randmio_und_signed` -/
def swapUndSigned {n} (R : AMat Int n) (a b c d : Fin n) : AMat Int n :=
  let r0_ab := R.get a b; let r0_cd := R.get c d; let r0_ad := R.get a d; let r0_cb := R.get c b
  (((((((R.set a d r0_ab).set d a r0_ab).set a b r0_ad).set b a r0_ad).set c b r0_cd).set b c r0_cd).set c d r0_cb).set d c r0_cb

/-- the eight 0/1 assignments of `randomizer_bin_und`, program order -/
def swapBinUnd {n} (R : AMat Int n) (a b c d : Fin n) : AMat Int n :=
  (((((((R.set a b 0).set c d 0).set b a 0).set d c 0).set a c 1).set b d 1).set c a 1).set d b 1

/-- evaluation of the extracted guard on a concrete matrix: every listed cell is empty -/
def guardHolds {n} (ρ : Sym → Fin n) (R : AMat Int n) (cells : List Cell) : Bool :=
  cells.all fun x => R.get (ρ x.1) (ρ x.2) == 0

/-- evaluation of the extracted lattice condition -/
def latSum {n} (ρ : Sym → Fin n) (D R : AMat Int n) (ps : List (Cell × Cell)) : Int :=
  ps.foldl (fun acc p => acc + D.get (ρ p.1.1) (ρ p.1.2) * R.get (ρ p.2.1) (ρ p.2.2)) 0

def latHolds {n} (ρ : Sym → Fin n) (D R : AMat Int n) (ker : Kernel) : Bool :=
  latSum ρ D R ker.latLhs ≥ latSum ρ D R ker.latRhs

end Bct.Kernel
