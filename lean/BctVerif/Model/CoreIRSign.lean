import BctVerif.Model.CoreIRClust
/-!
# T-gen for `clustering_coef_wu_sign` (bct/algorithms/clustering.py) — IR, interpreter, decidable check

`translate/cores.py` (family `clust`) maps, on every check run, the whole body of `clustering_coef_wu_sign` to a `SignIR` value; the
generated obligation compares it with `refSign`.

    n = len(W)
    W = W.copy()
    np.fill_diagonal(W, 0)
    if coef_type == 'default':
        W_pos = W * (W > 0)
        K_pos = np.array(np.sum(np.logical_not(W_pos == 0), axis=1), dtype=float)
        ws_pos = cuberoot(W_pos)
        cyc3_pos = np.diag(np.dot(ws_pos, np.dot(ws_pos, ws_pos)))
        K_pos[np.where(cyc3_pos == 0)] = np.inf
        C_pos = cyc3_pos / (K_pos * (K_pos - 1))
        W_neg = -W * (W < 0)
        …                                               # the same six statements for the negative part
        return C_pos, C_neg
    elif coef_type in ('zhang', 'Zhang'):
        W_pos = W * (W > 0)
        cyc3_pos = np.zeros((n,))
        cyc2_pos = np.zeros((n,))
        W_neg = -W * (W < 0)
        cyc3_neg = np.zeros((n,))
        cyc2_neg = np.zeros((n,))
        for i in range(n):
            for j in range(n):
                for q in range(n):
                    cyc3_pos[i] += W_pos[j, i] * W_pos[i, q] * W_pos[j, q]
                    cyc3_neg[i] += W_neg[j, i] * W_neg[i, q] * W_neg[j, q]
                    if j != q:
                        cyc2_pos[i] += W_pos[j, i] * W_pos[i, q]
                        cyc2_neg[i] += W_neg[j, i] * W_neg[i, q]
        cyc2_pos[np.where(cyc3_pos == 0)] = np.inf
        C_pos = cyc3_pos / cyc2_pos
        cyc2_neg[np.where(cyc3_neg == 0)] = np.inf
        C_neg = cyc3_neg / cyc2_neg
        return C_pos, C_neg
    elif coef_type in ('costantini', 'Costantini'):
        cyc3 = np.zeros((n,))
        cyc2 = np.zeros((n,))
        for i in range(n): for j in range(n): for q in range(n):
                    cyc3[i] += W[j, i] * W[i, q] * W[j, q]
                    if j != q:
                        cyc2[i] += np.abs(W[j, i] * W[i, q])
        cyc2[np.where(cyc3 == 0)] = np.inf
        C = cyc3 / cyc2
        return C

The whole-array statements are statements of the Clust language (`Model/CoreIRClust.lean`: `Stmt`, `Ex`, their interpreter and value
domain); the sign parts `W * (W > 0)` / `-W * (W < 0)`, the `np.zeros((n,))` statements and the triple loops are records of this file.
A branch is a list of such items, executed in order on one environment.  A triple loop is evaluated accumulator by accumulator: the
iterations only add products of cells of matrices that the loop does not change, so the final value of `acc[i]` is the sum over `j`
and `q` (over `j ≠ q` under the `if`), taken here in the order of the model (`Σ_j Σ_q`; the arithmetic is exact).
-/
namespace Bct.CoreIR.Sign
open Bct Bct.CoreIR.Clust

/-- `<t> = <w> * (<c> > <lit>)` (`neg = false`) or `<t> = -<w> * (<c> < <lit>)` (`neg = true`) -/
structure PartDef where
  t : String
  neg : Bool
  w : String
  c : String
  lit : Nat
  deriving DecidableEq, Repr

/-- `<t>[<ti>] += <f1> * <f2> * …` with factors `<m>[<r>, <c>]`; `abs`: the product is wrapped in `np.abs` -/
structure Acc where
  t : String
  ti : String
  factors : List (String × String × String)
  abs : Bool
  deriving DecidableEq, Repr

/-- `for <i> in range(<iN>): for <j> in range(<jN>): for <q> in range(<qN>):` `always…`; `if <cL> != <cR>:` `guarded…` -/
structure Loop where
  i : String
  iN : String
  j : String
  jN : String
  q : String
  qN : String
  always : List Acc
  cL : String
  cR : String
  guarded : List Acc
  deriving DecidableEq, Repr

inductive Item
  | part (d : PartDef)
  /-- `<t> = np.zeros((<n>,))` -/
  | zeros (t n : String)
  | loop (l : Loop)
  /-- a whole-array statement of the Clust language -/
  | arr (s : Clust.Stmt)
  deriving DecidableEq, Repr

structure Branch where
  /-- the strings `coef_type` is compared with (`==` for one, `in (…)` for several) -/
  keys : List String
  isIn : Bool
  body : List Item
  ret : List String
  deriving DecidableEq, Repr

structure SignIR where
  recognised : Bool
  name : String
  origins : List (String × String)
  params : List String
  defaults : List (String × String)
  /-- `<dim> = len(<dimOf>)`, `<cpT> = <cpOf>.copy()`, `np.fill_diagonal(<fdM>, <fdV>)` -/
  dim : String
  dimOf : String
  cpT : String
  cpOf : String
  fdM : String
  fdV : Nat
  /-- the name every branch tests -/
  tested : List String
  branches : List Branch
  deriving DecidableEq, Repr

def Loop.coherent (dim : String) (l : Loop) : Bool :=
  l.iN == dim && l.jN == dim && l.qN == dim && l.cL == l.j && l.cR == l.q && decide ([l.i, l.j, l.q].Nodup) &&
  (l.always ++ l.guarded).all (fun a => a.ti == l.i && a.factors.all fun f => (f.2.1 == l.i || f.2.1 == l.j || f.2.1 == l.q) &&
    (f.2.2 == l.i || f.2.2 == l.j || f.2.2 == l.q))

def Item.coherent (dim : String) : Item → Bool
  | .part d => d.c == d.w
  | .zeros _ n => n == dim
  | .loop l => l.coherent dim
  | .arr _ => true

/-- the names of the source refer to each other as they must -/
def SignIR.coherent (ir : SignIR) : Bool :=
  match ir.params with
  | [pW, pT] =>
    ir.dimOf == pW && ir.cpT == pW && ir.cpOf == pW && ir.fdM == pW && ir.fdV == 0 && ir.dim != pW && ir.dim != pT &&
    ir.tested.all (· == pT) && ir.tested.length == ir.branches.length &&
    ir.branches.all (fun b => b.body.all (Item.coherent ir.dim) && (b.isIn || b.keys.length == 1))
  | _ => false

variable {n : Nat}

def absV : V → V
  | .num x => .num (if x < 0 then -x else x)
  | .inf => .inf
  | _ => .err

/-- one cell of `W * (W > lit)` / `-W * (W < lit)` -/
def partCell (neg : Bool) (lit : Nat) : V → V
  | .num x => if neg then .num (if x < (lit : Rat) then -x else 0) else .num (if (lit : Rat) < x then x else 0)
  | _ => .err

def prodV : List V → V
  | [] => .num 1
  | [a] => a
  | a :: rest => rest.foldl V.mul a

/-- the final value of one accumulator at node `i`: `Σ_j Σ_q` (over `j ≠ q` if `guarded`) of the product of the factors -/
def accAt (E : Env n) (l : Loop) (guarded : Bool) (a : Acc) (i : Fin n) : Option V :=
  let idx (x : String) (j q : Fin n) : Fin n := if x = l.i then i else if x = l.j then j else q
  let mats := a.factors.map fun f => E f.1
  if mats.all (fun m => match m with | some (.mat _) => true | _ => false) then
    some (sumV ((List.finRange n).map fun j => sumV ((List.finRange n).map fun q =>
      if guarded && j == q then V.num 0
      else
        let p := prodV (a.factors.map fun f => match E f.1 with
          | some (.mat M) => M.get (idx f.2.1 j q) (idx f.2.2 j q)
          | _ => V.err)
        if a.abs then absV p else p)))
  else none

/-- the triple loop: every accumulator must be a vector of zeros made before the loop -/
def runLoop (E : Env n) (l : Loop) : Option (Env n) :=
  let go (guarded : Bool) (E' : Option (Env n)) (a : Acc) : Option (Env n) :=
    match E' with
    | none => none
    | some Ec =>
      match Ec a.t with
      | some (.vec v) =>
        if (List.finRange n).all (fun i => v[i] == V.num 0) then
          match (List.finRange n).mapM (fun i => accAt E l guarded a i) with
          | some vals => some fun y => if y = a.t then some (.vec (Vector.ofFn fun i => vals.getD i.val V.err)) else Ec y
          | none => none
        else none
      | _ => none
  l.guarded.foldl (go true) (l.always.foldl (go false) (some E))

def runItem (cb : Rat → Rat) (E : Env n) : Item → Option (Env n)
  | .part d => match E d.w with
    | some (.mat M) => some fun y => if y = d.t then some (.mat (AMat.ofFn fun i j => partCell d.neg d.lit (M.get i j))) else E y
    | _ => none
  | .zeros t _ => some fun y => if y = t then some (.vec (Vector.ofFn fun _ => V.num 0)) else E y
  | .loop l => runLoop E l
  | .arr s => Clust.exec cb E s

def runItems (cb : Rat → Rat) : List Item → Env n → Option (Env n)
  | [], E => some E
  | x :: xs, E => match runItem cb E x with
    | some E' => runItems cb xs E'
    | none => none

/-- the routine: `none` = a failed run; `some []` = no branch taken (Python returns `None`) -/
def runSign (cb : Rat → Rat) (ir : SignIR) (W : AMat V n) (coef : String) : Option (List (Val n)) :=
  if !ir.coherent then none
  else
    match ir.params with
    | [pW, _] =>
      let Z : AMat V n := AMat.ofFn fun i j => if i = j then V.num (ir.fdV : Rat) else W.get i j
      let E0 : Env n := fun y => if y = pW then some (.mat Z) else none
      match ir.branches.find? (fun b => b.keys.contains coef) with
      | none => some []
      | some b =>
        match runItems cb b.body E0 with
        | some E => b.ret.mapM fun x => E x
        | none => none
    | _ => none

/-! ## reference program -/

def kOf (w k : String) : Clust.Stmt := .bind k (.arrayFloat (.sumAx (.lnot (.eq (.ref w) (.lit 0))) 1))
def cyc3Of (ws c : String) : Clust.Stmt := .bind c (.diag (.dot (.ref ws) (.dot (.ref ws) (.ref ws))))
def maskOf (k c : String) : Clust.Stmt := .setWhere k (.eq (.ref c) (.lit 0)) .infLit

def onnela (w k ws c out : String) : List Item :=
  [ .arr (kOf w k), .arr (.bind ws (.cbrt (.ref w))), .arr (cyc3Of ws c), .arr (maskOf k c),
    .arr (.bind out (.div (.ref c) (.mul (.ref k) (.sub (.ref k) (.lit 1))))) ]

def refDefault : Branch :=
  { keys := ["default"], isIn := false,
    body := [ .part { t := "W_pos", neg := false, w := "W", c := "W", lit := 0 } ] ++ onnela "W_pos" "K_pos" "ws_pos" "cyc3_pos" "C_pos" ++
            [ .part { t := "W_neg", neg := true, w := "W", c := "W", lit := 0 } ] ++ onnela "W_neg" "K_neg" "ws_neg" "cyc3_neg" "C_neg",
    ret := ["C_pos", "C_neg"] }

def tri (t m : String) : Acc := { t := t, ti := "i", factors := [(m, "j", "i"), (m, "i", "q"), (m, "j", "q")], abs := false }
def two (t m : String) (ab : Bool) : Acc := { t := t, ti := "i", factors := [(m, "j", "i"), (m, "i", "q")], abs := ab }

def refZhang : Branch :=
  { keys := ["zhang", "Zhang"], isIn := true,
    body := [ .part { t := "W_pos", neg := false, w := "W", c := "W", lit := 0 }, .zeros "cyc3_pos" "n", .zeros "cyc2_pos" "n",
              .part { t := "W_neg", neg := true, w := "W", c := "W", lit := 0 }, .zeros "cyc3_neg" "n", .zeros "cyc2_neg" "n",
              .loop { i := "i", iN := "n", j := "j", jN := "n", q := "q", qN := "n",
                      always := [tri "cyc3_pos" "W_pos", tri "cyc3_neg" "W_neg"], cL := "j", cR := "q",
                      guarded := [two "cyc2_pos" "W_pos" false, two "cyc2_neg" "W_neg" false] },
              .arr (maskOf "cyc2_pos" "cyc3_pos"), .arr (.bind "C_pos" (.div (.ref "cyc3_pos") (.ref "cyc2_pos"))),
              .arr (maskOf "cyc2_neg" "cyc3_neg"), .arr (.bind "C_neg" (.div (.ref "cyc3_neg") (.ref "cyc2_neg"))) ],
    ret := ["C_pos", "C_neg"] }

def refCost : Branch :=
  { keys := ["costantini", "Costantini"], isIn := true,
    body := [ .zeros "cyc3" "n", .zeros "cyc2" "n",
              .loop { i := "i", iN := "n", j := "j", jN := "n", q := "q", qN := "n",
                      always := [tri "cyc3" "W"], cL := "j", cR := "q", guarded := [two "cyc2" "W" true] },
              .arr (maskOf "cyc2" "cyc3"), .arr (.bind "C" (.div (.ref "cyc3") (.ref "cyc2"))) ],
    ret := ["C"] }

def refSign : SignIR :=
  { recognised := true, name := "clustering_coef_wu_sign",
    origins :=
   [("BibTeX", "from bct/due.py:BibTeX"), ("COSTANTINI2014", "from bct/citations.py:COSTANTINI2014"),
    ("ONNELA2005", "from bct/citations.py:ONNELA2005"), ("ZHANG2005", "from bct/citations.py:ZHANG2005"),
    ("cuberoot", "def bct/utils/miscellaneous_utilities.py:cuberoot"), ("due", "from bct/due.py:due"), ("float", "builtin"), ("len", "builtin"),
    ("np", "module numpy"), ("range", "builtin")],
    params := ["W", "coef_type"], defaults := [("coef_type", "'default'")],
    dim := "n", dimOf := "W", cpT := "W", cpOf := "W", fdM := "W", fdV := 0,
    tested := ["coef_type", "coef_type", "coef_type"],
    branches := [refDefault, refZhang, refCost] }

/-- the decidable obligation generated for `clustering_coef_wu_sign` -/
def signOk (ir : SignIR) : Bool := ir == refSign

end Bct.CoreIR.Sign
