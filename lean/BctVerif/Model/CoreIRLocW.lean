import BctVerif.Model.CoreIREffW
import BctVerif.Model.LocalEff
/-!
# T-gen for the two `local` branches of `efficiency_wei` (bct/algorithms/efficiency.py) — IR, interpreter, decidable check

    if local == 'original':
        E = np.zeros((n,))
        for u in range(n):
            V, = np.where(np.logical_or(Gw[u, :], Gw[:, u].T))
            sw = cuberoot(Gw[u, V]) + cuberoot(Gw[V, u].T)
            e = distance_inv_wei(Gl[np.ix_(V, V)])
            se = cuberoot(e) + cuberoot(e.T)
            numer = np.sum(np.outer(sw.T, sw) * se) / 2
            if numer != 0:
                sa = A[u, V] + A[V, u].T
                denom = np.sum(sa)**2 - np.sum(sa * sa)
                E[u] = numer / denom
    elif local in (True, 'local'):
        …                                               # the same with
            e = distance_inv_wei(cuberoot(Gl)[np.ix_(V, V)])
            se = e+e.T

One IR type for both branches (`LocWIR`): the statements matched positionally, one field per name and literal, two flags for the two
places where the branches differ (`lenCbrt`: the lengths are cube-rooted before the call; `seCbrt`: the inverse distances are cube-rooted
after it).  The part of the routine outside the branches is the `WeiIR` value of `Model/CoreIREffW.lean` (`base`), the nested function is
run at the dimension of the neighbourhood.  `cuberoot` is the per-entry function `cb` (as for the weighted clustering routines).  The
interpreter computes one entry `E[u]`; `none` = a failed run, a distance zero between two distinct neighbours, or a division by zero.
-/
namespace Bct.CoreIR.LocW
open Bct Bct.Dist Bct.CoreIR.Dijk Bct.CoreIR.Dinv Bct.CoreIR.EffW Bct.LocalEff

structure LocWIR where
  base : WeiIR
  /-- which branch of the chain (0 = the first) -/
  branch : Nat
  /-- `<out> = np.zeros((<zN>,))`, `for <u> in range(<uN>):` -/
  out : String
  zN : String
  u : String
  uN : String
  /-- `<v>, = np.where(np.logical_or(<va>[<vai>, :], <vb>[:, <vbi>].T))` -/
  v : String
  va : String
  vai : String
  vb : String
  vbi : String
  /-- `<sw> = <swF1>(<swM1>[<swU1>, <swV1>]) + <swF2>(<swM2>[<swV2>, <swU2>].T)` -/
  sw : String
  swF1 : String
  swM1 : String
  swU1 : String
  swV1 : String
  swF2 : String
  swM2 : String
  swV2 : String
  swU2 : String
  /-- `<e> = <callee>(<cm>[np.ix_(<c1>, <c2>)])`, or with `<lenF>(<cm>)` for `<cm>` when `lenCbrt` -/
  e : String
  callee : String
  lenCbrt : Bool
  lenF : String
  cm : String
  c1 : String
  c2 : String
  /-- `<se> = <se1> + <se2>.T`, or `<seF1>(<se1>) + <seF2>(<se2>.T)` when `seCbrt` -/
  se : String
  seCbrt : Bool
  seF1 : String
  se1 : String
  seF2 : String
  se2 : String
  /-- `<numer> = np.sum(np.outer(<o1>.T, <o2>) * <o3>) / <nd>`, `if <t> != <tz>:` -/
  numer : String
  o1 : String
  o2 : String
  o3 : String
  nd : Nat
  t : String
  tz : Nat
  /-- `<sa> = <sam>[<sau>, <sav>] + <sam2>[<sav2>, <sau2>].T`, `<denom> = np.sum(<d1>)**<dp> - np.sum(<d2> * <d3>)`, `<st>[<sti>] = <sn> / <sd>` -/
  sa : String
  sam : String
  sau : String
  sav : String
  sam2 : String
  sav2 : String
  sau2 : String
  denom : String
  d1 : String
  dp : Nat
  d2 : String
  d3 : String
  st : String
  sti : String
  sn : String
  sd : String
  deriving DecidableEq, Repr

def LocWIR.coherent (ir : LocWIR) : Bool :=
  match ir.base.params with
  | [pG, _] =>
    ir.base.coherent && ir.branch < 2 && ir.zN == ir.base.dim && ir.uN == ir.base.dim && ir.out == ir.base.out &&
    ir.va == pG && ir.vai == ir.u && ir.vb == pG && ir.vbi == ir.u &&
    ir.swF1 == "cuberoot" && ir.swM1 == pG && ir.swU1 == ir.u && ir.swV1 == ir.v && ir.swF2 == "cuberoot" && ir.swM2 == pG && ir.swV2 == ir.v &&
    ir.swU2 == ir.u &&
    ir.callee == ir.base.inner.name && (!ir.lenCbrt || ir.lenF == "cuberoot") && ir.cm == ir.base.gl && ir.c1 == ir.v && ir.c2 == ir.v &&
    ir.se1 == ir.e && ir.se2 == ir.e && (!ir.seCbrt || (ir.seF1 == "cuberoot" && ir.seF2 == "cuberoot")) &&
    ir.o1 == ir.sw && ir.o2 == ir.sw && ir.o3 == ir.se && ir.nd != 0 && ir.t == ir.numer &&
    ir.sam == ir.base.adj && ir.sau == ir.u && ir.sav == ir.v && ir.sam2 == ir.base.adj && ir.sav2 == ir.v && ir.sau2 == ir.u &&
    ir.d1 == ir.sa && ir.d2 == ir.sa && ir.d3 == ir.sa && ir.st == ir.out && ir.sti == ir.u && ir.sn == ir.numer && ir.sd == ir.denom &&
    decide ([pG, ir.base.dim, ir.base.gl, ir.base.adj, ir.out, ir.u, ir.v, ir.sw, ir.e, ir.se, ir.numer, ir.sa, ir.denom, ir.base.inner.name].Nodup)
  | _ => false

variable {n : Nat}

/-- a float cell of the argument as a rational -/
def cellQ : V → Option Rat
  | .ext (.fin q) => some q
  | _ => none

/-- a finite inverse distance; `inf` does not occur once the finiteness test has passed -/
def finOr0 : Ext → Rat
  | .fin x => x
  | .inf => 0

def allFin (G : AMat V n) : Bool := (cells n).all fun p => (cellQ (G.get p.1 p.2)).isSome

/-- the body of the loop for node `u`, on the weights as rationals -/
def nodeLocW (cb : Rat → Rat) (ir : LocWIR) (fuel : Nat → Nat) (W : AMat Rat n) (u : Fin n) : Option Rat :=
  let Vs := nbrs W u
  let len : AMat Rat Vs.length := AMat.ofFn fun a b =>
    let g := if W.get (Vs.get a) (Vs.get b) = 0 then 0 else 1 / W.get (Vs.get a) (Vs.get b)
    if ir.lenCbrt then cb g else g
  match runInner ir.base.inner (fuel Vs.length) (AMat.map (fun q => V.ext (.fin q)) len) with
  | none => none
  | some e =>
    if (cells Vs.length).all (fun p => (e.get p.1 p.2).isFin) then
      let eq : Fin Vs.length → Fin Vs.length → Rat := fun a b => finOr0 (e.get a b)
      let sw : Fin Vs.length → Rat := fun a => cb (W.get u (Vs.get a)) + cb (W.get (Vs.get a) u)
      let se : Fin Vs.length → Fin Vs.length → Rat := fun a b => if ir.seCbrt then cb (eq a b) + cb (eq b a) else eq a b + eq b a
      let numer := (ksum fun a => ksum fun b => sw a * sw b * se a b) / (ir.nd : Rat)
      if numer = (ir.tz : Rat) then some 0
      else
        let sa : Fin Vs.length → Rat := fun a => (if W.get u (Vs.get a) = 0 then 0 else 1) + (if W.get (Vs.get a) u = 0 then 0 else 1)
        let denom := (ksum sa) ^ ir.dp - ksum fun a => sa a * sa a
        if denom = 0 then none else some (numer / denom)
    else none

/-- the entry `E[u]` on the float matrix of weights; `fuel k` bounds the `while` loops of the nested function on a `k × k` argument -/
def runLocW (cb : Rat → Rat) (ir : LocWIR) (fuel : Nat → Nat) (Gw : AMat V n) (u : Fin n) : Option Rat :=
  if !ir.coherent || !allFin Gw then none
  else nodeLocW cb ir fuel (AMat.ofFn fun i j => (cellQ (Gw.get i j)).getD 0) u

def refLocal : LocWIR :=
  { base := refWei, branch := 1, out := "E", zN := "n", u := "u", uN := "n",
    v := "V", va := "Gw", vai := "u", vb := "Gw", vbi := "u",
    sw := "sw", swF1 := "cuberoot", swM1 := "Gw", swU1 := "u", swV1 := "V", swF2 := "cuberoot", swM2 := "Gw", swV2 := "V", swU2 := "u",
    e := "e", callee := "distance_inv_wei", lenCbrt := true, lenF := "cuberoot", cm := "Gl", c1 := "V", c2 := "V",
    se := "se", seCbrt := false, seF1 := "", se1 := "e", seF2 := "", se2 := "e",
    numer := "numer", o1 := "sw", o2 := "sw", o3 := "se", nd := 2, t := "numer", tz := 0,
    sa := "sa", sam := "A", sau := "u", sav := "V", sam2 := "A", sav2 := "V", sau2 := "u",
    denom := "denom", d1 := "sa", dp := 2, d2 := "sa", d3 := "sa", st := "E", sti := "u", sn := "numer", sd := "denom" }

def refOriginal : LocWIR :=
  { refLocal with branch := 0, lenCbrt := false, lenF := "", seCbrt := true, seF1 := "cuberoot", seF2 := "cuberoot" }

/-- the decidable obligations generated for the two `local` branches of `efficiency_wei` -/
def locWOk (ref ir : LocWIR) : Bool := ir == ref

end Bct.CoreIR.LocW
