import BctVerif.Model.Basic
/-!
# Executable model of the synthetic generators of `bct/algorithms/reference.py`

`makerandCIJ_dir`, `makerandCIJ_und`, `makeringlatticeCIJ`, `makeevenCIJ`, `makerandCIJdegreesfixed`,
`maketoeplitzCIJ`, `makefractalCIJ`.  A `random_sample` value is recorded as the integer `v·2^53`; float
thresholds observed in the real run are exact dyadic rationals `num/den`.
A `rng.randint(k)` draw is its value.
A `rng.permutation(m)` draw is an explicit input: its m values (`List Nat`).

Written against the repaired routines (D3: `seq[count - 1]`, D4: `CIJ + CIJ.T`, D19: the band is
clipped to 0/1, D5: integer stub arrays and `CIJ[edges[0,i], edges[1,switch]] = 1` in the repair).
-/
namespace Bct.Synth
open Bct

abbrev Cell (n : Nat) := Fin n × Fin n

def zeroMat (n : Nat) : AMat Int n := AMat.ofFn fun _ _ => 0

/-- is `p` a permutation of `0 … m-1` (what `rng.permutation(m)` returns) -/
def isPermOfRange (p : List Nat) (m : Nat) : Bool :=
  p.length == m && p.all (· < m) && decide p.Nodup

/-- `ix, = np.where(mask.flat)` for the masks `~eye(n)` (`triu = false`) and `triu(~eye(n))` -/
def freeCells (n : Nat) (triu : Bool) : List (Cell n) :=
  (List.finRange n).flatMap fun i =>
    ((List.finRange n).filter fun j => if triu then decide (i.val < j.val) else decide (i ≠ j)).map fun j => (i, j)

/-- `CIJ.flat[cells] = 1` -/
def writeOnes {n} (M : AMat Int n) (cells : List (Cell n)) : AMat Int n :=
  cells.foldl (fun M c => M.set c.1 c.2 1) M

/-- `ix[rp][:k]` : the cells selected by the first k entries of the permutation -/
def choose {α} (ix : List α) (rp : List Nat) (k : Nat) : List α := (rp.take k).filterMap (ix[·]?)

/-- `makerandCIJ_dir(n, k)` (`und = false`), `makerandCIJ_und(n, k)` (`und = true`) -/
def randCIJ (und : Bool) (n k : Nat) (ds : List Nat) : Except Err (AMat Int n × List Nat) :=
  let ix := freeCells n und
  let m := ix.length
  if ds.length < m then .error .outOfDraws
  else if !isPermOfRange (ds.take m) m then .error .badDraw
  else
    let U := writeOnes (zeroMat n) (choose ix (ds.take m) k)
    let C := if und then AMat.ofFn fun i j => U.get i j + U.get j i else U
    .ok (C, ds.drop m)

/-! ### ring lattice -/

def b2i (b : Bool) : Int := if b then 1 else 0

/-- `np.triu(CIJ1, c) - np.triu(CIJ1, c + 1)` : the c-th superdiagonal -/
def superDiag (n c : Nat) : AMat Int n := AMat.ofFn fun i j => b2i (j.val == i.val + c)

/-- `np.minimum(dCIJ + dCIJ.T + dCIJ2 + dCIJ2.T, 1)` for `seq[count-1] = count`,
`seq2[count-1] = n - count` (the clip makes the antipodal band `count = n/2` of an even ring,
where both offsets coincide, a 0/1 band like the others) -/
def band (n count : Nat) : AMat Int n :=
  let d1 := superDiag n count            -- built once, not per cell
  let d2 := superDiag n (n - count)
  AMat.ofFn fun i j => min (d1.get i j + d1.get j i + d2.get i j + d2.get j i) 1

def matAdd {n} (A B : AMat Int n) : AMat Int n := AMat.ofFn fun i j => A.get i j + B.get i j

def matSum {n} (A : AMat Int n) : Int :=
  (List.finRange n).foldl (fun acc i => (List.finRange n).foldl (fun acc j => acc + A.get i j) acc) 0

structure RingSt (n : Nat) where
  CIJ : AMat Int n
  dCIJ : AMat Int n
  count : Nat
  kk : Int

/-- `while kk < k: count += 1; dCIJ = band; CIJ += dCIJ; kk = int(np.sum(CIJ))`;
`seq[count - 1]` raises IndexError once `count - 1 ≥ len(range(1, n)) = n - 1` -/
def ringFill {n} (k : Nat) : (fuel : Nat) → RingSt n → Except Err (RingSt n)
  | 0, st => if st.kk < k then .error .index else .ok st
  | fuel + 1, st =>
    if st.kk < k then
      let count := st.count + 1
      if count - 1 ≥ n - 1 then .error .index
      else
        let d := band n count
        let C := matAdd st.CIJ d
        ringFill k fuel { CIJ := C, dCIJ := d, count := count, kk := matSum C }
    else .ok st

/-- `np.where(dCIJ)` row-major -/
def nonzeroCells {n} (M : AMat Int n) : List (Cell n) :=
  (List.finRange n).flatMap fun i => ((List.finRange n).filter fun j => M.get i j != 0).map fun j => (i, j)

/-- `for ii in range(overby): CIJ[i[rp[ii]], j[rp[ii]]] = 0`, IndexError when `ii ≥ len(rp)` -/
def removeExcess {n} (C : AMat Int n) (cells : List (Cell n)) (rp : List Nat) : (overby : Nat) → (ii : Nat) → Except Err (AMat Int n)
  | 0, _ => .ok C
  | ob + 1, ii =>
    match rp[ii]? with
    | none => .error .index
    | some r =>
      match cells[r]? with
      | none => .error .index
      | some c => removeExcess (C.set c.1 c.2 0) cells rp ob (ii + 1)

/-- `makeringlatticeCIJ(n, k)` -/
def ringLattice (n k : Nat) (ds : List Nat) : Except Err (AMat Int n × List Nat) :=
  match ringFill k n { CIJ := zeroMat n, dCIJ := zeroMat n, count := 0, kk := 0 } with
  | .error e => .error e
  | .ok st =>
    let overby := (st.kk - k).toNat
    if overby = 0 then .ok (st.CIJ, ds)
    else
      let cells := nonzeroCells st.dCIJ
      let m := cells.length
      if ds.length < m then .error .outOfDraws
      else if !isPermOfRange (ds.take m) m then .error .badDraw
      else
        match removeExcess st.CIJ cells (ds.take m) overby 0 with
        | .error e => .error e
        | .ok C => .ok (C, ds.drop m)

/-! ### the hierarchical template shared by makeevenCIJ and makefractalCIJ -/

/-- the doubling loop, as coded: `t = 2·ones(2,2)`; `for lvl in range(1, mx_lvl): s = 2**(lvl+1);
CIJ = ones(s,s); CIJ.flat[ix1] = t; CIJ.flat[ix2] = t; CIJ += 1; t = CIJ` (`ix1` / `ix2` are the two
diagonal blocks).  `tmpl l` is `t` after `l` passes, an `s × s` matrix with `s = 2^(l+1)`. -/
def tmpl : (l : Nat) → AMat Int (2 ^ (l + 1))
  | 0 => AMat.ofFn fun _ _ => 2
  | l + 1 =>
    let t := tmpl l          -- evaluated once, not per cell
    AMat.ofFn fun i j =>
      (if h : i.val < 2 ^ (l + 1) ∧ j.val < 2 ^ (l + 1) then t.get ⟨i.val, h.1⟩ ⟨j.val, h.2⟩
       else if h' : 2 ^ (l + 1) ≤ i.val ∧ 2 ^ (l + 1) ≤ j.val then
         t.get ⟨i.val - 2 ^ (l + 1), by have := i.isLt; have : 2 ^ (l + 1 + 1) = 2 ^ (l + 1) * 2 := Nat.pow_succ 2 (l + 1); omega⟩
               ⟨j.val - 2 ^ (l + 1), by have := j.isLt; have : 2 ^ (l + 1 + 1) = 2 ^ (l + 1) * 2 := Nat.pow_succ 2 (l + 1); omega⟩
       else 1) + 1

/-- `CIJ -= ones((s,s)) + mx_lvl * eye(s)` with `mx_lvl = m + 1`, `n = s = 2^mx_lvl` -/
def hierTemplate {n m : Nat} (hn : n = 2 ^ (m + 1)) : AMat Int n :=
  let t := tmpl m
  AMat.ofFn fun i j =>
    t.get ⟨i.val, hn ▸ i.isLt⟩ ⟨j.val, hn ▸ j.isLt⟩ - (1 + (if i = j then (Int.ofNat m + 1) else 0))

/-! ### makeevenCIJ -/

/-- `makeevenCIJ` after the template `T` has been built (`mx = mx_lvl`) -/
def evenFill {n} (T : AMat Int n) (mx k szcl : Nat) (ds : List Nat) : Except Err (AMat Int n × List Nat) :=
  let thr : Int := Int.ofNat mx - (Int.ofNat szcl - 1)
  let P : AMat Int n := AMat.ofFn fun i j => b2i (decide (T.get i j ≥ thr))
  let cnt := matSum P
  if Int.ofNat k < cnt then .ok (P, ds)
  else
    let remK := (Int.ofNat k - cnt).toNat
    let free : List (Cell n) := (List.finRange n).flatMap fun i =>
      ((List.finRange n).filter fun j => (P.get i j + b2i (decide (i = j))) == 0).map fun j => (i, j)
    let m := free.length
    if ds.length < m then .error .outOfDraws
    else if !isPermOfRange (ds.take m) m then .error .badDraw
    else .ok (writeOnes P (choose free (ds.take m) remK), ds.drop m)

/-- `makeevenCIJ(n, k, sz_cl)` for n = 2^mx (`mx = mx_lvl = floor(log2 n)`; the code shrinks any other n to 2^mx with a
warning — the driver does the same before calling this).  mx_lvl = 1 (n = 2): the template is the initial `t`
(`CIJ = t.copy()` before the loop; without it `CIJ` is unbound — former finding C20-hier-template-mx1).
mx_lvl = 0 (n = 1): `s` and `CIJ` are never bound in any version — `.param`, outside the property. -/
def evenCIJ (n mx k szcl : Nat) (ds : List Nat) : Except Err (AMat Int n × List Nat) :=
  match mx with
  | 0 => .error .param
  | m + 1 =>
    if hn : n = 2 ^ (m + 1) then evenFill (hierTemplate hn) (m + 1) k szcl ds
    else .error .param

/-! ### thresholds: a float is an exact dyadic rational `num / den`, a uniform draw is `v · 2^-53` -/

abbrev Thr := Nat × Nat

/-- `u < t` -/
def ltThr (v : Nat) (t : Thr) : Bool := decide (v * t.2 < t.1 * 2 ^ 53)

/-- `rng.random_sample((n, n)) < T` (equivalently `T > rng.random_sample((n, n))`), row-major draws;
`us.size = n*n` is checked by the callers -/
def sampleLt {n} (T : AMat Thr n) (us : Array Nat) : AMat Int n :=
  AMat.ofFn fun i j => b2i (ltThr us[i.val * n + j.val]! (T.get i j))

/-! ### maketoeplitzCIJ -/

/-- `linalg.toeplitz(np.append((0,), pf))` for the scaled profile `pf` (an input: the float values
`pf * (k / sum)` observed in the real run; `norm.pdf` and the float scaling are not modelled) -/
def toeplitzOf (n : Nat) (prof : Array Thr) : AMat Thr n :=
  AMat.ofFn fun i j =>
    if i = j then (0, 1) else prof[(if i.val < j.val then j.val - i.val else i.val - j.val) - 1]!

/-- `while np.sum(CIJ) != k: CIJ = (rng.random_sample((n, n)) < template); itr += 1;
if itr > 10000: raise BCTParamError` -/
def toepLoop {n} (T : AMat Thr n) (k : Nat) : (fuel itr : Nat) → AMat Int n → List Nat → Except Err (AMat Int n × List Nat)
  | 0, _, _, _ => .error .outOfDraws
  | fuel + 1, itr, C, ds =>
    if matSum C = Int.ofNat k then .ok (C, ds)
    else if ds.length < n * n then .error .outOfDraws
    else
      let C' := sampleLt T (ds.take (n * n)).toArray
      if itr + 1 > 10000 then .error .param else toepLoop T k fuel (itr + 1) C' (ds.drop (n * n))

/-- `maketoeplitzCIJ(n, k, s)`; `prof` must have the n-1 entries of the scaled profile -/
def toeplitzCIJ (n k : Nat) (prof : List Thr) (ds : List Nat) : Except Err (AMat Int n × List Nat) :=
  if prof.length + 1 ≠ n ∨ prof.any (·.2 == 0) then .error .badDraw
  else toepLoop (toeplitzOf n prof.toArray) k 10002 0 (zeroMat n) ds

/-! ### makefractalCIJ -/

/-- `ee = mx_lvl - CIJ - sz_cl; ee = (ee > 0) * ee` (`sz_cl` already decremented) -/
def fractalEE {n} (T : AMat Int n) (mx szcl : Nat) (i j : Fin n) : Int :=
  let e := Int.ofNat mx - T.get i j - (Int.ofNat szcl - 1)
  if 0 < e then e else 0

def thrEq (a b : Thr) : Bool := a.1 * b.2 == b.1 * a.2

/-- `|a/b − 1/E^e| ≤ 1e-12` exactly -/
def nearInvPow (t : Thr) (E e : Nat) : Bool :=
  let d : Int := Int.ofNat (t.1 * E ^ e) - Int.ofNat t.2
  decide (d.natAbs * 10 ^ 12 ≤ t.2 * E ^ e)

/-- the observed probability matrix must be `prob = (1 / E**ee) * (ones - eye)` for the model's own `ee`:
0 on the diagonal, exactly 1 where `ee = 0`, within 1e-12 of the rational `1/E^ee` elsewhere (the code's doubles
`1/E**ee`; exact when E is a power of two) and one and the same double on all cells with equal `ee` -/
def probConsistent {n} (T : AMat Int n) (mx szcl E : Nat) (prob : AMat Thr n) : Bool :=
  let fr := List.finRange n
  let off : List (Cell n) := fr.flatMap fun i => (fr.filter (· ≠ i)).map fun j => (i, j)
  -- one representative probability per value of `ee`
  let reps : List (Int × Thr) := off.foldl (fun acc c =>
    let e := fractalEE T mx szcl c.1 c.2
    if acc.any (·.1 == e) then acc else (e, prob.get c.1 c.2) :: acc) []
  (fr.all fun i => (prob.get i i).1 == 0 && (prob.get i i).2 != 0) &&
  (off.all fun c =>
    let e := fractalEE T mx szcl c.1 c.2
    (prob.get c.1 c.2).2 != 0 && (if e == 0 then thrEq (prob.get c.1 c.2) (1, 1) else true) &&
    nearInvPow (prob.get c.1 c.2) E e.toNat &&
    match reps.find? (·.1 == e) with
    | some r => thrEq r.2 (prob.get c.1 c.2)
    | none => false)

/-- `makefractalCIJ(mx_lvl, E, sz_cl)` → `(CIJ, k)` for a positive integer E; `prob` is the observed float matrix,
accepted only if it is the matrix `1/E**ee` the code must have computed -/
def fractalCIJ (n mx szcl E : Nat) (prob : AMat Thr n) (ds : List Nat) : Except Err (AMat Int n × Int × List Nat) :=
  match mx with
  | 0 => .error .param
  | m + 1 =>
    if hn : n = 2 ^ (m + 1) then
      if E = 0 then .error .param
      else if !probConsistent (hierTemplate hn) (m + 1) szcl E prob then .error .badDraw
      else if ds.length < n * n then .error .outOfDraws
      else
        let C := sampleLt prob (ds.take (n * n)).toArray
        .ok (C, matSum C, ds.drop (n * n))
    else .error .param

/-! ### makerandCIJdegreesfixed -/

/-- stub list: node i repeated `v i` times (`a[s:s+v[i]] = i` for i = 0 … n-1) -/
def stubs {n} (v : Fin n → Nat) : List (Fin n) := (List.finRange n).flatMap fun i => List.replicate (v i) i

/-- the stub array has length k = sum(inv): slices are clipped at k, unwritten entries stay 0 -/
def fitTo {n} (k : Nat) (l : List (Fin n)) : List (Fin n) :=
  l.take k ++ (if h : 0 < n then List.replicate (k - l.length) ⟨0, h⟩ else [])

def toVec {α} (k : Nat) (l : List α) : Option (Vector α k) :=
  if h : l.length = k then some ⟨l.toArray, by simp [h]⟩ else none

structure DfSt (n k : Nat) where
  C : AMat Int n
  e1 : Vector (Fin n) k        -- `edges[1, :]`

/-- `switch = rng.randint(k); while switch in tried: switch = rng.randint(k)` -/
def drawUntried (k : Nat) (tried : List Nat) : List Nat → Except Err (Fin k × List Nat)
  | [] => .error .outOfDraws
  | x :: ds => if h : x < k then (if tried.contains x then drawUntried k tried ds else .ok (⟨x, h⟩, ds)) else .error .badDraw

/-- the accepted repair: `CIJ[e0[i], e1[s]] = 1; if s < i: CIJ[e0[s], e1[s]] = 0; CIJ[e0[s], e1[i]] = 1;`
swap `e1[i]`, `e1[s]` -/
def applySwitch {n k} (e0 : Vector (Fin n) k) (st : DfSt n k) (i s : Fin k) : DfSt n k :=
  let C1 := st.C.set e0[i] st.e1[s] 1
  let C2 := if s.val < i.val then (C1.set e0[s] st.e1[s] 0).set e0[s] st.e1[i] 1 else C1
  { C := C2, e1 := (st.e1.set i st.e1[s]).set s st.e1[i] }

/-- the `while True:` repair loop for edge i (`tried` is the set of rejected switch indices) -/
def repair {n k} (e0 : Vector (Fin n) k) (st : DfSt n k) (i : Fin k) :
    (fuel : Nat) → (tried : List Nat) → List Nat → Except Err (DfSt n k × List Nat)
  | 0, _, _ => .error .outOfDraws
  | fuel + 1, tried, ds =>
    if tried.length = k then .error .param else
    match drawUntried k tried ds with
    | .error e => .error e
    | .ok (s, ds') =>
      if st.C.get e0[i] st.e1[s] == 0 && st.C.get e0[s] st.e1[i] == 0 then .ok (applySwitch e0 st i s, ds')
      else repair e0 st i fuel (s.val :: tried) ds'

/-- one pass of `for i in range(k)` -/
def placeEdge {n k} (e0 : Vector (Fin n) k) (st : DfSt n k) (i : Fin k) (ds : List Nat) :
    Except Err (DfSt n k × List Nat) :=
  if st.C.get e0[i] st.e1[i] != 0 then repair e0 st i (ds.length + 1) [] ds
  else .ok ({ st with C := st.C.set e0[i] st.e1[i] 1 }, ds)

def placeAll {n k} (e0 : Vector (Fin n) k) : List (Fin k) → DfSt n k → List Nat → Except Err (DfSt n k × List Nat)
  | [], st, ds => .ok (st, ds)
  | i :: is, st, ds =>
    match placeEdge e0 st i ds with
    | .error e => .error e
    | .ok (st', ds') => placeAll e0 is st' ds'

def eye (n : Nat) : AMat Int n := AMat.ofFn fun i j => if i = j then 1 else 0

/-- `makerandCIJdegreesfixed(inv, outv)` -/
def degreesFixed {n} (inv outv : Fin n → Nat) (ds : List Nat) : Except Err (AMat Int n × List Nat) :=
  let k := ((List.finRange n).map inv).sum
  if ds.length < k then .error .outOfDraws
  else if !isPermOfRange (ds.take k) k then .error .badDraw
  else
    let inStub := fitTo k (stubs inv)
    match toVec k (fitTo k (stubs outv)), toVec k ((ds.take k).filterMap (inStub[·]?)) with
    | some e0, some e1 =>
      match placeAll e0 (List.finRange k) { C := eye n, e1 := e1 } (ds.drop k) with
      | .error e => .error e
      | .ok (st, rest) => .ok (AMat.ofFn fun i j => st.C.get i j - (eye n).get i j, rest)
    | _, _ => .error .index

/-! ### driver -/

def parseThr (s : String) : Option Thr :=
  match s.splitOn "/" with
  | [a, b] => do let a ← a.toNat?; let b ← b.toNat?; if b = 0 then none else some (a, b)
  | _ => none

def parseThrs (s : String) : Option (List Thr) :=
  if s == "-" || s == "" then some [] else (s.splitOn ",").mapM parseThr

def step (line : String) : String :=
  let (op, kv) := parseLine line
  let res : Option String := do
    let n ← (← lookup kv "n").toNat?
    let k ← (← lookup kv "k").toNat?
    let ds ← parseNats (← lookup kv "draws")
    let out (r : Except Err (AMat Int n × List Nat)) : String :=
      match r with
      | .error e => s!"error={e.str}"
      | .ok (C, rest) => s!"C={showMat C} left={rest.length}"
    if op == "makerandCIJ_dir" then some (out (randCIJ false n k ds))
    else if op == "makerandCIJ_und" then some (out (randCIJ true n k ds))
    else if op == "makeringlatticeCIJ" then some (out (ringLattice n k ds))
    else if op == "makeevenCIJ" then
      let mx ← (← lookup kv "mx").toNat?
      let szcl ← (← lookup kv "szcl").toNat?
      -- `mx_lvl = floor(log2 n)`; `n = 2**mx_lvl` (the code shrinks a non-power-of-two n, printing a warning)
      if n = 0 ∨ ¬ (2 ^ mx ≤ n ∧ n < 2 ^ (mx + 1)) then none
      else
        match evenCIJ (2 ^ mx) mx k szcl ds with
        | .error e => some s!"error={e.str}"
        | .ok (C, rest) => some s!"C={showMat C} left={rest.length}"
    else if op == "maketoeplitzCIJ" then
      let prof ← parseThrs (← lookup kv "prof")
      some (out (toeplitzCIJ n k prof ds))
    else if op == "makefractalCIJ" then
      let mx ← (← lookup kv "mx").toNat?
      let szcl ← (← lookup kv "szcl").toNat?
      let pr ← parseThrs (← lookup kv "prob")
      if pr.length ≠ n * n then none
      else
        let pa := pr.toArray
        let prob : AMat Thr n := AMat.ofFn fun i j => pa[i.val * n + j.val]!
        let E ← (← lookup kv "E").toNat?
        match fractalCIJ n mx szcl E prob ds with
        | .error e => some s!"error={e.str}"
        | .ok (C, kk, rest) => some s!"C={showMat C} k={kk} left={rest.length}"
    else if op == "makerandCIJdegreesfixed" then
      let iv ← parseNats (← lookup kv "inv")
      let ov ← parseNats (← lookup kv "outv")
      if iv.length ≠ n ∨ ov.length ≠ n then none
      else some (out (degreesFixed (fun i : Fin n => iv[i.val]!) (fun i : Fin n => ov[i.val]!) ds))
    else none
  res.getD "error=protocol"

end Bct.Synth
