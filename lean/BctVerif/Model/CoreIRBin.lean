import BctVerif.Model.Dist
/-!
# Source-extracted `distance_bin`: IR, interpreter, decidable check (T-gen, C03)

`translate/cores.py` reads `bct/algorithms/distance.py` with `ast` on every check run and writes every statement of

    def distance_bin(G):
        G = binarize(G, copy=True)
        D = np.eye(len(G))
        n = 1
        nPATH = G.copy()
        L = (nPATH != 0)
        while np.any(L):
            D += n * L
            n += 1
            nPATH = (np.dot(nPATH, G) != 0).astype(float)
            L = (nPATH != 0) * (D == 0)
        D[D == 0] = np.inf
        np.fill_diagonal(D, 0)
        return D

as a `BinIR` value into `BctVerif/Gen/CoresBin.lean`, with the obligation `binOk ir = true := by decide`.  Cells are floats
that hold a natural number or `inf`, or booleans; the interpreter evaluates whole-array expressions cell by cell (right-hand
sides completely before the store), `np.dot` as the sum of products over the inner index.  `Props/CoresBin.lean` proves that
a program that passes computes exactly `Dist.distBin`.

Core Lean only.
-/
namespace Bct.CoreIR.Bin
open Bct Bct.Dist

inductive V
  /-- a float holding a natural number -/
  | num (k : Nat)
  | inf
  | bool (b : Bool)
  /-- a cell of the argument (any weight); only `binarize` gives it a meaning -/
  | rat (q : Rat)
  | err
  deriving DecidableEq

namespace V
def add : V → V → V
  | num a, num b => num (a + b)
  | inf, num _ => inf
  | num _, inf => inf
  | inf, inf => inf
  | _, _ => err
/-- `a * b`: numbers, a number and a boolean (`n * L`), two booleans (`(A != 0) * (D == 0)` is their conjunction) -/
def mul : V → V → V
  | num a, num b => num (a * b)
  | num a, bool b => num (if b then a else 0)
  | bool a, num b => num (if a then b else 0)
  | bool a, bool b => bool (a && b)
  | _, _ => err
def ne0 : V → V
  | num k => bool (k != 0)
  | inf => bool true
  | _ => err
def eq0 : V → V
  | num k => bool (k == 0)
  | inf => bool false
  | _ => err
/-- `np.logical_not` of one cell (a number is true when it is not `0`) -/
def lnot : V → V
  | num k => bool (k == 0)
  | inf => bool false
  | bool b => bool (!b)
  | _ => err
/-- `1 / x` of a float holding a natural number or `inf` (`1/0 = inf` with a warning, `1/inf = 0`); the result is a rational cell -/
def recip : V → V
  | num k => if k = 0 then inf else rat (1 / (k : Rat))
  | inf => num 0
  | _ => err
/-- `.astype(float)` of a boolean -/
def toNum : V → V
  | bool b => num (if b then 1 else 0)
  | _ => err
/-- one cell of `binarize(G, copy=True)` -/
def bin : V → V
  | num k => num (if k != 0 then 1 else 0)
  | rat q => num (if q = 0 then 0 else 1)
  | _ => err
/-- the distance a result cell holds -/
def toExt? : V → Option Ext
  | num k => some (.fin (k : Nat))
  | inf => some .inf
  | _ => none
end V

inductive Ex
  /-- a matrix name (elementwise use) -/
  | ref (m : String)
  /-- a scalar name, broadcast -/
  | scal (x : String)
  | lit (k : Nat)
  | infLit
  /-- `np.eye(len(m))` -/
  | eyeLen (m : String)
  /-- `binarize(a, copy=True)` (its own body is tied in family `util` and folded into the generated file) -/
  | binarize (a : Ex)
  /-- `binarize(a)`: the callee's default `copy=True` (part of the folded-in definition of `binarize`) -/
  | binarizeD (a : Ex)
  | mul (a b : Ex)
  /-- `np.dot(a, b)` for matrix names -/
  | dot (a b : String)
  | ne0 (a : Ex)
  | eq0 (a : Ex)
  | toNum (a : Ex)
  /-- `np.logical_not(a)` -/
  | lnot (a : Ex)
  /-- `1 / a` -/
  | recip (a : Ex)
  deriving DecidableEq, Repr

inductive Stmt
  /-- `x = e` for a matrix (`.copy()` of a matrix is the matrix) -/
  | bind (x : String) (e : Ex)
  /-- `x = <natural literal>` -/
  | setScal (x : String) (k : Nat)
  /-- `x += e` (matrix) -/
  | augAdd (x : String) (e : Ex)
  /-- `x += <natural literal>` (scalar) -/
  | incr (x : String) (k : Nat)
  /-- `m[c] = e` with `c`, `e` per-cell expressions -/
  | setMask (m : String) (c e : Ex)
  /-- `np.fill_diagonal(m, k)` -/
  | fillDiag (m : String) (k : Nat)
  deriving DecidableEq, Repr

structure BinIR where
  recognised : Bool
  origins : List (String × String)
  param : String
  pre : List Stmt
  /-- `while np.any(<cond>):` -/
  cond : String
  body : List Stmt
  post : List Stmt
  ret : String
  deriving DecidableEq, Repr

variable {n : Nat}

structure Env (n : Nat) where
  mat : String → Option (AMat V n)
  sc : String → Option Nat

def sumProd (A B : AMat V n) (i j : Fin n) : V :=
  (List.finRange n).foldl (fun acc k => V.add acc (V.mul (A.get i k) (B.get k j))) (.num 0)

def eval (E : Env n) (i j : Fin n) : Ex → V
  | .ref m => match E.mat m with
    | some M => M.get i j
    | none => .err
  | .scal x => match E.sc x with
    | some k => .num k
    | none => .err
  | .lit k => .num k
  | .infLit => .inf
  | .eyeLen m => match E.mat m with
    | some _ => .num (if i = j then 1 else 0)
    | none => .err
  | .binarize a => V.bin (eval E i j a)
  | .binarizeD a => V.bin (eval E i j a)
  | .mul a b => V.mul (eval E i j a) (eval E i j b)
  | .dot a b => match E.mat a, E.mat b with
    | some A, some B => sumProd A B i j
    | _, _ => .err
  | .ne0 a => V.ne0 (eval E i j a)
  | .eq0 a => V.eq0 (eval E i j a)
  | .toNum a => V.toNum (eval E i j a)
  | .lnot a => V.lnot (eval E i j a)
  | .recip a => V.recip (eval E i j a)

def exec (E : Env n) : Stmt → Option (Env n)
  | .bind x e => some { E with mat := fun y => if y = x then some (AMat.ofFn fun i j => eval E i j e) else E.mat y }
  | .setScal x k => some { E with sc := fun y => if y = x then some k else E.sc y }
  | .augAdd x e => match E.mat x with
    | some M => some { E with mat := fun y => if y = x then some (AMat.ofFn fun i j => V.add (M.get i j) (eval E i j e)) else E.mat y }
    | none => none
  | .incr x k => match E.sc x with
    | some v => some { E with sc := fun y => if y = x then some (v + k) else E.sc y }
    | none => none
  | .setMask m c e => match E.mat m with
    | some M => some { E with mat := fun y => if y = m then some (AMat.ofFn fun i j =>
        match eval E i j c with
        | .bool true => (match eval E i j e with | .num k => V.num k | .inf => V.inf | _ => V.err)
        | .bool false => M.get i j
        | _ => .err) else E.mat y }
    | none => none
  | .fillDiag m k => match E.mat m with
    | some M => some { E with mat := fun y => if y = m then some (AMat.ofFn fun i j => if i = j then V.num k else M.get i j) else E.mat y }
    | none => none

def execs : List Stmt → Env n → Option (Env n)
  | [], E => some E
  | s :: ss, E => match exec E s with
    | some E' => execs ss E'
    | none => none

/-- `np.any(L)` of a boolean matrix; `none` if a cell is not a boolean -/
def anyTrueV (M : AMat V n) : Option Bool :=
  if (cells n).all fun p => match M.get p.1 p.2 with | .bool _ => true | _ => false then
    some ((cells n).any fun p => M.get p.1 p.2 == .bool true)
  else none

/-- `while np.any(cond): body` on fuel -/
def whileAny (cond : String) (body : List Stmt) : Nat → Env n → Option (Env n)
  | 0, _ => none
  | fuel + 1, E =>
    match E.mat cond with
    | some L => match anyTrueV L with
      | some true => match execs body E with
        | some E' => whileAny cond body fuel E'
        | none => none
      | some false => some E
      | none => none
    | none => none

/-- the whole routine on the argument (cells `num`) -/
def run (ir : BinIR) (fuel : Nat) (G : AMat V n) : Option (AMat V n) :=
  match execs ir.pre { mat := fun y => if y = ir.param then some G else none, sc := fun _ => none } with
  | none => none
  | some E1 => match whileAny ir.cond ir.body fuel E1 with
    | none => none
    | some E2 => match execs ir.post E2 with
      | none => none
      | some E3 => E3.mat ir.ret

def refIR : BinIR :=
  { recognised := true,
    origins := [("binarize", "def bct/utils/other.py:binarize"), ("float", "builtin"), ("len", "builtin"), ("np", "module numpy")],
    param := "G",
    pre := [ .bind "G" (.binarize (.ref "G")), .bind "D" (.eyeLen "G"), .setScal "n" 1, .bind "nPATH" (.ref "G"),
             .bind "L" (.ne0 (.ref "nPATH")) ],
    cond := "L",
    body := [ .augAdd "D" (.mul (.scal "n") (.ref "L")), .incr "n" 1,
              .bind "nPATH" (.toNum (.ne0 (.dot "nPATH" "G"))),
              .bind "L" (.mul (.ne0 (.ref "nPATH")) (.eq0 (.ref "D"))) ],
    post := [ .setMask "D" (.eq0 (.ref "D")) .infLit, .fillDiag "D" 0 ],
    ret := "D" }

/-- the decidable obligation generated for `distance_bin` -/
def binOk (ir : BinIR) : Bool := ir == refIR

end Bct.CoreIR.Bin
