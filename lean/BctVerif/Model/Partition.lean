import BctVerif.Model.Basic
/-!
# Executable model of the partition-consuming routines of bct (property C14) — core Lean only

Community vectors are `Vector Int n` (any integer labels), matrices `AMat Rat n`.
Every routine mirrors the Python: labels are first canonicalised by `relabel`
(`np.unique(ci, return_inverse=True)[1] + 1` = 1 + rank among the sorted distinct labels), then the
routine loops over the modules `1..k`.  Loops are `sumRange k` / `sumFin`, i.e. `List.sum` over
`List.range k` / `List.finRange n`, so that the Props file can rewrite them to `Finset.sum`.
Results that are NaN in Python (0/0) are `none`; exceptions are `Except Err`.
-/
namespace Bct.Partition

/-! ## sums -/
def sumFin {α : Type} [Add α] [Zero α] {n : Nat} (f : Fin n → α) : α := ((List.finRange n).map f).sum
def sumRange {α : Type} [Add α] [Zero α] (k : Nat) (f : Nat → α) : α := ((List.range k).map f).sum

/-! ## label canonicalisation -/

/-- the distinct elements of a list (order irrelevant) -/
def distinct : List Int → List Int
  | [] => []
  | x :: xs => if x ∈ distinct xs then distinct xs else x :: distinct xs

/-- number of distinct labels of `l` that are smaller than `x` -/
def rank (l : List Int) (x : Int) : Nat := ((distinct l).filter (· < x)).length

/-- number of modules = number of distinct labels (`np.max(ci)` after canonicalisation) -/
def numMods {n : Nat} (c : Vector Int n) : Nat := (distinct c.toList).length

/-- `np.unique(c, return_inverse=True)[1] + 1` -/
def relabel {n : Nat} (c : Vector Int n) : Vector Nat n := c.map fun x => rank c.toList x + 1

/-- membership test `ci == m` -/
def inMod {n : Nat} (ci : Vector Nat n) (m : Nat) (v : Fin n) : Bool := ci[v] == m

/-- `Σ_{m=1..k} F (ci == m)` : the shape of every "loop over the modules" in bct -/
def modSum {α : Type} [Add α] [Zero α] {n : Nat} (c : Vector Int n) (F : (Fin n → Bool) → α) : α :=
  sumRange (numMods c) fun m => F (inMod (relabel c) (m + 1))

/-- sum of `f` over the members of a module given as a predicate -/
def sumIn {α : Type} [Add α] [Zero α] {n : Nat} (p : Fin n → Bool) (f : Fin n → α) : α :=
  sumFin fun v => if p v then f v else 0

def posPart {n : Nat} (W : AMat Rat n) : AMat Rat n := W.map fun x => if x > 0 then x else 0
def negPart {n : Nat} (W : AMat Rat n) : AMat Rat n := W.map fun x => if x < 0 then -x else 0
def zeroDiag {n : Nat} (W : AMat Rat n) : AMat Rat n := AMat.ofFn fun i j => if i = j then 0 else W.get i j

/-! ## participation coefficient (centrality.py `participation_coef`, `participation_coef_sign`) -/

/-- `Kc2[u] = Σ_m (Σ_{v in module m} W[u,v])²` -/
def kc2 {n : Nat} (W : AMat Rat n) (c : Vector Int n) (u : Fin n) : Rat :=
  modSum c fun p => (sumIn p fun v => W.get u v) * (sumIn p fun v => W.get u v)

/-- `P = 1 - Kc2 / Ko²`, `P[Ko == 0] = 0` -/
def partCoef {n : Nat} (W : AMat Rat n) (c : Vector Int n) : Vector Rat n :=
  Vector.ofFn fun u =>
    let ko := sumFin fun v => W.get u v
    if ko = 0 then 0 else 1 - kc2 W c u / (ko * ko)

def partCoefSign {n : Nat} (W : AMat Rat n) (c : Vector Int n) : Vector Rat n × Vector Rat n :=
  (partCoef (posPart W) c, partCoef (negPart W) c)

/-! ## within-module degree z-score: the rational ingredients (deviation from the module mean, module variance) -/

def cardIn {n : Nat} (p : Fin n → Bool) : Nat := sumFin fun v => if p v then 1 else 0

/-- for a module `p` and one of its nodes `u`: `(Koi[u] - mean Koi, mean (Koi - mean)²)`;
the module is non-empty whenever it is used (it contains `u`), the guard only makes the function total -/
def zOf {n : Nat} (W : AMat Rat n) (p : Fin n → Bool) (u : Fin n) : Rat × Rat :=
  let koi : Fin n → Rat := fun x => sumIn p fun v => W.get x v
  let sz : Rat := (cardIn p : Nat)
  if sz = 0 then (0, 0) else
  let mean := (sumIn p koi) / sz
  (koi u - mean, (sumIn p fun x => (koi x - mean) * (koi x - mean)) / sz)

/-- `flag` 2: `W.T`, 3: `W + W.T`, otherwise `W` -/
def zFlag {n : Nat} (W : AMat Rat n) (flag : Nat) : AMat Rat n :=
  if flag = 2 then W.transpose else if flag = 3 then AMat.ofFn fun i j => W.get i j + W.get j i else W

/-- `Z[ci == i] = (Koi - mean) / std` for every module `i`; node `u` gets the value computed for its own module -/
def zIngr {n : Nat} (W : AMat Rat n) (c : Vector Int n) (flag : Nat) : Vector (Rat × Rat) n :=
  let ci := relabel c
  Vector.ofFn fun u => zOf (zFlag W flag) (inMod ci ci[u]) u

/-! ## diversity coefficient: the node-to-module distribution `pnm` (entropy is taken by the caller) -/

/-- `pnm[u, m] = Snm[u, m] / S[u]` with `nan -> 0` -/
def pnmOf {n : Nat} (W : AMat Rat n) (p : Fin n → Bool) (u : Fin n) : Rat :=
  let s := sumFin fun v => W.get u v
  if s = 0 then 0 else (sumIn p fun v => W.get u v) / s

/-- `Σ_m φ(pnm[u,m])` for an arbitrary summand `φ` (the real routine uses `φ p = -p log p`, `φ 0 = 0`) -/
def divSum {α : Type} [Add α] [Zero α] {n : Nat} (φ : Rat → α) (W : AMat Rat n) (c : Vector Int n) (u : Fin n) : α :=
  modSum c fun p => φ (pnmOf W p u)

/-- the table printed by the driver: row `u` lists `pnm[u, 1..k]` -/
def pnmTable {n : Nat} (W : AMat Rat n) (c : Vector Int n) : List (List Rat) :=
  (List.finRange n).map fun u => (List.range (numMods c)).map fun m => pnmOf W (inMod (relabel c) (m + 1)) u

/-! ## modularity of a given partition -/

/-- `modularity_und(A, gamma, kci)[1]`; `none` = NaN (no edges) -/
def qUnd {n : Nat} (A : AMat Rat n) (γ : Rat) (c : Vector Int n) : Option Rat :=
  let k : Fin n → Rat := fun j => sumFin fun i => A.get i j
  let m := sumFin k
  if m = 0 then (if n = 0 then some 0 else none) else      -- no nodes: the code sums an empty array (0.0), no 0/0 arises
  some (sumFin fun i => sumFin fun j => if c[i] - c[j] = 0 then (A.get i j - γ * (k i * k j) / m) / m else 0)

/-- `modularity_dir(A, gamma, kci)[1]` -/
def qDir {n : Nat} (A : AMat Rat n) (γ : Rat) (c : Vector Int n) : Option Rat :=
  let ki : Fin n → Rat := fun j => sumFin fun i => A.get i j
  let ko : Fin n → Rat := fun i => sumFin fun j => A.get i j
  let m := sumFin ki
  if m = 0 then (if n = 0 then some 0 else none) else
  let b : Fin n → Fin n → Rat := fun i j => A.get i j - γ * (ko i * ki j) / m
  some (sumFin fun i => sumFin fun j => if c[i] - c[j] = 0 then (b i j + b j i) / (2 * m) else 0)

inductive QType | sta | pos | smp | gja | neg
  deriving DecidableEq, Repr

/-- `modularity_und_sign(W, ci, qtype)[1]` -/
def qSign {n : Nat} (W : AMat Rat n) (c : Vector Int n) (qt : QType) : Rat :=
  let ci := relabel c
  let W0 := posPart W
  let W1 := negPart W
  let s0 := sumFin fun i => sumFin fun j => W0.get i j
  let s1 := sumFin fun i => sumFin fun j => W1.get i j
  -- Kn = Knm.sum(axis=1): node strength accumulated module by module
  let kn0 : Fin n → Rat := fun u => modSum c fun p => sumIn p fun v => W0.get u v
  let kn1 : Fin n → Rat := fun u => modSum c fun p => sumIn p fun v => W1.get u v
  let inv : Rat → Rat := fun x => if x = 0 then 0 else 1 / x
  let d0 : Rat := if s0 = 0 then 0 else match qt with
    | .smp => inv s0 | .gja => inv (s0 + s1) | .sta => inv s0 | .pos => inv s0 | .neg => 0
  let d1 : Rat := if s1 = 0 then 0 else match qt with
    | .smp => inv s1 | .gja => inv (s0 + s1) | .sta => inv (s0 + s1) | .pos => 0 | .neg => inv s1
  let s0' : Rat := if s0 = 0 then 1 else s0
  let s1' : Rat := if s1 = 0 then 1 else s1
  let q0 := sumFin fun i => sumFin fun j => if ci[i] = ci[j] then W0.get i j - kn0 i * kn0 j / s0' else 0
  let q1 := sumFin fun i => sumFin fun j => if ci[i] = ci[j] then W1.get i j - kn1 i * kn1 j / s1' else 0
  d0 * q0 - d1 * q1

/-! ## gateway coefficient (`centrality_type='degree'`), modelled as the code is, including the
`kj[i] /= 2` row indexed by the module number (defect D16) and `cent[neighbs]` indexed by positions -/

/-- the members of module `m` in node order -/
def members {n : Nat} (ci : Vector Nat n) (m : Nat) : List (Fin n) := (List.finRange n).filter fun v => ci[v] == m

/-- position of `u` in a list -/
def posIn {n : Nat} (l : List (Fin n)) (u : Fin n) : Nat := l.idxOf u

/-- gateway_coef_sign raises IndexError exactly when some module with more than one node has at most as many nodes as its
0-based rank (`kj[i] /= 2` on an array of `size` rows) -/
def gatewayIndexErr {n : Nat} (c : Vector Int n) : Bool :=
  (List.range (numMods c)).any fun i =>
    let sz := (members (relabel c) (i + 1)).length
    sz > 1 && sz ≤ i

def gcoef {n : Nat} (W : AMat Rat n) (c : Vector Int n) : Except Err (Vector Rat n) :=
  let ci := relabel c
  let k := numMods c
  let s : Fin n → Rat := fun u => sumFin fun v => W.get u v
  let ks : Fin n → Nat → Rat := fun u i => sumIn (inMod ci (i + 1)) fun v => W.get u v
  let cent := s
  let maxCent : Rat := (List.range k).foldl (fun mx i =>
      let cen := sumIn (inMod ci (i + 1)) cent
      if cen > mx then cen else mx) 0
  -- `kj[i] /= 2` raises IndexError when a module with more than one node has at most `i` nodes
  if gatewayIndexErr c then .error .index else
  let kjs : Fin n → Rat := fun u =>
    let i := ci[u] - 1
    let mem := members ci (i + 1)
    if mem.length > 1 then
      let tot := sumIn (inMod ci (i + 1)) fun x => sumRange k fun j => ks x j
      if posIn mem u = i then tot / 2 else tot
    else 0
  -- cs[u, j] = Σ cent[t] over positions t of the members of module j+1 that point to u
  let cs : Fin n → Nat → Rat := fun u j =>
    if s u > 0 then
      let mem := members ci (j + 1)
      ((List.range mem.length).map fun t =>
        match mem[t]?, (if h : t < n then some (cent ⟨t, h⟩) else none) with
        | some x, some ct => if W.get x u > 0 then ct else 0
        | _, _ => 0).sum
    else 0
  .ok (Vector.ofFn fun u =>
    if s u = 0 ∨ maxCent = 0 then 0 else
    1 - sumRange k fun j =>
      let ksm := if kjs u = 0 then 0 else ks u j / kjs u
      let centm := cs u j / maxCent
      ks u j * ks u j / (s u * s u) * ((1 - ksm * centm) * (1 - ksm * centm)))

def gateway {n : Nat} (W : AMat Rat n) (c : Vector Int n) : Except Err (Vector Rat n × Vector Rat n) := do
  let W := zeroDiag W
  let gp ← gcoef (posPart W) c
  let gn ← gcoef (negPart W) c
  pure (gp, gn)

/-! ## partition_distance: the contingency table -/

/-- number of nodes in both of two modules -/
def cellOf {n : Nat} (p q : Fin n → Bool) : Nat := cardIn fun v => p v && q v

/-- `T[a][b] = #{v | rank cx v = a+1 ∧ rank cy v = b+1}` -/
def table {n : Nat} (cx cy : Vector Int n) : List (List Nat) :=
  (List.range (numMods cx)).map fun a => (List.range (numMods cy)).map fun b =>
    cellOf (inMod (relabel cx) (a + 1)) (inMod (relabel cy) (b + 1))

def sizes {n : Nat} (c : Vector Int n) : List Nat :=
  (List.range (numMods c)).map fun a => cardIn (inMod (relabel c) (a + 1))

/-- `Σ_a φ(size of module a)` — e.g. the entropy `H(X)` for `φ k = -(k/n) log (k/n)` -/
def sizeSum {α : Type} [Add α] [Zero α] {n : Nat} (φ : Nat → α) (c : Vector Int n) : α :=
  modSum c fun p => φ (cardIn p)

/-- `Σ_{a,b} φ(T[a][b])` — e.g. the joint entropy `H(X,Y)` -/
def tableSum {α : Type} [Add α] [Zero α] {n : Nat} (φ : Nat → α) (cx cy : Vector Int n) : α :=
  modSum cx fun p => modSum cy fun q => φ (cellOf p q)

/-- the non-empty cells in the order of `np.unique(cx + cy*1j)` (sorted by x-rank, then y-rank) -/
def jointSizes {n : Nat} (cx cy : Vector Int n) : List Nat := ((table cx cy).flatten).filter (· ≠ 0)

/-! ### the formula of `partition_distance`, generic in the number type and in the logarithm

`pdWith L n nx ny nxy` is evaluated by the driver over `Rat` with `L k` = the double `log k` (sent by the harness as an exact
dyadic rational) on the three count lists it prints, and `Props/C14.lean` proves that the same definition over `ℝ` with
`L = Real.log` is `(VIn, MIn)` (`pd_of_table`).  `-(k/N) (L k - L N)` is `-(k/N) log (k/N)`. -/

def entW {α : Type} [Sub α] [Mul α] [Div α] [Neg α] [NatCast α] (L : Nat → α) (N k : Nat) : α :=
  -((k : α) / (N : α)) * (L k - L N)

/-- `Vin = (2*Hxy - Hx - Hy) / log(n) if n > 1 else 0.0`, `Min = 2*(Hx + Hy - Hxy) / (Hx + Hy) if Hx + Hy > 0 else 1.0` -/
def pdWith {α : Type} [Add α] [Sub α] [Mul α] [Div α] [Neg α] [NatCast α] [Zero α] [OfNat α 1] [LT α]
    [DecidableRel (fun a b : α => a < b)] (L : Nat → α) (n : Nat) (nx ny nxy : List Nat) : α × α :=
  let Hx := (nx.map (entW L n)).sum
  let Hy := (ny.map (entW L n)).sum
  let Hxy := (nxy.map (entW L n)).sum
  (if 1 < n then (Hxy + Hxy - Hx - Hy) / L n else 0,
   if 0 < Hx + Hy then ((Hx + Hy - Hxy) + (Hx + Hy - Hxy)) / (Hx + Hy) else 1)

/-! ## ci2ls / ls2ci -/

def ci2ls {n : Nat} (c : Vector Int n) : List (List (Fin n)) :=
  (List.range (numMods c)).map fun m => members (relabel c) (m + 1)

/-- one assignment `ci[v] = i + z`; an index outside `0..N-1` is Python's IndexError
(negative indices cannot be expressed here) -/
def lsStep (z : Nat) (acc : Except Err (Array Nat)) (iv : Nat × Nat) : Except Err (Array Nat) :=
  match acc with
  | .error e => .error e
  | .ok a => if iv.2 < a.size then .ok (a.set! iv.2 (iv.1 + z)) else .error .index

/-- the assignments `(i, ls[i][j])` in the order the two nested loops make them -/
def lsWrites (ls : List (List Nat)) : List (Nat × Nat) :=
  (ls.zipIdx.map fun bi => bi.1.map fun v => (bi.2, v)).flatten

/-- `ls2ci(ls, zeroindexed)` with `z = int(not zeroindexed)` -/
def ls2ci (ls : List (List Nat)) (z : Nat) : Except Err (List Nat) :=
  let N := (ls.map List.length).sum
  ((lsWrites ls).foldl (lsStep z) (.ok (Array.replicate N 0))).map Array.toList

/-! ## agreement matrix (clustering.py `agreement` through `dummyvar`): `D = ind · indᵀ`, diagonal cleared -/

def agreement {n : Nat} (cs : List (Vector Int n)) : AMat Nat n :=
  AMat.ofFn fun i j => if i = j then 0 else
    (cs.map fun c => modSum c fun p => if p i && p j then 1 else 0).sum

/-- co-classification indicator of one partition: 1 if `i` and `j` share a module (`d · dᵀ` for the dummy variables `d`) -/
def coClass {n : Nat} (c : Vector Int n) (i j : Fin n) : Rat := modSum c fun p => if p i && p j then 1 else 0

/-- `agreement_weighted(ci, wts)`: `D = Σ_p (wts[p] / Σ wts) · d_p d_pᵀ` (the diagonal is *not* cleared); `none` if the weights sum to 0
(NaN) or their number differs from the number of partitions.  Like `agreement` the real routine goes through `dummyvar` and raises
TypeError on the installed NumPy (known finding D18), so this model is tied to the definition only. -/
def agreementW {n : Nat} (cs : List (Vector Int n)) (wts : List Rat) : Option (AMat Rat n) :=
  let tot := wts.sum
  if tot = 0 ∨ wts.length ≠ cs.length then none else
  some (AMat.ofFn fun i j => (List.zipWith (fun (g : Fin n → Fin n → Rat) w => w / tot * g i j) (cs.map coClass) wts).sum)

/-! ## line protocol -/

def parseRat (s : String) : Option Rat :=
  match s.splitOn "/" with
  | [a] => a.toInt?.map fun x => (x : Rat)
  | [a, b] => do
      let x ← a.toInt?
      let y ← b.toNat?
      if y = 0 then none else some ((x : Rat) / (y : Rat))
  | _ => none

def parseRats (s : String) : Option (List Rat) :=
  if s == "-" || s == "" then some [] else (s.splitOn ",").mapM parseRat

def showRat (r : Rat) : String := if r.den = 1 then toString r.num else s!"{r.num}/{r.den}"
def showRats (xs : List Rat) : String := if xs.isEmpty then "-" else ",".intercalate (xs.map showRat)

def parseRMat (n : Nat) (s : String) : Option (AMat Rat n) := do
  let xs ← parseRats s
  if xs.length == n * n then
    let a := xs.toArray
    some (AMat.ofFn fun i j => a[i.val * n + j.val]!)
  else none

def parseVec (n : Nat) (s : String) : Option (Vector Int n) := do
  let xs ← parseInts s
  if h : xs.toArray.size = n then some ⟨xs.toArray, h⟩ else none

def parseQType : String → Option QType
  | "sta" => some .sta | "pos" => some .pos | "smp" => some .smp | "gja" => some .gja | "neg" => some .neg
  | _ => none

def showOptRat : Option Rat → String
  | some r => showRat r | none => "nan"

def step (line : String) : String :=
  let (op, kv) := parseLine line
  let res : Option String := do
    let n ← (← lookup kv "n").toNat?
    -- on zero nodes every routine that loops `for i in range(1, np.max(ci) + 1)` raises ValueError (np.max of an empty array);
    -- modularity_und/_dir, ci2ls, ls2ci and agreement do not
    if n = 0 ∧ (op == "pcoef" || op == "pcoef_sign" || op == "zscore" || op == "diversity" || op == "gateway" ||
        op == "q_sign" || op == "pdist") then some "error=ValueError" else
    match op with
    | "relabel" =>
      let c ← parseVec n (← lookup kv "c")
      some s!"ci={showNats (relabel c).toList} k={numMods c}"
    | "pcoef" =>
      let W ← parseRMat n (← lookup kv "W")
      let c ← parseVec n (← lookup kv "c")
      let deg ← lookup kv "deg"
      if deg == "in" then some s!"P={showRats (partCoef W.transpose c).toList}"
      else if deg == "out" || deg == "undirected" then some s!"P={showRats (partCoef W c).toList}"
      else none
    | "pcoef_sign" =>
      let W ← parseRMat n (← lookup kv "W")
      let c ← parseVec n (← lookup kv "c")
      let (p, q) := partCoefSign W c
      some s!"Ppos={showRats p.toList} Pneg={showRats q.toList}"
    | "zscore" =>
      let W ← parseRMat n (← lookup kv "W")
      let c ← parseVec n (← lookup kv "c")
      let flag ← (← lookup kv "flag").toNat?
      if flag > 3 then none
      let z := (zIngr W c flag).toList
      some s!"dev={showRats (z.map (·.1))} var={showRats (z.map (·.2))}"
    | "diversity" =>
      let W ← parseRMat n (← lookup kv "W")
      let c ← parseVec n (← lookup kv "c")
      some s!"k={numMods c} pos={showRats (pnmTable (posPart W) c).flatten} neg={showRats (pnmTable (negPart W) c).flatten}"
    | "gateway" =>
      let W ← parseRMat n (← lookup kv "W")
      let c ← parseVec n (← lookup kv "c")
      match gateway W c with
      | .error e => some s!"error={e.str}"
      | .ok (p, q) => some s!"Gpos={showRats p.toList} Gneg={showRats q.toList}"
    | "q_und" =>
      let W ← parseRMat n (← lookup kv "W")
      let c ← parseVec n (← lookup kv "c")
      let g ← parseRat (← lookup kv "gamma")
      some s!"q={showOptRat (qUnd W g c)}"
    | "q_dir" =>
      let W ← parseRMat n (← lookup kv "W")
      let c ← parseVec n (← lookup kv "c")
      let g ← parseRat (← lookup kv "gamma")
      some s!"q={showOptRat (qDir W g c)}"
    | "q_sign" =>
      let W ← parseRMat n (← lookup kv "W")
      let c ← parseVec n (← lookup kv "c")
      let qt ← parseQType (← lookup kv "qtype")
      some s!"q={showRat (qSign W c qt)}"
    | "pdist" =>
      let cx ← parseVec n (← lookup kv "cx")
      let cy ← parseVec n (← lookup kv "cy")
      let base := s!"nx={showNats (sizes cx)} ny={showNats (sizes cy)} nxy={showNats (jointSizes cx cy)}"
      match lookup kv "logs" with
      | none => some base
      | some ls =>
        -- logs = the doubles log 1 .. log n as exact rationals; log n must not vanish where the code divides by it
        let lg ← parseRats ls
        if lg.length != n then none
        let a := lg.toArray
        let L : Nat → Rat := fun k => if h : 0 < k ∧ k - 1 < a.size then a[k - 1]'h.2 else 0
        if 1 < n ∧ L n = 0 then none
        let (v, m) := pdWith L n (sizes cx) (sizes cy) (jointSizes cx cy)
        some s!"{base} vin={showRat v} min={showRat m}"
    | "ci2ls" =>
      let c ← parseVec n (← lookup kv "c")
      some s!"ls={"|".intercalate ((ci2ls c).map fun b => showNats (b.map (·.val)))}"
    | "ls2ci" =>
      let z ← (← lookup kv "z").toNat?
      if z > 1 then none
      let ls ← ((← lookup kv "ls").splitOn "|").mapM parseNats
      match ls2ci ls z with
      | .error e => some s!"error={e.str}"
      | .ok ci => some s!"ci={showNats ci}"
    | "agreement_w" =>
      let cs ← ((← lookup kv "cs").splitOn ";").mapM (parseVec n)
      let ws ← parseRats (← lookup kv "wts")
      match agreementW cs ws with
      | none => some "D=nan"
      | some D => some s!"D={showRats ((List.finRange n).flatMap fun i => (List.finRange n).map fun j => D.get i j)}"
    | "agreement" =>
      let cs ← ((← lookup kv "cs").splitOn ";").mapM (parseVec n)
      some s!"D={showNats ((List.finRange n).flatMap fun i => (List.finRange n).map fun j => (agreement cs).get i j)}"
    | _ => none
  res.getD "error=protocol"

end Bct.Partition
