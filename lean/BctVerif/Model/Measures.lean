import BctVerif.Model.Basic
/-!
# Executable model of the algebraic graph measures of bctpy (property C04)

Exact `Int` / `Rat` models of
`degrees_und/dir`, `strengths_und/dir/und_sign`, `density_und/dir`,
`clustering_coef_bu/bd/wu/wd`, `transitivity_bu/bd/wu/wd` (the weighted variants take the matrix of
cube roots as input), `matching_ind`, `edge_nei_overlap_bu/bd` (matrix output), `flow_coef_bd`,
`rich_club_bu/bd`, `assortativity_bin` (flags 0‑4), `assortativity_wei` (flag 0), `participation_coef`,
`kcore_bu/bd`, `score_wu`, `kcoreness_centrality_bu/bd`, `distance_bin`, `reachdist`,
`efficiency_bin` (global), `gtom`.

Matrices are `AMat Int n`; every intermediate matrix is materialised (`AMat.ofFn`), never a closure.
Float results that can be `inf`/`nan` in NumPy are `XRat`; Python-level `ZeroDivisionError`s are `Except`.
`permA p A` / `permVec p v` renumber a matrix / a per-node vector: new node `i` is old node `p i`
(`A[np.ix_(p,p)]`, `(vget v p)`).
-/
namespace Bct.Measures
open Bct

/-! ## basic machinery -/

/-- sum of `f` over `Fin n` (in index order, like a NumPy axis sum) -/
def fsum {α : Type} [Add α] [Zero α] {n : Nat} (f : Fin n → α) : α := ((List.finRange n).map f).sum

/-- `np.any` over `Fin n` -/
def fany {n : Nat} (f : Fin n → Bool) : Bool := (List.finRange n).any f

/-- maximum of a natural-valued function over `Fin n` (0 for `n = 0`), `np.max` -/
def fmax {n : Nat} (f : Fin n → Nat) : Nat := ((List.finRange n).map f).foldl max 0

def permA {α : Type} {n : Nat} (p : Fin n → Fin n) (A : AMat α n) : AMat α n :=
  AMat.ofFn fun i j => A.get (p i) (p j)

/-- `v[i]` with the length fixed by the type of `i` -/
@[inline] def vget {α : Type} {n : Nat} (v : Vector α n) (i : Fin n) : α := v[i]

def permVec {α : Type} {n : Nat} (p : Fin n → Fin n) (v : Vector α n) : Vector α n :=
  Vector.ofFn fun i => vget v (p i)

/-- a float that NumPy may make `inf`, `-inf` or `nan` -/
inductive XRat | fin (q : Rat) | pinf | ninf | nan
  deriving DecidableEq, Repr

/-- NumPy float division `a / b` -/
def xdiv (a b : Rat) : XRat :=
  if b = 0 then (if a = 0 then .nan else if 0 < a then .pinf else .ninf) else .fin (a / b)

inductive MErr | zeroDiv | fuel | value
  deriving DecidableEq, Repr

def MErr.str : MErr → String
  | .zeroDiv => "ZeroDivisionError" | .fuel => "fuel" | .value => "ValueError"

/-- `x != 0` as 0/1 (`binarize`, `np.logical_not(W == 0)`) -/
def nz (x : Int) : Int := if x ≠ 0 then 1 else 0

variable {n : Nat}

def bin (A : AMat Int n) : AMat Int n := AMat.ofFn fun i j => nz (A.get i j)
def madd (A B : AMat Int n) : AMat Int n := AMat.ofFn fun i j => A.get i j + B.get i j
def mtr (A : AMat Int n) : AMat Int n := AMat.ofFn fun i j => A.get j i
def mmul (A B : AMat Int n) : AMat Int n := AMat.ofFn fun i j => fsum fun k => A.get i k * B.get k j
def rowSum (A : AMat Int n) (i : Fin n) : Int := fsum fun j => A.get i j
def colSum (A : AMat Int n) (j : Fin n) : Int := fsum fun i => A.get i j
def trace (A : AMat Int n) : Int := fsum fun i => A.get i i
def total (A : AMat Int n) : Int := fsum fun i => fsum fun j => A.get i j
def isSymm (A : AMat Int n) : Bool := (List.finRange n).all fun i => (List.finRange n).all fun j => A.get i j == A.get j i

/-! ## degree.py -/

/-- `degrees_und`: column sums of the binarised matrix -/
def degreesUnd (A : AMat Int n) : Vector Int n := Vector.ofFn fun j => colSum (bin A) j

/-- `degrees_dir`: (in-degree, out-degree, their sum) -/
def degreesDir (A : AMat Int n) : Vector Int n × Vector Int n × Vector Int n :=
  (Vector.ofFn fun j => colSum (bin A) j, Vector.ofFn fun i => rowSum (bin A) i,
   Vector.ofFn fun i => colSum (bin A) i + rowSum (bin A) i)

def strengthsUnd (A : AMat Int n) : Vector Int n := Vector.ofFn fun j => colSum A j
def strengthsDir (A : AMat Int n) : Vector Int n := Vector.ofFn fun i => colSum A i + rowSum A i

/-- `strengths_und_sign`: diagonal cleared, then positive / negative column sums and totals -/
def strengthsUndSign (A : AMat Int n) : Vector Int n × Vector Int n × Int × Int :=
  let W : AMat Int n := AMat.ofFn fun i j => if i = j then 0 else A.get i j
  let P : AMat Int n := AMat.ofFn fun i j => if W.get i j > 0 then W.get i j else 0
  let N : AMat Int n := AMat.ofFn fun i j => if W.get i j < 0 then W.get i j else 0
  (Vector.ofFn fun j => colSum P j, Vector.ofFn fun j => colSum N j, total P, total N)

/-! ## physical_connectivity.py -/

/-- `density_dir`: `k` = number of nonzero cells, `kden = k / (n*n - n)` (Python `/`: raises for n ≤ 1) -/
def densityDir (A : AMat Int n) : Except MErr (Rat × Nat × Int) :=
  let k := total (bin A)
  if n * n - n = 0 then .error .zeroDiv else .ok ((k : Rat) / ((n * n - n : Nat) : Rat), n, k)

/-- `density_und`: `k` = nonzero cells of `np.triu(CIJ)` (diagonal included), `kden = k / ((n*n-n)/2)` -/
def densityUnd (A : AMat Int n) : Except MErr (Rat × Nat × Int) :=
  let k := fsum fun i => fsum fun j => if i ≤ j then nz (A.get i j) else 0
  if n * n - n = 0 then .error .zeroDiv else .ok ((k : Rat) / (((n * n - n : Nat) : Rat) / 2), n, k)

/-! ## clustering.py -/

/-- `clustering_coef_bu` -/
def clusteringBu (G : AMat Int n) : Vector Rat n := Vector.ofFn fun u =>
  let k : Int := fsum fun v => nz (G.get u v)
  if 2 ≤ k then
    ((fsum fun v => fsum fun w => if G.get u v ≠ 0 ∧ G.get u w ≠ 0 then G.get v w else 0 : Int) : Rat) / ((k * k - k : Int) : Rat)
  else 0

/-- common core of `clustering_coef_bd` (`S = A + Aᵀ`, `Ae = A`) and `clustering_coef_wd`
(`S = R + Rᵀ` with `R` the cube roots of the weights, `Ae` = nonzero pattern): per node
`(cyc3, CYC3)` with `cyc3 = diag(S³)/2`, `CYC3 = K(K-1) - 2 diag(Ae²)`, `K` = row sums of `Ae + Aeᵀ` -/
def cycD (S Ae : AMat Int n) : Vector (Rat × Rat) n :=
  let S3 := mmul S (mmul S S)
  let A2 := mmul Ae Ae
  let T := madd Ae (mtr Ae)
  Vector.ofFn fun i =>
    let K := rowSum T i
    (((S3.get i i : Int) : Rat) / 2, ((K * (K - 1) - 2 * A2.get i i : Int) : Rat))

/-- `K[cyc3 == 0] = inf; C = cyc3 / CYC3` -/
def coefOf (c : Rat × Rat) : XRat := if c.1 = 0 then .fin 0 else xdiv c.1 c.2

def clusteringBd (A : AMat Int n) : Vector XRat n := (cycD (madd A (mtr A)) A).map coefOf
/-- `clustering_coef_wd` on `W = R³` (entrywise) -/
def clusteringWd (R : AMat Int n) : Vector XRat n := (cycD (madd R (mtr R)) (bin R)).map coefOf

/-- `clustering_coef_wu` on `W = R³`: per node `(cyc3, K(K-1))` -/
def cycU (R : AMat Int n) : Vector (Rat × Rat) n :=
  let R3 := mmul R (mmul R R)
  Vector.ofFn fun i =>
    let K := rowSum (bin R) i
    (((R3.get i i : Int) : Rat), ((K * (K - 1) : Int) : Rat))
def clusteringWu (R : AMat Int n) : Vector XRat n := (cycU R).map coefOf

def vsum1 (v : Vector (Rat × Rat) n) : Rat := fsum fun i => (vget v i).1
def vsum2 (v : Vector (Rat × Rat) n) : Rat := fsum fun i => (vget v i).2

/-- `transitivity_bu`: `trace(A³) / (sum(A²) - trace(A²))` -/
def transitivityBu (A : AMat Int n) : XRat :=
  let A2 := mmul A A
  xdiv (trace (mmul A A2) : Int) ((total A2 - trace A2 : Int) : Rat)
def transitivityBd (A : AMat Int n) : XRat := let c := cycD (madd A (mtr A)) A; xdiv (vsum1 c) (vsum2 c)
def transitivityWd (R : AMat Int n) : XRat := let c := cycD (madd R (mtr R)) (bin R); xdiv (vsum1 c) (vsum2 c)
def transitivityWu (R : AMat Int n) : XRat := let c := cycU R; xdiv (vsum1 c) (vsum2 c)

/-! ## similarity.py -/

/-- the body of the `i < j` loop of `matching_ind` for the "in" (columns, `tr = false`) or "out"
(rows) neighbourhoods: `(2 * #common, ncon)` -/
def matchParts (A : AMat Int n) (i j : Fin n) : Int × Int :=
  let c1 := fun k => A.get k i
  let c2 := fun k => A.get k j
  let use := fun k => (c1 k ≠ 0 ∨ c2 k ≠ 0) ∧ k ≠ i ∧ k ≠ j
  (2 * (fsum fun k => if use k ∧ c1 k ≠ 0 ∧ c2 k ≠ 0 then (1 : Int) else 0),
   fsum fun k => if use k then c1 k + c2 k else 0)

def matchVal (p : Int × Int) : Rat := if p.2 = 0 then 0 else (p.1 : Rat) / (p.2 : Rat)

/-- upper triangle filled by the loop, then `M + M.T` -/
def symUp (m : Fin n → Fin n → Rat) : AMat Rat n :=
  let U : AMat Rat n := AMat.ofFn fun i j => if i < j then m i j else 0
  AMat.ofFn fun i j => U.get i j + U.get j i

/-- `matching_ind` → (Min, Mout, Mall) -/
def matchingInd (A : AMat Int n) : AMat Rat n × AMat Rat n × AMat Rat n :=
  let At := mtr A
  (symUp fun i j => matchVal (matchParts A i j),
   symUp fun i j => matchVal (matchParts At i j),
   symUp fun i j => let a := matchParts A i j; let b := matchParts At i j; matchVal (a.1 + b.1, a.2 + b.2))

/-- neighbours of `x` (in or out) other than `i`, `j` -/
def neiOf (A : AMat Int n) (x i j : Fin n) (k : Fin n) : Bool :=
  (A.get x k != 0 || A.get k x != 0) && k != i && k != j

/-- `edge_nei_overlap_bu/bd`, matrix output `EC`: `|N(i)∩N(j)| / |N(i)∪N(j)|` on edges (Python int `/`:
raises `ZeroDivisionError` when the union is empty), `inf` elsewhere -/
def edgeNeiOverlap (A : AMat Int n) : Except MErr (AMat XRat n) :=
  let inter : AMat Int n := AMat.ofFn fun i j => fsum fun k => if neiOf A i i j k && neiOf A j i j k then 1 else 0
  let union : AMat Int n := AMat.ofFn fun i j => fsum fun k => if neiOf A i i j k || neiOf A j i j k then 1 else 0
  if fany fun i => fany fun j => A.get i j != 0 && union.get i j == 0 then .error .zeroDiv
  else .ok (AMat.ofFn fun i j => if A.get i j ≠ 0 then .fin ((inter.get i j : Rat) / (union.get i j : Rat)) else .pinf)

/-- `gtom`: one in-place update of node `i` (`bm_aux[i, new] = 1; bm_aux[new, i] = 1`) -/
def gtomNode (B : AMat Int n) (i : Fin n) : AMat Int n :=
  let new : Vector Bool n := Vector.ofFn fun c => c != i && fany fun r => B.get i r == 1 && B.get r c == 1
  AMat.ofFn fun r c => if (r = i ∧ (vget new c)) ∨ (c = i ∧ (vget new r)) then 1 else B.get r c

def gtomSweep (B : AMat Int n) : AMat Int n := (List.finRange n).foldl gtomNode B

def gtomAux (bm : AMat Int n) : Nat → AMat Int n
  | 0 => bm
  | s + 1 => gtomSweep (gtomAux bm s)

/-- `gtom(adj, nr_steps)` for `nr_steps ≥ 1` (`nr_steps = 0` returns `bm`, see `step`) -/
def gtom (A : AMat Int n) (nrSteps : Nat) : AMat XRat n :=
  let bm := bin A
  let B := gtomAux bm (nrSteps - 2)
  let BB := mmul B B
  AMat.ofFn fun i j =>
    let num := BB.get i j + bm.get i j + (if i = j then 1 else 0)
    let ki := colSum B i
    let kj := colSum B j
    let den := - bm.get i j + (if kj > ki then kj else ki) + 1
    xdiv num den

/-! ## centrality.py -/

/-- `flow_coef_bd` as written: per node `(fc, total_flo)`; the test `np.where(nb)[0].size` asks whether
some neighbour has a nonzero *index*, which is mirrored here (`hasNonzeroIndex`) -/
def flowNode (A : AMat Int n) (v : Fin n) : XRat × Int :=
  let nb := fun u : Fin n => A.get v u + A.get u v ≠ 0
  let hasNonzeroIndex := fany fun u => decide (nb u) && u.val != 0
  if hasNonzeroIndex then
    let m : Int := fsum fun u => if nb u then 1 else 0
    let tot : Int := fsum fun i => fsum fun j =>
      if nb i ∧ nb j ∧ i ≠ j ∧ (- A.get i j + (if A.get i v ≠ 0 ∧ A.get v j ≠ 0 then 1 else 0) = 1) then 1 else 0
    (xdiv tot ((m * m - m : Int) : Rat), tot)
  else (.fin 0, 0)

/-- the same without the index test (what the routine means) -/
def flowNodeSpec (A : AMat Int n) (v : Fin n) : XRat × Int :=
  let nb := fun u : Fin n => A.get v u + A.get u v ≠ 0
  let m : Int := fsum fun u => if nb u then 1 else 0
  let tot : Int := fsum fun i => fsum fun j =>
    if nb i ∧ nb j ∧ i ≠ j ∧ (- A.get i j + (if A.get i v ≠ 0 ∧ A.get v j ≠ 0 then 1 else 0) = 1) then 1 else 0
  (xdiv tot ((m * m - m : Int) : Rat), tot)

/-- `fc[np.isnan(fc)] = 0` -/
def nanToZero : XRat → XRat | .nan => .fin 0 | x => x

/-- `flow_coef_bd` → (fc, total_flo) -/
def flowCoef (A : AMat Int n) : Vector XRat n × Vector Int n :=
  (Vector.ofFn fun v => nanToZero (flowNode A v).1, Vector.ofFn fun v => (flowNode A v).2)

/-- `np.unique(ci, return_inverse=True)[1] + 1`: rank of the label among the distinct labels, from 1 -/
def rankLabels (ci : Vector Nat n) : Vector Nat n := Vector.ofFn fun i =>
  ((List.range (vget ci i)).filter fun c => fany fun k => (vget ci k) == c).length + 1

/-- `participation_coef(W, ci)` (out-neighbours; `degree='in'` is the transpose) -/
def participation (W : AMat Int n) (ci : Vector Nat n) : Vector Rat n :=
  let r := rankLabels ci
  let m := fmax fun i => (vget r i)
  Vector.ofFn fun i =>
    let Ko := rowSum W i
    let Kc2 : Int := ((List.range m).map fun c =>
      let s := fsum fun j => if W.get i j ≠ 0 ∧ (vget r j) = c + 1 then W.get i j else 0
      s * s).sum
    if Ko = 0 then 0 else 1 - (Kc2 : Rat) / ((Ko * Ko : Int) : Rat)

/-! ## core.py -/

/-- `CIJkcore[ff, :] = 0; CIJkcore[:, ff] = 0` -/
def zeroNodes (C : AMat Int n) (ff : Vector Bool n) : AMat Int n :=
  AMat.ofFn fun i j => if (vget ff i) || (vget ff j) then 0 else C.get i j

/-- the peeling loop shared by `kcore_bu`, `kcore_bd`, `score_wu` (`deg` = the degree / strength used) -/
def peel (deg : AMat Int n → Vector Int n) (k : Int) : Nat → AMat Int n → Except MErr (AMat Int n × Vector Int n)
  | 0, _ => .error .fuel
  | fuel + 1, C =>
    let d := deg C
    let ff : Vector Bool n := Vector.ofFn fun i => (vget d i) < k && (vget d i) > 0
    if fany fun i => (vget ff i) then peel deg k fuel (zeroNodes C ff) else .ok (C, d)

def countPos (d : Vector Int n) : Int := fsum fun i => if (vget d i) > 0 then 1 else 0

def degTotal (A : AMat Int n) : Vector Int n := (degreesDir A).2.2

def kcoreBu (A : AMat Int n) (k : Int) : Except MErr (AMat Int n × Int) :=
  (peel degreesUnd k (n + 1) A).map fun r => (r.1, countPos r.2)
def kcoreBd (A : AMat Int n) (k : Int) : Except MErr (AMat Int n × Int) :=
  (peel degTotal k (n + 1) A).map fun r => (r.1, countPos r.2)
def scoreWu (A : AMat Int n) (s : Int) : Except MErr (AMat Int n × Int) :=
  (peel strengthsUnd s (n + 1) A).map fun r => (r.1, countPos r.2)

/-- `for k in range(N): core, kn[k] = kcore(CIJ, k); coreness[colsum(core) > 0] = k` -/
def corenessLoop (kc : AMat Int n → Int → Except MErr (AMat Int n × Int)) (A : AMat Int n) :
    List Nat → Vector Int n → List Int → Except MErr (Vector Int n × List Int)
  | [], cor, kn => .ok (cor, kn.reverse)
  | k :: ks, cor, kn =>
    match kc A k with
    | .error e => .error e
    | .ok (C, knk) =>
      corenessLoop kc A ks (Vector.ofFn fun i => if colSum C i > 0 then (k : Int) else (vget cor i)) (knk :: kn)

def kcorenessBd (A : AMat Int n) : Except MErr (Vector Int n × List Int) :=
  corenessLoop kcoreBd A (List.range n) (Vector.ofFn fun _ => 0) []

/-- `kcoreness_centrality_bu`: symmetrises (`CIJ + CIJ.T > 0`) when some cell of `CIJ + CIJ.T` exceeds 1 -/
def kcorenessBu (A : AMat Int n) : Except MErr (Vector Int n × List Int) :=
  let U := madd A (mtr A)
  let A' : AMat Int n := if (fany fun i => fany fun j => U.get i j > 1) then AMat.ofFn fun i j => if U.get i j > 0 then 1 else 0 else A
  corenessLoop kcoreBu A' (List.range n) (Vector.ofFn fun _ => 0) []

/-- `rich_club_bu/bd` at level `k` (0-based): nodes with `deg > k+1` → `(Nk, Ek)` -/
def richLevel (A : AMat Int n) (deg : Vector Int n) (k : Nat) : Int × Int :=
  (fsum fun i => if (vget deg i) > (k : Int) + 1 then 1 else 0,
   fsum fun i => fsum fun j => if (vget deg i) > (k : Int) + 1 ∧ (vget deg j) > (k : Int) + 1 then A.get i j else 0)

def richClub (A : AMat Int n) (deg : Vector Int n) : List (XRat × Int × Int) :=
  let klevel := fmax fun i => ((vget deg i)).toNat
  (List.range klevel).map fun k =>
    let r := richLevel A deg k
    (xdiv r.2 ((r.1 * (r.1 - 1) : Int) : Rat), r.1, r.2)

def richClubBu (A : AMat Int n) : List (XRat × Int × Int) := richClub A (degreesUnd A)
def richClubBd (A : AMat Int n) : List (XRat × Int × Int) := richClub A (degTotal A)

/-- the three sums of `assortativity_*` over the listed edges: `(K, Σ x·y, Σ (x+y), Σ (x²+y²))` -/
def assortSums (edge : Fin n → Fin n → Bool) (x y : Vector Int n) : Int × Int × Int × Int :=
  (fsum fun i => fsum fun j => if edge i j then 1 else 0,
   fsum fun i => fsum fun j => if edge i j then (vget x i) * (vget y j) else 0,
   fsum fun i => fsum fun j => if edge i j then (vget x i) + (vget y j) else 0,
   fsum fun i => fsum fun j => if edge i j then (vget x i) * (vget x i) + (vget y j) * (vget y j) else 0)

/-- `r = (term1 - term2) / (term3 - term2)`; `K = 0` gives `nan` -/
def assortOf (s : Int × Int × Int × Int) : XRat :=
  let K : Rat := s.1
  if K = 0 then .nan else
  let t1 : Rat := (s.2.1 : Rat) / K
  let t2 : Rat := ((s.2.2.1 : Rat) / 2 / K) * ((s.2.2.1 : Rat) / 2 / K)
  let t3 : Rat := (s.2.2.2 : Rat) / 2 / K
  xdiv (t1 - t2) (t3 - t2)

/-- `assortativity_bin(CIJ, flag)`; flag 0 lists the edges of `np.triu(CIJ, 1) > 0` -/
def assortativityBin (A : AMat Int n) (flag : Nat) : Except MErr XRat :=
  let d := degreesDir A
  match flag with
  | 0 => let deg := degreesUnd A
         .ok (assortOf (assortSums (fun i j => i < j && A.get i j > 0) deg deg))
  | 1 => .ok (assortOf (assortSums (fun i j => A.get i j > 0) d.2.1 d.1))
  | 2 => .ok (assortOf (assortSums (fun i j => A.get i j > 0) d.1 d.2.1))
  | 3 => .ok (assortOf (assortSums (fun i j => A.get i j > 0) d.2.1 d.2.1))
  | 4 => .ok (assortOf (assortSums (fun i j => A.get i j > 0) d.1 d.1))
  | _ => .error .value

/-- `assortativity_wei(CIJ, 0)` -/
def assortativityWei0 (A : AMat Int n) : XRat :=
  let s := strengthsUnd A
  assortOf (assortSums (fun i j => i < j && A.get i j > 0) s s)

/-! ## distance.py -/

def anyNz (L : AMat Int n) : Bool := fany fun i => fany fun j => L.get i j != 0
/-- `D += n * L` -/
def dbStepD (D L : AMat Int n) (cnt : Int) : AMat Int n := AMat.ofFn fun i j => D.get i j + cnt * L.get i j
/-- `L = (nPATH != 0) * (D == 0)` -/
def dbStepL (P D : AMat Int n) : AMat Int n := AMat.ofFn fun i j => if P.get i j ≠ 0 ∧ D.get i j = 0 then 1 else 0
def eye : AMat Int n := AMat.ofFn fun i j => if i = j then 1 else 0

/-- the `while np.any(L)` loop of `distance_bin` / `efficiency_bin.distance_inv` -/
def dbLoop (G : AMat Int n) : Nat → (D nPATH L : AMat Int n) → Int → Except MErr (AMat Int n)
  | 0, _, _, _, _ => .error .fuel
  | fuel + 1, D, nPATH, L, cnt =>
    if anyNz L then
      let D' := dbStepD D L cnt
      let nPATH' := mmul nPATH G
      dbLoop G fuel D' nPATH' (dbStepL nPATH' D') (cnt + 1)
    else .ok D

/-- the matrix `D` at the end of the loop (0 = not reached, diagonal 1) -/
def distRaw (G : AMat Int n) : Except MErr (AMat Int n) :=
  dbLoop G (n + 2) eye G (bin G) 1

/-- `distance_bin`: `none` = `inf` -/
def distanceBin (A : AMat Int n) : Except MErr (AMat (Option Int) n) :=
  (distRaw (bin A)).map fun D => AMat.ofFn fun i j => if i = j then some 0 else if D.get i j = 0 then none else some (D.get i j)

/-- `efficiency_bin(G)` (global): `sum(1/D off the diagonal) / (n*n - n)` (NumPy division: `nan` for n = 1) -/
def efficiencyBin (A : AMat Int n) : Except MErr XRat :=
  (distRaw (bin A)).map fun D =>
    xdiv (fsum fun i => fsum fun j => if i = j ∨ D.get i j = 0 then (0 : Rat) else 1 / (D.get i j : Rat)) ((n * n - n : Nat) : Rat)

/-- `R = np.logical_or(R, CIJpwr != 0)` -/
def rdStepR (R Cp : AMat Int n) : AMat Int n := AMat.ofFn fun i j => if R.get i j ≠ 0 ∨ Cp.get i j ≠ 0 then 1 else 0
/-- `np.any(R[np.ix_(row, col)] == 0)` -/
def rdOpen (row col : Vector Bool n) (R : AMat Int n) : Bool :=
  fany fun i => fany fun j => vget row i && vget col j && R.get i j == 0

/-- the recursion `reachdist2` -/
def rdLoop (C : AMat Int n) (row col : Vector Bool n) : Nat → (Cp R D : AMat Int n) → Nat → Except MErr (AMat Int n × AMat Int n × Nat)
  | 0, _, _, _, _ => .error .fuel
  | fuel + 1, Cp, R, D, powr =>
    let Cp' := mmul Cp C
    let R' := rdStepR R Cp'
    let D' := madd D R'
    if powr ≤ n && rdOpen row col R' then
      rdLoop C row col fuel Cp' R' D' (powr + 1)
    else .ok (R', D', powr)

/-- `D = powr - D + 1; D[D == n + 2] = inf; D[:, id0] = inf; D[od0, :] = inf` (`none` = `inf`) -/
def rdFinish (row col : Vector Bool n) (D : AMat Int n) (powr : Nat) : AMat (Option Int) n :=
  AMat.ofFn fun i j =>
    let d := (powr : Int) - D.get i j + 1
    if d = (n : Int) + 2 ∨ !vget col j ∨ !vget row i then none else some d

def nzCols (C : AMat Int n) : Vector Bool n := Vector.ofFn fun j => colSum C j != 0
def nzRows (C : AMat Int n) : Vector Bool n := Vector.ofFn fun i => rowSum C i != 0

/-- `reachdist(CIJ)` → (R, D) -/
def reachdist (A : AMat Int n) : Except MErr (AMat Int n × AMat (Option Int) n) :=
  let C := bin A
  (rdLoop C (nzRows C) (nzCols C) (n + 2) C C C 2).map fun r => (r.1, rdFinish (nzRows C) (nzCols C) r.2.1 r.2.2)

/-! ## spectral measures: exact definitions (the eigen-solver / LAPACK is not modelled) -/

/-- `sgLoop A r k P fact acc`: `r` more terms, `P = A^k`, `fact = k!` -/
def sgLoop (A : AMat Int n) : Nat → Nat → AMat Int n → Nat → Vector Rat n → Vector Rat n
  | 0, _, _, _, acc => acc
  | r + 1, k, P, fact, acc =>
    sgLoop A r (k + 1) (mmul P A) (fact * (k + 1)) (Vector.ofFn fun i => vget acc i + ((P.get i i : Int) : Rat) / (fact : Rat))

/-- partial sum `Σ_{k<K} (A^k)_{ii} / k!` of the series whose limit is `subgraph_centrality` -/
def subgraphSeries (A : AMat Int n) (K : Nat) : Vector Rat n := sgLoop A K 0 eye 1 (Vector.ofFn fun _ => 0)

def mulVecQ (M : AMat Rat n) (v : Vector Rat n) : Vector Rat n := Vector.ofFn fun i => fsum fun j => M.get i j * vget v j

/-- the matrix `B = I - d * A * diag(1/deg)` of `pagerank_centrality` (`deg` = column sums, zeros replaced by 1) -/
def prMatrix (A : AMat Int n) (d : Rat) : AMat Rat n := AMat.ofFn fun i j =>
  (if i = j then 1 else 0) - d * ((A.get i j : Int) : Rat) / (if colSum A j = 0 then 1 else ((colSum A j : Int) : Rat))

/-- `r` is the PageRank vector of `A` for damping `d` and prior `f` (`B r' = (1-d) f/Σf`, `r = r'/Σr'`) -/
def IsPagerank (A : AMat Int n) (d : Rat) (f r : Vector Rat n) : Prop :=
  ∃ r' : Vector Rat n, mulVecQ (prMatrix A d) r' = Vector.ofFn (fun i => (1 - d) * (vget f i / fsum fun k => vget f k)) ∧
    r = Vector.ofFn fun i => vget r' i / fsum fun k => vget r' k

/-- `v` is an eigenvector of `A` for the eigenvalue `lam` (rational case) -/
def IsEigvec (A : AMat Int n) (lam : Rat) (v : Vector Rat n) : Prop :=
  mulVecQ (AMat.ofFn fun i j => ((A.get i j : Int) : Rat)) v = Vector.ofFn fun i => lam * vget v i

/-! ## driver -/

def showRat (q : Rat) : String := if q.den = 1 then toString q.num else s!"{q.num}/{q.den}"
def XRat.str : XRat → String
  | .fin q => showRat q | .pinf => "inf" | .ninf => "-inf" | .nan => "nan"
def showOptInt : Option Int → String | none => "inf" | some d => toString d

def showVec {α : Type} (f : α → String) (v : Vector α n) : String :=
  if n = 0 then "-" else ",".intercalate (v.toList.map f)
def showMatBy {α : Type} (f : α → String) (M : AMat α n) : String :=
  if n = 0 then "-" else ",".intercalate ((List.finRange n).flatMap fun i => (List.finRange n).map fun j => f (M.get i j))
def showList {α : Type} (f : α → String) (xs : List α) : String :=
  if xs.isEmpty then "-" else ",".intercalate (xs.map f)

def parseVecNat (n : Nat) (s : String) : Option (Vector Nat n) := do
  let xs ← parseNats s
  if h : xs.length = n then some ⟨xs.toArray, by simp [h]⟩ else none

def errLine (e : MErr) : String := s!"error={e.str}"

def step (line : String) : String :=
  let (op, kv) := parseLine line
  let res : Option String := do
    let n ← (← lookup kv "n").toNat?
    let A ← parseMat n (← lookup kv "R")
    let intArg (k : String) : Option Int := do (← lookup kv k).toInt?
    let natArg (k : String) : Option Nat := do (← lookup kv k).toNat?
    let si := fun (x : Int) => toString x
    match op with
    | "degrees_und" => some s!"deg={showVec si (degreesUnd A)}"
    | "degrees_dir" => let d := degreesDir A; some s!"id={showVec si d.1} od={showVec si d.2.1} deg={showVec si d.2.2}"
    | "strengths_und" => some s!"str={showVec si (strengthsUnd A)}"
    | "strengths_dir" => some s!"str={showVec si (strengthsDir A)}"
    | "strengths_und_sign" =>
      let r := strengthsUndSign A
      some s!"Spos={showVec si r.1} Sneg={showVec si r.2.1} vpos={r.2.2.1} vneg={r.2.2.2}"
    | "density_dir" => (match densityDir A with
      | .error e => some (errLine e) | .ok r => some s!"kden={showRat r.1} n={r.2.1} k={r.2.2}")
    | "density_und" => (match densityUnd A with
      | .error e => some (errLine e) | .ok r => some s!"kden={showRat r.1} n={r.2.1} k={r.2.2}")
    | "clustering_coef_bu" => some s!"C={showVec showRat (clusteringBu A)}"
    | "clustering_coef_bd" => some s!"C={showVec XRat.str (clusteringBd A)}"
    | "clustering_coef_wd" => some s!"C={showVec XRat.str (clusteringWd A)}"
    | "clustering_coef_wu" => some s!"C={showVec XRat.str (clusteringWu A)}"
    | "transitivity_bu" => some s!"T={(transitivityBu A).str}"
    | "transitivity_bd" => some s!"T={(transitivityBd A).str}"
    | "transitivity_wd" => some s!"T={(transitivityWd A).str}"
    | "transitivity_wu" => some s!"T={(transitivityWu A).str}"
    | "matching_ind" =>
      let r := matchingInd A
      some s!"Min={showMatBy showRat r.1} Mout={showMatBy showRat r.2.1} Mall={showMatBy showRat r.2.2}"
    | "edge_nei_overlap" => (match edgeNeiOverlap A with
      | .error e => some (errLine e) | .ok EC => some s!"EC={showMatBy XRat.str EC}")
    | "gtom" => do
      let s ← natArg "steps"
      if s = 0 then some s!"gt={showMatBy si (bin A)}" else some s!"gt={showMatBy XRat.str (gtom A s)}"
    | "flow_coef_bd" =>
      let r := flowCoef A
      some s!"fc={showVec XRat.str r.1} total_flo={showVec si r.2}"
    | "participation_coef" => do
      let ci ← parseVecNat n (← lookup kv "ci")
      let deg ← lookup kv "degree"
      let W := if deg == "in" then mtr A else A
      some s!"P={showVec showRat (participation W ci)}"
    | "kcore_bu" => do
      let k ← intArg "k"
      match kcoreBu A k with
      | .error e => some (errLine e) | .ok r => some s!"core={showMat r.1} kn={r.2}"
    | "kcore_bd" => do
      let k ← intArg "k"
      match kcoreBd A k with
      | .error e => some (errLine e) | .ok r => some s!"core={showMat r.1} kn={r.2}"
    | "score_wu" => do
      let k ← intArg "k"
      match scoreWu A k with
      | .error e => some (errLine e) | .ok r => some s!"core={showMat r.1} kn={r.2}"
    | "kcoreness_centrality_bu" => (match kcorenessBu A with
      | .error e => some (errLine e) | .ok r => some s!"coreness={showVec si r.1} kn={showList si r.2}")
    | "kcoreness_centrality_bd" => (match kcorenessBd A with
      | .error e => some (errLine e) | .ok r => some s!"coreness={showVec si r.1} kn={showList si r.2}")
    | "rich_club_bu" =>
      let r := richClubBu A
      some s!"R={showList (fun t => t.1.str) r} Nk={showList (fun t => si t.2.1) r} Ek={showList (fun t => si t.2.2) r}"
    | "rich_club_bd" =>
      let r := richClubBd A
      some s!"R={showList (fun t => t.1.str) r} Nk={showList (fun t => si t.2.1) r} Ek={showList (fun t => si t.2.2) r}"
    | "assortativity_bin" => do
      let f ← natArg "flag"
      match assortativityBin A f with
      | .error e => some (errLine e) | .ok r => some s!"r={r.str}"
    | "assortativity_wei" => some s!"r={(assortativityWei0 A).str}"
    | "distance_bin" => (match distanceBin A with
      | .error e => some (errLine e) | .ok D => some s!"D={showMatBy showOptInt D}")
    | "efficiency_bin" => (match efficiencyBin A with
      | .error e => some (errLine e) | .ok E => some s!"E={E.str}")
    | "subgraph_series" => do
      let K ← natArg "K"
      some s!"Cs={showVec showRat (subgraphSeries A K)}"
    | "reachdist" => (match reachdist A with
      | .error e => some (errLine e) | .ok r => some s!"R={showMat r.1} D={showMatBy showOptInt r.2}")
    | _ => none
  res.getD "error=protocol"

end Bct.Measures
