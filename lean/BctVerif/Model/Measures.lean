import BctVerif.Model.Basic
/-!
# Executable model of the algebraic graph measures of bctpy (property C04)

Exact `Int` / `Rat` models of the measures that no other slice models:
`strengths_und_sign`, `density_und/dir`, `matching_ind`, `edge_nei_overlap_bu/bd` (matrix output), `gtom`,
`flow_coef_bd`, `rich_club_bu/bd`, `assortativity_bin` (flags 0‑4), `assortativity_wei` (flag 0).
(Degrees/strengths, clustering/transitivity, distances/efficiencies, betweenness, cores, components, participation /
z-score, PageRank / subgraph series are modelled by `Model/Cluster, Dist, Between, Core, Comp, Partition, Walks`;
`Props/C04.lean` proves equivariance of *those* executable models.  `degreesUnd`, `degreesDir`, `strengthsUnd` below are
the degree vectors used inside rich club / assortativity; `Lemmas/MeasuresCluster.lean` proves them equal to the
`Cluster` ones.)

Matrices are `AMat Int n`; every intermediate matrix is materialised (`AMat.ofFn`), never a closure.
Float results that can be `inf`/`nan` in NumPy are `XRat`; Python-level `ZeroDivisionError`s are `Except`.
`permA p A` / `permVec p v` renumber a matrix / a per-node vector: new node `i` is old node `p i`
(`A[np.ix_(p,p)]`, `(vget v p)`).
-/
namespace Bct.Measures
open Bct

/-! ## basic machinery -/

/-- sum of `f` over `Fin n` (in index order, like a NumPy axis sum) -/
def fsum {α : Type} [Add α] [Zero α] {n : Nat} (f : Fin n → α) : α := ((List.finRange n).map f).sum

/-- `np.any` over `Fin n` -/
def fany {n : Nat} (f : Fin n → Bool) : Bool := (List.finRange n).any f

/-- maximum of a natural-valued function over `Fin n` (0 for `n = 0`), `np.max` -/
def fmax {n : Nat} (f : Fin n → Nat) : Nat := ((List.finRange n).map f).foldl max 0

def permA {α : Type} {n : Nat} (p : Fin n → Fin n) (A : AMat α n) : AMat α n :=
  AMat.ofFn fun i j => A.get (p i) (p j)

/-- `v[i]` with the length fixed by the type of `i` -/
@[inline] def vget {α : Type} {n : Nat} (v : Vector α n) (i : Fin n) : α := v[i]

def permVec {α : Type} {n : Nat} (p : Fin n → Fin n) (v : Vector α n) : Vector α n :=
  Vector.ofFn fun i => vget v (p i)

/-- a float that NumPy may make `inf`, `-inf` or `nan` -/
inductive XRat | fin (q : Rat) | pinf | ninf | nan
  deriving DecidableEq, Repr

/-- NumPy float division `a / b` -/
def xdiv (a b : Rat) : XRat :=
  if b = 0 then (if a = 0 then .nan else if 0 < a then .pinf else .ninf) else .fin (a / b)

inductive MErr | zeroDiv | fuel | value
  deriving DecidableEq, Repr

def MErr.str : MErr → String
  | .zeroDiv => "ZeroDivisionError" | .fuel => "fuel" | .value => "ValueError"

/-- `x != 0` as 0/1 (`binarize`, `np.logical_not(W == 0)`) -/
def nz (x : Int) : Int := if x ≠ 0 then 1 else 0

variable {n : Nat}

def bin (A : AMat Int n) : AMat Int n := AMat.ofFn fun i j => nz (A.get i j)
def madd (A B : AMat Int n) : AMat Int n := AMat.ofFn fun i j => A.get i j + B.get i j
def mtr (A : AMat Int n) : AMat Int n := AMat.ofFn fun i j => A.get j i
def mmul (A B : AMat Int n) : AMat Int n := AMat.ofFn fun i j => fsum fun k => A.get i k * B.get k j
def rowSum (A : AMat Int n) (i : Fin n) : Int := fsum fun j => A.get i j
def colSum (A : AMat Int n) (j : Fin n) : Int := fsum fun i => A.get i j
def trace (A : AMat Int n) : Int := fsum fun i => A.get i i
def total (A : AMat Int n) : Int := fsum fun i => fsum fun j => A.get i j
def isSymm (A : AMat Int n) : Bool := (List.finRange n).all fun i => (List.finRange n).all fun j => A.get i j == A.get j i

/-! ## degree.py -/

/-- `degrees_und`: column sums of the binarised matrix -/
def degreesUnd (A : AMat Int n) : Vector Int n := Vector.ofFn fun j => colSum (bin A) j

/-- `degrees_dir`: (in-degree, out-degree, their sum) -/
def degreesDir (A : AMat Int n) : Vector Int n × Vector Int n × Vector Int n :=
  (Vector.ofFn fun j => colSum (bin A) j, Vector.ofFn fun i => rowSum (bin A) i,
   Vector.ofFn fun i => colSum (bin A) i + rowSum (bin A) i)

def strengthsUnd (A : AMat Int n) : Vector Int n := Vector.ofFn fun j => colSum A j

/-- `strengths_und_sign`: diagonal cleared, then positive / negative column sums and totals -/
def strengthsUndSign (A : AMat Int n) : Vector Int n × Vector Int n × Int × Int :=
  let W : AMat Int n := AMat.ofFn fun i j => if i = j then 0 else A.get i j
  let P : AMat Int n := AMat.ofFn fun i j => if W.get i j > 0 then W.get i j else 0
  let N : AMat Int n := AMat.ofFn fun i j => if W.get i j < 0 then W.get i j else 0
  (Vector.ofFn fun j => colSum P j, Vector.ofFn fun j => colSum N j, total P, total N)

/-- `jdegree`: `J[id[i], od[i]] += 1` — the number of nodes with in-degree `a` and out-degree `b` -/
def jdegCell (A : AMat Int n) (a b : Int) : Int :=
  fsum fun i => if vget (degreesDir A).1 i = a ∧ vget (degreesDir A).2.1 i = b then 1 else 0

/-- `(J_od, J_id, J_bl)` = `(sum(triu(J,1)), sum(tril(J,-1)), sum(diag(J)))`: nodes with `od > id`, `id > od`, `id = od` -/
def jdegSummary (A : AMat Int n) : Int × Int × Int :=
  (fsum fun i => if vget (degreesDir A).1 i < vget (degreesDir A).2.1 i then 1 else 0,
   fsum fun i => if vget (degreesDir A).1 i > vget (degreesDir A).2.1 i then 1 else 0,
   fsum fun i => if vget (degreesDir A).1 i = vget (degreesDir A).2.1 i then 1 else 0)

/-! ## physical_connectivity.py -/

/-- `density_dir`: `k` = number of nonzero cells, `kden = k / (n*n - n)` (Python `/`: raises for n ≤ 1) -/
def densityDir (A : AMat Int n) : Except MErr (Rat × Nat × Int) :=
  let k := total (bin A)
  if n * n - n = 0 then .error .zeroDiv else .ok ((k : Rat) / ((n * n - n : Nat) : Rat), n, k)

/-- `density_und`: `k` = nonzero cells of `np.triu(CIJ)` (diagonal included), `kden = k / ((n*n-n)/2)` -/
def densityUnd (A : AMat Int n) : Except MErr (Rat × Nat × Int) :=
  let k := fsum fun i => fsum fun j => if i ≤ j then nz (A.get i j) else 0
  if n * n - n = 0 then .error .zeroDiv else .ok ((k : Rat) / (((n * n - n : Nat) : Rat) / 2), n, k)

/-! ## similarity.py -/

/-- the body of the `i < j` loop of `matching_ind` for the "in" (columns, `tr = false`) or "out"
(rows) neighbourhoods: `(2 * #common, ncon)` -/
def matchParts (A : AMat Int n) (i j : Fin n) : Int × Int :=
  let c1 := fun k => A.get k i
  let c2 := fun k => A.get k j
  let use := fun k => (c1 k ≠ 0 ∨ c2 k ≠ 0) ∧ k ≠ i ∧ k ≠ j
  (2 * (fsum fun k => if use k ∧ c1 k ≠ 0 ∧ c2 k ≠ 0 then (1 : Int) else 0),
   fsum fun k => if use k then c1 k + c2 k else 0)

def matchVal (p : Int × Int) : Rat := if p.2 = 0 then 0 else (p.1 : Rat) / (p.2 : Rat)

/-- upper triangle filled by the loop, then `M + M.T` -/
def symUp (m : Fin n → Fin n → Rat) : AMat Rat n :=
  let U : AMat Rat n := AMat.ofFn fun i j => if i < j then m i j else 0
  AMat.ofFn fun i j => U.get i j + U.get j i

/-- `matching_ind` → (Min, Mout, Mall) -/
def matchingInd (A : AMat Int n) : AMat Rat n × AMat Rat n × AMat Rat n :=
  let At := mtr A
  (symUp fun i j => matchVal (matchParts A i j),
   symUp fun i j => matchVal (matchParts At i j),
   symUp fun i j => let a := matchParts A i j; let b := matchParts At i j; matchVal (a.1 + b.1, a.2 + b.2))

/-- neighbours of `x` (in or out) other than `i`, `j` -/
def neiOf (A : AMat Int n) (x i j : Fin n) (k : Fin n) : Bool :=
  (A.get x k != 0 || A.get k x != 0) && k != i && k != j

/-- `edge_nei_overlap_bu/bd`, matrix output `EC`: `|N(i)∩N(j)| / |N(i)∪N(j)|` on edges (Python int `/`:
raises `ZeroDivisionError` when the union is empty), `inf` elsewhere -/
def edgeNeiOverlap (A : AMat Int n) : Except MErr (AMat XRat n) :=
  let inter : AMat Int n := AMat.ofFn fun i j => fsum fun k => if neiOf A i i j k && neiOf A j i j k then 1 else 0
  let union : AMat Int n := AMat.ofFn fun i j => fsum fun k => if neiOf A i i j k || neiOf A j i j k then 1 else 0
  if fany fun i => fany fun j => A.get i j != 0 && union.get i j == 0 then .error .zeroDiv
  else .ok (AMat.ofFn fun i j => if A.get i j ≠ 0 then .fin ((inter.get i j : Rat) / (union.get i j : Rat)) else .pinf)

/-- `gtom`: one round of neighbourhood expansion.  Every node `i` is expanded from the matrix at the start of the round
(`bm_prev`): `new_i = {c ≠ i : ∃ r, bm_prev[i,r] = 1 ∧ bm_prev[r,c] = 1}`, then `bm_aux[i, new_i] = 1; bm_aux[new_i, i] = 1`.
All writes set cells to 1, so after the loop cell `(r, c)` is 1 iff it was 1 or `c ∈ new_r` or `r ∈ new_c`. -/
def gtomNew (B : AMat Int n) (i c : Fin n) : Bool := c != i && fany fun r => B.get i r == 1 && B.get r c == 1

def gtomSweep (B : AMat Int n) : AMat Int n :=
  AMat.ofFn fun r c => if gtomNew B r c || gtomNew B c r then 1 else B.get r c

def gtomAux (bm : AMat Int n) : Nat → AMat Int n
  | 0 => bm
  | s + 1 => gtomSweep (gtomAux bm s)

/-- `gtom(adj, nr_steps)`; `nr_steps = 0` returns `bm` -/
def gtom (A : AMat Int n) (nrSteps : Nat) : AMat XRat n :=
  let bm := bin A
  if nrSteps = 0 then AMat.ofFn fun i j => .fin (bm.get i j) else
  let B := gtomAux bm (nrSteps - 2)
  let BB := mmul B B
  AMat.ofFn fun i j =>
    let num := BB.get i j + bm.get i j + (if i = j then 1 else 0)
    let ki := colSum B i
    let kj := colSum B j
    let den := - bm.get i j + (if kj > ki then kj else ki) + 1
    xdiv num den

/-! ## centrality.py -/

/-- `flow_coef_bd` as written: per node `(fc, total_flo)`; the test `np.where(nb)[0].size` asks whether
some neighbour has a nonzero *index*, which is mirrored here (`hasNonzeroIndex`) -/
def flowNode (A : AMat Int n) (v : Fin n) : XRat × Int :=
  let nb := fun u : Fin n => A.get v u + A.get u v ≠ 0
  let hasNonzeroIndex := fany fun u => decide (nb u) && u.val != 0
  if hasNonzeroIndex then
    let m : Int := fsum fun u => if nb u then 1 else 0
    let tot : Int := fsum fun i => fsum fun j =>
      if nb i ∧ nb j ∧ i ≠ j ∧ (- A.get i j + (if A.get i v ≠ 0 ∧ A.get v j ≠ 0 then 1 else 0) = 1) then 1 else 0
    (xdiv tot ((m * m - m : Int) : Rat), tot)
  else (.fin 0, 0)

/-- the same without the index test (what the routine means) -/
def flowNodeSpec (A : AMat Int n) (v : Fin n) : XRat × Int :=
  let nb := fun u : Fin n => A.get v u + A.get u v ≠ 0
  let m : Int := fsum fun u => if nb u then 1 else 0
  let tot : Int := fsum fun i => fsum fun j =>
    if nb i ∧ nb j ∧ i ≠ j ∧ (- A.get i j + (if A.get i v ≠ 0 ∧ A.get v j ≠ 0 then 1 else 0) = 1) then 1 else 0
  (xdiv tot ((m * m - m : Int) : Rat), tot)

/-- `fc[np.isnan(fc)] = 0` -/
def nanToZero : XRat → XRat | .nan => .fin 0 | x => x

/-- `flow_coef_bd` → (fc, total_flo) -/
def flowCoef (A : AMat Int n) : Vector XRat n × Vector Int n :=
  (Vector.ofFn fun v => nanToZero (flowNode A v).1, Vector.ofFn fun v => (flowNode A v).2)

/-- value of a finite `XRat` (0 otherwise) -/
def xval : XRat → Rat | .fin q => q | _ => 0

/-- `FC = np.mean(fc)` (every `fc` is finite after the `nan -> 0` step) -/
def flowFC (A : AMat Int n) : XRat := xdiv (fsum fun v => xval (vget (flowCoef A).1 v)) (n : Rat)

/-! ## core.py -/

def degTotal (A : AMat Int n) : Vector Int n := (degreesDir A).2.2

/-- `rich_club_bu/bd` at level `k` (0-based): nodes with `deg > k+1` → `(Nk, Ek)` -/
def richLevel (A : AMat Int n) (deg : Vector Int n) (k : Nat) : Int × Int :=
  (fsum fun i => if (vget deg i) > (k : Int) + 1 then 1 else 0,
   fsum fun i => fsum fun j => if (vget deg i) > (k : Int) + 1 ∧ (vget deg j) > (k : Int) + 1 then A.get i j else 0)

def richClub (A : AMat Int n) (deg : Vector Int n) : List (XRat × Int × Int) :=
  let klevel := fmax fun i => ((vget deg i)).toNat
  (List.range klevel).map fun k =>
    let r := richLevel A deg k
    (xdiv r.2 ((r.1 * (r.1 - 1) : Int) : Rat), r.1, r.2)

def richClubBu (A : AMat Int n) : List (XRat × Int × Int) := richClub A (degreesUnd A)
def richClubBd (A : AMat Int n) : List (XRat × Int × Int) := richClub A (degTotal A)

/-- `CIJ.flat` -/
def flatEntries (A : AMat Int n) : List Int := (List.finRange n).flatMap fun i => (List.finRange n).map fun j => A.get i j

/-- `np.sort(x)[::-1]` -/
def sortDesc (l : List Int) : List Int := l.mergeSort fun a b => decide (b ≤ a)

/-- `rich_club_wu/wd` at level `k` (0-based): nodes with `deg >= k+1` are kept; `nan` when no node is dropped;
`Rw = (weight inside the club) / (sum of the Er largest weights of the whole network)`, `Er` = connections inside the club -/
def richLevelW (A : AMat Int n) (deg : Vector Int n) (wrank : List Int) (k : Nat) : XRat :=
  if fany fun i => decide (vget deg i < (k : Int) + 1) then
    let Wr : Int := fsum fun i => fsum fun j => if vget deg i ≥ (k : Int) + 1 ∧ vget deg j ≥ (k : Int) + 1 then A.get i j else 0
    let Er : Nat := fsum fun i => fsum fun j =>
      if vget deg i ≥ (k : Int) + 1 ∧ vget deg j ≥ (k : Int) + 1 ∧ A.get i j ≠ 0 then 1 else 0
    xdiv Wr (((wrank.take Er).sum : Int) : Rat)
  else .nan

def richClubW (A : AMat Int n) (deg : Vector Int n) : List XRat :=
  (List.range (fmax fun i => (vget deg i).toNat)).map (richLevelW A deg (sortDesc (flatEntries A)))

/-- `rich_club_wu`: `deg = sum(CIJ != 0, axis=0)` -/
def richClubWu (A : AMat Int n) : List XRat := richClubW A (degreesUnd A)
/-- `rich_club_wd`: `deg = sum(CIJ != 0, axis=0) + sum(CIJ.T != 0, axis=0)` -/
def richClubWd (A : AMat Int n) : List XRat := richClubW A (degTotal A)

/-- the three sums of `assortativity_*` over the listed edges: `(K, Σ x·y, Σ (x+y), Σ (x²+y²))` -/
def assortSums (edge : Fin n → Fin n → Bool) (x y : Vector Int n) : Int × Int × Int × Int :=
  (fsum fun i => fsum fun j => if edge i j then 1 else 0,
   fsum fun i => fsum fun j => if edge i j then (vget x i) * (vget y j) else 0,
   fsum fun i => fsum fun j => if edge i j then (vget x i) + (vget y j) else 0,
   fsum fun i => fsum fun j => if edge i j then (vget x i) * (vget x i) + (vget y j) * (vget y j) else 0)

/-- `r = (term1 - term2) / (term3 - term2)`; `K = 0` gives `nan` -/
def assortOf (s : Int × Int × Int × Int) : XRat :=
  let K : Rat := s.1
  if K = 0 then .nan else
  let t1 : Rat := (s.2.1 : Rat) / K
  let t2 : Rat := ((s.2.2.1 : Rat) / 2 / K) * ((s.2.2.1 : Rat) / 2 / K)
  let t3 : Rat := (s.2.2.2 : Rat) / 2 / K
  xdiv (t1 - t2) (t3 - t2)

/-- `assortativity_bin(CIJ, flag)`; flag 0 lists the edges of `np.triu(CIJ, 1) > 0` -/
def assortativityBin (A : AMat Int n) (flag : Nat) : Except MErr XRat :=
  let d := degreesDir A
  match flag with
  | 0 => let deg := degreesUnd A
         .ok (assortOf (assortSums (fun i j => i < j && A.get i j > 0) deg deg))
  | 1 => .ok (assortOf (assortSums (fun i j => A.get i j > 0) d.2.1 d.1))
  | 2 => .ok (assortOf (assortSums (fun i j => A.get i j > 0) d.1 d.2.1))
  | 3 => .ok (assortOf (assortSums (fun i j => A.get i j > 0) d.2.1 d.2.1))
  | 4 => .ok (assortOf (assortSums (fun i j => A.get i j > 0) d.1 d.1))
  | _ => .error .value

/-- `assortativity_wei(CIJ, 0)` -/
def assortativityWei0 (A : AMat Int n) : XRat :=
  let s := strengthsUnd A
  assortOf (assortSums (fun i j => i < j && A.get i j > 0) s s)

/-! ## driver -/

def showRat (q : Rat) : String := if q.den = 1 then toString q.num else s!"{q.num}/{q.den}"
def XRat.str : XRat → String
  | .fin q => showRat q | .pinf => "inf" | .ninf => "-inf" | .nan => "nan"

def showVec {α : Type} (f : α → String) (v : Vector α n) : String :=
  if n = 0 then "-" else ",".intercalate (v.toList.map f)
def showMatBy {α : Type} (f : α → String) (M : AMat α n) : String :=
  if n = 0 then "-" else ",".intercalate ((List.finRange n).flatMap fun i => (List.finRange n).map fun j => f (M.get i j))
def showList {α : Type} (f : α → String) (xs : List α) : String :=
  if xs.isEmpty then "-" else ",".intercalate (xs.map f)

def errLine (e : MErr) : String := s!"error={e.str}"

def step (line : String) : String :=
  let (op, kv) := parseLine line
  let res : Option String := do
    let n ← (← lookup kv "n").toNat?
    let A ← parseMat n (← lookup kv "R")
    let natArg (k : String) : Option Nat := do (← lookup kv k).toNat?
    let si := fun (x : Int) => toString x
    match op with
    | "strengths_und_sign" =>
      let r := strengthsUndSign A
      some s!"Spos={showVec si r.1} Sneg={showVec si r.2.1} vpos={r.2.2.1} vneg={r.2.2.2}"
    | "jdegree" =>
      let d := degreesDir A
      let sz := (fmax fun i => max (vget d.1 i).toNat (vget d.2.1 i).toNat) + 1
      let cells := (List.range sz).flatMap fun a => (List.range sz).map fun b => toString (jdegCell A (a : Nat) (b : Nat))
      let r := jdegSummary A
      some s!"J={",".intercalate cells} J_od={r.1} J_id={r.2.1} J_bl={r.2.2}"
    | "density_dir" => (match densityDir A with
      | .error e => some (errLine e) | .ok r => some s!"kden={showRat r.1} n={r.2.1} k={r.2.2}")
    | "density_und" => (match densityUnd A with
      | .error e => some (errLine e) | .ok r => some s!"kden={showRat r.1} n={r.2.1} k={r.2.2}")
    | "matching_ind" =>
      let r := matchingInd A
      some s!"Min={showMatBy showRat r.1} Mout={showMatBy showRat r.2.1} Mall={showMatBy showRat r.2.2}"
    | "edge_nei_overlap" => (match edgeNeiOverlap A with
      | .error e => some (errLine e) | .ok EC => some s!"EC={showMatBy XRat.str EC}")
    | "gtom" => do
      let s ← natArg "steps"
      some s!"gt={showMatBy XRat.str (gtom A s)}"
    | "flow_coef_bd" =>
      let r := flowCoef A
      some s!"fc={showVec XRat.str r.1} total_flo={showVec si r.2} FC={(flowFC A).str}"
    | "rich_club_bu" =>
      let r := richClubBu A
      some s!"R={showList (fun t => t.1.str) r} Nk={showList (fun t => si t.2.1) r} Ek={showList (fun t => si t.2.2) r}"
    | "rich_club_bd" =>
      let r := richClubBd A
      some s!"R={showList (fun t => t.1.str) r} Nk={showList (fun t => si t.2.1) r} Ek={showList (fun t => si t.2.2) r}"
    | "rich_club_wu" => some s!"Rw={showList XRat.str (richClubWu A)}"
    | "rich_club_wd" => some s!"Rw={showList XRat.str (richClubWd A)}"
    | "assortativity_bin" => do
      let f ← natArg "flag"
      match assortativityBin A f with
      | .error e => some (errLine e) | .ok r => some s!"r={r.str}"
    | "assortativity_wei" => some s!"r={(assortativityWei0 A).str}"
    | _ => none
  res.getD "error=protocol"

end Bct.Measures
