import BctVerif.Model.Dist
/-!
# Source-extracted `breadth` and `breadthdist`: IR, interpreter, decidable checks (T-gen, C03)

`translate/cores.py` reads `bct/algorithms/distance.py` with `ast` on every check run and writes every statement of `breadth`
(colour constants, the three work vectors, the queue loop with the neighbour scan, the `distance[v] == 0` quirk, the
white-vertex block, `Q = Q[1:]`, `color[u] = black`) and of `breadthdist` (row loop over `breadth`, `D[D == 0] = np.inf`,
`R = (D != np.inf)`) as data into `BctVerif/Gen/CoresBfs.lean`, with the obligations `bfsOk` / `bdistOk`.

All numbers are floats (`Ext`: a rational or `inf`), as in the source (`np.zeros`, `np.inf * np.ones`); the interpreter keeps
scalar floats, node indices, float vectors, lists of nodes and the argument matrix apart.  `Props/CoresBfs.lean` proves that
programs that pass compute exactly `Dist.breadth` / `Dist.breadthdist`.

Core Lean only.
-/
namespace Bct.CoreIR.Bfs
open Bct Bct.Dist

/-- a scalar float expression -/
inductive SEx
  /-- a float name (`white`, `gray`, `black`) -/
  | var (x : String)
  /-- a node name used as a number (`branch[v] = u`) -/
  | node (x : String)
  | lit (z : Int)
  | inf
  /-- `vec[idx]` for a node name `idx` -/
  | vecAt (vec idx : String)
  | add (a b : SEx)
  deriving DecidableEq, Repr

inductive AStmt
  /-- `vec[idx] = e` -/
  | setVec (vec idx : String) (e : SEx)
  /-- `q.append(x)` -/
  | append (q x : String)
  deriving DecidableEq, Repr

/-- statements of the `for v in ns` body: `if a == b: body` -/
inductive FStmt
  | ifEq (a b : SEx) (body : List AStmt)
  deriving DecidableEq, Repr

inductive PStmt
  /-- `x = len(m)` -/
  | len (x m : String)
  /-- `x = <integer literal>` -/
  | const (x : String) (z : Int)
  /-- `x = np.zeros((d,))` -/
  | zerosVec (x d : String)
  /-- `x = np.inf * np.ones((d,))` -/
  | infVec (x d : String)
  | setVec (vec idx : String) (e : SEx)
  /-- `q = [x]` -/
  | listOf (q x : String)
  deriving DecidableEq, Repr

inductive WStmt
  /-- `u = q[0]` -/
  | head (u q : String)
  /-- `ns, = np.where(m[u, :])` -/
  | whereRow (ns m u : String)
  /-- `for v in ns: body` -/
  | forIn (v ns : String) (body : List FStmt)
  /-- `q = q[1:]` -/
  | tail (q : String)
  | setVec (vec idx : String) (e : SEx)
  deriving DecidableEq, Repr

structure BfsIR where
  recognised : Bool
  origins : List (String × String)
  params : List String
  pre : List PStmt
  /-- `while <loopList>:` -/
  loopList : String
  body : List WStmt
  ret : List String
  deriving DecidableEq, Repr

variable {n : Nat}

structure Env (n : Nat) where
  sc : String → Option Ext
  node : String → Option (Fin n)
  vec : String → Option (Vector Ext n)
  list : String → Option (List (Fin n))
  mat : String → Option (AMat Rat n)
  dims : String → Bool

def eval (E : Env n) : SEx → Option Ext
  | .var x => E.sc x
  | .node x => (E.node x).map fun i => Ext.fin ((i.val : Nat) : Rat)
  | .lit z => some (.fin (z : Int))
  | .inf => some .inf
  | .vecAt v i => match E.vec v, E.node i with
    | some u, some k => some u[k]
    | _, _ => none
  | .add a b => match eval E a, eval E b with
    | some x, some y => some (x + y)
    | _, _ => none

def setVecE (E : Env n) (v i : String) (e : SEx) : Option (Env n) :=
  match E.vec v, E.node i, eval E e with
  | some u, some k, some x => some { E with vec := fun y => if y = v then some (u.set k x) else E.vec y }
  | _, _, _ => none

def aexec (E : Env n) : AStmt → Option (Env n)
  | .setVec v i e => setVecE E v i e
  | .append q x => match E.list q, E.node x with
    | some l, some k => some { E with list := fun y => if y = q then some (l ++ [k]) else E.list y }
    | _, _ => none

def aexecs : List AStmt → Env n → Option (Env n)
  | [], E => some E
  | s :: ss, E => match aexec E s with
    | some E' => aexecs ss E'
    | none => none

def fexec (E : Env n) : FStmt → Option (Env n)
  | .ifEq a b body => match eval E a, eval E b with
    | some x, some y => if x = y then aexecs body E else some E
    | _, _ => none

def fexecs : List FStmt → Env n → Option (Env n)
  | [], E => some E
  | s :: ss, E => match fexec E s with
    | some E' => fexecs ss E'
    | none => none

def forNodes (v : String) (body : List FStmt) : List (Fin n) → Env n → Option (Env n)
  | [], E => some E
  | k :: ks, E => match fexecs body { E with node := fun y => if y = v then some k else E.node y } with
    | some E' => forNodes v body ks E'
    | none => none

def pexec (E : Env n) : PStmt → Option (Env n)
  | .len x m => match E.mat m with
    | some _ => some { E with dims := fun y => if y = x then true else E.dims y }
    | none => none
  | .const x z => some { E with sc := fun y => if y = x then some (.fin (z : Int)) else E.sc y }
  | .zerosVec x d => if E.dims d then some { E with vec := fun y => if y = x then some (Vector.ofFn fun _ => .fin 0) else E.vec y } else none
  | .infVec x d => if E.dims d then some { E with vec := fun y => if y = x then some (Vector.ofFn fun _ => .inf) else E.vec y } else none
  | .setVec v i e => setVecE E v i e
  | .listOf q x => match E.node x with
    | some k => some { E with list := fun y => if y = q then some [k] else E.list y }
    | none => none

def pexecs : List PStmt → Env n → Option (Env n)
  | [], E => some E
  | s :: ss, E => match pexec E s with
    | some E' => pexecs ss E'
    | none => none

def wexec (E : Env n) : WStmt → Option (Env n)
  | .head u q => match E.list q with
    | some (k :: _) => some { E with node := fun y => if y = u then some k else E.node y }
    | _ => none
  | .whereRow ns m u => match E.mat m, E.node u with
    | some M, some k => some { E with list := fun y => if y = ns then some ((List.finRange n).filter fun w => M.get k w ≠ 0) else E.list y }
    | _, _ => none
  | .forIn v ns body => match E.list ns with
    -- the list being iterated must not be the one the body appends to
    | some l => if body.any (fun s => match s with | .ifEq _ _ b => b.any fun a => match a with | .append q _ => q == ns | _ => false)
        then none else forNodes v body l E
    | none => none
  | .tail q => match E.list q with
    | some (_ :: l) => some { E with list := fun y => if y = q then some l else E.list y }
    | _ => none
  | .setVec v i e => setVecE E v i e

def wexecs : List WStmt → Env n → Option (Env n)
  | [], E => some E
  | s :: ss, E => match wexec E s with
    | some E' => wexecs ss E'
    | none => none

/-- `while q: body` on fuel -/
def whileList (q : String) (body : List WStmt) : Nat → Env n → Option (Env n)
  | fuel, E =>
    match E.list q with
    | some [] => some E
    | some (_ :: _) =>
      (match fuel with
       | 0 => none
       | f + 1 => match wexecs body E with
         | some E' => whileList q body f E'
         | none => none)
    | none => none

/-- `breadth(CIJ, source)` → the returned vectors -/
def runBfs (ir : BfsIR) (fuel : Nat) (A : AMat Rat n) (src : Fin n) : Option (List (Vector Ext n)) :=
  match ir.params with
  | [pm, ps] =>
    let E0 : Env n := { sc := fun _ => none, node := fun y => if y = ps then some src else none, vec := fun _ => none,
                        list := fun _ => none, mat := fun y => if y = pm then some A else none, dims := fun _ => false }
    match pexecs ir.pre E0 with
    | some E1 => match whileList ir.loopList ir.body fuel E1 with
      | some E2 => ir.ret.mapM E2.vec
      | none => none
    | none => none
  | _ => none

def dU : SEx := .add (.vecAt "distance" "u") (.lit 1)

def refBfs : BfsIR :=
  { recognised := true, origins := [("len", "builtin"), ("np", "module numpy")],
    params := ["CIJ", "source"],
    pre := [ .len "n" "CIJ", .const "white" 0, .const "gray" 1, .const "black" 2,
             .zerosVec "color" "n", .infVec "distance" "n", .zerosVec "branch" "n",
             .setVec "color" "source" (.var "gray"), .setVec "distance" "source" (.lit 0), .setVec "branch" "source" (.lit (-1)),
             .listOf "Q" "source" ],
    loopList := "Q",
    body := [ .head "u" "Q", .whereRow "ns" "CIJ" "u",
              .forIn "v" "ns"
                [ .ifEq (.vecAt "distance" "v") (.lit 0) [.setVec "distance" "v" dU],
                  .ifEq (.vecAt "color" "v") (.var "white")
                    [.setVec "color" "v" (.var "gray"), .setVec "distance" "v" dU, .setVec "branch" "v" (.node "u"), .append "Q" "v"] ],
              .tail "Q", .setVec "color" "u" (.var "black") ],
    ret := ["distance", "branch"] }

/-- the decidable obligation generated for `breadth` -/
def bfsOk (ir : BfsIR) : Bool := ir == refBfs

/-! ### `breadthdist` -/

/-- `breadthdist(CIJ)` as extracted: `n = len(CIJ)`, `D = np.zeros((n, n))`, `for i in range(n): D[i, :], _ = breadth(CIJ, i)`,
`D[D == 0] = np.inf`, `R = (D != np.inf)`, `return R, D` — one field per name / literal -/
structure BdistIR where
  recognised : Bool
  origins : List (String × String)
  param : String
  dim : String
  dimOf : String
  dmat : String
  z1 : String
  z2 : String
  rowVar : String
  rowBound : String
  /-- `<rowMat>[<rowIdx>, :], _ = <callee>(<callArgs>)` -/
  rowMat : String
  rowIdx : String
  callee : String
  callArgs : List String
  /-- `<mMat>[<mCond> == <mLit>] = np.inf` -/
  mMat : String
  mCond : String
  mLit : Int
  /-- `<rmat> = (<rSrc> != np.inf)` -/
  rmat : String
  rSrc : String
  ret : List String
  deriving DecidableEq, Repr

/-- the routine with the callee as a parameter (`bf A i` = the first value `breadth(CIJ, i)` returns) -/
def runBdist (ir : BdistIR) (bf : Fin n → Option (Vector Ext n)) : Option (AMat Bool n × AMat Ext n) :=
  if ir.dimOf = ir.param ∧ ir.z1 = ir.dim ∧ ir.z2 = ir.dim ∧ ir.rowBound = ir.dim ∧ ir.rowMat = ir.dmat ∧ ir.rowIdx = ir.rowVar ∧
     ir.callArgs = [ir.param, ir.rowVar] ∧ ir.mMat = ir.dmat ∧ ir.mCond = ir.dmat ∧ ir.rSrc = ir.dmat ∧ ir.ret = [ir.rmat, ir.dmat] ∧
     ir.rmat ≠ ir.dmat then
    if h : ∀ i : Fin n, (bf i).isSome then
      let D0 : AMat Ext n := Vector.ofFn fun i => (bf i).get (h i)
      let D : AMat Ext n := AMat.ofFn fun i j => if D0.get i j = .fin (ir.mLit : Int) then .inf else D0.get i j
      some (AMat.ofFn fun i j => decide (D.get i j ≠ .inf), D)
    else none
  else none

def refBdist : BdistIR :=
  { recognised := true, origins := [("breadth", "def bct/algorithms/distance.py:breadth"), ("len", "builtin"), ("np", "module numpy"), ("range", "builtin")],
    param := "CIJ", dim := "n", dimOf := "CIJ", dmat := "D", z1 := "n", z2 := "n", rowVar := "i", rowBound := "n",
    rowMat := "D", rowIdx := "i", callee := "breadth", callArgs := ["CIJ", "i"],
    mMat := "D", mCond := "D", mLit := 0, rmat := "R", rSrc := "D", ret := ["R", "D"] }

def bdistOk (ir : BdistIR) : Bool := ir == refBdist

end Bct.CoreIR.Bfs
