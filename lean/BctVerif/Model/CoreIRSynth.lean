import BctVerif.Model.Synth
/-!
# Source-extracted `makeringlatticeCIJ`: IR, interpreter, decidable check (T-gen, C20)

`translate/cores.py` reads `bct/algorithms/reference.py` with `ast` on every check run and writes every statement of

    def makeringlatticeCIJ(n, k, seed=None):
        rng = get_rng(seed)
        CIJ = np.zeros((n, n))
        CIJ1 = np.ones((n, n))
        kk = 0
        count = 0
        seq = range(1, n)
        seq2 = range(n - 1, 0, -1)
        while kk < k:
            count += 1
            dCIJ = np.triu(CIJ1, seq[count - 1]) - np.triu(CIJ1, seq[count - 1] + 1)
            dCIJ2 = np.triu(CIJ1, seq2[count - 1]) - np.triu(CIJ1, seq2[count - 1] + 1)
            dCIJ = np.minimum(dCIJ + dCIJ.T + dCIJ2 + dCIJ2.T, 1)
            CIJ += dCIJ
            kk = int(np.sum(CIJ))
        overby = kk - k
        if overby:
            i, j = np.where(dCIJ)
            rp = rng.permutation(np.size(i))
            for ii in range(overby):
                CIJ[i[rp[ii]], j[rp[ii]]] = 0
        return CIJ

as a `RingIR` value (statements matched positionally, one field per name and literal) into `BctVerif/Gen/CoresSynth.lean`, with the
obligation `ringOk ir = true := by decide`.  The interpreter checks that the names refer to each other as they must, then runs the
statements on integer matrices: `np.triu(M, c)` keeps the cells with `j ≥ i + c`; `range(lo, hi)[t]` and `range(hi, lo, -1)[t]` raise
`IndexError` outside their length; `rng.permutation(m)` is a recorded draw (a permutation of `range(m)`, as in `Synth.ringLattice`);
`np.where` lists cells row by row.  `Props/CoresSynth.lean` proves that a program that passes computes `Synth.ringLattice`.

Core Lean only.
-/
namespace Bct.CoreIR.Synth
open Bct Bct.Synth

/-- `np.triu(<mat>, <seq>[<cnt> - <off>] + <plus>)` -/
structure Triu where
  mat : String
  seq : String
  cnt : String
  off : Nat
  plus : Nat
  deriving DecidableEq, Repr

structure RingIR where
  recognised : Bool
  origins : List (String × String)
  params : List String
  defaults : List (String × String)
  /-- `<rng> = <rngCallee>(<rngArg>)` -/
  rng : String
  rngCallee : String
  rngArg : String
  /-- `<cij> = np.zeros((<z1>, <z2>))`, `<ones> = np.ones((<o1>, <o2>))` -/
  cij : String
  z1 : String
  z2 : String
  ones : String
  o1 : String
  o2 : String
  /-- `<kk> = <kk0>`, `<count> = <count0>` -/
  kk : String
  kk0 : Nat
  count : String
  count0 : Nat
  /-- `<seq> = range(<seqLo>, <seqHi>)`, `<seq2> = range(<s2Hi> - <s2HiOff>, <s2Lo>, <s2Step>)` -/
  seq : String
  seqLo : Nat
  seqHi : String
  seq2 : String
  s2Hi : String
  s2HiOff : Nat
  s2Lo : Nat
  s2Step : Int
  /-- `while <wL> < <wR>:` -/
  wL : String
  wR : String
  /-- `<incVar> += <incBy>` -/
  incVar : String
  incBy : Nat
  /-- `<d1> = <d1a> - <d1b>`, `<d2> = <d2a> - <d2b>` -/
  d1 : String
  d1a : Triu
  d1b : Triu
  d2 : String
  d2a : Triu
  d2b : Triu
  /-- `<dT> = np.minimum(<m1> + <m2>.T + <m3> + <m4>.T, <clip>)` -/
  dT : String
  m1 : String
  m2 : String
  m3 : String
  m4 : String
  clip : Nat
  /-- `<augL> += <augR>`, `<kkT> = int(np.sum(<kkOf>))` -/
  augL : String
  augR : String
  kkT : String
  kkOf : String
  /-- `<over> = <overL> - <overR>`, `if <overTest>:` -/
  over : String
  overL : String
  overR : String
  overTest : String
  /-- `<wi>, <wj> = np.where(<whereOf>)`, `<rp> = <rpRng>.permutation(np.size(<rpOf>))` -/
  wi : String
  wj : String
  whereOf : String
  rp : String
  rpRng : String
  rpOf : String
  /-- `for <ii> in range(<iiN>): <setMat>[<si>[<srp1>[<sii1>]], <sj>[<srp2>[<sii2>]]] = <setVal>` -/
  ii : String
  iiN : String
  setMat : String
  si : String
  srp1 : String
  sii1 : String
  sj : String
  srp2 : String
  sii2 : String
  setVal : Int
  ret : String
  deriving DecidableEq, Repr

/-- the names of the source refer to each other as they must, and the literals are the ones the interpreter implements -/
def RingIR.coherent (ir : RingIR) : Bool :=
  match ir.params with
  | [pn, pk, ps] =>
    ir.rngArg == ps && ir.z1 == pn && ir.z2 == pn && ir.o1 == pn && ir.o2 == pn && ir.seqHi == pn && ir.s2Hi == pn &&
    ir.s2Step == -1 && ir.wL == ir.kk && ir.wR == pk && ir.incVar == ir.count &&
    ir.d1a == { mat := ir.ones, seq := ir.seq, cnt := ir.count, off := ir.d1a.off, plus := ir.d1a.plus } &&
    ir.d1b == { mat := ir.ones, seq := ir.seq, cnt := ir.count, off := ir.d1b.off, plus := ir.d1b.plus } &&
    ir.d2a == { mat := ir.ones, seq := ir.seq2, cnt := ir.count, off := ir.d2a.off, plus := ir.d2a.plus } &&
    ir.d2b == { mat := ir.ones, seq := ir.seq2, cnt := ir.count, off := ir.d2b.off, plus := ir.d2b.plus } &&
    ir.dT == ir.d1 && ir.m1 == ir.d1 && ir.m2 == ir.d1 && ir.m3 == ir.d2 && ir.m4 == ir.d2 &&
    ir.augL == ir.cij && ir.augR == ir.d1 && ir.kkT == ir.kk && ir.kkOf == ir.cij &&
    ir.overL == ir.kk && ir.overR == pk && ir.overTest == ir.over && ir.whereOf == ir.d1 && ir.rpRng == ir.rng && ir.rpOf == ir.wi &&
    ir.iiN == ir.over && ir.setMat == ir.cij && ir.si == ir.wi && ir.sj == ir.wj && ir.srp1 == ir.rp && ir.srp2 == ir.rp &&
    ir.sii1 == ir.ii && ir.sii2 == ir.ii && ir.ret == ir.cij &&
    decide ([pn, pk, ps, ir.rng, ir.cij, ir.ones, ir.kk, ir.count, ir.seq, ir.seq2, ir.d1, ir.d2, ir.over, ir.wi, ir.wj, ir.rp, ir.ii].Nodup)
  | _ => false

variable {n : Nat}

/-- `np.triu(M, c)` -/
def triu (M : AMat Int n) (c : Int) : AMat Int n := AMat.ofFn fun i j => if (i.val : Int) + c ≤ (j.val : Int) then M.get i j else 0

/-- `range(lo, hi)[t]` / `range(hi, lo, -1)[t]` for `t ≥ 0`; `none` = IndexError -/
def rangeUp (lo hi : Int) (t : Int) : Option Int := if 0 ≤ t ∧ lo + t < hi then some (lo + t) else none
def rangeDown (hi lo : Int) (t : Int) : Option Int := if 0 ≤ t ∧ lo < hi - t then some (hi - t) else none

structure St (n : Nat) where
  CIJ : AMat Int n
  d : AMat Int n
  count : Int
  kk : Int

/-- one `np.triu(…)` of the loop body for the current `count`; `up` tells which of the two ranges the `seq` field names -/
def evalTriu (ir : RingIR) (t : Triu) (ones : AMat Int n) (count : Int) : Option (AMat Int n) :=
  let ix := if t.seq = ir.seq then rangeUp ir.seqLo (n : Int) (count - t.off) else rangeDown ((n : Int) - ir.s2HiOff) ir.s2Lo (count - t.off)
  ix.map fun c => triu ones (c + t.plus)

/-- the body of the `while` loop -/
def step (ir : RingIR) (st : St n) : Option (St n) :=
  let ones : AMat Int n := AMat.ofFn fun _ _ => 1
  let count := st.count + ir.incBy
  match evalTriu ir ir.d1a ones count, evalTriu ir ir.d1b ones count, evalTriu ir ir.d2a ones count, evalTriu ir ir.d2b ones count with
  | some a, some b, some c, some e =>
    let x : AMat Int n := AMat.ofFn fun i j => a.get i j - b.get i j
    let y : AMat Int n := AMat.ofFn fun i j => c.get i j - e.get i j
    let d : AMat Int n := AMat.ofFn fun i j => min (x.get i j + x.get j i + y.get i j + y.get j i) (ir.clip : Int)
    let C : AMat Int n := AMat.ofFn fun i j => st.CIJ.get i j + d.get i j
    some { CIJ := C, d := d, count := count, kk := matSum C }
  | _, _, _, _ => none

/-- `while kk < k:` on fuel (`none`: IndexError in the body, or the fuel ran out with the test still true) -/
def loop (ir : RingIR) (k : Nat) : Nat → St n → Option (St n)
  | 0, st => if st.kk < k then none else some st
  | fuel + 1, st => if st.kk < k then (match step ir st with | some st' => loop ir k fuel st' | none => none) else some st

/-- `for ii in range(overby): CIJ[i[rp[ii]], j[rp[ii]]] = v` -/
def removeI (v : Int) (C : AMat Int n) (cells : List (Cell n)) (rp : List Nat) : Nat → Nat → Option (AMat Int n)
  | 0, _ => some C
  | ob + 1, ii =>
    match rp[ii]? with
    | none => none
    | some r => match cells[r]? with
      | none => none
      | some c => removeI v (C.set c.1 c.2 v) cells rp ob (ii + 1)

/-- the routine on `(n, k)` with the recorded draws `ds`; errors as the model reports them -/
def runRing (ir : RingIR) (fuel : Nat) (k : Nat) (ds : List Nat) : Except Err (AMat Int n × List Nat) :=
  if ir.coherent then
    match loop ir k fuel { CIJ := AMat.ofFn fun _ _ => 0, d := AMat.ofFn fun _ _ => 0, count := ir.count0, kk := ir.kk0 } with
    | none => .error .index
    | some st =>
      let overby : Int := st.kk - k
      if overby = 0 then .ok (st.CIJ, ds)
      else
        let cells := nonzeroCells st.d
        let m := cells.length
        if ds.length < m then .error .outOfDraws
        else if !isPermOfRange (ds.take m) m then .error .badDraw
        else match removeI ir.setVal st.CIJ cells (ds.take m) overby.toNat 0 with
          | none => .error .index
          | some C => .ok (C, ds.drop m)
  else .error .protocol

def refRing : RingIR :=
  { recognised := true,
    origins := [("get_rng", "def bct/utils/miscellaneous_utilities.py:get_rng"), ("int", "builtin"), ("np", "module numpy"), ("range", "builtin")],
    params := ["n", "k", "seed"], defaults := [("seed", "None")],
    rng := "rng", rngCallee := "get_rng", rngArg := "seed",
    cij := "CIJ", z1 := "n", z2 := "n", ones := "CIJ1", o1 := "n", o2 := "n", kk := "kk", kk0 := 0, count := "count", count0 := 0,
    seq := "seq", seqLo := 1, seqHi := "n", seq2 := "seq2", s2Hi := "n", s2HiOff := 1, s2Lo := 0, s2Step := -1,
    wL := "kk", wR := "k", incVar := "count", incBy := 1,
    d1 := "dCIJ", d1a := { mat := "CIJ1", seq := "seq", cnt := "count", off := 1, plus := 0 },
    d1b := { mat := "CIJ1", seq := "seq", cnt := "count", off := 1, plus := 1 },
    d2 := "dCIJ2", d2a := { mat := "CIJ1", seq := "seq2", cnt := "count", off := 1, plus := 0 },
    d2b := { mat := "CIJ1", seq := "seq2", cnt := "count", off := 1, plus := 1 },
    dT := "dCIJ", m1 := "dCIJ", m2 := "dCIJ", m3 := "dCIJ2", m4 := "dCIJ2", clip := 1,
    augL := "CIJ", augR := "dCIJ", kkT := "kk", kkOf := "CIJ",
    over := "overby", overL := "kk", overR := "k", overTest := "overby",
    wi := "i", wj := "j", whereOf := "dCIJ", rp := "rp", rpRng := "rng", rpOf := "i",
    ii := "ii", iiN := "overby", setMat := "CIJ", si := "i", srp1 := "rp", sii1 := "ii", sj := "j", srp2 := "rp", sii2 := "ii", setVal := 0,
    ret := "CIJ" }

/-- the decidable obligation generated for `makeringlatticeCIJ` -/
def ringOk (ir : RingIR) : Bool := ir == refRing

end Bct.CoreIR.Synth
