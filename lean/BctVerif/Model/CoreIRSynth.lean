import BctVerif.Model.Synth
/-!
# Source-extracted `makeringlatticeCIJ`: IR, interpreter, decidable check (T-gen, C20)

`translate/cores.py` reads `bct/algorithms/reference.py` with `ast` on every check run and writes every statement of

    def makeringlatticeCIJ(n, k, seed=None):
        rng = get_rng(seed)
        CIJ = np.zeros((n, n))
        CIJ1 = np.ones((n, n))
        kk = 0
        count = 0
        seq = range(1, n)
        seq2 = range(n - 1, 0, -1)
        while kk < k:
            count += 1
            dCIJ = np.triu(CIJ1, seq[count - 1]) - np.triu(CIJ1, seq[count - 1] + 1)
            dCIJ2 = np.triu(CIJ1, seq2[count - 1]) - np.triu(CIJ1, seq2[count - 1] + 1)
            dCIJ = np.minimum(dCIJ + dCIJ.T + dCIJ2 + dCIJ2.T, 1)
            CIJ += dCIJ
            kk = int(np.sum(CIJ))
        overby = kk - k
        if overby:
            i, j = np.where(dCIJ)
            rp = rng.permutation(np.size(i))
            for ii in range(overby):
                CIJ[i[rp[ii]], j[rp[ii]]] = 0
        return CIJ

as a `RingIR` value (statements matched positionally, one field per name and literal) into `BctVerif/Gen/CoresSynth.lean`, with the
obligation `ringOk ir = true := by decide`.  The interpreter checks that the names refer to each other as they must, then runs the
statements on integer matrices: `np.triu(M, c)` keeps the cells with `j ≥ i + c`; `range(lo, hi)[t]` and `range(hi, lo, -1)[t]` raise
`IndexError` outside their length; `rng.permutation(m)` is a recorded draw (a permutation of `range(m)`, as in `Synth.ringLattice`);
`np.where` lists cells row by row.  `Props/CoresSynth.lean` proves that a program that passes computes `Synth.ringLattice`.

Core Lean only.
-/
namespace Bct.CoreIR.Synth
open Bct Bct.Synth

/-- `np.triu(<mat>, <seq>[<cnt> - <off>] + <plus>)` -/
structure Triu where
  mat : String
  seq : String
  cnt : String
  off : Nat
  plus : Nat
  deriving DecidableEq, Repr

structure RingIR where
  recognised : Bool
  origins : List (String × String)
  params : List String
  defaults : List (String × String)
  /-- `<rng> = <rngCallee>(<rngArg>)` -/
  rng : String
  rngCallee : String
  rngArg : String
  /-- `<cij> = np.zeros((<z1>, <z2>))`, `<ones> = np.ones((<o1>, <o2>))` -/
  cij : String
  z1 : String
  z2 : String
  ones : String
  o1 : String
  o2 : String
  /-- `<kk> = <kk0>`, `<count> = <count0>` -/
  kk : String
  kk0 : Nat
  count : String
  count0 : Nat
  /-- `<seq> = range(<seqLo>, <seqHi>)`, `<seq2> = range(<s2Hi> - <s2HiOff>, <s2Lo>, <s2Step>)` -/
  seq : String
  seqLo : Nat
  seqHi : String
  seq2 : String
  s2Hi : String
  s2HiOff : Nat
  s2Lo : Nat
  s2Step : Int
  /-- `while <wL> < <wR>:` -/
  wL : String
  wR : String
  /-- `<incVar> += <incBy>` -/
  incVar : String
  incBy : Nat
  /-- `<d1> = <d1a> - <d1b>`, `<d2> = <d2a> - <d2b>` -/
  d1 : String
  d1a : Triu
  d1b : Triu
  d2 : String
  d2a : Triu
  d2b : Triu
  /-- `<dT> = np.minimum(<m1> + <m2>.T + <m3> + <m4>.T, <clip>)` -/
  dT : String
  m1 : String
  m2 : String
  m3 : String
  m4 : String
  clip : Nat
  /-- `<augL> += <augR>`, `<kkT> = int(np.sum(<kkOf>))` -/
  augL : String
  augR : String
  kkT : String
  kkOf : String
  /-- `<over> = <overL> - <overR>`, `if <overTest>:` -/
  over : String
  overL : String
  overR : String
  overTest : String
  /-- `<wi>, <wj> = np.where(<whereOf>)`, `<rp> = <rpRng>.permutation(np.size(<rpOf>))` -/
  wi : String
  wj : String
  whereOf : String
  rp : String
  rpRng : String
  rpOf : String
  /-- `for <ii> in range(<iiN>): <setMat>[<si>[<srp1>[<sii1>]], <sj>[<srp2>[<sii2>]]] = <setVal>` -/
  ii : String
  iiN : String
  setMat : String
  si : String
  srp1 : String
  sii1 : String
  sj : String
  srp2 : String
  sii2 : String
  setVal : Int
  ret : String
  deriving DecidableEq, Repr

/-- the names of the source refer to each other as they must, and the literals are the ones the interpreter implements -/
def RingIR.coherent (ir : RingIR) : Bool :=
  match ir.params with
  | [pn, pk, ps] =>
    ir.rngArg == ps && ir.z1 == pn && ir.z2 == pn && ir.o1 == pn && ir.o2 == pn && ir.seqHi == pn && ir.s2Hi == pn &&
    ir.s2Step == -1 && ir.wL == ir.kk && ir.wR == pk && ir.incVar == ir.count &&
    ir.d1a == { mat := ir.ones, seq := ir.seq, cnt := ir.count, off := ir.d1a.off, plus := ir.d1a.plus } &&
    ir.d1b == { mat := ir.ones, seq := ir.seq, cnt := ir.count, off := ir.d1b.off, plus := ir.d1b.plus } &&
    ir.d2a == { mat := ir.ones, seq := ir.seq2, cnt := ir.count, off := ir.d2a.off, plus := ir.d2a.plus } &&
    ir.d2b == { mat := ir.ones, seq := ir.seq2, cnt := ir.count, off := ir.d2b.off, plus := ir.d2b.plus } &&
    ir.dT == ir.d1 && ir.m1 == ir.d1 && ir.m2 == ir.d1 && ir.m3 == ir.d2 && ir.m4 == ir.d2 &&
    ir.augL == ir.cij && ir.augR == ir.d1 && ir.kkT == ir.kk && ir.kkOf == ir.cij &&
    ir.overL == ir.kk && ir.overR == pk && ir.overTest == ir.over && ir.whereOf == ir.d1 && ir.rpRng == ir.rng && ir.rpOf == ir.wi &&
    ir.iiN == ir.over && ir.setMat == ir.cij && ir.si == ir.wi && ir.sj == ir.wj && ir.srp1 == ir.rp && ir.srp2 == ir.rp &&
    ir.sii1 == ir.ii && ir.sii2 == ir.ii && ir.ret == ir.cij &&
    decide ([pn, pk, ps, ir.rng, ir.cij, ir.ones, ir.kk, ir.count, ir.seq, ir.seq2, ir.d1, ir.d2, ir.over, ir.wi, ir.wj, ir.rp, ir.ii].Nodup)
  | _ => false

variable {n : Nat}

/-- `np.triu(M, c)` -/
def triu (M : AMat Int n) (c : Int) : AMat Int n := AMat.ofFn fun i j => if (i.val : Int) + c ≤ (j.val : Int) then M.get i j else 0

/-- `range(lo, hi)[t]` / `range(hi, lo, -1)[t]` for `t ≥ 0`; `none` = IndexError -/
def rangeUp (lo hi : Int) (t : Int) : Option Int := if 0 ≤ t ∧ lo + t < hi then some (lo + t) else none
def rangeDown (hi lo : Int) (t : Int) : Option Int := if 0 ≤ t ∧ lo < hi - t then some (hi - t) else none

structure St (n : Nat) where
  CIJ : AMat Int n
  d : AMat Int n
  count : Int
  kk : Int

/-- one `np.triu(…)` of the loop body for the current `count`; `up` tells which of the two ranges the `seq` field names -/
def evalTriu (ir : RingIR) (t : Triu) (ones : AMat Int n) (count : Int) : Option (AMat Int n) :=
  let ix := if t.seq = ir.seq then rangeUp ir.seqLo (n : Int) (count - t.off) else rangeDown ((n : Int) - ir.s2HiOff) ir.s2Lo (count - t.off)
  ix.map fun c => triu ones (c + t.plus)

/-- the body of the `while` loop -/
def step (ir : RingIR) (st : St n) : Option (St n) :=
  let ones : AMat Int n := AMat.ofFn fun _ _ => 1
  let count := st.count + ir.incBy
  match evalTriu ir ir.d1a ones count, evalTriu ir ir.d1b ones count, evalTriu ir ir.d2a ones count, evalTriu ir ir.d2b ones count with
  | some a, some b, some c, some e =>
    let x : AMat Int n := AMat.ofFn fun i j => a.get i j - b.get i j
    let y : AMat Int n := AMat.ofFn fun i j => c.get i j - e.get i j
    let d : AMat Int n := AMat.ofFn fun i j => min (x.get i j + x.get j i + y.get i j + y.get j i) (ir.clip : Int)
    let C : AMat Int n := AMat.ofFn fun i j => st.CIJ.get i j + d.get i j
    some { CIJ := C, d := d, count := count, kk := matSum C }
  | _, _, _, _ => none

/-- `while kk < k:` on fuel (`none`: IndexError in the body, or the fuel ran out with the test still true) -/
def loop (ir : RingIR) (k : Nat) : Nat → St n → Option (St n)
  | 0, st => if st.kk < k then none else some st
  | fuel + 1, st => if st.kk < k then (match step ir st with | some st' => loop ir k fuel st' | none => none) else some st

/-- `for ii in range(overby): CIJ[i[rp[ii]], j[rp[ii]]] = v` -/
def removeI (v : Int) (C : AMat Int n) (cells : List (Cell n)) (rp : List Nat) : Nat → Nat → Option (AMat Int n)
  | 0, _ => some C
  | ob + 1, ii =>
    match rp[ii]? with
    | none => none
    | some r => match cells[r]? with
      | none => none
      | some c => removeI v (C.set c.1 c.2 v) cells rp ob (ii + 1)

/-- the routine on `(n, k)` with the recorded draws `ds`; errors as the model reports them -/
def runRing (ir : RingIR) (fuel : Nat) (k : Nat) (ds : List Nat) : Except Err (AMat Int n × List Nat) :=
  if ir.coherent then
    match loop ir k fuel { CIJ := AMat.ofFn fun _ _ => 0, d := AMat.ofFn fun _ _ => 0, count := ir.count0, kk := ir.kk0 } with
    | none => .error .index
    | some st =>
      let overby : Int := st.kk - k
      if overby = 0 then .ok (st.CIJ, ds)
      else
        let cells := nonzeroCells st.d
        let m := cells.length
        if ds.length < m then .error .outOfDraws
        else if !isPermOfRange (ds.take m) m then .error .badDraw
        else match removeI ir.setVal st.CIJ cells (ds.take m) overby.toNat 0 with
          | none => .error .index
          | some C => .ok (C, ds.drop m)
  else .error .protocol

def refRing : RingIR :=
  { recognised := true,
    origins := [("get_rng", "def bct/utils/miscellaneous_utilities.py:get_rng"), ("int", "builtin"), ("np", "module numpy"), ("range", "builtin")],
    params := ["n", "k", "seed"], defaults := [("seed", "None")],
    rng := "rng", rngCallee := "get_rng", rngArg := "seed",
    cij := "CIJ", z1 := "n", z2 := "n", ones := "CIJ1", o1 := "n", o2 := "n", kk := "kk", kk0 := 0, count := "count", count0 := 0,
    seq := "seq", seqLo := 1, seqHi := "n", seq2 := "seq2", s2Hi := "n", s2HiOff := 1, s2Lo := 0, s2Step := -1,
    wL := "kk", wR := "k", incVar := "count", incBy := 1,
    d1 := "dCIJ", d1a := { mat := "CIJ1", seq := "seq", cnt := "count", off := 1, plus := 0 },
    d1b := { mat := "CIJ1", seq := "seq", cnt := "count", off := 1, plus := 1 },
    d2 := "dCIJ2", d2a := { mat := "CIJ1", seq := "seq2", cnt := "count", off := 1, plus := 0 },
    d2b := { mat := "CIJ1", seq := "seq2", cnt := "count", off := 1, plus := 1 },
    dT := "dCIJ", m1 := "dCIJ", m2 := "dCIJ", m3 := "dCIJ2", m4 := "dCIJ2", clip := 1,
    augL := "CIJ", augR := "dCIJ", kkT := "kk", kkOf := "CIJ",
    over := "overby", overL := "kk", overR := "k", overTest := "overby",
    wi := "i", wj := "j", whereOf := "dCIJ", rp := "rp", rpRng := "rng", rpOf := "i",
    ii := "ii", iiN := "overby", setMat := "CIJ", si := "i", srp1 := "rp", sii1 := "ii", sj := "j", srp2 := "rp", sii2 := "ii", setVal := 0,
    ret := "CIJ" }

/-- the decidable obligation generated for `makeringlatticeCIJ` -/
def ringOk (ir : RingIR) : Bool := ir == refRing

/-! # `makerandCIJdegreesfixed`

    def makerandCIJdegreesfixed(inv, outv, seed=None):
        rng = get_rng(seed)
        n = len(inv)
        k = np.sum(inv)
        in_inv = np.zeros((k,), dtype=int)
        out_inv = np.zeros((k,), dtype=int)
        i_in = 0
        i_out = 0
        for i in range(n):
            in_inv[i_in:i_in + inv[i]] = i
            out_inv[i_out:i_out + outv[i]] = i
            i_in += inv[i]
            i_out += outv[i]
        CIJ = np.eye(n)
        edges = np.array((out_inv, in_inv[rng.permutation(k)]))
        for i in range(k):
            if CIJ[edges[0, i], edges[1, i]]:
                tried = set()
                while True:
                    if len(tried) == k:
                        raise BCTParamError(…)
                    switch = rng.randint(k)
                    while switch in tried:
                        switch = rng.randint(k)
                    if not (CIJ[edges[0, i], edges[1, switch]] or CIJ[edges[0, switch], edges[1, i]]):
                        CIJ[edges[0, i], edges[1, switch]] = 1
                        if switch < i:
                            CIJ[edges[0, switch], edges[1, switch]] = 0
                            CIJ[edges[0, switch], edges[1, i]] = 1
                        t = edges[1, i]
                        edges[1, i] = edges[1, switch]
                        edges[1, switch] = t
                        break
                    tried.add(switch)
            else:
                CIJ[edges[0, i], edges[1, i]] = 1
        CIJ -= np.eye(n)
        return CIJ

The statements are matched positionally (the nesting is the shape of the IR); every name and literal is a field of `DfIR`; the stores
into `CIJ` and `edges` are small statement lists (`EStmt`).  Slices are clipped at the length of the array, as NumPy does; the draws of
`rng.permutation` and `rng.randint` are recorded values (as in `Synth.degreesFixed`). -/

/-- `<edges>[<row>, <idx>]` -/
structure ERef where
  arr : String
  row : Nat
  idx : String
  deriving DecidableEq, Repr

/-- `<mat>[<r>, <c>]` with both indices read from the edge array -/
structure Cell where
  mat : String
  r : ERef
  c : ERef
  deriving DecidableEq, Repr

inductive EStmt
  /-- `<cell> = <v>` -/
  | setCell (c : Cell) (v : Int)
  /-- `<t> = <e>` -/
  | load (t : String) (e : ERef)
  /-- `<dst> = <src>` -/
  | copyE (dst src : ERef)
  /-- `<dst> = <t>` -/
  | store (dst : ERef) (t : String)
  deriving DecidableEq, Repr

/-- `<arr>[<lo>:<lo2> + <vec>[<idx>]] = <val>` -/
structure SliceSet where
  arr : String
  lo : String
  lo2 : String
  vec : String
  idx : String
  val : String
  deriving DecidableEq, Repr

structure DfIR where
  recognised : Bool
  origins : List (String × String)
  params : List String
  defaults : List (String × String)
  rng : String
  rngCallee : String
  rngArg : String
  /-- `<dim> = len(<dimOf>)`, `<tot> = np.sum(<totOf>)` -/
  dim : String
  dimOf : String
  tot : String
  totOf : String
  /-- `<inArr> = np.zeros((<inLen>,), dtype=<inDtype>)`, the same for `<outArr>`; `<iIn> = <iIn0>`, `<iOut> = <iOut0>` -/
  inArr : String
  inLen : String
  inDtype : String
  outArr : String
  outLen : String
  outDtype : String
  iIn : String
  iIn0 : Nat
  iOut : String
  iOut0 : Nat
  /-- `for <fVar> in range(<fN>):` the two slice stores and `<a1Var> += <a1Vec>[<a1Idx>]`, `<a2Var> += <a2Vec>[<a2Idx>]` -/
  fVar : String
  fN : String
  f1 : SliceSet
  f2 : SliceSet
  a1Var : String
  a1Vec : String
  a1Idx : String
  a2Var : String
  a2Vec : String
  a2Idx : String
  /-- `<cij> = np.eye(<eyeN>)`, `<edges> = np.array((<edge0>, <edge1>[<permRng>.permutation(<permN>)]))` -/
  cij : String
  eyeN : String
  edges : String
  edge0 : String
  edge1 : String
  permRng : String
  permN : String
  /-- `for <mVar> in range(<mN>):`, `if <occupied>:` -/
  mVar : String
  mN : String
  occupied : Cell
  /-- `<tried> = set()`, `if len(<lenOf>) == <lenEq>: raise <exc>(…)` -/
  tried : String
  lenOf : String
  lenEq : String
  exc : String
  /-- `<sw> = <swRng>.randint(<swN>)`, `while <wIn> in <wSet>: <sw2> = <sw2Rng>.randint(<sw2N>)` -/
  sw : String
  swRng : String
  swN : String
  wIn : String
  wSet : String
  sw2 : String
  sw2Rng : String
  sw2N : String
  /-- `if not (<free1> or <free2>):` <accept>; `if <ltL> < <ltR>:` <ltBody>; <swap>; `break` -/
  free1 : Cell
  free2 : Cell
  accept : List EStmt
  ltL : String
  ltR : String
  ltBody : List EStmt
  swap : List EStmt
  /-- `<addSet>.add(<addVal>)`; `else:` <elseStores> -/
  addSet : String
  addVal : String
  elseStores : List EStmt
  /-- `<subL> -= np.eye(<subEyeN>)`, `return <ret>` -/
  subL : String
  subEyeN : String
  ret : String
  deriving DecidableEq, Repr

/-- the names of the source refer to each other as they must -/
def DfIR.coherent (ir : DfIR) : Bool :=
  match ir.params with
  | [pIn, pOut, pSeed] =>
    ir.rngArg == pSeed && ir.dimOf == pIn && ir.totOf == pIn && ir.inLen == ir.tot && ir.outLen == ir.tot &&
    ir.inDtype == "int" && ir.outDtype == "int" && ir.fN == ir.dim &&
    ir.f1 == { arr := ir.inArr, lo := ir.iIn, lo2 := ir.iIn, vec := pIn, idx := ir.fVar, val := ir.fVar } &&
    ir.f2 == { arr := ir.outArr, lo := ir.iOut, lo2 := ir.iOut, vec := pOut, idx := ir.fVar, val := ir.fVar } &&
    ir.a1Var == ir.iIn && ir.a1Vec == pIn && ir.a1Idx == ir.fVar && ir.a2Var == ir.iOut && ir.a2Vec == pOut && ir.a2Idx == ir.fVar &&
    ir.eyeN == ir.dim && ir.edge0 == ir.outArr && ir.edge1 == ir.inArr && ir.permRng == ir.rng && ir.permN == ir.tot &&
    ir.mN == ir.tot && ir.lenOf == ir.tried && ir.lenEq == ir.tot && ir.swRng == ir.rng && ir.swN == ir.tot && ir.wIn == ir.sw &&
    ir.wSet == ir.tried && ir.sw2 == ir.sw && ir.sw2Rng == ir.rng && ir.sw2N == ir.tot && ir.ltL == ir.sw && ir.ltR == ir.mVar &&
    ir.addSet == ir.tried && ir.addVal == ir.sw && ir.subL == ir.cij && ir.subEyeN == ir.dim && ir.ret == ir.cij &&
    decide ([pIn, pOut, pSeed, ir.rng, ir.dim, ir.tot, ir.inArr, ir.outArr, ir.iIn, ir.iOut, ir.fVar].Nodup) &&
    decide ([pIn, pOut, pSeed, ir.rng, ir.dim, ir.tot, ir.inArr, ir.outArr, ir.iIn, ir.iOut, ir.cij, ir.edges, ir.mVar, ir.tried, ir.sw].Nodup)
  | _ => false

variable {k : Nat}

/-- `a[lo:hi] = v` on an array held as a list: the slice is clipped at the length -/
def sliceSet {α : Type} (l : List α) (lo hi : Nat) (v : α) : List α :=
  l.mapIdx fun p x => if lo ≤ p ∧ p < hi then v else x

/-- the state of the main loop: the matrix, the two rows of `edges`, the temporary -/
structure ESt (n k : Nat) where
  C : AMat Int n
  e0 : Vector (Fin n) k
  e1 : Vector (Fin n) k
  t : Option (String × Fin n)

/-- the index a name denotes inside the main loop: the loop variable or the drawn `switch` -/
def idxOf (ir : DfIR) (i s : Fin k) (x : String) : Option (Fin k) :=
  if x = ir.mVar then some i else if x = ir.sw then some s else none

def readE (ir : DfIR) (st : ESt n k) (i s : Fin k) (e : ERef) : Option (Fin n) :=
  if e.arr = ir.edges then
    match idxOf ir i s e.idx with
    | some p => if e.row = 0 then some st.e0[p] else if e.row = 1 then some st.e1[p] else none
    | none => none
  else none

def readCell (ir : DfIR) (st : ESt n k) (i s : Fin k) (c : Cell) : Option Int :=
  if c.mat = ir.cij then
    match readE ir st i s c.r, readE ir st i s c.c with
    | some a, some b => some (st.C.get a b)
    | _, _ => none
  else none

def writeE (ir : DfIR) (st : ESt n k) (i s : Fin k) (e : ERef) (v : Fin n) : Option (ESt n k) :=
  if e.arr = ir.edges then
    match idxOf ir i s e.idx with
    | some p => if e.row = 0 then some { st with e0 := st.e0.set p v } else if e.row = 1 then some { st with e1 := st.e1.set p v } else none
    | none => none
  else none

def execE (ir : DfIR) (i s : Fin k) (st : ESt n k) : EStmt → Option (ESt n k)
  | .setCell c v =>
    if c.mat = ir.cij then
      match readE ir st i s c.r, readE ir st i s c.c with
      | some a, some b => some { st with C := st.C.set a b v }
      | _, _ => none
    else none
  | .load t e => if t = ir.sw ∨ t = ir.mVar then none else (readE ir st i s e).map fun v => { st with t := some (t, v) }
  | .copyE dst src => match readE ir st i s src with
    | some v => writeE ir st i s dst v
    | none => none
  | .store dst t => match st.t with
    | some (t', v) => if t' = t then writeE ir st i s dst v else none
    | none => none

def execEs (ir : DfIR) (i s : Fin k) : List EStmt → ESt n k → Option (ESt n k)
  | [], st => some st
  | x :: xs, st => match execE ir i s st x with
    | some st' => execEs ir i s xs st'
    | none => none

/-- `switch = rng.randint(k); while switch in tried: switch = rng.randint(k)` on the recorded draws -/
def drawSw (k : Nat) (tried : List Nat) : List Nat → Except Err (Fin k × List Nat)
  | [] => .error .outOfDraws
  | x :: ds => if h : x < k then (if tried.contains x then drawSw k tried ds else .ok (⟨x, h⟩, ds)) else .error .badDraw

/-- the `while True:` loop for edge `i` -/
def repairI (ir : DfIR) (st : ESt n k) (i : Fin k) : Nat → List Nat → List Nat → Except Err (ESt n k × List Nat)
  | 0, _, _ => .error .outOfDraws
  | fuel + 1, tried, ds =>
    if tried.length = k then .error .param else
    match drawSw k tried ds with
    | .error e => .error e
    | .ok (s, ds') =>
      match readCell ir st i s ir.free1, readCell ir st i s ir.free2 with
      | some x, some y =>
        if !(x != 0 || y != 0) then
          match execEs ir i s ir.accept st with
          | some st1 =>
            (match (if s.val < i.val then execEs ir i s ir.ltBody st1 else some st1) with
              | some st2 => (match execEs ir i s ir.swap st2 with
                | some st3 => .ok (st3, ds')
                | none => .error .protocol)
              | none => .error .protocol)
          | none => .error .protocol
        else repairI ir st i fuel (s.val :: tried) ds'
      | _, _ => .error .protocol

/-- the body of `for i in range(k):` -/
def placeI (ir : DfIR) (st : ESt n k) (i : Fin k) (ds : List Nat) : Except Err (ESt n k × List Nat) :=
  match readCell ir st i i ir.occupied with
  | some x =>
    if x != 0 then repairI ir st i (ds.length + 1) [] ds
    else match execEs ir i i ir.elseStores st with
      | some st' => .ok (st', ds)
      | none => .error .protocol
  | none => .error .protocol

def placeAllI (ir : DfIR) : List (Fin k) → ESt n k → List Nat → Except Err (ESt n k × List Nat)
  | [], st, ds => .ok (st, ds)
  | i :: is, st, ds =>
    match placeI ir st i ds with
    | .error e => .error e
    | .ok (st', ds') => placeAllI ir is st' ds'

/-- `np.zeros((k,), dtype=int)` read as node indices (there is no node when `n = 0`; then `k = 0` as well) -/
def zerosL (n k : Nat) : List (Fin n) := if h : 0 < n then List.replicate k ⟨0, h⟩ else []

/-- the fill loop: the two stub arrays (as lists of length `k`) -/
def fillI (ir : DfIR) (inv outv : Fin n → Nat) (k : Nat) : List (Fin n) × List (Fin n) :=
  let r := (List.finRange n).foldl (fun (acc : List (Fin n) × List (Fin n) × Nat × Nat) i =>
      (sliceSet acc.1 acc.2.2.1 (acc.2.2.1 + inv i) i, sliceSet acc.2.1 acc.2.2.2 (acc.2.2.2 + outv i) i,
        acc.2.2.1 + inv i, acc.2.2.2 + outv i))
    (zerosL n k, zerosL n k, ir.iIn0, ir.iOut0)
  (r.1, r.2.1)

/-- the routine on `(inv, outv)` with the recorded draws -/
def runDf (ir : DfIR) (inv outv : Fin n → Nat) (ds : List Nat) : Except Err (AMat Int n × List Nat) :=
  if ir.coherent then
    let k := ((List.finRange n).map inv).sum
    if ds.length < k then .error .outOfDraws
    else if !isPermOfRange (ds.take k) k then .error .badDraw
    else
      let fl := fillI ir inv outv k
      match toVec k fl.2, toVec k ((ds.take k).filterMap (fl.1[·]?)) with
      | some e0, some e1 =>
        match placeAllI ir (List.finRange k) { C := eye n, e0 := e0, e1 := e1, t := none } (ds.drop k) with
        | .error e => .error e
        | .ok (st, rest) => .ok (AMat.ofFn fun i j => st.C.get i j - (eye n).get i j, rest)
      | _, _ => .error .index
  else .error .protocol

def eI : ERef := { arr := "edges", row := 0, idx := "i" }
def eIs : ERef := { arr := "edges", row := 1, idx := "i" }
def eS : ERef := { arr := "edges", row := 0, idx := "switch" }
def eSs : ERef := { arr := "edges", row := 1, idx := "switch" }

def refDf : DfIR :=
  { recognised := true,
    origins := [("BCTParamError", "class bct/utils/miscellaneous_utilities.py:BCTParamError"),
                ("get_rng", "def bct/utils/miscellaneous_utilities.py:get_rng"), ("int", "builtin"), ("len", "builtin"), ("np", "module numpy"),
                ("range", "builtin"), ("set", "builtin")],
    params := ["inv", "outv", "seed"], defaults := [("seed", "None")],
    rng := "rng", rngCallee := "get_rng", rngArg := "seed", dim := "n", dimOf := "inv", tot := "k", totOf := "inv",
    inArr := "in_inv", inLen := "k", inDtype := "int", outArr := "out_inv", outLen := "k", outDtype := "int", iIn := "i_in", iIn0 := 0, iOut := "i_out", iOut0 := 0,
    fVar := "i", fN := "n",
    f1 := { arr := "in_inv", lo := "i_in", lo2 := "i_in", vec := "inv", idx := "i", val := "i" },
    f2 := { arr := "out_inv", lo := "i_out", lo2 := "i_out", vec := "outv", idx := "i", val := "i" },
    a1Var := "i_in", a1Vec := "inv", a1Idx := "i", a2Var := "i_out", a2Vec := "outv", a2Idx := "i",
    cij := "CIJ", eyeN := "n", edges := "edges", edge0 := "out_inv", edge1 := "in_inv", permRng := "rng", permN := "k",
    mVar := "i", mN := "k", occupied := { mat := "CIJ", r := eI, c := eIs },
    tried := "tried", lenOf := "tried", lenEq := "k", exc := "BCTParamError",
    sw := "switch", swRng := "rng", swN := "k", wIn := "switch", wSet := "tried", sw2 := "switch", sw2Rng := "rng", sw2N := "k",
    free1 := { mat := "CIJ", r := eI, c := eSs }, free2 := { mat := "CIJ", r := eS, c := eIs },
    accept := [ .setCell { mat := "CIJ", r := eI, c := eSs } 1 ],
    ltL := "switch", ltR := "i",
    ltBody := [ .setCell { mat := "CIJ", r := eS, c := eSs } 0, .setCell { mat := "CIJ", r := eS, c := eIs } 1 ],
    swap := [ .load "t" eIs, .copyE eIs eSs, .store eSs "t" ],
    addSet := "tried", addVal := "switch",
    elseStores := [ .setCell { mat := "CIJ", r := eI, c := eIs } 1 ],
    subL := "CIJ", subEyeN := "n", ret := "CIJ" }

/-- the decidable obligation generated for `makerandCIJdegreesfixed` -/
def dfOk (ir : DfIR) : Bool := ir == refDf

end Bct.CoreIR.Synth
