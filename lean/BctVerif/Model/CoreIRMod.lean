import BctVerif.Model.CoreIRClust
import BctVerif.Model.Modularity
/-!
# Source-extracted modularity matrix and `q` of `modularity_und` / `modularity_dir`: IR, interpreter, decidable checks (T-gen, C02)

`translate/cores.py` reads `bct/algorithms/modularity.py` with `ast` on every check run and writes, for both routines, the statements
before the spectral part (for `modularity_und`

    from scipy import linalg
    A = np.asarray(A, dtype=float)
    n = len(A)
    k = np.sum(A, axis=0)
    m = np.sum(k)
    B = A - gamma * np.outer(k, k) / m

), the frame of the partition choice (`if kci is None: … ci = ls2ci(modules)` / `else: ci = kci`) and the statements after it

    s = np.tile(ci, (n, 1))
    q = np.sum(np.logical_not(s - s.T) * B / m)
    return ci, q

as a `ModIR` value into `BctVerif/Gen/CoresMod.lean`, with the obligation `modOk <reference> ir = true := by decide`.  The spectral
bisection in between (`init_mod`, `modules`, the nested `recur`, the call in the `None` branch) is **not interpreted**: the IR records how
many statements it has, and the whole body is pinned (`Model/CoreIRPin.lean`).  The interpreter runs the two interpreted blocks for a
given label vector `ci` (the argument `kci`, or whatever the `None` branch produced).  `Props/CoresMod.lean` proves that programs that
pass compute `Modularity.modularityUndGiven` / `modularityDirGiven`.

Core Lean only.
-/
namespace Bct.CoreIR.Mod
open Bct Bct.CoreIR.Clust

structure ModIR where
  name : String
  recognised : Bool
  origins : List (String × String)
  params : List String
  defaults : List (String × String)
  imports : List (String × String)
  /-- the statements up to the modularity matrix -/
  pre : List Stmt
  /-- number of statements between `pre` and the `if` (the spectral part: not interpreted, pinned) -/
  skipped : Nat
  /-- `if <noneParam> is None:` with `<noneCount>` statements, the last of which assigns `<noneTarget>` -/
  noneParam : String
  noneCount : Nat
  noneTarget : String
  /-- `else: <elseTarget> = <elseSource>` -/
  elseTarget : String
  elseSource : String
  /-- the statements after the `if` -/
  post : List Stmt
  /-- `return <ret0>, <ret1>` -/
  ret0 : String
  ret1 : String
  deriving DecidableEq, Repr

variable {n : Nat}

/-- the routine for a given label vector: the value returned as `q` -/
def runQ (ir : ModIR) (A : AMat V n) (gamma : Rat) (ci : Vector V n) : Val n :=
  match ir.params with
  | [pA, pG, pK] =>
    if pA ≠ pG ∧ pA ≠ pK ∧ pG ≠ pK ∧ ir.noneParam = pK ∧ ir.elseSource = pK ∧ ir.noneTarget = ir.elseTarget ∧ ir.ret0 = ir.elseTarget then
      match execs id ir.pre (fun y => if y = pA then some (.mat A) else if y = pG then some (.sc (.num gamma)) else none) with
      | some E1 =>
        match execs id ir.post (fun y => if y = ir.elseTarget then some (.vec ci) else E1 y) with
        | some E2 => (match E2 ir.ret1 with | some v => v | none => .err)
        | none => .err
      | none => .err
    else .err
  | _ => .err

def refUnd : ModIR :=
  { name := "modularity_und", recognised := true,
    origins := [("BibTeX", "from bct/due.py:BibTeX"), ("GOOD2010", "from bct/citations.py:GOOD2010"),
                ("LEICHT2008", "from bct/citations.py:LEICHT2008"), ("REICHARDT2006", "from bct/citations.py:REICHARDT2006"),
                ("_safe_squeeze", "def bct/algorithms/modularity.py:_safe_squeeze"), ("due", "from bct/due.py:due"),
                ("float", "builtin"), ("len", "builtin"), ("ls2ci", "def bct/algorithms/modularity.py:ls2ci"), ("np", "module numpy")],
    params := ["A", "gamma", "kci"], defaults := [("gamma", "1"), ("kci", "None")],
    imports := [("linalg", "external scipy:linalg")],
    pre := [ .bind "A" (.asarrayFloat (.ref "A")), .bind "n" (.len (.ref "A")), .bind "k" (.sumAx (.ref "A") 0),
             .bind "m" (.sumAll (.ref "k")),
             .bind "B" (.sub (.ref "A") (.div (.mul (.ref "gamma") (.outer (.ref "k") (.ref "k"))) (.ref "m"))) ],
    skipped := 3, noneParam := "kci", noneCount := 2, noneTarget := "ci", elseTarget := "ci", elseSource := "kci",
    post := [ .bind "s" (.tileRows (.ref "ci") "n"),
              .bind "q" (.sumAll (.div (.mul (.lnot (.sub (.ref "s") (.tr (.ref "s")))) (.ref "B")) (.ref "m"))) ],
    ret0 := "ci", ret1 := "q" }

def refDir : ModIR :=
  { refUnd with
    name := "modularity_dir",
    pre := [ .bind "A" (.asarrayFloat (.ref "A")), .bind "n" (.len (.ref "A")), .bind "ki" (.sumAx (.ref "A") 0),
             .bind "ko" (.sumAx (.ref "A") 1), .bind "m" (.sumAll (.ref "ki")),
             .bind "b" (.sub (.ref "A") (.div (.mul (.ref "gamma") (.outer (.ref "ko") (.ref "ki"))) (.ref "m"))),
             .bind "B" (.add (.ref "b") (.tr (.ref "b"))) ],
    post := [ .bind "s" (.tileRows (.ref "ci") "n"),
              .bind "q" (.sumAll (.div (.mul (.lnot (.sub (.ref "s") (.tr (.ref "s")))) (.ref "B")) (.mul (.lit 2) (.ref "m")))) ] }

/-- the decidable obligation generated for `modularity_und` / `modularity_dir` -/
def modOk (ref ir : ModIR) : Bool := ir == ref

/-! # the aggregation step and `q[h]` of `modularity_louvain_und` / `modularity_louvain_dir`

    n = np.max(m)
    W1 = np.zeros((n, n))
    for i in range(n):
        for j in range(i, n):                                       # range(n) in modularity_louvain_dir
            wp = np.sum(W[np.ix_(m == i + 1, m == j + 1)])
            W1[i, j] = wp                                           # W1[i, j] = np.sum(…) in modularity_louvain_dir
            W1[j, i] = wp
    W = W1                                                          # absent in modularity_louvain_dir
    q.append(0)
    q[h] = np.trace(W) / s - gamma * np.sum(np.dot(W / s, W / s))

These statements of the body of `while True:` (from `n = np.max(m)` to `q[h] = …`) are extracted as an `AggIR` value, with the
obligation `aggOk <reference> ir = true := by decide`.  The interpreter works on `n` slots for the modules (the number of nodes): a
slot no node is labelled with has an all-zero row and column, which is what the smaller matrix of the source amounts to in every sum. -/

structure AggIR where
  name : String
  recognised : Bool
  /-- `<dim> = np.max(<dimOf>)`, `<newW> = np.zeros((<nz1>, <nz2>))` -/
  dim : String
  dimOf : String
  newW : String
  nz1 : String
  nz2 : String
  /-- `for <iVar> in range(<iN>):`, `for <jVar> in range(<jLo>, <jN>):` (`jLo = none`: `range(<jN>)`) -/
  iVar : String
  iN : String
  jVar : String
  jLo : Option String
  jN : String
  /-- `<tmp> = np.sum(<sumMat>[np.ix_(<labA> == <idxA> + <offA>, <labB> == <idxB> + <offB>)])` (`tmp = none`: stored directly) -/
  tmp : Option String
  sumMat : String
  labA : String
  idxA : String
  offA : Int
  labB : String
  idxB : String
  offB : Int
  /-- `<mat>[<row>, <col>] = <value>` in order -/
  stores : List (String × String × String)
  /-- `<a> = <b>` after the loops -/
  rebind : Option (String × String)
  /-- `<qList>.append(<qAppend>)`, `<qList2>[<qIdx>] = np.trace(<tr>) / <s1> - <gam> * np.sum(np.dot(<dl> / <s2>, <dr> / <s3>))` -/
  qList : String
  qAppend : Int
  qList2 : String
  qIdx : String
  tr : String
  s1 : String
  gam : String
  dl : String
  s2 : String
  dr : String
  s3 : String
  deriving DecidableEq, Repr

/-- the names refer to each other as they must; `wName` / `mName` / `sName` / `gName` are the names the enclosing routine holds the
weights, the labels, the total weight and `gamma` under -/
def AggIR.coherent (ir : AggIR) (wName mName sName gName : String) : Bool :=
  ir.dimOf == mName && ir.nz1 == ir.dim && ir.nz2 == ir.dim && ir.iN == ir.dim && ir.jN == ir.dim &&
  (match ir.jLo with | some x => x == ir.iVar | none => true) &&
  ir.sumMat == wName && ir.labA == mName && ir.idxA == ir.iVar && ir.labB == mName && ir.idxB == ir.jVar &&
  (ir.stores.all fun t => t.1 == ir.newW && (t.2.1 == ir.iVar || t.2.1 == ir.jVar) && (t.2.2 == ir.iVar || t.2.2 == ir.jVar)) &&
  (match ir.rebind with | some (a, b) => a == wName && b == ir.newW | none => true) &&
  ir.qList2 == ir.qList && ir.tr == (match ir.rebind with | some _ => wName | none => ir.newW) && ir.dl == ir.tr && ir.dr == ir.tr &&
  ir.s1 == sName && ir.s2 == sName && ir.s3 == sName && ir.gam == gName && ir.iVar != ir.jVar

/-- the stores one pass of the inner body makes: (row, column, value) -/
def storesAt (ir : AggIR) (W : AMat Rat n) (lab : Fin n → Int) (i j : Fin n) : List (Fin n × Fin n × Rat) :=
  let blk : Rat := ((List.finRange n).map fun x => if lab x = (i.val : Int) + ir.offA then
      ((List.finRange n).map fun y => if lab y = (j.val : Int) + ir.offB then W.get x y else 0).sum else 0).sum
  ir.stores.map fun t => (if t.2.1 = ir.iVar then i else j, if t.2.2 = ir.iVar then i else j, blk)

/-- the aggregation step and `q[h]` on the weights `W`, the labels (as the source holds them: `lab x` is the 1-based module of node
`x`), the total weight and `gamma`: the new matrix and the new `q` -/
def runAgg (ir : AggIR) (wName mName sName gName : String) (W : AMat Rat n) (lab : Fin n → Int) (s gamma : Rat) :
    Option (AMat Rat n × Rat) :=
  if ir.coherent wName mName sName gName then
    let cells : List (Fin n × Fin n) := (List.finRange n).flatMap fun i =>
      ((List.finRange n).filter fun j => match ir.jLo with | some _ => decide (i.val ≤ j.val) | none => true).map fun j => (i, j)
    let W1 : AMat Rat n := (cells.flatMap fun c => storesAt ir W lab c.1 c.2).foldl (fun M t => M.set t.1 t.2.1 t.2.2) (AMat.ofFn fun _ _ => 0)
    let tr : Rat := ((List.finRange n).map fun i => W1.get i i).sum
    let dot : Rat := ((List.finRange n).map fun i => ((List.finRange n).map fun j =>
      ((List.finRange n).map fun k => (W1.get i k / s) * (W1.get k j / s)).sum).sum).sum
    some (W1, tr / s - gamma * dot)
  else none

def refAggUnd : AggIR :=
  { name := "modularity_louvain_und", recognised := true,
    dim := "n", dimOf := "m", newW := "W1", nz1 := "n", nz2 := "n", iVar := "i", iN := "n", jVar := "j", jLo := some "i", jN := "n",
    tmp := some "wp", sumMat := "W", labA := "m", idxA := "i", offA := 1, labB := "m", idxB := "j", offB := 1,
    stores := [("W1", "i", "j"), ("W1", "j", "i")], rebind := some ("W", "W1"),
    qList := "q", qAppend := 0, qList2 := "q", qIdx := "h", tr := "W", s1 := "s", gam := "gamma", dl := "W", s2 := "s", dr := "W", s3 := "s" }

def refAggDir : AggIR :=
  { refAggUnd with
    name := "modularity_louvain_dir", jLo := none, tmp := none, stores := [("W1", "i", "j")], rebind := none,
    tr := "W1", dl := "W1", dr := "W1" }

/-- the decidable obligation generated for the aggregation step -/
def aggOk (ref ir : AggIR) : Bool := ir == ref

end Bct.CoreIR.Mod
