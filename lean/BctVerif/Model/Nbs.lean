import BctVerif.Model.Basic
/-!
# Executable model of `nbs_bct` (bct/nbs.py) — property C19

Exact arithmetic over core `Rat`.  The t statistics are never computed: `t > thresh` is decided from
the sign of the numerator and a comparison of squares (`gtSqrt`), so no square root is needed.

* `exceeds2`  : `ttest2_stat_only(x, y, tail) > thresh`  (pooled variance; `denom == 0 → 0`)
* `exceedsP`  : `ttest_paired_stat_only(x, y, tail) > thresh` (zero variance gives ±inf / nan)
* `adj0`      : thresholded symmetric 0/1 adjacency
* `components`: the incremental set merging of `get_components` (same order of the returned sets)
* `observe`   : edge count and label `i+1` per component with more than one node, as coded
* `nullVals`  : replay of the recorded subject permutations (`rng.permutation(nx+ny)`) or sign flips
                (`np.sign(0.5 - rng.rand(1, nx))`, recorded as `v·2^53`)
* `hits`      : `#{u : null[u] ≥ sz_links[c]}` (p-value = hits / k)

Data are rational (`Cells n`); the driver receives integers and optional dyadic exponents (`exp=` global,
`cexp=` per cell) so that data in tiny / huge / mixed units are represented exactly.
-/
namespace Bct.Nbs
open Bct

inductive Tail | both | left | right
  deriving DecidableEq, Repr

inductive NErr | param | zerodiv | badDraw | outOfDraws | domain
  deriving DecidableEq, Repr

def NErr.str : NErr → String
  | .param => "BCTParamError" | .zerodiv => "ZeroDivisionError" | .badDraw => "bad-draw"
  | .outOfDraws => "out-of-draws" | .domain => "domain"

/-! ## t statistics against a threshold -/

def qabs (a : Rat) : Rat := if a < 0 then -a else a

/-- `num / √V > thr` for `V > 0`, decided by sign and squares -/
def gtSqrt (num V thr : Rat) : Bool :=
  if 0 ≤ thr then decide (0 < num) && decide (thr * thr * V < num * num)
  else decide (0 ≤ num) || decide (num * num < thr * thr * V)

/-- numerator of the statistic in the requested tail: `abs(t)`, `-t`, `t` -/
def tnum (tail : Tail) (dm : Rat) : Rat :=
  match tail with
  | .both => qabs dm
  | .left => -dm
  | .right => dm

def qsum (l : List Rat) : Rat := l.sum
def mean (l : List Rat) : Rat := qsum l / (l.length : Rat)
/-- `Σ (x − mean)²  = (n−1)·var(x, ddof=1)` -/
def ssd (l : List Rat) : Rat := qsum (l.map fun a => (a - mean l) * (a - mean l))

/-- squared denominator of the two-sample statistic: pooled variance × (1/n1 + 1/n2) -/
def pooledV (x y : List Rat) : Rat :=
  (ssd x + ssd y) / ((x.length : Rat) + (y.length : Rat) - 2) * (1 / (x.length : Rat) + 1 / (y.length : Rat))

/-- `ttest2_stat_only(x, y, tail) > thr` -/
def exceeds2 (x y : List Rat) (thr : Rat) (tail : Tail) : Bool :=
  if pooledV x y = 0 then decide (thr < 0)          -- `if denom == 0: return 0`
  else gtSqrt (tnum tail (mean x - mean y)) (pooledV x y) thr

def diffs (x y : List Rat) : List Rat := List.zipWith (· - ·) x y
/-- `sample_ss = sum((A-B)**2) - sum(A-B)**2 / n` -/
def pairedSS (d : List Rat) : Rat := qsum (d.map fun a => a * a) - qsum d * qsum d / (d.length : Rat)

/-- `ttest_paired_stat_only(x, y, tail) > thr`;  `t = mean(d) / √(ss / (n(n−1)))`.
With `ss = 0` the float code divides by zero: `±inf` (sign of the mean) or `nan` (mean 0). -/
def exceedsP (x y : List Rat) (thr : Rat) (tail : Tail) : Bool :=
  let d := diffs x y
  if pairedSS d = 0 then decide (0 < tnum tail (mean d))
  else gtSqrt (tnum tail (mean d)) (pairedSS d / ((d.length : Rat) * ((d.length : Rat) - 1))) thr

def exceeds (paired : Bool) (x y : List Rat) (thr : Rat) (tail : Tail) : Bool :=
  if paired then exceedsP x y thr tail else exceeds2 x y thr tail

/-! ## thresholded adjacency -/

/-- per cell `(i,j)` the list of subject values `x[i, j, :]` -/
abbrev Cells (n : Nat) := AMat (List Rat) n

/-- `adj[ixes[ind_t]] = 1; adj = adj + adj.T` — only upper-triangular cells of the data are read -/
def adj0 {n : Nat} (paired : Bool) (x y : Cells n) (thr : Rat) (tail : Tail) : AMat Int n :=
  AMat.ofFn fun i j =>
    if i.val < j.val then (if exceeds paired (x.get i j) (y.get i j) thr tail then 1 else 0)
    else if j.val < i.val then (if exceeds paired (x.get j i) (y.get j i) thr tail then 1 else 0)
    else 0

def anyEdge {n : Nat} (A : AMat Int n) : Bool :=
  (List.finRange n).any fun i => (List.finRange n).any fun j => A.get i j != 0

/-! ## `get_components` -/

abbrev NSet (n : Nat) := Vector Bool n

def pairSet {n : Nat} (u v : Fin n) : NSet n := Vector.ofFn fun w => w == u || w == v
def disjointS {n : Nat} (s t : NSet n) : Bool := (List.finRange n).all fun w => !(s[w] && t[w])
def unionS {n : Nat} (s t : NSet n) : NSet n := Vector.ofFn fun w => s[w] || t[w]
def sizeS {n : Nat} (s : NSet n) : Nat := (List.finRange n).countP fun w => s[w]

/-- inner loop: `item` absorbs every set it touches, the untouched ones keep their order, `item` goes last -/
def scan {n : Nat} : List (NSet n) → NSet n → List (NSet n) → List (NSet n)
  | [], item, temp => temp ++ [item]
  | s :: ss, item, temp =>
    if !disjointS s item then scan ss (unionS s item) temp else scan ss item (temp ++ [s])

/-- `[{u,v} for u in range(n) for v in range(n) if A[u,v] == 1]` after `fill_diagonal(A, 1)` -/
def edgeMap {n : Nat} (A : AMat Int n) : List (Fin n × Fin n) :=
  (List.finRange n).flatMap fun u => ((List.finRange n).filter fun v => u == v || A.get u v != 0).map fun v => (u, v)

def components {n : Nat} (A : AMat Int n) : List (NSet n) :=
  (edgeMap A).foldl (fun sets e => scan sets (pairSet e.1 e.2) []) []

/-! ## component sizes in edges, labels -/

/-- `ind_sz = where(sz > 1)` : the components with more than one node, in order -/
def bigSets {n : Nat} (A : AMat Int n) : List (NSet n) := (components A).filter fun s => decide (1 < sizeS s)

/-- `np.sum(adj[np.ix_(nodes, nodes)])` -/
def blockSum {n : Nat} (A : AMat Int n) (s : NSet n) : Int :=
  ((List.finRange n).map fun i => ((List.finRange n).map fun j => if s[i] && s[j] then A.get i j else 0).sum).sum

/-- `adj[np.ix_(nodes, nodes)] *= (i + 2)` -/
def scaleBlock {n : Nat} (A : AMat Int n) (s : NSet n) (f : Int) : AMat Int n :=
  AMat.ofFn fun i j => if s[i] && s[j] then A.get i j * f else A.get i j

/-- the loop `for i in range(nr_components)`: returns the scaled matrix and `sz_links` -/
def labelLoop {n : Nat} : List (NSet n) → (c : Nat) → AMat Int n → AMat Int n × List Int
  | [], _, A => (A, [])
  | s :: ss, c, A =>
    let sz := blockSum A s / 2
    let r := labelLoop ss (c + 1) (scaleBlock A s ((c : Int) + 2))
    (r.1, sz :: r.2)

structure Obs (n : Nat) where
  adj : AMat Int n
  sizes : List Int

/-- observed components of a thresholded adjacency `A` -/
def observe {n : Nat} (A : AMat Int n) : Obs n :=
  let r := labelLoop (bigSets A) 0 A
  -- `adj[np.where(adj)] -= 1`
  { adj := AMat.ofFn fun i j => if r.1.get i j != 0 then r.1.get i j - 1 else 0, sizes := r.2 }

/-- sizes of the components of a permuted data set (no labelling there) -/
def sizesOnly {n : Nat} (A : AMat Int n) : List Int := (bigSets A).map fun s => blockSum A s / 2

def maxOr0 (l : List Int) : Int := l.foldl (fun a b => if a < b then b else a) 0

/-! ## permutations of subjects -/

/-- `np.hstack((xmat, ymat))[:, perm]` then `[:nx]`, `[-ny:]` -/
def permuteCell (nx : Nat) (perm : List Nat) (xs ys : List Rat) : List Rat × List Rat :=
  let all := (xs ++ ys).toArray
  let d := perm.map fun p => all[p]?.getD 0     -- indices are validated by `validPerm` before use
  (d.take nx, d.drop nx)

def validPerm (tot : Nat) (perm : List Nat) : Bool := perm.length == tot && perm.all (· < tot)

/-- `np.sign(0.5 - v)` with `v` recorded as `v·2^53` -/
def signOf (u : Nat) : Rat := if u < 4503599627370496 then 1 else if u = 4503599627370496 then 0 else -1

def flipCell (signs : List Rat) (xs : List Rat) : List Rat := List.zipWith (· * ·) xs signs

structure Out (n : Nat) where
  obs : Obs n
  null : List Int
  hits : List Nat
  k : Nat

/-- one permutation: consumes `nx+ny` (unpaired) or `nx` (paired) recorded draws -/
def nullOne {n : Nat} (paired : Bool) (nx ny : Nat) (x y : Cells n) (thr : Rat) (tail : Tail) (ds : List Nat) :
    Except NErr (Int × List Nat) :=
  let need := if paired then nx else nx + ny
  if ds.length < need then .error .outOfDraws else
  let cur := ds.take need
  let rest := ds.drop need
  if paired then
    let signs := cur.map signOf
    let x' : Cells n := AMat.ofFn fun i j => flipCell signs (x.get i j)
    let y' : Cells n := AMat.ofFn fun i j => flipCell signs (y.get i j)
    .ok (maxOr0 (sizesOnly (adj0 paired x' y' thr tail)), rest)
  else
    if !validPerm (nx + ny) cur then .error .badDraw else
    let x' : Cells n := AMat.ofFn fun i j => (permuteCell nx cur (x.get i j) (y.get i j)).1
    let y' : Cells n := AMat.ofFn fun i j => (permuteCell nx cur (x.get i j) (y.get i j)).2
    .ok (maxOr0 (sizesOnly (adj0 paired x' y' thr tail)), rest)

def nullVals {n : Nat} (paired : Bool) (nx ny : Nat) (x y : Cells n) (thr : Rat) (tail : Tail) :
    (k : Nat) → List Nat → Except NErr (List Int × List Nat)
  | 0, ds => .ok ([], ds)
  | k + 1, ds =>
    match nullOne paired nx ny x y thr tail ds with
    | .error e => .error e
    | .ok (v, rest) =>
      match nullVals paired nx ny x y thr tail k rest with
      | .error e => .error e
      | .ok (vs, rest') => .ok (v :: vs, rest')

def hitsOf (null : List Int) (sizes : List Int) : List Nat := sizes.map fun s => null.countP fun v => decide (s ≤ v)

def wellShaped {n : Nat} (nx : Nat) (x : Cells n) : Bool :=
  (List.finRange n).all fun i => (List.finRange n).all fun j => (x.get i j).length == nx

def nbs {n : Nat} (paired : Bool) (nx ny : Nat) (x y : Cells n) (thr : Rat) (tail : Tail) (k : Nat) (ds : List Nat) :
    Except NErr (Out n × List Nat) :=
  if !(wellShaped nx x && wellShaped ny y) then .error .domain else
  if paired && nx != ny then .error .param else
  if nx < 2 || ny < 2 then .error .domain else
  let A := adj0 paired x y thr tail
  if !anyEdge A then .error .param else            -- "Unsuitable threshold"
  let obs := observe A
  match nullVals paired nx ny x y thr tail k ds with
  | .error e => .error e
  | .ok (null, rest) =>
    if k = 0 then .error .zerodiv else
    .ok ({ obs := obs, null := null, hits := hitsOf null obs.sizes, k := k }, rest)

/-! ## driver -/

def parseRat (s : String) : Option Rat :=
  match s.splitOn "/" with
  | [p] => do let a ← p.toInt?; some (a : Rat)
  | [p, q] => do
    let a ← p.toInt?
    let b ← q.toNat?
    if b = 0 then none else some ((a : Rat) / (b : Rat))
  | _ => none

/-- `2^e` for an integer exponent (data may be given in exact dyadic units) -/
def pow2 (e : Int) : Rat := if 0 ≤ e then ((2 ^ e.toNat : Nat) : Rat) else 1 / ((2 ^ (-e).toNat : Nat) : Rat)

/-- C-order `x[i, j, s]`; the value of cell `(i,j)` is the integer times `2^(cexp[i,j])` -/
def parseCells (n ns : Nat) (s : String) (cexp : AMat Int n) : Option (Cells n) := do
  let xs ← parseInts s
  if xs.length != n * n * ns then none else
  let arr := xs.toArray
  some (AMat.ofFn fun i j => (List.range ns).map fun t =>
    ((arr[(i.val * n + j.val) * ns + t]?.getD 0 : Int) : Rat) * pow2 (cexp.get i j))

def parseTail (s : String) : Option Tail :=
  if s == "both" then some .both else if s == "left" then some .left else if s == "right" then some .right else none

def step (line : String) : String :=
  let (op, kv) := parseLine line
  let res : Option String := do
    if op != "nbs" then none
    let n ← (← lookup kv "n").toNat?
    let nx ← (← lookup kv "nx").toNat?
    let ny ← (← lookup kv "ny").toNat?
    let e0 ← (match lookup kv "exp" with | none => some (0 : Int) | some t => t.toInt?)
    let ce ← (match lookup kv "cexp" with | none => some (AMat.ofFn fun _ _ => (0 : Int)) | some t => parseMat n t)
    let cexp : AMat Int n := AMat.ofFn fun i j => e0 + ce.get i j
    let x ← parseCells n nx (← lookup kv "x") cexp
    let y ← parseCells n ny (← lookup kv "y") cexp
    let thr ← parseRat (← lookup kv "thr")
    let k ← (← lookup kv "k").toNat?
    let paired ← (match lookup kv "paired" with | some "1" => some true | some "0" => some false | _ => none)
    let ds ← parseNats (← lookup kv "draws")
    let tl ← lookup kv "tail"
    match parseTail tl with
    | none => some "error=BCTParamError"          -- 'Tail must be both, left, right'
    | some tail =>
      match nbs paired nx ny x y thr tail k ds with
      | .error e => some s!"error={e.str}"
      | .ok (o, rest) =>
        some s!"adj={showMat o.obs.adj} sizes={showInts o.obs.sizes} hits={showNats o.hits} k={o.k} null={showInts o.null} left={rest.length}"
  res.getD "error=protocol"

end Bct.Nbs
