import BctVerif.Model.Dist
/-!
# Source-extracted `reachdist`: IR, interpreter, decidable check (T-gen, C03)

`translate/cores.py` reads `bct/algorithms/distance.py` with `ast` on every check run and writes every statement of `reachdist`
— the nested recursive helper `reachdist2` (matrix power step, `R = np.logical_or(R, CIJpwr != 0)`, `D += R`, the test
`powr <= n and np.any(R[np.ix_(row, col)] == 0)`, the recursive call), the prologue (`binarize`, `R`, `D`, `powr`, `n`, `CIJpwr`,
in/out degrees, `id0` / `od0`, `col` / `row`), the call and the epilogue (`D = powr - D + 1`, the three `inf` stores) — as a
`ReachIR` value into `BctVerif/Gen/CoresReach.lean`, with the obligation `reachOk ir = true := by decide`.

The interpreter runs the nested function in a fresh local environment per call (arguments by position, results assigned to the
call's targets) on fuel.  `Props/CoresReach.lean` proves that a program that passes computes exactly `Dist.reachdist`.

Core Lean only.
-/
namespace Bct.CoreIR.Reach
open Bct Bct.Dist

inductive V
  | num (k : Nat)
  | int (z : Int)
  | bool (b : Bool)
  | inf
  /-- a cell of the argument before `binarize` -/
  | rat (q : Rat)
  | err
  deriving DecidableEq

namespace V
/-- truth value of a cell (`np.logical_or`, `!= 0`) -/
def truth : V → Option Bool
  | num k => some (k != 0)
  | int z => some (z != 0)
  | bool b => some b
  | inf => some true
  | _ => none
def ne0 (a : V) : V := match a.truth with
  | some b => bool b
  | none => err
def eq0 (a : V) : V := match a.truth with
  | some b => bool (!b)
  | none => err
def lor (a b : V) : V := match a.truth, b.truth with
  | some x, some y => bool (x || y)
  | _, _ => err
def toNum : V → V
  | bool b => num (if b then 1 else 0)
  | _ => err
def bin : V → V
  | num k => num (if k != 0 then 1 else 0)
  | rat q => num (if q = 0 then 0 else 1)
  | _ => err
/-- `D += R`: a count plus a boolean / a number -/
def addTo : V → V → V
  | num a, bool b => num (a + (if b then 1 else 0))
  | num a, num b => num (a + b)
  | _, _ => err
def mul : V → V → V
  | num a, num b => num (a * b)
  | _, _ => err
def add : V → V → V
  | num a, num b => num (a + b)
  | _, _ => err
end V

/-- a matrix expression, by the value of one cell -/
inductive Ex
  | ref (m : String)
  /-- `binarize(a)` (default `copy=True`; tied by the folded primitive) -/
  | binarize (a : Ex)
  /-- `np.dot(a, b)` for matrix names -/
  | dot (a b : String)
  | ne0 (a : Ex)
  | toNum (a : Ex)
  /-- `np.logical_or(a, b)` -/
  | lor (a b : Ex)
  /-- `s - a + k` for a scalar name `s` and a literal `k` -/
  | affine (s : String) (a : Ex) (k : Int)
  deriving DecidableEq, Repr

inductive Stmt
  /-- `x = e` (`.copy()`, `np.array(·, dtype=float)` of a matrix are the matrix) -/
  | bind (x : String) (e : Ex)
  /-- `if flag: x = e` -/
  | bindIf (flag x : String) (e : Ex)
  /-- `x += e` -/
  | augAdd (x : String) (e : Ex)
  | setNat (x : String) (k : Nat)
  /-- `x = len(m)` -/
  | len (x m : String)
  | incr (x : String) (k : Nat)
  /-- `x = np.sum(m, axis=a)` -/
  | sumAxis (x m : String) (a : Nat)
  /-- `x, = np.where(v == 0)` for a vector `v` -/
  | whereEq0 (x v : String)
  /-- `x = list(range(d))` -/
  | rangeList (x d : String)
  /-- `x = np.delete(y, z)` (positions `z` of the list `y`) -/
  | delete (x y z : String)
  /-- `t₁, …, tₖ = f(args)` — the nested function -/
  | call (targets : List String) (f : String) (args : List String)
  /-- `m[m == s + k] = np.inf` -/
  | infWhereEq (m s : String) (k : Nat)
  /-- `m[:, x] = np.inf` / `m[x, :] = np.inf` -/
  | infCols (m x : String)
  | infRows (m x : String)
  deriving DecidableEq, Repr

/-- the nested `def <name>(<params>): step; if <pw> <= <nn> and np.any(<tm>[np.ix_(<tr>, <tc>)] == 0): <incrVar> += <incrBy>;
<callTargets> = <callee>(<callArgs>); return <ret>` -/
structure RecIR where
  name : String
  params : List String
  step : List Stmt
  pw : String
  nn : String
  tm : String
  tr : String
  tc : String
  incrVar : String
  incrBy : Nat
  callTargets : List String
  callee : String
  callArgs : List String
  ret : List String
  deriving DecidableEq, Repr

structure ReachIR where
  recognised : Bool
  origins : List (String × String)
  params : List String
  defaults : List (String × String)
  inner : RecIR
  body : List Stmt
  ret : List String
  deriving DecidableEq, Repr

variable {n : Nat}

inductive Obj (n : Nat)
  | mat (M : AMat V n)
  | vec (u : Vector Nat n)
  | idx (l : List (Fin n))
  | nat (k : Nat)
  | flag (b : Bool)

abbrev Env (n : Nat) := String → Option (Obj n)

def Env.set (E : Env n) (x : String) (o : Obj n) : Env n := fun y => if y = x then some o else E y

def sumProd (A B : AMat V n) (i j : Fin n) : V :=
  (List.finRange n).foldl (fun acc k => V.add acc (V.mul (A.get i k) (B.get k j))) (.num 0)

def eval (E : Env n) (i j : Fin n) : Ex → V
  | .ref m => match E m with
    | some (.mat M) => M.get i j
    | _ => .err
  | .binarize a => V.bin (eval E i j a)
  | .dot a b => match E a, E b with
    | some (.mat A), some (.mat B) => sumProd A B i j
    | _, _ => .err
  | .ne0 a => V.ne0 (eval E i j a)
  | .toNum a => V.toNum (eval E i j a)
  | .lor a b => V.lor (eval E i j a) (eval E i j b)
  | .affine s a k => match E s, eval E i j a with
    | some (.nat p), .num c => .int ((p : Int) - (c : Int) + k)
    | _, _ => .err

def colOrRowSum (M : AMat V n) (axis : Nat) (v : Fin n) : Option Nat :=
  (List.finRange n).foldl (fun acc w => match acc, (if axis = 0 then M.get w v else M.get v w) with
    | some a, .num k => some (a + k)
    | _, _ => none) (some 0)

def bindAll (E : Env n) : List String → List (Obj n) → Option (Env n)
  | [], [] => some E
  | x :: xs, o :: os => bindAll (E.set x o) xs os
  | _, _ => none

def readAll (E : Env n) : List String → Option (List (Obj n))
  | [] => some []
  | x :: xs => match E x, readAll E xs with
    | some o, some os => some (o :: os)
    | _, _ => none

/-- statements that do not call -/
def exec1 (E : Env n) : Stmt → Option (Env n)
  | .bind x e => some (E.set x (.mat (AMat.ofFn fun i j => eval E i j e)))
  | .bindIf f x e => match E f with
    | some (.flag true) => some (E.set x (.mat (AMat.ofFn fun i j => eval E i j e)))
    | some (.flag false) => some E
    | _ => none
  | .augAdd x e => match E x with
    | some (.mat M) => some (E.set x (.mat (AMat.ofFn fun i j => V.addTo (M.get i j) (eval E i j e))))
    | _ => none
  | .setNat x k => some (E.set x (.nat k))
  | .len x m => match E m with
    | some (.mat _) => some (E.set x (.nat n))
    | _ => none
  | .incr x k => match E x with
    | some (.nat v) => some (E.set x (.nat (v + k)))
    | _ => none
  | .sumAxis x m a => match E m with
    | some (.mat M) =>
      if a ≤ 1 then
        if h : ∀ v : Fin n, (colOrRowSum M a v).isSome then some (E.set x (.vec (Vector.ofFn fun v => (colOrRowSum M a v).get (h v))))
        else none
      else none
    | _ => none
  | .whereEq0 x v => match E v with
    | some (.vec u) => some (E.set x (.idx ((List.finRange n).filter fun w => u[w] == 0)))
    | _ => none
  | .rangeList x d => match E d with
    | some (.nat k) => if k = n then some (E.set x (.idx (List.finRange n))) else none
    | _ => none
  | .delete x y z => match E y, E z with
    | some (.idx l), some (.idx del) =>
      some (E.set x (.idx ((l.zipIdx.filter fun p => !(del.any fun d => d.val == p.2)).map fun p => p.1)))
    | _, _ => none
  | .call _ _ _ => none
  | .infWhereEq m s k => match E m, E s with
    | some (.mat M), some (.nat p) =>
      some (E.set m (.mat (AMat.ofFn fun i j => match M.get i j with
        | .int z => if z = ((p + k : Nat) : Int) then V.inf else .int z
        | .inf => .inf
        | _ => .err)))
    | _, _ => none
  | .infCols m x => match E m, E x with
    | some (.mat M), some (.idx l) => some (E.set m (.mat (AMat.ofFn fun i j => if l.contains j then V.inf else M.get i j)))
    | _, _ => none
  | .infRows m x => match E m, E x with
    | some (.mat M), some (.idx l) => some (E.set m (.mat (AMat.ofFn fun i j => if l.contains i then V.inf else M.get i j)))
    | _, _ => none

def execs1 : List Stmt → Env n → Option (Env n)
  | [], E => some E
  | s :: ss, E => match exec1 E s with
    | some E' => execs1 ss E'
    | none => none

/-- `np.any(M[np.ix_(rows, cols)] == 0)` -/
def anyZero (M : AMat V n) (rows cols : List (Fin n)) : Option Bool :=
  if rows.all fun i => cols.all fun j => (M.get i j).truth.isSome then
    some (rows.any fun i => cols.any fun j => (M.get i j).truth == some false)
  else none

/-- one call of the nested function on argument objects (a fresh local environment, arguments by position); on fuel -/
def callRec (r : RecIR) : Nat → List (Obj n) → Option (List (Obj n))
  | 0, _ => none
  | fuel + 1, args =>
    match bindAll (fun _ => none) r.params args with
    | none => none
    | some E0 =>
      match execs1 r.step E0 with
      | none => none
      | some E1 =>
        match E1 r.pw, E1 r.nn, E1 r.tm, E1 r.tr, E1 r.tc with
        | some (.nat p), some (.nat m), some (.mat M), some (.idx rows), some (.idx cols) =>
          -- `and` evaluates its second operand only when the first holds
          match (if p ≤ m then anyZero M rows cols else some false) with
          | some true =>
            (match exec1 E1 (.incr r.incrVar r.incrBy) with
            | some E2 =>
              if r.callee = r.name then
                match readAll E2 r.callArgs with
                | some objs => match callRec r fuel objs with
                  | some res => match bindAll E2 r.callTargets res with
                    | some E3 => readAll E3 r.ret
                    | none => none
                  | none => none
                | none => none
              else none
            | none => none)
          | some false => readAll E1 r.ret
          | none => none
        | _, _, _, _, _ => none

/-- a statement of the main body: the call of the nested function, or a plain statement -/
def exec (r : RecIR) (fuel : Nat) (E : Env n) : Stmt → Option (Env n)
  | .call ts f as =>
    if f = r.name then
      match readAll E as with
      | some objs => match callRec r fuel objs with
        | some res => bindAll E ts res
        | none => none
      | none => none
    else none
  | s => exec1 E s

def execs (r : RecIR) (fuel : Nat) : List Stmt → Env n → Option (Env n)
  | [], E => some E
  | s :: ss, E => match exec r fuel E s with
    | some E' => execs r fuel ss E'
    | none => none

/-- `reachdist(CIJ, ensure_binary)` -/
def run (ir : ReachIR) (fuel : Nat) (A : AMat V n) (flag : Bool) : Option (List (Obj n)) :=
  match bindAll (fun _ => none) ir.params [.mat A, .flag flag] with
  | none => none
  | some E0 => match execs ir.inner fuel ir.body E0 with
    | some E1 => readAll E1 ir.ret
    | none => none

def refRec : RecIR :=
  { name := "reachdist2", params := ["CIJ", "CIJpwr", "R", "D", "n", "powr", "col", "row"],
    step := [ .bind "CIJpwr" (.toNum (.ne0 (.dot "CIJpwr" "CIJ"))),
              .bind "R" (.lor (.ref "R") (.ne0 (.ref "CIJpwr"))),
              .augAdd "D" (.ref "R") ],
    pw := "powr", nn := "n", tm := "R", tr := "row", tc := "col",
    incrVar := "powr", incrBy := 1,
    callTargets := ["R", "D", "powr"], callee := "reachdist2",
    callArgs := ["CIJ", "CIJpwr", "R", "D", "n", "powr", "col", "row"],
    ret := ["R", "D", "powr"] }

def refIR : ReachIR :=
  { recognised := true,
    origins := [("binarize", "def bct/utils/other.py:binarize"), ("float", "builtin"), ("len", "builtin"), ("list", "builtin"),
                ("np", "module numpy"), ("range", "builtin")],
    params := ["CIJ", "ensure_binary"], defaults := [("ensure_binary", "True")],
    inner := refRec,
    body := [ .bindIf "ensure_binary" "CIJ" (.binarize (.ref "CIJ")),
              .bind "R" (.ref "CIJ"), .bind "D" (.ref "CIJ"), .setNat "powr" 2, .len "n" "CIJ", .bind "CIJpwr" (.ref "CIJ"),
              .sumAxis "id" "CIJ" 0, .sumAxis "od" "CIJ" 1, .whereEq0 "id0" "id", .whereEq0 "od0" "od",
              .rangeList "col" "n", .delete "col" "col" "id0", .rangeList "row" "n", .delete "row" "row" "od0",
              .call ["R", "D", "powr"] "reachdist2" ["CIJ", "CIJpwr", "R", "D", "n", "powr", "col", "row"],
              .bind "D" (.affine "powr" (.ref "D") 1),
              .infWhereEq "D" "n" 2, .infCols "D" "id0", .infRows "D" "od0" ],
    ret := ["R", "D"] }

/-- the decidable obligation generated for `reachdist` -/
def reachOk (ir : ReachIR) : Bool := ir == refIR

end Bct.CoreIR.Reach
