import BctVerif.Model.Dist
/-!
# Source-extracted relaxation block of `distance_wei`: IR, interpreter, decidable check (T-gen, C03)

`translate/cores.py` reads `bct/algorithms/distance.py` with `ast` on every check run and writes the statements of the
body of `for v in V:` inside `while True:` inside `for u in range(n):` of `distance_wei`

    W, = np.where(G1[v, :])
    td = np.array([D[u, W].flatten(), (D[u, v] + G1[v, W]).flatten()])
    d = np.min(td, axis=0)
    wi = np.argmin(td, axis=0)
    D[u, W] = d
    ind = W[np.where(wi == 1)]
    B[u, ind] = B[u, v] + 1

(together with the three loop headers that bind `u`, `V`, `v`) as a `RelaxIR` value into `BctVerif/Gen/CoresDijk.lean`, with
the obligation `relaxOk ir = true := by decide`.

One-dimensional arrays that are indexed like an index list `W` are represented by their value at every node together with
the name of the index list they are aligned with; every statement checks the alignment it needs.  `Props/CoresDijk.lean`
proves that a block that passes computes exactly `Dist.relaxFrom` on row `u` of `D` and `B`, given the loop invariant that
ties `G1[v, :]` to the length matrix and the set of temporary nodes.

Core Lean only.
-/
namespace Bct.CoreIR.Dijk
open Bct Bct.Dist

inductive V
  | ext (x : Ext)
  | nat (k : Nat)
  | err
  deriving DecidableEq

namespace V
def add : V → V → V
  | ext a, ext b => ext (a + b)
  | nat a, nat b => nat (a + b)
  -- a float array plus an integer literal (`B[u, v] + 1`)
  | ext a, nat b => ext (a + .fin (b : Nat))
  | _, _ => err
/-- is the entry selected by `np.where` (non-zero; `inf` is non-zero) -/
def nonzero : V → Option Bool
  | ext (.fin q) => some (q != 0)
  | ext .inf => some true
  | nat k => some (k != 0)
  | err => none
/-- `np.min` of a column `[a, b]` -/
def min2 : V → V → V
  | ext a, ext b => ext (Ext.min a b)
  | _, _ => err
/-- `np.argmin` of a column `[a, b]`: the first position of the minimum -/
def argmin2 : V → V → V
  | ext a, ext b => nat (if Ext.lt b a then 1 else 0)
  | _, _ => err
end V

/-- a one-dimensional array aligned with an index list -/
inductive LEx
  /-- `M[r, ix].flatten()` for a scalar name `r` and an index list `ix` -/
  | rowAt (m r ix : String)
  /-- `(M[r, c] + e).flatten()` for scalar names `r`, `c` -/
  | addScalar (m r c : String) (e : LEx)
  deriving DecidableEq, Repr

inductive Stmt
  /-- `x, = np.where(M[r, :])` -/
  | whereRow (x m r : String)
  /-- `x = np.array([a, b])` -/
  | stack2 (x : String) (a b : LEx)
  /-- `x = np.min(td, axis=0)` / `x = np.argmin(td, axis=0)` -/
  | minAxis0 (x td : String)
  | argminAxis0 (x td : String)
  /-- `M[r, ix] = src` for a one-dimensional array `src` -/
  | storeRow (m r ix src : String)
  /-- `x = ix[np.where(wi == lit)]` -/
  | selectEq (x ix wi : String) (lit : Nat)
  /-- `M[r, ix] = M2[r2, c2] + lit` -/
  | storeRowScalar (m r ix m2 r2 c2 : String) (lit : Nat)
  deriving DecidableEq, Repr

/-- the block and the loop headers around it -/
structure RelaxIR where
  recognised : Bool
  /-- where every global name the function uses comes from (`translate/cores.py` resolves imports to definitions):
  `(name, "def <file>:<name>" | "class <file>:<name>" | "module <m>" | "builtin" | "from <file>:<name>")`, sorted by name -/
  origins : List (String × String)
  /-- `for <rowVar> in range(<rowBound>)` (outermost), `for <nodeVar> in <nodeList>` (the block's own loop) -/
  rowVar : String
  rowBound : String
  nodeVar : String
  nodeList : String
  body : List Stmt
  deriving DecidableEq, Repr

/-! ### interpreter -/

variable {n : Nat}

structure Env (n : Nat) where
  mat : String → Option (AMat V n)
  node : String → Option (Fin n)
  idx : String → Option (List (Fin n))
  /-- one-dimensional arrays: the index list they are aligned with, and their value at each node of it -/
  arr : String → Option (String × (Fin n → V))
  /-- `2 × |ix|` arrays: both rows -/
  stack : String → Option (String × (Fin n → V) × (Fin n → V))
  /-- boolean vectors (`S`) -/
  vec : String → Option (Vector Bool n)
  /-- float scalars (`minD`) -/
  sc : String → Option Ext
  /-- names bound to the dimension -/
  dims : String → Bool

/-- `(alignment, values)` of a one-dimensional expression; all parts must be aligned with the same index list -/
def evalL (E : Env n) : LEx → Option (String × (Fin n → V))
  | .rowAt m r ix =>
    match E.mat m, E.node r, E.idx ix with
    | some M, some i, some _ => some (ix, fun w => M.get i w)
    | _, _, _ => none
  | .addScalar m r c e =>
    match E.mat m, E.node r, E.node c, evalL E e with
    | some M, some i, some j, some (ix, f) => some (ix, fun w => V.add (M.get i j) (f w))
    | _, _, _, _ => none

def exec (E : Env n) : Stmt → Option (Env n)
  | .whereRow x m r =>
    match E.mat m, E.node r with
    | some M, some i =>
      if (List.finRange n).all fun w => ((M.get i w).nonzero).isSome then
        some { E with idx := fun y => if y = x then some ((List.finRange n).filter fun w => (M.get i w).nonzero == some true) else E.idx y,
                      -- arrays aligned with an older value of `x` are no longer aligned with it
                      arr := fun y => match E.arr y with | some (ix, f) => if ix = x then none else some (ix, f) | none => none,
                      stack := fun y => match E.stack y with | some (ix, f, g) => if ix = x then none else some (ix, f, g) | none => none }
      else none
    | _, _ => none
  | .stack2 x a b =>
    match evalL E a, evalL E b with
    | some (ia, f), some (ib, g) => if ia = ib then some { E with stack := fun y => if y = x then some (ia, f, g) else E.stack y } else none
    | _, _ => none
  | .minAxis0 x td =>
    match E.stack td with
    | some (ix, f, g) => some { E with arr := fun y => if y = x then some (ix, fun w => V.min2 (f w) (g w)) else E.arr y }
    | none => none
  | .argminAxis0 x td =>
    match E.stack td with
    | some (ix, f, g) => some { E with arr := fun y => if y = x then some (ix, fun w => V.argmin2 (f w) (g w)) else E.arr y }
    | none => none
  | .storeRow m r ix src =>
    match E.mat m, E.node r, E.idx ix, E.arr src with
    | some M, some i, some L, some (ix', f) =>
      if ix' = ix then
        some { E with mat := fun y => if y = m then some (AMat.ofFn fun a b => if a = i ∧ L.contains b then f b else M.get a b) else E.mat y }
      else none
    | _, _, _, _ => none
  | .selectEq x ix wi lit =>
    match E.idx ix, E.arr wi with
    | some L, some (ix', f) =>
      if ix' = ix ∧ x ≠ ix then some { E with idx := fun y => if y = x then some (L.filter fun w => f w == .nat lit) else E.idx y } else none
    | _, _ => none
  | .storeRowScalar m r ix m2 r2 c2 lit =>
    match E.mat m, E.node r, E.idx ix, E.mat m2, E.node r2, E.node c2 with
    | some M, some i, some L, some M2, some i2, some j2 =>
      let M' : AMat V n := AMat.ofFn fun a b => if a = i ∧ L.contains b then V.add (M2.get i2 j2) (.nat lit) else M.get a b
      some { E with mat := fun y => if y = m then some M' else E.mat y }
    | _, _, _, _, _, _ => none

def execs : List Stmt → Env n → Option (Env n)
  | [], E => some E
  | s :: ss, E => match exec E s with
    | some E' => execs ss E'
    | none => none

/-- the block for one `v` of `V`, inside the pass for row `u`: the environment holds `D`, `B`, `G1` and the two loop variables -/
def runBlock (ir : RelaxIR) (D B G1 : AMat V n) (u v : Fin n) : Option (AMat V n × AMat V n) :=
  let E : Env n :=
    { mat := fun y => if y = "D" then some D else if y = "B" then some B else if y = "G1" then some G1 else none,
      node := fun y => if y = ir.nodeVar then some v else if y = ir.rowVar then some u else none,
      idx := fun _ => none, arr := fun _ => none, stack := fun _ => none, vec := fun _ => none, sc := fun _ => none,
      dims := fun _ => false }
  match execs ir.body E with
  | some E' => match E'.mat "D", E'.mat "B" with
    | some D', some B' => some (D', B')
    | _, _ => none
  | none => none

/-! ### what the block is expected to contain -/

def refBody : List Stmt :=
  [ .whereRow "W" "G1" "v",
    .stack2 "td" (.rowAt "D" "u" "W") (.addScalar "D" "u" "v" (.rowAt "G1" "v" "W")),
    .minAxis0 "d" "td",
    .argminAxis0 "wi" "td",
    .storeRow "D" "u" "W" "d",
    .selectEq "ind" "W" "wi" 1,
    .storeRowScalar "B" "u" "ind" "B" "u" "v" 1 ]

def refIR : RelaxIR :=
  { recognised := true, origins := [("bool", "builtin"), ("len", "builtin"), ("np", "module numpy"), ("range", "builtin")], rowVar := "u", rowBound := "n", nodeVar := "v", nodeList := "V", body := refBody }

/-- the decidable obligation generated for the relaxation block of `distance_wei` -/
def relaxOk (ir : RelaxIR) : Bool := ir == refIR

/-! ### the whole routine

    n = len(G); D = np.zeros((n, n)); D[np.logical_not(np.eye(n))] = np.inf; B = np.zeros((n, n))
    for u in range(n):
        S = np.ones((n,), dtype=bool); G1 = G.copy(); V = [u]
        while True:
            S[V] = 0; G1[:, V] = 0
            for v in V: <block>
            if D[u, S].size == 0: break
            minD = np.min(D[u, S])
            if np.isinf(minD): break
            V, = np.where(D[u, :] == minD)
    return D, B
-/

/-- statements before the row loop -/
inductive PStmt
  /-- `x = len(m)` -/
  | len (x m : String)
  /-- `x = np.zeros((d1, d2))` -/
  | zerosMat (x d1 d2 : String)
  /-- `m[np.logical_not(np.eye(d))] = np.inf` -/
  | setOffDiagInf (m d : String)
  deriving DecidableEq, Repr

/-- statements of the row loop before `while True:` -/
inductive RStmt
  /-- `x = np.ones((d,), dtype=bool)` -/
  | onesVec (x d : String)
  /-- `x = m.copy()` -/
  | copyMat (x m : String)
  /-- `x = [u]` -/
  | listOf (x u : String)
  deriving DecidableEq, Repr

/-- statements of the `while True:` body -/
inductive WStmt
  /-- `s[v] = 0` for a boolean vector `s` and an index list `v` -/
  | clearVec (s v : String)
  /-- `m[:, v] = 0` -/
  | zeroCols (m v : String)
  /-- `for x in l: body` -/
  | forNodes (x l : String) (body : List Stmt)
  /-- `if m[r, s].size == 0: break` -/
  | breakIfNoneLeft (m r s : String)
  /-- `x = np.min(m[r, s])` -/
  | minMasked (x m r s : String)
  /-- `if np.isinf(x): break` -/
  | breakIfInf (x : String)
  /-- `x, = np.where(m[r, :] == y)` -/
  | whereEqRow (x m r y : String)
  deriving DecidableEq, Repr

structure DijkIR where
  recognised : Bool
  origins : List (String × String)
  param : String
  pre : List PStmt
  /-- `for <rowVar> in range(<rowBound>)` -/
  rowVar : String
  rowBound : String
  rowPre : List RStmt
  whileBody : List WStmt
  ret : List String
  deriving DecidableEq, Repr

def pexec (E : Env n) : PStmt → Option (Env n)
  | .len x m => match E.mat m with
    | some _ => some { E with dims := fun y => if y = x then true else E.dims y }
    | none => none
  | .zerosMat x d1 d2 =>
    if E.dims d1 ∧ E.dims d2 then
      some { E with mat := fun y => if y = x then some (AMat.ofFn fun _ _ => V.ext (.fin 0)) else E.mat y }
    else none
  | .setOffDiagInf m d => match E.mat m with
    | some M => if E.dims d then
        some { E with mat := fun y => if y = m then some (AMat.ofFn fun i j => if i = j then M.get i j else
          (match M.get i j with | .ext _ => V.ext .inf | _ => V.err)) else E.mat y }
      else none
    | none => none

def rexec (E : Env n) : RStmt → Option (Env n)
  | .onesVec x d => if E.dims d then some { E with vec := fun y => if y = x then some (Vector.ofFn fun _ => true) else E.vec y } else none
  | .copyMat x m => match E.mat m with
    | some M => some { E with mat := fun y => if y = x then some M else E.mat y }
    | none => none
  | .listOf x u => match E.node u with
    | some i => some { E with idx := fun y => if y = x then some [i] else E.idx y }
    | none => none

def pexecs : List PStmt → Env n → Option (Env n)
  | [], E => some E
  | s :: ss, E => match pexec E s with
    | some E' => pexecs ss E'
    | none => none

def rexecs : List RStmt → Env n → Option (Env n)
  | [], E => some E
  | s :: ss, E => match rexec E s with
    | some E' => rexecs ss E'
    | none => none

/-- `for x in <nodes>: body` -/
def forNodesRun (x : String) (body : List Stmt) : List (Fin n) → Env n → Option (Env n)
  | [], E => some E
  | v :: vs, E => match execs body { E with node := fun y => if y = x then some v else E.node y } with
    | some E' => forNodesRun x body vs E'
    | none => none

/-- the length stored in a float cell -/
def V.toExt? : V → Option Ext
  | .ext x => some x
  | _ => none

/-- `np.min` of the listed cells (`none` if the list is empty or a cell is not a float) -/
def minCells (xs : List V) : Option Ext :=
  if xs.isEmpty then none
  else if xs.all fun x => x.toExt?.isSome then some (xs.foldl (fun m x => match x.toExt? with | some e => Ext.min m e | none => m) .inf)
  else none

/-- one statement of the `while` body → new environment and whether `break` was executed -/
def wexec (E : Env n) : WStmt → Option (Env n × Bool)
  | .clearVec s v => match E.vec s, E.idx v with
    | some S, some L => some ({ E with vec := fun y => if y = s then some (Vector.ofFn fun w => S[w] && !(L.contains w)) else E.vec y }, false)
    | _, _ => none
  | .zeroCols m v => match E.mat m, E.idx v with
    | some M, some L =>
      some ({ E with mat := fun y => if y = m then some (AMat.ofFn fun a b => if L.contains b then
        (match M.get a b with | .ext _ => V.ext (.fin 0) | .nat _ => V.nat 0 | .err => V.err) else M.get a b) else E.mat y }, false)
    | _, _ => none
  | .forNodes x l body => match E.idx l with
    | some L => (forNodesRun x body L E).map fun E' => (E', false)
    | none => none
  | .breakIfNoneLeft m r s => match E.mat m, E.node r, E.vec s with
    | some _, some _, some S => some (E, ((List.finRange n).filter fun w => S[w]).isEmpty)
    | _, _, _ => none
  | .minMasked x m r s => match E.mat m, E.node r, E.vec s with
    | some M, some i, some S =>
      (minCells (((List.finRange n).filter fun w => S[w]).map fun w => M.get i w)).map fun e =>
        ({ E with sc := fun y => if y = x then some e else E.sc y }, false)
    | _, _, _ => none
  | .breakIfInf x => match E.sc x with
    | some e => some (E, e == Ext.inf)
    | none => none
  | .whereEqRow x m r y => match E.mat m, E.node r, E.sc y with
    | some M, some i, some e => some ({ E with idx := fun z => if z = x then some ((List.finRange n).filter fun w => M.get i w == V.ext e) else E.idx z }, false)
    | _, _, _ => none

def wexecs : List WStmt → Env n → Option (Env n × Bool)
  | [], E => some (E, false)
  | s :: ss, E => match wexec E s with
    | some (E', true) => some (E', true)
    | some (E', false) => wexecs ss E'
    | none => none

/-- `while True: body` on fuel -/
def whileTrue (body : List WStmt) : Nat → Env n → Option (Env n)
  | 0, _ => none
  | fuel + 1, E => match wexecs body E with
    | some (E', true) => some E'
    | some (E', false) => whileTrue body fuel E'
    | none => none

/-- `for u in <rows>: rowPre; while True: …` -/
def forRows (ir : DijkIR) (fuel : Nat) : List (Fin n) → Env n → Option (Env n)
  | [], E => some E
  | u :: us, E =>
    match rexecs ir.rowPre { E with node := fun y => if y = ir.rowVar then some u else E.node y } with
    | some E1 => match whileTrue ir.whileBody fuel E1 with
      | some E2 => forRows ir fuel us E2
      | none => none
    | none => none

/-- the whole routine on the length matrix `G` (cells `ext (fin g)`, `0` = no connection); `fuel` bounds every `while` loop -/
def runDijk (ir : DijkIR) (fuel : Nat) (G : AMat V n) : Option (List (AMat V n)) :=
  let E0 : Env n :=
    { mat := fun y => if y = ir.param then some G else none, node := fun _ => none, idx := fun _ => none, arr := fun _ => none,
      stack := fun _ => none, vec := fun _ => none, sc := fun _ => none, dims := fun _ => false }
  match pexecs ir.pre E0 with
  | none => none
  | some E1 =>
    if E1.dims ir.rowBound then
      match forRows ir fuel (List.finRange n) E1 with
      | some E2 => ir.ret.mapM E2.mat
      | none => none
    else none

def refWhile : List WStmt :=
  [ .clearVec "S" "V",
    .zeroCols "G1" "V",
    .forNodes "v" "V" refBody,
    .breakIfNoneLeft "D" "u" "S",
    .minMasked "minD" "D" "u" "S",
    .breakIfInf "minD",
    .whereEqRow "V" "D" "u" "minD" ]

def refDijk : DijkIR :=
  { recognised := true, origins := [("bool", "builtin"), ("len", "builtin"), ("np", "module numpy"), ("range", "builtin")],
    param := "G",
    pre := [.len "n" "G", .zerosMat "D" "n" "n", .setOffDiagInf "D" "n", .zerosMat "B" "n" "n"],
    rowVar := "u", rowBound := "n",
    rowPre := [.onesVec "S" "n", .copyMat "G1" "G", .listOf "V" "u"],
    whileBody := refWhile,
    ret := ["D", "B"] }

/-- the decidable obligation generated for the whole of `distance_wei` -/
def dijkOk (ir : DijkIR) : Bool := ir == refDijk

end Bct.CoreIR.Dijk
