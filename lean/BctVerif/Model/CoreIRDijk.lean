import BctVerif.Model.Dist
/-!
# Source-extracted relaxation block of `distance_wei`: IR, interpreter, decidable check (T-gen, C03)

`translate/cores.py` reads `bct/algorithms/distance.py` with `ast` on every check run and writes the statements of the
body of `for v in V:` inside `while True:` inside `for u in range(n):` of `distance_wei`

    W, = np.where(G1[v, :])
    td = np.array([D[u, W].flatten(), (D[u, v] + G1[v, W]).flatten()])
    d = np.min(td, axis=0)
    wi = np.argmin(td, axis=0)
    D[u, W] = d
    ind = W[np.where(wi == 1)]
    B[u, ind] = B[u, v] + 1

(together with the three loop headers that bind `u`, `V`, `v`) as a `RelaxIR` value into `BctVerif/Gen/CoresDijk.lean`, with
the obligation `relaxOk ir = true := by decide`.

One-dimensional arrays that are indexed like an index list `W` are represented by their value at every node together with
the name of the index list they are aligned with; every statement checks the alignment it needs.  `Props/CoresDijk.lean`
proves that a block that passes computes exactly `Dist.relaxFrom` on row `u` of `D` and `B`, given the loop invariant that
ties `G1[v, :]` to the length matrix and the set of temporary nodes.

Core Lean only.
-/
namespace Bct.CoreIR.Dijk
open Bct Bct.Dist

inductive V
  | ext (x : Ext)
  | nat (k : Nat)
  | err
  deriving DecidableEq

namespace V
def add : V → V → V
  | ext a, ext b => ext (a + b)
  | nat a, nat b => nat (a + b)
  | _, _ => err
/-- is the entry selected by `np.where` (non-zero; `inf` is non-zero) -/
def nonzero : V → Option Bool
  | ext (.fin q) => some (q != 0)
  | ext .inf => some true
  | nat k => some (k != 0)
  | err => none
/-- `np.min` of a column `[a, b]` -/
def min2 : V → V → V
  | ext a, ext b => ext (Ext.min a b)
  | _, _ => err
/-- `np.argmin` of a column `[a, b]`: the first position of the minimum -/
def argmin2 : V → V → V
  | ext a, ext b => nat (if Ext.lt b a then 1 else 0)
  | _, _ => err
end V

/-- a one-dimensional array aligned with an index list -/
inductive LEx
  /-- `M[r, ix].flatten()` for a scalar name `r` and an index list `ix` -/
  | rowAt (m r ix : String)
  /-- `(M[r, c] + e).flatten()` for scalar names `r`, `c` -/
  | addScalar (m r c : String) (e : LEx)
  deriving DecidableEq, Repr

inductive Stmt
  /-- `x, = np.where(M[r, :])` -/
  | whereRow (x m r : String)
  /-- `x = np.array([a, b])` -/
  | stack2 (x : String) (a b : LEx)
  /-- `x = np.min(td, axis=0)` / `x = np.argmin(td, axis=0)` -/
  | minAxis0 (x td : String)
  | argminAxis0 (x td : String)
  /-- `M[r, ix] = src` for a one-dimensional array `src` -/
  | storeRow (m r ix src : String)
  /-- `x = ix[np.where(wi == lit)]` -/
  | selectEq (x ix wi : String) (lit : Nat)
  /-- `M[r, ix] = M2[r2, c2] + lit` -/
  | storeRowScalar (m r ix m2 r2 c2 : String) (lit : Nat)
  deriving DecidableEq, Repr

/-- the block and the loop headers around it -/
structure RelaxIR where
  recognised : Bool
  /-- `for <rowVar> in range(<rowBound>)` (outermost), `for <nodeVar> in <nodeList>` (the block's own loop) -/
  rowVar : String
  rowBound : String
  nodeVar : String
  nodeList : String
  body : List Stmt
  deriving DecidableEq, Repr

/-! ### interpreter -/

variable {n : Nat}

structure Env (n : Nat) where
  mat : String → Option (AMat V n)
  node : String → Option (Fin n)
  idx : String → Option (List (Fin n))
  /-- one-dimensional arrays: the index list they are aligned with, and their value at each node of it -/
  arr : String → Option (String × (Fin n → V))
  /-- `2 × |ix|` arrays: both rows -/
  stack : String → Option (String × (Fin n → V) × (Fin n → V))

/-- `(alignment, values)` of a one-dimensional expression; all parts must be aligned with the same index list -/
def evalL (E : Env n) : LEx → Option (String × (Fin n → V))
  | .rowAt m r ix =>
    match E.mat m, E.node r, E.idx ix with
    | some M, some i, some _ => some (ix, fun w => M.get i w)
    | _, _, _ => none
  | .addScalar m r c e =>
    match E.mat m, E.node r, E.node c, evalL E e with
    | some M, some i, some j, some (ix, f) => some (ix, fun w => V.add (M.get i j) (f w))
    | _, _, _, _ => none

def exec (E : Env n) : Stmt → Option (Env n)
  | .whereRow x m r =>
    match E.mat m, E.node r with
    | some M, some i =>
      if (List.finRange n).all fun w => ((M.get i w).nonzero).isSome then
        some { E with idx := fun y => if y = x then some ((List.finRange n).filter fun w => (M.get i w).nonzero == some true) else E.idx y,
                      -- arrays aligned with an older value of `x` are no longer aligned with it
                      arr := fun y => match E.arr y with | some (ix, f) => if ix = x then none else some (ix, f) | none => none,
                      stack := fun y => match E.stack y with | some (ix, f, g) => if ix = x then none else some (ix, f, g) | none => none }
      else none
    | _, _ => none
  | .stack2 x a b =>
    match evalL E a, evalL E b with
    | some (ia, f), some (ib, g) => if ia = ib then some { E with stack := fun y => if y = x then some (ia, f, g) else E.stack y } else none
    | _, _ => none
  | .minAxis0 x td =>
    match E.stack td with
    | some (ix, f, g) => some { E with arr := fun y => if y = x then some (ix, fun w => V.min2 (f w) (g w)) else E.arr y }
    | none => none
  | .argminAxis0 x td =>
    match E.stack td with
    | some (ix, f, g) => some { E with arr := fun y => if y = x then some (ix, fun w => V.argmin2 (f w) (g w)) else E.arr y }
    | none => none
  | .storeRow m r ix src =>
    match E.mat m, E.node r, E.idx ix, E.arr src with
    | some M, some i, some L, some (ix', f) =>
      if ix' = ix then
        some { E with mat := fun y => if y = m then some (AMat.ofFn fun a b => if a = i ∧ L.contains b then f b else M.get a b) else E.mat y }
      else none
    | _, _, _, _ => none
  | .selectEq x ix wi lit =>
    match E.idx ix, E.arr wi with
    | some L, some (ix', f) =>
      if ix' = ix ∧ x ≠ ix then some { E with idx := fun y => if y = x then some (L.filter fun w => f w == .nat lit) else E.idx y } else none
    | _, _ => none
  | .storeRowScalar m r ix m2 r2 c2 lit =>
    match E.mat m, E.node r, E.idx ix, E.mat m2, E.node r2, E.node c2 with
    | some M, some i, some L, some M2, some i2, some j2 =>
      let M' : AMat V n := AMat.ofFn fun a b => if a = i ∧ L.contains b then V.add (M2.get i2 j2) (.nat lit) else M.get a b
      some { E with mat := fun y => if y = m then some M' else E.mat y }
    | _, _, _, _, _, _ => none

def execs : List Stmt → Env n → Option (Env n)
  | [], E => some E
  | s :: ss, E => match exec E s with
    | some E' => execs ss E'
    | none => none

/-- the block for one `v` of `V`, inside the pass for row `u`: the environment holds `D`, `B`, `G1` and the two loop variables -/
def runBlock (ir : RelaxIR) (D B G1 : AMat V n) (u v : Fin n) : Option (AMat V n × AMat V n) :=
  let E : Env n :=
    { mat := fun y => if y = "D" then some D else if y = "B" then some B else if y = "G1" then some G1 else none,
      node := fun y => if y = ir.nodeVar then some v else if y = ir.rowVar then some u else none,
      idx := fun _ => none, arr := fun _ => none, stack := fun _ => none }
  match execs ir.body E with
  | some E' => match E'.mat "D", E'.mat "B" with
    | some D', some B' => some (D', B')
    | _, _ => none
  | none => none

/-! ### what the block is expected to contain -/

def refBody : List Stmt :=
  [ .whereRow "W" "G1" "v",
    .stack2 "td" (.rowAt "D" "u" "W") (.addScalar "D" "u" "v" (.rowAt "G1" "v" "W")),
    .minAxis0 "d" "td",
    .argminAxis0 "wi" "td",
    .storeRow "D" "u" "W" "d",
    .selectEq "ind" "W" "wi" 1,
    .storeRowScalar "B" "u" "ind" "B" "u" "v" 1 ]

def refIR : RelaxIR :=
  { recognised := true, rowVar := "u", rowBound := "n", nodeVar := "v", nodeList := "V", body := refBody }

/-- the decidable obligation generated for the relaxation block of `distance_wei` -/
def relaxOk (ir : RelaxIR) : Bool := ir == refIR

end Bct.CoreIR.Dijk
