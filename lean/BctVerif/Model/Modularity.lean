import BctVerif.Model.Basic
/-!
# Executable model of the community-detection routines of `bct/algorithms/modularity.py`

Exact arithmetic over core `Rat`.  Contents

* the quality functions from their definitions: `Qobj`, `Qund`, `Qdir`, `Qsign`, `Qpotts`, …
* `rank` / `relabel` (= `np.unique(ci, return_inverse=True)[1] + 1`)
* the reported-q closed forms exactly as coded (`qTraceDot`, `qSignTraceDot`, `qSignOuter`, …)
* module aggregation (`agg`, with the three write orders used in the code)
* a generic node-visiting pass over a *kernel* (`Kern`: coded gain vector + coded bookkeeping update)
  with first-maximum tie breaking and the `> 1e-10` acceptance test, and the kernels of the four
  families: undirected (`Knm`,`Km`), directed (`knm_o/i`,`km_o/i`), signed (`Knm0/1`,`Km0/1`,`d0`,`d1`)
  and objective matrix (`Hnm`) — each mirrors the Python statements, including the defects that are
  still in /repo (`modularity_louvain_dir` keeps `knm_i = W.copy()` and never assigns `W = W1`)
* move-by-move replays `finetuneUnd`, `finetuneDir`, `finetuneSign`, `probtuneSign`, `louvainUnd`,
  `louvainDir`, `louvainSign`, `communityLouvain`; the visiting orders (`rng.permutation`) and the other
  draws are explicit inputs.

Aggregated levels live in the same `n × n` type: a level with `nh ≤ n` super-nodes occupies the leading
`nh × nh` corner, the remaining rows/columns are zero and the remaining nodes are singleton modules that
are never visited (`lim = nh`).
-/
namespace Bct.Modularity
open Bct

abbrev RMat (n : Nat) := AMat Rat n
abbrev RVec (n : Nat) := Vector Rat n
/-- module slot (0-based) of every node -/
abbrev Lab (n : Nat) := Vector (Fin n) n

/-! ## sums -/

def fsum {n : Nat} (f : Fin n → Rat) : Rat := ((List.finRange n).map f).sum

def total {n} (W : RMat n) : Rat := fsum fun i => fsum fun j => W.get i j
def rowSum {n} (W : RMat n) (i : Fin n) : Rat := fsum fun j => W.get i j
def colSum {n} (W : RMat n) (j : Fin n) : Rat := fsum fun i => W.get i j
def trace {n} (W : RMat n) : Rat := fsum fun i => W.get i i
def isSymm {n} (W : RMat n) : Bool :=
  (List.finRange n).all fun i => (List.finRange n).all fun j => W.get i j == W.get j i

/-! ## quality functions, from their definitions -/

/-- sum of `B` over ordered pairs of nodes with equal labels -/
def Qobj {n} {α : Type} [DecidableEq α] (B : RMat n) (c : Fin n → α) : Rat :=
  fsum fun i => fsum fun j => if c i = c j then B.get i j else 0

/-- `W − γ·k_out k_inᵀ / s` -/
def Bmod {n} (W : RMat n) (γ : Rat) : RMat n :=
  let ko : RVec n := Vector.ofFn (rowSum W)
  let ki : RVec n := Vector.ofFn (colSum W)
  let s := total W
  AMat.ofFn fun i j => W.get i j - γ * ko[i] * ki[j] / s

/-- `W − γ·k kᵀ / s` with `k` the row sums (undirected networks) -/
def Bund {n} (W : RMat n) (γ : Rat) : RMat n :=
  let k : RVec n := Vector.ofFn (rowSum W)
  let s := total W
  AMat.ofFn fun i j => W.get i j - γ * k[i] * k[j] / s

def Qdir {n} {α : Type} [DecidableEq α] (W : RMat n) (γ : Rat) (c : Fin n → α) : Rat := Qobj (Bmod W γ) c / total W
def Qund {n} {α : Type} [DecidableEq α] (W : RMat n) (γ : Rat) (c : Fin n → α) : Rat := Qobj (Bund W γ) c / total W

def posPart {n} (W : RMat n) : RMat n := AMat.ofFn fun i j => if 0 < W.get i j then W.get i j else 0
def negPart {n} (W : RMat n) : RMat n := AMat.ofFn fun i j => if W.get i j < 0 then - W.get i j else 0

inductive QType | sta | pos | smp | gja | neg
  deriving DecidableEq, Repr

def QType.ofString : String → Option QType
  | "sta" => some .sta | "pos" => some .pos | "smp" => some .smp | "gja" => some .gja | "neg" => some .neg
  | _ => none

def rinv (x : Rat) : Rat := if x = 0 then 0 else 1 / x

/-- the scale factors `d0`, `d1` of Rubinov & Sporns (2011); an absent sign contributes nothing -/
def scales (t : QType) (s0 s1 : Rat) : Rat × Rat :=
  let d : Rat × Rat := match t with
    | .smp => (rinv s0, rinv s1)
    | .gja => (rinv (s0 + s1), rinv (s0 + s1))
    | .sta => (rinv s0, rinv (s0 + s1))
    | .pos => (rinv s0, 0)
    | .neg => (0, rinv s1)
  (if s0 = 0 then 0 else d.1, if s1 = 0 then 0 else d.2)

/-- `Σ_{c i = c j} (Wp − γ k_out k_inᵀ/s_p)`, `0` if that sign is absent -/
def Qpart {n} {α : Type} [DecidableEq α] (Wp : RMat n) (γ : Rat) (c : Fin n → α) : Rat :=
  if total Wp = 0 then 0 else Qobj (Bmod Wp γ) c

def Qsign {n} {α : Type} [DecidableEq α] (t : QType) (W : RMat n) (γ : Rat) (c : Fin n → α) : Rat :=
  let W0 := posPart W; let W1 := negPart W
  let d := scales t (total W0) (total W1)
  d.1 * Qpart W0 γ c - d.2 * Qpart W1 γ c

/-- Potts-model objective matrix `W − γ·¬W` -/
def Bpotts {n} (W : RMat n) (γ : Rat) : RMat n :=
  AMat.ofFn fun i j => W.get i j - γ * (if W.get i j = 0 then 1 else 0)

def Qpotts {n} {α : Type} [DecidableEq α] (W : RMat n) (γ : Rat) (c : Fin n → α) : Rat := Qobj (Bpotts W γ) c / total W

/-! ## relabelling: `np.unique(ci, return_inverse=True)[1] + 1` -/

/-- `j` is the first node carrying its label -/
def isFirst {n} (c : Fin n → Int) (j : Fin n) : Bool :=
  (List.finRange n).all fun j' => !(decide (j'.val < j.val) && c j' == c j)

/-- number of distinct labels smaller than the label of `i` -/
def rank {n} (c : Fin n → Int) (i : Fin n) : Nat :=
  ((List.finRange n).filter fun j => isFirst c j && decide (c j < c i)).length

def relabel {n} (c : Fin n → Int) (i : Fin n) : Nat := rank c i + 1

/-- number of distinct labels -/
def numLabels {n} (c : Fin n → Int) : Nat := ((List.finRange n).filter (isFirst c)).length

instance {n} (c : Fin n → Int) : Decidable (∀ i : Fin n, rank c i < n) :=
  decidable_of_iff ((List.finRange n).all fun i => decide (rank c i < n)) (by simp)

/-- ranks as module slots; the error branch is unreachable (`relabel_range`) and never taken silently -/
def toLab {n} (c : Fin n → Int) : Except Err (Lab n) :=
  if h : ∀ i : Fin n, rank c i < n then .ok (Vector.ofFn fun i => ⟨rank c i, h i⟩) else .error .index

def labFn {n} (m : Lab n) : Fin n → Int := fun i => (m[i].val : Int)
def idLab (n : Nat) : Lab n := Vector.ofFn fun i => i

/-! ## aggregation and the reported-q closed forms, as coded -/

/-- `np.sum(W[np.ix_(m == a, m == b)])` -/
def agg {n} (W : RMat n) (m : Lab n) (a b : Fin n) : Rat :=
  fsum fun i => if m[i] = a then (fsum fun j => if m[j] = b then W.get i j else 0) else 0

/-- `for i: for j in range(i, n): W1[i,j] = W1[j,i] = block(i,j)` (louvain_und, louvain_und_sign, community_louvain) -/
def aggUpper {n} (W : RMat n) (m : Lab n) : RMat n :=
  AMat.ofFn fun a b => if a.val ≤ b.val then agg W m a b else agg W m b a

/-- `for u: for v: w[u,v] = w[v,u] = block(u,v)` — the later write wins (finetune_und) -/
def aggLower {n} (W : RMat n) (m : Lab n) : RMat n :=
  AMat.ofFn fun a b => if a.val < b.val then agg W m b a else if b.val < a.val then agg W m a b else agg W m a a

/-- `w[u,v] = block(u,v)` (finetune_dir, louvain_dir) -/
def aggFull {n} (W : RMat n) (m : Lab n) : RMat n := AMat.ofFn fun a b => agg W m a b

/-- `np.sum(np.dot(A, B))` -/
def dotSum {n} (A B : RMat n) : Rat := fsum fun i => fsum fun j => fsum fun k => A.get i k * B.get k j

/-- `np.trace(w)/s − γ·np.sum(np.dot(w/s, w/s))` -/
def qTraceDot {n} (w : RMat n) (s γ : Rat) : Rat :=
  let ws : RMat n := AMat.ofFn fun i j => w.get i j / s
  trace w / s - γ * dotSum ws ws

/-- `np.trace(W0) − γ·np.sum(np.dot(W0, W0))/s0` -/
def qTraceDotRaw {n} (w : RMat n) (s γ : Rat) : Rat := trace w - γ * dotSum w w / s

/-- `np.sum((Wp − γ·np.outer(Kn, Kn)/s) * (m == m.T))` -/
def qOuter {n} {α : Type} [DecidableEq α] (Wp : RMat n) (Kn : RVec n) (s γ : Rat) (c : Fin n → α) : Rat :=
  fsum fun i => fsum fun j => (Wp.get i j - γ * (Kn[i] * Kn[j]) / s) * (if c i = c j then 1 else 0)

/-! ## `modularity_und` / `modularity_dir` / `modularity_und_sign` with a given partition -/

/-- `modularity_und(A, gamma, kci)`: `k = Σ_axis0 A; m = Σ k; B = A − γ k kᵀ/m; q = Σ (ci_i == ci_j)·B/m` -/
def modularityUndGiven {n} {α : Type} [DecidableEq α] (W : RMat n) (γ : Rat) (c : Fin n → α) : Rat :=
  let k : RVec n := Vector.ofFn (colSum W)
  let s := total W
  fsum fun i => fsum fun j => if c i = c j then (W.get i j - γ * (k[i] * k[j]) / s) / s else 0

/-- `modularity_dir(A, gamma, kci)`: `b = A − γ k_o k_iᵀ/m; B = b + bᵀ; q = Σ (ci_i == ci_j)·B/(2m)` -/
def modularityDirGiven {n} {α : Type} [DecidableEq α] (W : RMat n) (γ : Rat) (c : Fin n → α) : Rat :=
  let Bm := Bmod W γ
  let s2 := 2 * total W
  fsum fun i => fsum fun j => if c i = c j then (Bm.get i j + Bm.get j i) / s2 else 0

/-! ## spectral bisection of `modularity_und` / `modularity_dir` (`kci=None`)

The eigen-solver and the Kernighan–Lin style sign flipping are an *oracle input*: one recorded decision
per `recur` call, in call order — `none`: "no positive split" (`q ≤ 0`), `some signs`: the final ±1
assignment over the positions of the module.  `recur` splits the module by the assignment unless one side
is empty (`np.abs(np.sum(mod_asgn)) == n`), recurses into `mod1` then `mod2`, and appends leaves to `modules`. -/

def splitBy {n} (m : List (Fin n)) (sg : List Bool) (side : Bool) : List (Fin n) :=
  (m.zip sg).filterMap fun p => if p.2 == side then some p.1 else none

def bisectL {n} : Nat → List (Fin n) → List (Option (List Bool)) →
    Except Err (List (List (Fin n)) × List (Option (List Bool)))
  | 0, _, _ => .error .outOfDraws
  | _ + 1, _, [] => .error .outOfDraws
  | _ + 1, m, none :: ds => .ok ([m], ds)
  | fuel + 1, m, some sg :: ds =>
    if sg.length ≠ m.length then .error .badDraw else
    let a := splitBy m sg true
    let b := splitBy m sg false
    if a.isEmpty || b.isEmpty then .ok ([m], ds) else do
      let (la, ds1) ← bisectL fuel a ds
      let (lb, ds2) ← bisectL fuel b ds1
      .ok (la ++ lb, ds2)

/-- `ls2ci`: label of a node = 1 + index of the (first) module that lists it -/
def ls2ci {n} (ls : List (List (Fin n))) (i : Fin n) : Nat := ls.findIdx (fun l => l.contains i) + 1

/-- `modularity_und(A, gamma)` / `modularity_dir(A, gamma)` without `kci`: bisect from one big module, `ls2ci`,
then the same `q` expression as with a given partition.  Result: labels, `q`, unused decisions. -/
def spectralRun {n} (dir : Bool) (W : RMat n) (γ : Rat) (ds : List (Option (List Bool))) :
    Except Err ((Fin n → Nat) × Rat × Nat) := do
  if total W = 0 then throw .param
  let (ls, rest) ← bisectL (n + 1) (List.finRange n) ds
  let ci := ls2ci ls
  return (ci, if dir then modularityDirGiven W γ ci else modularityUndGiven W γ ci, rest.length)

/-! ## the generic visiting pass -/

structure Kern (σ : Type) (n : Nat) where
  /-- coded gain of moving `u` from module `ma` to module `t` (entry `t` of the vector before `dq[ma] = 0`) -/
  dq : σ → Fin n → Fin n → Fin n → Rat
  /-- coded bookkeeping update for the move `u : ma → mb` -/
  move : σ → Fin n → Fin n → Fin n → σ

/-- Validation of a recorded run: `guide = some l` lists the moves bct made, as `(sweep number, node, target slot)`;
the model then *follows* bct's choice at each visited node and checks that it was admissible in exact
arithmetic (a maximiser of the exact gain, above the threshold; no move only if no gain exceeds the
threshold).  `cert` counts followed moves whose target is not the first maximiser (certified exact ties),
`bad` records an inadmissible step.  `guide = none`: plain replay with first-maximum tie breaking. -/
structure GState where
  guide : Option (List (Nat × Nat × Nat)) := none
  passNo : Nat := 0
  cert : Nat := 0
  bad : Bool := false

structure PSt (σ : Type) (n : Nat) where
  st : σ
  m : Lab n
  moves : Nat
  ties : Nat
  /-- the recorded draws ran out before the routine stopped (reported as `error=out-of-draws`) -/
  starved : Option Err := none
  g : GState := {}

/-- acceptance threshold `1e-10` -/
def thr : Rat := 1 / 10000000000

/-- `np.argmax` / `np.max` over the first `lim` entries: first maximum -/
def argmaxFirst {n} (f : Fin n → Rat) (lim : Nat) : Option (Fin n × Rat) :=
  (List.finRange n).foldl (fun best t =>
    if t.val < lim then
      match best with
      | none => some (t, f t)
      | some (b, v) => if v < f t then some (t, f t) else some (b, v)
    else best) none

/-- the gain vector with `dq[ma] = 0` -/
def gainVec {σ n} (K : Kern σ n) (st : σ) (u ma : Fin n) : Fin n → Rat :=
  fun t => if t = ma then 0 else K.dq st u ma t

/-- where the visited node goes (`none`: it stays) given its gain vector `f`, and the updated validation state -/
def chooseWith {n} (f : Fin n → Rat) (lim : Nat) (g : GState) (u : Nat) : Option (Fin n) × GState :=
  match argmaxFirst f lim with
  | none => (none, g)
  | some (mb0, mx) =>
    match g.guide with
    | none => if thr < mx then (some mb0, g) else (none, g)
    | some [] => (none, { g with bad := g.bad || decide (thr < mx) })
    | some ((p, un, tn) :: rest) =>
      if p = g.passNo ∧ un = u then
        if h : tn < n then
          if tn < lim ∧ thr < f ⟨tn, h⟩ ∧ f ⟨tn, h⟩ = mx then
            (some ⟨tn, h⟩, { g with guide := some rest, cert := g.cert + (if (⟨tn, h⟩ : Fin n) = mb0 then 0 else 1) })
          else (none, { g with bad := true })
        else (none, { g with bad := true })
      else (none, { g with bad := g.bad || decide (thr < mx) })

def choose {σ n} (K : Kern σ n) (lim : Nat) (x : PSt σ n) (u : Fin n) : Option (Fin n) × GState :=
  let dq : RVec n := Vector.ofFn (gainVec K x.st u x.m[u])
  chooseWith (fun t : Fin n => dq[t]) lim x.g u.val

/-- `1` if the maximum of the gain vector is attained more than once (diagnostics only) -/
def tieFlag {σ n} (K : Kern σ n) (lim : Nat) (x : PSt σ n) (u : Fin n) : Nat :=
  let dq : RVec n := Vector.ofFn (gainVec K x.st u x.m[u])
  match argmaxFirst (fun t : Fin n => dq[t]) lim with
  | none => 0
  | some (_, mx) =>
    if ((List.finRange n).filter fun t : Fin n => decide (t.val < lim) && dq[t] == mx).length > 1 then 1 else 0

def visit {σ n} (K : Kern σ n) (lim : Nat) (x : PSt σ n) (u : Fin n) : PSt σ n × Bool :=
  match choose K lim x u with
  | (some mb, g) =>
    ({ st := K.move x.st u x.m[u] mb, m := x.m.set u mb, moves := x.moves + 1,
       ties := x.ties + tieFlag K lim x u, starved := x.starved, g := g }, true)
  | (none, g) => ({ x with g := g }, false)

/-- one `for u in rng.permutation(n)` sweep; the flag tells whether any node moved -/
def pass {σ n} (K : Kern σ n) (lim : Nat) (x : PSt σ n) (us : List (Fin n)) : PSt σ n × Bool :=
  us.foldl (fun acc u => let r := visit K lim acc.1 u; (r.1, acc.2 || r.2)) (x, false)

/-- next `nh` draws as a visiting order of the first `nh` nodes -/
def takePerm (n nh : Nat) (ds : List Nat) : Except Err (List (Fin n) × List Nat) :=
  if ds.length < nh then .error .outOfDraws else
  match (ds.take nh).mapM (fun x => if h : x < n ∧ x < nh then some (⟨x, h.1⟩ : Fin n) else none) with
  | none => .error .badDraw
  | some us => .ok (us, ds.drop nh)

/-- `while flag:` — sweeps until one makes no move -/
def passes {σ n} (K : Kern σ n) (lim nh : Nat) : Nat → PSt σ n → List Nat → Except Err (PSt σ n × List Nat)
  | 0, x, _ => .ok ({ x with starved := some .outOfDraws }, [])
  | fuel + 1, x, ds =>
    match takePerm n nh ds with
    | .error e => .ok ({ x with starved := some e }, [])
    | .ok (us, rest) =>
      let r := pass K lim { x with g := { x.g with passNo := x.g.passNo + 1 } } us
      if r.2 then passes K lim nh fuel r.1 rest else .ok (r.1, rest)

/-! ## the four kernels -/

/-- undirected: `Knm`, `Km` -/
structure UndSt (n : Nat) where
  W : RMat n
  k : RVec n
  Knm : RMat n
  Km : RVec n
  s : Rat
  γ : Rat

def colAdd {n} (M : RMat n) (col : Fin n → Rat) (ma mb : Fin n) : RMat n :=
  AMat.ofFn fun i t => M.get i t + (if t = mb then col i else 0) - (if t = ma then col i else 0)
def vecAdd {n} (v : RVec n) (x : Rat) (ma mb : Fin n) : RVec n :=
  Vector.ofFn fun t => v[t] + (if t = mb then x else 0) - (if t = ma then x else 0)

def undKern (n : Nat) : Kern (UndSt n) n where
  dq st u ma t := (st.Knm.get u t - st.Knm.get u ma + st.W.get u u)
    - st.γ * st.k[u] * (st.Km[t] - st.Km[ma] + st.k[u]) / st.s
  move st u ma mb := { st with
    Knm := colAdd st.Knm (fun i => st.W.get i u) ma mb
    Km := vecAdd st.Km st.k[u] ma mb }

/-- `knm[:, m] = Σ W[:, ci == m+1]; k = Σ_axis1 knm; km = Σ_axis0 knm` -/
def undInitFine {n} (W : RMat n) (γ : Rat) (c : Lab n) : UndSt n :=
  let Knm : RMat n := AMat.ofFn fun i t => fsum fun j => if c[j] = t then W.get i j else 0
  { W := W, Knm := Knm, k := Vector.ofFn fun i => fsum fun t => Knm.get i t,
    Km := Vector.ofFn fun t => fsum fun i => Knm.get i t, s := total W, γ := γ }

/-- `k = Σ_axis0 W; Km = k.copy(); Knm = W.copy()` -/
def undInitLevel {n} (W : RMat n) (s γ : Rat) : UndSt n :=
  let k : RVec n := Vector.ofFn (colSum W)
  { W := W, Knm := W, k := k, Km := k, s := s, γ := γ }

/-- directed: `knm_o`, `knm_i`, `km_o`, `km_i` -/
structure DirSt (n : Nat) where
  W : RMat n
  ko : RVec n
  ki : RVec n
  knmo : RMat n
  knmi : RMat n
  kmo : RVec n
  kmi : RVec n
  s : Rat
  γ : Rat

def dirKern (n : Nat) : Kern (DirSt n) n where
  dq st u ma t :=
    (((st.knmo.get u t - st.knmo.get u ma + st.W.get u u)
        - st.γ * st.ko[u] * (st.kmi[t] - st.kmi[ma] + st.ki[u]) / st.s)
     + ((st.knmi.get u t - st.knmi.get u ma + st.W.get u u)
        - st.γ * st.ki[u] * (st.kmo[t] - st.kmo[ma] + st.ko[u]) / st.s)) / 2
  move st u ma mb := { st with
    knmo := colAdd st.knmo (fun i => st.W.get u i) ma mb      -- `knm_o[:, mb] += W[u, :].T`
    knmi := colAdd st.knmi (fun i => st.W.get i u) ma mb      -- `knm_i[:, mb] += W[:, u]`
    kmo := vecAdd st.kmo st.ko[u] ma mb
    kmi := vecAdd st.kmi st.ki[u] ma mb }

/-- `modularity_finetune_dir`: `km_o = Σ_axis0 knm_i` (module out-strength), `km_i = Σ_axis0 knm_o` (module in-strength) -/
def dirInitFine {n} (W : RMat n) (γ : Rat) (c : Lab n) : DirSt n :=
  let knmo : RMat n := AMat.ofFn fun i t => fsum fun j => if c[j] = t then W.get i j else 0
  let knmi : RMat n := AMat.ofFn fun i t => fsum fun j => if c[j] = t then W.get j i else 0
  { W := W, knmo := knmo, knmi := knmi,
    ko := Vector.ofFn fun i => fsum fun t => knmo.get i t, ki := Vector.ofFn fun i => fsum fun t => knmi.get i t,
    kmo := Vector.ofFn fun t => fsum fun i => knmi.get i t, kmi := Vector.ofFn fun t => fsum fun i => knmo.get i t,
    s := total W, γ := γ }

/-- `modularity_louvain_dir` as coded: `knm_o = W.copy(); knm_i = W.copy()` -/
def dirInitLevel {n} (W : RMat n) (s γ : Rat) : DirSt n :=
  let ko : RVec n := Vector.ofFn (rowSum W)
  let ki : RVec n := Vector.ofFn (colSum W)
  { W := W, ko := ko, ki := ki, kmo := ko, kmi := ki, knmo := W, knmi := W, s := s, γ := γ }

/-- signed: `Knm0/1`, `Km0/1`, scale factors -/
structure SignSt (n : Nat) where
  W0 : RMat n
  W1 : RMat n
  Kn0 : RVec n
  Kn1 : RVec n
  Knm0 : RMat n
  Knm1 : RMat n
  Km0 : RVec n
  Km1 : RVec n
  s0 : Rat
  s1 : Rat
  d0 : Rat
  d1 : Rat
  γ : Rat

def signKern (n : Nat) : Kern (SignSt n) n where
  dq st u ma t :=
    st.d0 * ((st.Knm0.get u t + st.W0.get u u - st.Knm0.get u ma)
        - st.γ * st.Kn0[u] * (st.Km0[t] + st.Kn0[u] - st.Km0[ma]) / st.s0)
    - st.d1 * ((st.Knm1.get u t + st.W1.get u u - st.Knm1.get u ma)
        - st.γ * st.Kn1[u] * (st.Km1[t] + st.Kn1[u] - st.Km1[ma]) / st.s1)
  move st u ma mb := { st with
    Knm0 := colAdd st.Knm0 (fun i => st.W0.get i u) ma mb
    Knm1 := colAdd st.Knm1 (fun i => st.W1.get i u) ma mb
    Km0 := vecAdd st.Km0 st.Kn0[u] ma mb
    Km1 := vecAdd st.Km1 st.Kn1[u] ma mb }

/-- `if not s0: s0 = 1; d0 = 0` -/
def adj (s : Rat) : Rat := if s = 0 then 1 else s

def signInitFine {n} (t : QType) (W : RMat n) (γ : Rat) (c : Lab n) : SignSt n :=
  let W0 := posPart W; let W1 := negPart W
  let s0 := total W0; let s1 := total W1
  let d := scales t s0 s1
  let Knm0 : RMat n := AMat.ofFn fun i t => fsum fun j => if c[j] = t then W0.get i j else 0
  let Knm1 : RMat n := AMat.ofFn fun i t => fsum fun j => if c[j] = t then W1.get i j else 0
  { W0 := W0, W1 := W1, Knm0 := Knm0, Knm1 := Knm1,
    Kn0 := Vector.ofFn fun i => fsum fun t => Knm0.get i t, Kn1 := Vector.ofFn fun i => fsum fun t => Knm1.get i t,
    Km0 := Vector.ofFn fun t => fsum fun i => Knm0.get i t, Km1 := Vector.ofFn fun t => fsum fun i => Knm1.get i t,
    s0 := adj s0, s1 := adj s1, d0 := d.1, d1 := d.2, γ := γ }

def signInitLevel {n} (W0 W1 : RMat n) (s0 s1 d0 d1 γ : Rat) : SignSt n :=
  let kn0 : RVec n := Vector.ofFn (colSum W0)
  let kn1 : RVec n := Vector.ofFn (colSum W1)
  { W0 := W0, W1 := W1, Kn0 := kn0, Kn1 := kn1, Km0 := kn0, Km1 := kn1, Knm0 := W0, Knm1 := W1,
    s0 := s0, s1 := s1, d0 := d0, d1 := d1, γ := γ }

/-- objective matrix: `Hnm` -/
structure ObjSt (n : Nat) where
  B : RMat n
  Hnm : RMat n

def objKern (n : Nat) : Kern (ObjSt n) n where
  dq st u ma t := st.Hnm.get u t - st.Hnm.get u ma + st.B.get u u
  move st u ma mb := { st with Hnm := colAdd st.Hnm (fun i => st.B.get i u) ma mb }

def objInit {n} (B : RMat n) (c : Lab n) : ObjSt n :=
  { B := B, Hnm := AMat.ofFn fun i t => fsum fun j => if c[j] = t then B.get i j else 0 }

/-! ## results -/

structure Out (n : Nat) where
  levels : List (Lab n × Rat)
  moves : Nat
  ties : Nat
  left : Nat
  starved : Option Err := none
  g : GState := {}

def pst0 {σ n} (st : σ) (m : Lab n) (g : GState := {}) : PSt σ n := { st := st, m := m, moves := 0, ties := 0, g := g }

/-! ## fine-tuning routines (single level, start partition given) -/

def finetuneUnd {n} (W : RMat n) (γ : Rat) (c0 : Fin n → Int) (ds : List Nat) (g0 : GState := {}) : Except Err (Out n) := do
  if total W = 0 then throw .param
  let c ← toLab c0
  let (x, rest) ← passes (undKern n) n n (ds.length + 1) (pst0 (undInitFine W γ c) c g0) ds
  let c' ← toLab (labFn x.m)
  let q := qTraceDot (aggLower W c') (total W) γ
  return { levels := [(c', q)], moves := x.moves, ties := x.ties, left := rest.length, starved := x.starved, g := x.g }

def finetuneDir {n} (W : RMat n) (γ : Rat) (c0 : Fin n → Int) (ds : List Nat) (g0 : GState := {}) : Except Err (Out n) := do
  if total W = 0 then throw .param
  let c ← toLab c0
  let (x, rest) ← passes (dirKern n) n n (ds.length + 1) (pst0 (dirInitFine W γ c) c g0) ds
  let c' ← toLab (labFn x.m)
  let q := qTraceDot (aggFull W c') (total W) γ
  return { levels := [(c', q)], moves := x.moves, ties := x.ties, left := rest.length, starved := x.starved, g := x.g }

/-- `d0·Σq0 − d1·Σq1` of the signed fine-tuners (`Kn0`, `Kn1` are the initial node strengths) -/
def qSignOuter {n} (st : SignSt n) (c : Lab n) : Rat :=
  st.d0 * qOuter st.W0 st.Kn0 st.s0 st.γ (fun i => c[i]) - st.d1 * qOuter st.W1 st.Kn1 st.s1 st.γ (fun i => c[i])

/-- `modularity_und_sign(W, ci, qtype)`: relabel, node strengths from `Knm0/1`, `q = d0·Σq0 − d1·Σq1` (γ = 1) -/
def modularityUndSignGiven {n} (t : QType) (W : RMat n) (c0 : Fin n → Int) : Except Err (Lab n × Rat) := do
  let c ← toLab c0
  return (c, qSignOuter (signInitFine t W 1 c) c)

def finetuneSign {n} (t : QType) (W : RMat n) (γ : Rat) (c0 : Fin n → Int) (ds : List Nat) (g0 : GState := {}) : Except Err (Out n) := do
  let c ← toLab c0
  let st0 := signInitFine t W γ c
  let (x, rest) ← passes (signKern n) n n (ds.length + 1) (pst0 st0 c g0) ds
  let c' ← toLab (labFn x.m)
  return { levels := [(c', qSignOuter st0 c')], moves := x.moves, ties := x.ties, left := rest.length, starved := x.starved, g := x.g }

/-- one node of `modularity_probtune_und_sign`: `r = rng.random_sample() < p`; random target or best gain -/
def probVisit {n} (p : Rat) (x : PSt (SignSt n) n) (u : Fin n) (ds : List Nat) : Except Err (PSt (SignSt n) n × List Nat) :=
  match ds with
  | [] => .error .outOfDraws
  | v :: ds =>
    let ma := x.m[u]
    if (v : Rat) / 9007199254740992 < p then
      match ds with
      | [] => .error .outOfDraws
      | r :: ds =>
        if h : r < n then
          let mb : Fin n := ⟨r, h⟩
          -- a random move is a move bct made: when validating it must be the next recorded one
          let g' : GState := match x.g.guide with
            | none => x.g
            | some [] => { x.g with bad := true }
            | some ((p, un, tn) :: rest) =>
              if p = x.g.passNo ∧ un = u.val ∧ tn = r then { x.g with guide := some rest } else { x.g with bad := true }
          .ok ({ x with st := (signKern n).move x.st u ma mb, m := x.m.set u mb, moves := x.moves + 1, g := g' }, ds)
        else .error .badDraw
    else .ok ((visit (signKern n) n x u).1, ds)

def probLoop {n} (p : Rat) : List (Fin n) → PSt (SignSt n) n → List Nat → Except Err (PSt (SignSt n) n × List Nat)
  | [], x, ds => .ok (x, ds)
  | u :: us, x, ds => do
    let (x', ds') ← probVisit p x u ds
    probLoop p us x' ds'

def probtuneSign {n} (t : QType) (W : RMat n) (γ p : Rat) (c0 : Fin n → Int) (ds : List Nat) (g0 : GState := {}) : Except Err (Out n) := do
  let c ← toLab c0
  let st0 := signInitFine t W γ c
  let (us, rest) ← takePerm n n ds
  let (x, rest) ← probLoop p us (pst0 st0 c { g0 with passNo := 1 }) rest
  let c' ← toLab (labFn x.m)
  return { levels := [(c', qSignOuter st0 c')], moves := x.moves, ties := x.ties, left := rest.length, starved := x.starved, g := x.g }

/-! ## Louvain routines (levels) -/

/-- composite labels `ci[h][ci[h-1] == i+1] = m[i]` -/
def compose {n} (ci m : Lab n) : Lab n := Vector.ofFn fun v => m[ci[v]]

/-- number of super-nodes of the next level: distinct labels among the first `nh` nodes -/
def nextSize {n} (m : Lab n) (nh : Nat) : Nat :=
  ((List.finRange n).filter fun j => decide (j.val < nh) && isFirst (labFn m) j).length

structure LvSt (n : Nat) where
  nh : Nat
  ci : Lab n
  qprev : Rat
  /-- `false` at the first level of `modularity_louvain_und/_dir`: their `q[0] = -inf` lies below every modularity value -/
  hasPrev : Bool := true
  acc : List (Lab n × Rat)      -- levels so far, most recent first
  moves : Nat
  ties : Nat
  starved : Option Err := none
  g : GState := {}

/-- `modularity_louvain_und`: result = the levels `1..h-1` it keeps (`q[0] = -inf`, so level 1 is always kept);
`hierarchy=True` returns all of them, the plain call returns the last. -/
def louvainUndLoop {n} (s γ : Rat) : Nat → RMat n → LvSt n → List Nat → Except Err (LvSt n × List Nat)
  | 0, _, _, _ => .error .outOfDraws
  | fuel + 1, W, L, ds => do
    let (x, rest) ← passes (undKern n) L.nh L.nh (ds.length + 1) (pst0 (undInitLevel W s γ) (idLab n) L.g) ds
    if x.starved.isSome then return ({ L with moves := L.moves + x.moves, ties := L.ties + x.ties, starved := x.starved, g := x.g }, rest)
    let m' ← toLab (labFn x.m)
    let ci' := compose L.ci m'
    let W1 := aggUpper W m'
    let q := qTraceDot W1 s γ
    let L' : LvSt n := { nh := nextSize m' L.nh, ci := ci', qprev := q, acc := (ci', q) :: L.acc,
                         moves := L.moves + x.moves, ties := L.ties + x.ties, g := x.g }
    if L.hasPrev && decide (q - L.qprev < thr) then .ok ({ L with moves := L'.moves, ties := L'.ties, g := x.g }, rest)
    else louvainUndLoop s γ fuel W1 L' rest

/-- start of `modularity_louvain_und/_dir`: `ci[0]` = singletons, `q[0] = -inf` (no previous value: the first level is always kept) -/
def lv0 (n : Nat) (g : GState := {}) : LvSt n := { nh := n, ci := idLab n, qprev := 0, hasPrev := false, acc := [], moves := 0, ties := 0, g := g }

def louvainUnd {n} (W : RMat n) (γ : Rat) (ds : List Nat) (g0 : GState := {}) : Except Err (Out n) := do
  if total W = 0 then throw .param
  let (L, rest) ← louvainUndLoop (total W) γ (ds.length + 1) W (lv0 n g0) ds
  return { levels := L.acc.reverse, moves := L.moves, ties := L.ties, left := rest.length, starved := L.starved, g := L.g }

/-- labels of the first `nh` nodes, the others pushed above every slot (so that ranks of the first `nh`
are computed among themselves, as `np.unique(m)` on the length-`nh` vector does) -/
def labFnA {n} (m : Lab n) (nh : Nat) : Fin n → Int :=
  fun i => if i.val < nh then (m[i].val : Int) else (n + i.val : Nat)

def aggA {n} (W : RMat n) (m : Lab n) (nh : Nat) : RMat n :=
  AMat.ofFn fun a b => fsum fun i => if i.val < nh ∧ m[i] = a then
    (fsum fun j => if j.val < nh ∧ m[j] = b then W.get i j else 0) else 0

/-- `modularity_louvain_dir` **as coded**: `W1` is computed but `W` is never replaced, so every level
reads the leading corner of the original matrix with full-length strength vectors (`lim = n`). -/
def louvainDirLoop {n} (W : RMat n) (s γ : Rat) : Nat → LvSt n → List Nat → Except Err (LvSt n × List Nat)
  | 0, _, _ => .error .outOfDraws
  | fuel + 1, L, ds => do
    let (x, rest) ← passes (dirKern n) n L.nh (ds.length + 1) (pst0 (dirInitLevel W s γ) (idLab n) L.g) ds
    if x.starved.isSome then return ({ L with moves := L.moves + x.moves, ties := L.ties + x.ties, starved := x.starved, g := x.g }, rest)
    let m' ← toLab (labFnA x.m L.nh)
    let ci' := compose L.ci m'
    let W1 := aggA W m' L.nh
    let q := qTraceDot W1 s γ
    let nh' := ((List.finRange n).filter fun j => decide (j.val < L.nh) && isFirst (labFnA x.m L.nh) j).length
    let L' : LvSt n := { nh := nh', ci := ci', qprev := q, acc := (ci', q) :: L.acc,
                         moves := L.moves + x.moves, ties := L.ties + x.ties, g := x.g }
    if L.hasPrev && decide (q - L.qprev < thr) then .ok ({ L with moves := L'.moves, ties := L'.ties, g := x.g }, rest)
    else louvainDirLoop W s γ fuel L' rest

def louvainDir {n} (W : RMat n) (γ : Rat) (ds : List Nat) (g0 : GState := {}) : Except Err (Out n) := do
  if total W = 0 then throw .param
  let (L, rest) ← louvainDirLoop W (total W) γ (ds.length + 1) (lv0 n g0) ds
  return { levels := L.acc.reverse, moves := L.moves, ties := L.ties, left := rest.length, starved := L.starved, g := L.g }

/-- `q[h] = d0·(tr W0 − γ ΣW0W0/s0) − d1·(tr W1 − γ ΣW1W1/s1)` -/
def qSignTraceDot {n} (W0 W1 : RMat n) (s0 s1 d0 d1 γ : Rat) : Rat :=
  d0 * qTraceDotRaw W0 s0 γ - d1 * qTraceDotRaw W1 s1 γ

/-- `modularity_louvain_und_sign`: `q = [-1, 0]; while q[h] − q[h-1] > 1e-10: …`; returns the last level -/
def louvainSignLoop {n} (s0 s1 d0 d1 γ : Rat) : Nat → RMat n → RMat n → LvSt n → Rat → List Nat → Except Err (LvSt n × List Nat)
  | 0, _, _, _, _, _ => .error .outOfDraws
  | fuel + 1, W0, W1, L, qcur, ds =>
    if thr < qcur - L.qprev then do
      let (x, rest) ← passes (signKern n) L.nh L.nh (ds.length + 1) (pst0 (signInitLevel W0 W1 s0 s1 d0 d1 γ) (idLab n) L.g) ds
      if x.starved.isSome then return ({ L with moves := L.moves + x.moves, ties := L.ties + x.ties, starved := x.starved, g := x.g }, rest)
      let m' ← toLab (labFn x.m)
      let ci' := compose L.ci m'
      let W0' := aggUpper W0 m'
      let W1' := aggUpper W1 m'
      let q := qSignTraceDot W0' W1' s0 s1 d0 d1 γ
      let L' : LvSt n := { nh := nextSize m' L.nh, ci := ci', qprev := qcur, acc := (ci', q) :: L.acc,
                           moves := L.moves + x.moves, ties := L.ties + x.ties, g := x.g }
      louvainSignLoop s0 s1 d0 d1 γ fuel W0' W1' L' q rest
    else .ok (L, ds)

def louvainSign {n} (t : QType) (W : RMat n) (γ : Rat) (ds : List Nat) (g0 : GState := {}) : Except Err (Out n) := do
  let W0 := posPart W; let W1 := negPart W
  let s0 := total W0; let s1 := total W1
  let d := scales t s0 s1
  -- `q = [-1, 0]`, `ci = [None, arange]`: the two placeholders only drive the `while`, they are never returned and are not listed
  let L0 : LvSt n := { nh := n, ci := idLab n, qprev := -1, acc := [], moves := 0, ties := 0, g := g0 }
  let (L, rest) ← louvainSignLoop (adj s0) (adj s1) d.1 d.2 γ (ds.length + 1) W0 W1 L0 0 ds
  return { levels := L.acc.reverse, moves := L.moves, ties := L.ties, left := rest.length, starved := L.starved, g := L.g }

/-! ## community_louvain -/

inductive Objective (n : Nat) | modularity | potts | negSym | negAsym | custom (B : RMat n)

def symmetrise {n} (B : RMat n) : RMat n := AMat.ofFn fun i j => (B.get i j + B.get j i) / 2

/-- the objective matrix of each built-in type before the final symmetrisation -/
def objMatrixRaw {n} (W : RMat n) (γ : Rat) : Objective n → RMat n
  | .modularity => Bmod W γ
  | .potts => Bpotts W γ
  | .negSym =>
    let W0 := posPart W; let W1 := negPart W; let s0 := total W0; let s1 := total W1
    let B0 := Bmod W0 γ; let B1 := Bmod W1 γ
    AMat.ofFn fun i j => B0.get i j / (s0 + s1) - (if s1 = 0 then 0 else B1.get i j) / (s0 + s1)
  | .negAsym =>
    let W0 := posPart W; let W1 := negPart W; let s0 := total W0; let s1 := total W1
    let B0 := Bmod W0 γ; let B1 := Bmod W1 γ
    AMat.ofFn fun i j => B0.get i j / s0 - (if s1 = 0 then 0 else B1.get i j) / (s0 + s1)
  | .custom B => B     -- `if not allclose(B, B.T): B = (B + B.T)/2` is absorbed by the symmetrisation below

/-- the objective matrix exactly as `community_louvain` builds it: `B = (B + B.T) / 2` for every objective -/
def objMatrix {n} (W : RMat n) (γ : Rat) (obj : Objective n) : RMat n := symmetrise (objMatrixRaw W γ obj)

def Objective.renorm {n} : Objective n → Bool
  | .negSym | .negAsym => true
  | _ => false

/-- `while q − q0 > 1e-10:` with `q0 = −inf` first; the first level starts from the given partition -/
def clLoop {n} : Nat → RMat n → Lab n → LvSt n → Option Rat → Rat → List Nat → Except Err (LvSt n × Rat × List Nat)
  | 0, _, _, _, _, _, _ => .error .outOfDraws
  | fuel + 1, B, Mb, L, q0, q, ds =>
    if (match q0 with | none => true | some q0 => decide (thr < q - q0)) then do
      let (x, rest) ← passes (objKern n) L.nh L.nh (ds.length + 1) (pst0 (objInit B Mb) Mb L.g) ds
      if x.starved.isSome then return ({ L with moves := L.moves + x.moves, ties := L.ties + x.ties, starved := x.starved, g := x.g }, q, rest)
      let m' ← toLab (labFn x.m)
      let ci' := compose L.ci m'
      let B1 := aggUpper B m'
      let L' : LvSt n := { nh := nextSize m' L.nh, ci := ci', qprev := q, acc := (ci', trace B1) :: L.acc,
                           moves := L.moves + x.moves, ties := L.ties + x.ties, g := x.g }
      clLoop fuel B1 (idLab n) L' (some q) (trace B1) rest
    else .ok (L, q, ds)

def communityLouvain {n} (W : RMat n) (γ : Rat) (obj : Objective n) (c0 : Fin n → Int) (ds : List Nat) (g0 : GState := {}) : Except Err (Out n) := do
  let s := total W
  if s = 0 then throw .param
  if obj.renorm && total (posPart W) = 0 then throw .param
  let c ← toLab c0
  let B := objMatrix W γ obj
  let q := Qobj B (fun i => c[i]) / s
  let L0 : LvSt n := { nh := n, ci := idLab n, qprev := q, acc := [], moves := 0, ties := 0, g := g0 }
  let (L, qf, rest) ← clLoop (ds.length + 1) B c L0 none q ds
  let qret := if obj.renorm then qf else qf / s
  match L.acc with
  | [] => return { levels := [], moves := L.moves, ties := L.ties, left := rest.length, starved := some (L.starved.getD .protocol), g := L.g }
  | (ci, _) :: _ => return { levels := [(ci, qret)], moves := L.moves, ties := L.ties, left := rest.length, starved := L.starved, g := L.g }

/-! ## driver -/

def parseRat (s : String) : Option Rat :=
  match s.splitOn "/" with
  | [a] => (a.toInt?).map fun x => (x : Rat)
  | [a, b] => do
    let x ← a.toInt?
    let y ← b.toNat?
    if y = 0 then none else some ((x : Rat) / (y : Rat))
  | _ => none

def parseRats (s : String) : Option (List Rat) :=
  if s == "-" || s == "" then some [] else (s.splitOn ",").mapM parseRat

def parseRMat (n : Nat) (s : String) : Option (RMat n) := do
  let xs ← parseRats s
  if xs.length == n * n then
    let a := xs.toArray
    some (AMat.ofFn fun i j => a[i.val * n + j.val]!)
  else none

def parseLabels (n : Nat) (s : String) : Option (Fin n → Int) := do
  let xs ← parseInts s
  if xs.length == n then
    let a := xs.toArray
    some fun i => a[i.val]!
  else none

def showRat (r : Rat) : String := s!"{r.num}/{r.den}"
def showLab {n} (c : Lab n) : String :=
  if n = 0 then "-" else ",".intercalate ((List.finRange n).map fun i => toString (c[i].val + 1))

def showOut {n} (o : Out n) : String :=
  if let some e := o.starved then s!"error={e.str} moves={o.moves} ties={o.ties}" else
  -- validating a recorded run: every recorded move must have been followed and found admissible
  if o.g.bad || (match o.g.guide with | some (_ :: _) => true | _ => false) then
    s!"error=inadmissible moves={o.moves} ties={o.ties} cert={o.g.cert}" else
  let ls := "|".intercalate (o.levels.map fun l => showLab l.1)
  let qs := "|".intercalate (o.levels.map fun l => showRat l.2)
  s!"levels={ls} q={qs} moves={o.moves} ties={o.ties} left={o.left} cert={o.g.cert}"

def showRes {n} : Except Err (Out n) → String
  | .ok o => showOut o
  | .error e => s!"error={e.str}"

/-- definition and coded closed form of the quality of a given partition -/
def qOp {n} (kind routine : String) (W : RMat n) (γ : Rat) (c0 : Fin n → Int) (opt : Option String) (Bc : Option (RMat n)) :
    Option String := do
  let c ← (match toLab c0 with | .ok c => some c | .error _ => none)
  let cf : Fin n → Fin n := fun i => c[i]
  let (qdef, qcode) ← (match kind with
    | "und" =>
      if total W = 0 then none else
      let code := if routine == "modularity_finetune_und" then qTraceDot (aggLower W c) (total W) γ
        else if routine == "modularity_louvain_und" then qTraceDot (aggUpper W c) (total W) γ
        else modularityUndGiven W γ cf
      some (Qund W γ cf, code)
    | "dir" =>
      if total W = 0 then none else
      let code := if routine == "modularity_dir" then modularityDirGiven W γ cf
        else qTraceDot (aggFull W c) (total W) γ
      some (Qdir W γ cf, code)
    | "sign" => do
      let t ← QType.ofString (← opt)
      let st0 := signInitFine t W γ c
      let code ← (if routine == "modularity_louvain_und_sign" then
          some (qSignTraceDot (aggUpper st0.W0 c) (aggUpper st0.W1 c) st0.s0 st0.s1 st0.d0 st0.d1 γ)
        else if routine == "modularity_und_sign" then
          -- the given-partition routine itself (the subject of `modularity_und_sign_given`), not a twin of it
          (match modularityUndSignGiven t W c0 with | .ok r => some r.2 | .error _ => none)
        else some (qSignOuter st0 c))
      some (Qsign t W γ cf, code)
    | "obj" => do
      let o ← opt
      if total W = 0 then none else
      let obj : Objective n ← (match o with
        | "modularity" => some .modularity | "potts" => some .potts | "negative_sym" => some .negSym
        | "negative_asym" => some .negAsym | "custom" => Bc.map .custom | _ => none)
      if obj.renorm && total (posPart W) = 0 then none else
      let B := objMatrix W γ obj
      let tr := trace (aggUpper B c)
      let code := if obj.renorm then tr else tr / total W
      let dfn := match obj with
        | .modularity => Qdir W γ cf
        | .potts => Qpotts W γ cf
        | .negSym => Qsign .gja W γ cf
        | .negAsym => Qsign .sta W γ cf
        | .custom B => Qobj B cf / total W
      some (dfn, code)
    | _ => none)
  some s!"relabel={showLab c} k={numLabels c0} qdef={showRat qdef} qcode={showRat qcode}"

/-- `p:u:t,p:u:t,…` — the moves bct made: sweep number, node, target slot -/
def parseGuide (s : String) : Option (List (Nat × Nat × Nat)) :=
  if s == "-" || s == "" then some [] else
  (s.splitOn ",").mapM fun tok => match tok.splitOn ":" with
    | [a, b, c] => do some ((← a.toNat?), (← b.toNat?), (← c.toNat?))
    | _ => none

/-- `L` = leaf, or a string of `+`/`-` = the ±1 assignment over the module's positions -/
def parseOracle (s : String) : Option (List (Option (List Bool))) :=
  if s == "-" || s == "" then some [] else
  (s.splitOn ",").mapM fun tok =>
    if tok == "L" then some none
    else if tok.toList.all (fun ch => ch == '+' || ch == '-') then some (some (tok.toList.map (· == '+')))
    else none

def step (line : String) : String :=
  let (op, kv) := parseLine line
  let res : Option String := do
    let n ← (← lookup kv "n").toNat?
    if n < 1 then none
    let W ← parseRMat n (← lookup kv "W")
    let γ ← parseRat (← lookup kv "gamma")
    let c0 : Fin n → Int ← (match lookup kv "ci" with
      | some s => parseLabels n s
      | none => some fun i => (i.val : Int))
    let opt := lookup kv "opt"
    let Bc : Option (RMat n) ← (match lookup kv "B" with
      | some s => (parseRMat n s).map some
      | none => some none)
    if op == "q" then
      qOp (← lookup kv "kind") (← lookup kv "routine") W γ c0 opt Bc
    else if op == "spectral" then
      let dir ← (match lookup kv "kind" with | some "dir" => some true | some "und" => some false | _ => none)
      let orc ← parseOracle (← lookup kv "oracle")
      match spectralRun dir W γ orc with
      | .error e => some s!"error={e.str}"
      | .ok (ci, q, left) =>
        some s!"ci={",".intercalate ((List.finRange n).map fun i => toString (ci i))} q={showRat q} left={left}"
    else
      let ds ← parseNats (← lookup kv "draws")
      let g0 : GState ← (match lookup kv "guide" with
        | some s => (parseGuide s).map fun l => ({ guide := some l } : GState)
        | none => some {})
      match op with
      | "finetune_und" => some (showRes (finetuneUnd W γ c0 ds g0))
      | "finetune_dir" => some (showRes (finetuneDir W γ c0 ds g0))
      | "louvain_und" => some (showRes (louvainUnd W γ ds g0))
      | "louvain_dir" => some (showRes (louvainDir W γ ds g0))
      | "finetune_sign" => do
        let t ← QType.ofString (← opt)
        some (showRes (finetuneSign t W γ c0 ds g0))
      | "probtune_sign" => do
        let t ← QType.ofString (← opt)
        let p ← parseRat (← lookup kv "p")
        some (showRes (probtuneSign t W γ p c0 ds g0))
      | "louvain_sign" => do
        let t ← QType.ofString (← opt)
        some (showRes (louvainSign t W γ ds g0))
      | "community_louvain" => do
        let obj : Objective n ← (match (← opt) with
          | "modularity" => some .modularity | "potts" => some .potts | "negative_sym" => some .negSym
          | "negative_asym" => some .negAsym | "custom" => Bc.map .custom | _ => none)
        some (showRes (communityLouvain W γ obj c0 ds g0))
      | _ => none
  res.getD "error=protocol"

end Bct.Modularity
