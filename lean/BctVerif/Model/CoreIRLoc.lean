import BctVerif.Model.CoreIREff
import BctVerif.Model.LocalEff
/-!
# T-gen for the `if local:` branch of `efficiency_bin` (bct/algorithms/efficiency.py) — IR, interpreter, decidable check

`Model/CoreIREff.lean` covers the nested `distance_inv` and the `else:` branch; this file covers the other branch:

    G = binarize(G)
    n = len(G)
    if local:
        E = np.zeros((n,))
        for u in range(n):
            V, = np.where(np.logical_or(G[u, :], G[:, u].T))
            e = distance_inv(G[np.ix_(V, V)])
            se = e + e.T
            sa = G[u, V] + G[V, u].T
            numer = np.sum(np.outer(sa.T, sa) * se) / 2
            if numer != 0:
                denom = np.sum(sa)**2 - np.sum(sa * sa)
                E[u] = numer / denom
    …
    return E

`LocIR` has a fixed shape (statements matched positionally, one field per name and literal); the nested function is the same
`Bin.BinIR` value as in `EffIR`, run at the dimension of the neighbourhood.  The interpreter computes one entry `E[u]` (the
iterations of the loop do not read each other's writes): `none` = a failed run or a division by zero (NumPy: `inf` / `nan`).
-/
namespace Bct.CoreIR.Loc
open Bct Bct.Dist Bct.CoreIR.Bin Bct.CoreIR.Eff Bct.LocalEff

structure LocIR where
  recognised : Bool
  origins : List (String × String)
  params : List String
  defaults : List (String × String)
  /-- the nested `def <innerName>(<inner.param>): …`, the statements before `<dim> = len(<dimOf>)`, `if <flag>:` -/
  innerName : String
  inner : BinIR
  pre : List Stmt
  dim : String
  dimOf : String
  flag : String
  /-- `<out> = np.zeros((<zN>,))`, `for <u> in range(<uN>):` -/
  out : String
  zN : String
  u : String
  uN : String
  /-- `<v>, = np.where(np.logical_or(<va>[<vai>, :], <vb>[:, <vbi>].T))` -/
  v : String
  va : String
  vai : String
  vb : String
  vbi : String
  /-- `<e> = <callee>(<cm>[np.ix_(<c1>, <c2>)])` -/
  e : String
  callee : String
  cm : String
  c1 : String
  c2 : String
  /-- `<se> = <se1> + <se2>.T` -/
  se : String
  se1 : String
  se2 : String
  /-- `<sa> = <sam>[<sau>, <sav>] + <sam2>[<sav2>, <sau2>].T` -/
  sa : String
  sam : String
  sau : String
  sav : String
  sam2 : String
  sav2 : String
  sau2 : String
  /-- `<numer> = np.sum(np.outer(<o1>.T, <o2>) * <o3>) / <nd>` -/
  numer : String
  o1 : String
  o2 : String
  o3 : String
  nd : Nat
  /-- `if <t> != <tz>:` `<denom> = np.sum(<d1>)**<dp> - np.sum(<d2> * <d3>)`, `<st>[<sti>] = <sn> / <sd>` -/
  t : String
  tz : Nat
  denom : String
  d1 : String
  dp : Nat
  d2 : String
  d3 : String
  st : String
  sti : String
  sn : String
  sd : String
  ret : String
  deriving DecidableEq, Repr

/-- the names of the source refer to each other as they must -/
def LocIR.coherent (ir : LocIR) (pG pL : String) : Bool :=
  ir.flag == pL && ir.callee == ir.innerName && ir.dimOf == pG && ir.zN == ir.dim && ir.uN == ir.dim &&
  ir.va == pG && ir.vai == ir.u && ir.vb == pG && ir.vbi == ir.u && ir.cm == pG && ir.c1 == ir.v && ir.c2 == ir.v &&
  ir.se1 == ir.e && ir.se2 == ir.e && ir.sam == pG && ir.sau == ir.u && ir.sav == ir.v && ir.sam2 == pG && ir.sav2 == ir.v && ir.sau2 == ir.u &&
  ir.o1 == ir.sa && ir.o2 == ir.sa && ir.o3 == ir.se && ir.nd != 0 && ir.t == ir.numer && ir.d1 == ir.sa && ir.d2 == ir.sa && ir.d3 == ir.sa &&
  ir.st == ir.out && ir.sti == ir.u && ir.sn == ir.numer && ir.sd == ir.denom && ir.ret == ir.out &&
  decide ([pG, pL, ir.innerName, ir.dim, ir.out, ir.u, ir.v, ir.e, ir.se, ir.sa, ir.numer, ir.denom].Nodup)

variable {n : Nat}

/-- is the cell a number, and which -/
def isNum : V → Bool
  | .num _ => true
  | .rat _ => true
  | _ => false

def qOf : V → Rat
  | .num k => (k : Rat)
  | .rat q => q
  | _ => 0

def allNum {k : Nat} (M : AMat V k) : Bool := (cells k).all fun p => isNum (M.get p.1 p.2)

/-- `G[np.ix_(V, V)]` -/
def subV (G : AMat V n) (Vs : List (Fin n)) : AMat V Vs.length := AMat.ofFn fun a b => G.get (Vs.get a) (Vs.get b)

/-- the body of the loop for node `u`: `G` the (binarised) matrix as the interpreter holds it, `Gq` its cells as rationals -/
def nodeLoc (ir : LocIR) (fuel : Nat → Nat) (G : AMat V n) (Gq : AMat Rat n) (u : Fin n) : Option Rat :=
  let Vs := nbrs Gq u
  match run ir.inner (fuel Vs.length) (subV G Vs) with
  | some e =>
    if !allNum e then none
    else
      let sa := links Gq u Vs
      let numer := (ksum fun a => ksum fun b => sa a * sa b * (qOf (e.get a b) + qOf (e.get b a))) / (ir.nd : Rat)
      if numer = (ir.tz : Rat) then some 0
      else
        let denom := (ksum sa) ^ ir.dp - ksum fun a => sa a * sa a
        if denom = 0 then none else some (numer / denom)
  | none => none

/-- the entry `E[u]`; `fuel k` bounds the `while` loop of the nested function on a `k × k` argument -/
def runLoc (ir : LocIR) (fuel : Nat → Nat) (A : AMat V n) (u : Fin n) : Option Rat :=
  match ir.params with
  | [pG, pL] =>
    if ir.coherent pG pL then
      match execs ir.pre ({ mat := fun y => if y = pG then some A else none, sc := fun _ => none } : Env n) with
      | some E1 => match E1.mat pG with
        | some G => if !allNum G then none else nodeLoc ir fuel G (AMat.ofFn fun i j => qOf (G.get i j)) u
        | none => none
      | none => none
    else none
  | _ => none

def refLoc : LocIR :=
  { recognised := true, origins := Eff.refIR.origins, params := ["G", "local"], defaults := [("local", "False")],
    innerName := "distance_inv", inner := refInner, pre := [ .bind "G" (.binarizeD (.ref "G")) ], dim := "n", dimOf := "G", flag := "local",
    out := "E", zN := "n", u := "u", uN := "n",
    v := "V", va := "G", vai := "u", vb := "G", vbi := "u",
    e := "e", callee := "distance_inv", cm := "G", c1 := "V", c2 := "V",
    se := "se", se1 := "e", se2 := "e",
    sa := "sa", sam := "G", sau := "u", sav := "V", sam2 := "G", sav2 := "V", sau2 := "u",
    numer := "numer", o1 := "sa", o2 := "sa", o3 := "se", nd := 2,
    t := "numer", tz := 0, denom := "denom", d1 := "sa", dp := 2, d2 := "sa", d3 := "sa",
    st := "E", sti := "u", sn := "numer", sd := "denom", ret := "E" }

/-- the decidable obligation generated for the `if local:` branch of `efficiency_bin` -/
def locOk (ir : LocIR) : Bool := ir == refLoc

end Bct.CoreIR.Loc
