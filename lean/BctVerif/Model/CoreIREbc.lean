import BctVerif.Model.Between
/-!
# Source-extracted `edge_betweenness_bin`: IR, interpreter, decidable check (T-gen, C08)

`translate/cores.py` reads `bct/algorithms/centrality.py` with `ast` on every check run and writes every statement of

    def edge_betweenness_bin(G):
        n = len(G)
        BC = np.zeros((n,))
        EBC = np.zeros((n, n))
        for u in range(n):
            D = np.zeros((n,))
            D[u] = 1
            NP = np.zeros((n,))
            NP[u] = 1
            P = np.zeros((n, n))
            Q = np.zeros((n,), dtype=int)
            q = n - 1
            Gu = G.copy()
            V = np.array([u])
            while V.size:
                Gu[:, V] = 0
                for v in V:
                    Q[q] = v
                    q -= 1
                    W, = np.where(Gu[v, :])
                    for w in W:
                        if D[w]:
                            NP[w] += NP[v]
                            P[w, v] = 1
                        else:
                            D[w] = 1
                            NP[w] = NP[v]
                            P[w, v] = 1
                V, = np.where(np.any(Gu[V, :], axis=0))
            if np.any(np.logical_not(D)):
                Q[:q + 1], = np.where(np.logical_not(D))
            DP = np.zeros((n,))
            for w in Q[:n - 1]:
                BC[w] += DP[w]
                for v in np.where(P[w, :])[0]:
                    DPvw = (1 + DP[w]) * NP[v] / NP[w]
                    DP[v] += DPvw
                    EBC[v, w] += DPvw
        return EBC, BC

as an `EbcIR` value into `BctVerif/Gen/CoresBetw.lean`, with the obligation `ebcOk ir = true := by decide`.  The nesting of
the loops is the shape of the IR (the extractor reports anything that does not sit at its place); every block of simple
statements, every loop header and every test is data.  Names live in five sorts (integer / float scalars, float vectors,
integer vectors, float matrices, index arrays); floats are rationals.  Index arrays are iterated in the order NumPy's
`np.where` returns (ascending).  A negative or too large index, a zero divisor, an unbound name and a shape mismatch of the
slice assignment `Q[:q + 1], = …` (with NumPy's broadcast of a single value) stop the run.  `Props/CoresEbc.lean` proves that
a program that passes computes exactly `Between.brandes false`.

Core Lean only.
-/
namespace Bct.CoreIR.Ebc
open Bct Bct.Between

/-- scalar values: Python integers and floats -/
inductive SV
  | int (z : Int)
  | rat (q : Rat)
  deriving DecidableEq

namespace SV
def toRat : SV → Rat
  | int z => (z : Rat)
  | rat q => q
def add : SV → SV → SV
  | int a, int b => int (a + b)
  | a, b => rat (a.toRat + b.toRat)
def sub : SV → SV → SV
  | int a, int b => int (a - b)
  | a, b => rat (a.toRat - b.toRat)
def mul : SV → SV → SV
  | int a, int b => int (a * b)
  | a, b => rat (a.toRat * b.toRat)
/-- true division; a zero divisor stops the run -/
def div (a b : SV) : Option SV := if b.toRat = 0 then none else some (rat (a.toRat / b.toRat))
end SV

inductive SEx
  | var (x : String)
  | lit (k : Int)
  | add (a b : SEx)
  | sub (a b : SEx)
  | mul (a b : SEx)
  | div (a b : SEx)
  /-- `v[i]` for a float vector -/
  | at1 (v : String) (i : SEx)
  deriving DecidableEq, Repr

inductive Stmt
  /-- `x = len(m)` -/
  | setLen (x m : String)
  /-- `x = np.zeros((d,))` -/
  | zeros1 (x d : String)
  /-- `x = np.zeros((d,), dtype=int)` -/
  | zeros1i (x d : String)
  /-- `x = np.zeros((d1, d2))` -/
  | zeros2 (x d1 d2 : String)
  /-- `v[i] = e` (float vector) -/
  | set1 (v : String) (i e : SEx)
  /-- `v[i] = e` (integer vector) -/
  | set1i (v : String) (i e : SEx)
  /-- `v[i] += e` (float vector) -/
  | aug1 (v : String) (i e : SEx)
  /-- `m[i, j] = e` -/
  | set2 (m : String) (i j e : SEx)
  /-- `m[i, j] += e` -/
  | aug2 (m : String) (i j e : SEx)
  /-- `x = e` (scalar) -/
  | letS (x : String) (e : SEx)
  /-- `x -= e` (scalar) -/
  | subS (x : String) (e : SEx)
  /-- `x = m.copy()` (matrix) -/
  | copy (x m : String)
  /-- `x = np.array([e])` -/
  | single (x : String) (e : SEx)
  /-- `m[:, l] = k` for an index array `l` -/
  | clearCols (m l : String) (k : Int)
  /-- `x, = np.where(m[i, :])` -/
  | whereRow (x m : String) (i : SEx)
  /-- `x, = np.where(np.any(m[l, :], axis=0))` -/
  | whereAnyRows (x m l : String)
  /-- `v[:hi], = np.where(np.logical_not(d))` (integer vector `v`, float vector `d`) -/
  | fillPrefix (v : String) (hi : SEx) (d : String)
  deriving DecidableEq, Repr

inductive Cond
  /-- `if e:` for a number -/
  | truthy (e : SEx)
  /-- `np.any(np.logical_not(v))` -/
  | anyNot (v : String)
  deriving DecidableEq, Repr

structure EbcIR where
  recognised : Bool
  origins : List (String × String)
  param : String
  pre : List Stmt
  /-- `for <srcVar> in range(<srcN>):` -/
  srcVar : String
  srcN : String
  init : List Stmt
  /-- `while <front>.size:` -/
  front : String
  clear : List Stmt
  /-- `for <vVar> in <vIter>:` -/
  vVar : String
  vIter : String
  visit : List Stmt
  /-- `for <wVar> in <wIter>:` -/
  wVar : String
  wIter : String
  /-- `if <seenCond>: <seen> else: <fresh>` -/
  seenCond : Cond
  seen : List Stmt
  fresh : List Stmt
  next : List Stmt
  /-- `if <fillCond>: <fill>` -/
  fillCond : Cond
  fill : List Stmt
  mid : List Stmt
  /-- `for <bwVar> in <bwVec>[:<bwHi>]:` -/
  bwVar : String
  bwVec : String
  bwHi : SEx
  acc : List Stmt
  /-- `for <bvVar> in np.where(<bvMat>[<bvRow>, :])[0]:` -/
  bvVar : String
  bvMat : String
  bvRow : SEx
  dep : List Stmt
  /-- `return <ret0>, <ret1>` (a matrix and a vector) -/
  ret0 : String
  ret1 : String
  deriving DecidableEq, Repr

variable {n : Nat}

structure Env (n : Nat) where
  sc : String → Option SV
  vec : String → Option (Vector Rat n)
  ivec : String → Option (Vector Int n)
  mat : String → Option (AMat Rat n)
  lst : String → Option (List (Fin n))

/-- a Python integer as an index; negative indices are not part of the language -/
def idx (s : SV) : Option (Fin n) :=
  match s with
  | .int z => if h : 0 ≤ z ∧ z.toNat < n then some ⟨z.toNat, h.2⟩ else none
  | .rat _ => none

def eval (E : Env n) : SEx → Option SV
  | .var x => E.sc x
  | .lit k => some (.int k)
  | .add a b => match eval E a, eval E b with
    | some x, some y => some (x.add y)
    | _, _ => none
  | .sub a b => match eval E a, eval E b with
    | some x, some y => some (x.sub y)
    | _, _ => none
  | .mul a b => match eval E a, eval E b with
    | some x, some y => some (x.mul y)
    | _, _ => none
  | .div a b => match eval E a, eval E b with
    | some x, some y => x.div y
    | _, _ => none
  | .at1 v i => match eval E i with
    | some s => match idx (n := n) s, E.vec v with
      | some k, some X => some (.rat X[k])
      | _, _ => none
    | none => none

def evalIdx (E : Env n) (e : SEx) : Option (Fin n) :=
  match eval E e with
  | some s => idx s
  | none => none

/-- is the scalar name `d` bound to the dimension -/
def isDim (E : Env n) (d : String) : Bool := E.sc d == some (.int n)

/-- `v[:hi], = idx`: the slice has `min hi n` cells; as many values, or a single one that is broadcast -/
def fillFrontV (Q : Vector Int n) (hi : Int) (l : List (Fin n)) : Option (Vector Int n) :=
  if 0 ≤ hi then
    let len := min hi.toNat n
    if l.length = len then
      some (Vector.ofFn fun i => if h : i.val < l.length then ((l[i.val]'h).val : Int) else Q[i])
    else match l with
      | [x] => some (Vector.ofFn fun i => if i.val < len then (x.val : Int) else Q[i])
      | _ => none
  else none

def exec (E : Env n) : Stmt → Option (Env n)
  | .setLen x m => match E.mat m with
    | some _ => some { E with sc := fun y => if y = x then some (.int n) else E.sc y }
    | none => none
  | .zeros1 x d => if isDim E d then some { E with vec := fun y => if y = x then some (Vector.ofFn fun _ => 0) else E.vec y } else none
  | .zeros1i x d => if isDim E d then some { E with ivec := fun y => if y = x then some (Vector.ofFn fun _ => 0) else E.ivec y } else none
  | .zeros2 x d1 d2 =>
    if isDim E d1 && isDim E d2 then some { E with mat := fun y => if y = x then some (AMat.ofFn fun _ _ => 0) else E.mat y } else none
  | .set1 v i e => match E.vec v, evalIdx E i, eval E e with
    | some X, some k, some s => some { E with vec := fun y => if y = v then some (X.set k s.toRat) else E.vec y }
    | _, _, _ => none
  | .set1i v i e => match E.ivec v, evalIdx E i, eval E e with
    | some X, some k, some (.int z) => some { E with ivec := fun y => if y = v then some (X.set k z) else E.ivec y }
    | _, _, _ => none
  | .aug1 v i e => match E.vec v, evalIdx E i, eval E e with
    | some X, some k, some s => some { E with vec := fun y => if y = v then some (X.set k (X[k] + s.toRat)) else E.vec y }
    | _, _, _ => none
  | .set2 m i j e => match E.mat m, evalIdx E i, evalIdx E j, eval E e with
    | some M, some a, some b, some s => some { E with mat := fun y => if y = m then some (M.set a b s.toRat) else E.mat y }
    | _, _, _, _ => none
  | .aug2 m i j e => match E.mat m, evalIdx E i, evalIdx E j, eval E e with
    | some M, some a, some b, some s => some { E with mat := fun y => if y = m then some (M.set a b (M.get a b + s.toRat)) else E.mat y }
    | _, _, _, _ => none
  | .letS x e => match eval E e with
    | some s => some { E with sc := fun y => if y = x then some s else E.sc y }
    | none => none
  | .subS x e => match E.sc x, eval E e with
    | some a, some s => some { E with sc := fun y => if y = x then some (a.sub s) else E.sc y }
    | _, _ => none
  | .copy x m => match E.mat m with
    | some M => some { E with mat := fun y => if y = x then some M else E.mat y }
    | none => none
  | .single x e => match evalIdx E e with
    | some k => some { E with lst := fun y => if y = x then some [k] else E.lst y }
    | none => none
  | .clearCols m l k => match E.mat m, E.lst l with
    | some M, some L =>
      some { E with mat := fun y => if y = m then some (AMat.ofFn fun i j => if L.contains j then (k : Rat) else M.get i j) else E.mat y }
    | _, _ => none
  | .whereRow x m i => match E.mat m, evalIdx E i with
    | some M, some a => some { E with lst := fun y => if y = x then some ((List.finRange n).filter fun w => M.get a w != 0) else E.lst y }
    | _, _ => none
  | .whereAnyRows x m l => match E.mat m, E.lst l with
    | some M, some L =>
      some { E with lst := fun y => if y = x then some ((List.finRange n).filter fun j => L.any fun v => M.get v j != 0) else E.lst y }
    | _, _ => none
  | .fillPrefix v hi d => match E.ivec v, eval E hi, E.vec d with
    | some Q, some (.int z), some D =>
      match fillFrontV Q z ((List.finRange n).filter fun i => D[i] == 0) with
      | some Q' => some { E with ivec := fun y => if y = v then some Q' else E.ivec y }
      | none => none
    | _, _, _ => none

def execs : List Stmt → Env n → Option (Env n)
  | [], E => some E
  | s :: ss, E => match exec E s with
    | some E' => execs ss E'
    | none => none

def evalCond (E : Env n) : Cond → Option Bool
  | .truthy e => match eval E e with
    | some s => some (s.toRat != 0)
    | none => none
  | .anyNot v => match E.vec v with
    | some D => some ((List.finRange n).any fun i => D[i] == 0)
    | none => none

/-- `for x in <indices>: body` -/
def forList (x : String) (body : Env n → Option (Env n)) : List (Fin n) → Env n → Option (Env n)
  | [], E => some E
  | v :: vs, E =>
    match body { E with sc := fun y => if y = x then some (.int v.val) else E.sc y } with
    | some E' => forList x body vs E'
    | none => none

/-- `for x in <integers>: body` -/
def forInts (x : String) (body : Env n → Option (Env n)) : List Int → Env n → Option (Env n)
  | [], E => some E
  | z :: zs, E =>
    match body { E with sc := fun y => if y = x then some (.int z) else E.sc y } with
    | some E' => forInts x body zs E'
    | none => none

/-- `l[:z]` for a Python integer `z` -/
def takeTo {α : Type} (l : List α) (z : Int) : List α :=
  if 0 ≤ z then l.take z.toNat else l.take (l.length - z.natAbs)

/-- body of `for w in W:` -/
def runW (ir : EbcIR) (E : Env n) : Option (Env n) :=
  match evalCond E ir.seenCond with
  | some true => execs ir.seen E
  | some false => execs ir.fresh E
  | none => none

/-- body of `for v in V:` -/
def runV (ir : EbcIR) (E : Env n) : Option (Env n) :=
  match execs ir.visit E with
  | some E1 => match E1.lst ir.wIter with
    | some W => forList ir.wVar (runW ir) W E1
    | none => none
  | none => none

/-- `while <front>.size:` on fuel -/
def whileFront (ir : EbcIR) : Nat → Env n → Option (Env n)
  | 0, _ => none
  | fuel + 1, E =>
    match E.lst ir.front with
    | some [] => some E
    | some (_ :: _) =>
      match execs ir.clear E with
      | some E1 => match E1.lst ir.vIter with
        | some V => match forList ir.vVar (runV ir) V E1 with
          | some E2 => match execs ir.next E2 with
            | some E3 => whileFront ir fuel E3
            | none => none
          | none => none
        | none => none
      | none => none
    | none => none

/-- `if <fillCond>: <fill>` -/
def runFill (ir : EbcIR) (E : Env n) : Option (Env n) :=
  match evalCond E ir.fillCond with
  | some true => execs ir.fill E
  | some false => some E
  | none => none

/-- body of `for w in Q[:n - 1]:` -/
def runBW (ir : EbcIR) (E : Env n) : Option (Env n) :=
  match execs ir.acc E with
  | some E1 => match E1.mat ir.bvMat, evalIdx E1 ir.bvRow with
    | some M, some a => forList ir.bvVar (execs ir.dep) ((List.finRange n).filter fun v => M.get a v != 0) E1
    | _, _ => none
  | none => none

/-- the back-propagation loop -/
def runBack (ir : EbcIR) (E : Env n) : Option (Env n) :=
  match E.ivec ir.bwVec, eval E ir.bwHi with
  | some Q, some (.int z) => forInts ir.bwVar (runBW ir) (takeTo Q.toList z) E
  | _, _ => none

/-- body of `for u in range(n):` -/
def runSrc (ir : EbcIR) (fuel : Nat) (E : Env n) : Option (Env n) :=
  match execs ir.init E with
  | some E1 => match whileFront ir fuel E1 with
    | some E2 => match runFill ir E2 with
      | some E3 => match execs ir.mid E3 with
        | some E4 => runBack ir E4
        | none => none
      | none => none
    | none => none
  | none => none

/-- the whole routine on the argument; `range(<srcN>)` must be the range of the dimension -/
def run (ir : EbcIR) (fuel : Nat) (G : AMat Rat n) : Option (AMat Rat n × Vector Rat n) :=
  match execs ir.pre { sc := fun _ => none, vec := fun _ => none, ivec := fun _ => none,
                       mat := fun y => if y = ir.param then some G else none, lst := fun _ => none } with
  | some E0 =>
    if isDim E0 ir.srcN then
      match forList ir.srcVar (runSrc ir fuel) (List.finRange n) E0 with
      | some E1 => match E1.mat ir.ret0, E1.vec ir.ret1 with
        | some A, some b => some (A, b)
        | _, _ => none
      | none => none
    else none
  | none => none

def refIR : EbcIR :=
  { recognised := true,
    origins := [("BRANDES2001", "from bct/citations.py:BRANDES2001"), ("BibTeX", "from bct/due.py:BibTeX"),
                ("due", "from bct/due.py:due"), ("int", "builtin"), ("len", "builtin"), ("np", "module numpy"), ("range", "builtin")],
    param := "G",
    pre := [ .setLen "n" "G", .zeros1 "BC" "n", .zeros2 "EBC" "n" "n" ],
    srcVar := "u", srcN := "n",
    init := [ .zeros1 "D" "n", .set1 "D" (.var "u") (.lit 1), .zeros1 "NP" "n", .set1 "NP" (.var "u") (.lit 1), .zeros2 "P" "n" "n",
              .zeros1i "Q" "n", .letS "q" (.sub (.var "n") (.lit 1)), .copy "Gu" "G", .single "V" (.var "u") ],
    front := "V",
    clear := [ .clearCols "Gu" "V" 0 ],
    vVar := "v", vIter := "V",
    visit := [ .set1i "Q" (.var "q") (.var "v"), .subS "q" (.lit 1), .whereRow "W" "Gu" (.var "v") ],
    wVar := "w", wIter := "W",
    seenCond := .truthy (.at1 "D" (.var "w")),
    seen := [ .aug1 "NP" (.var "w") (.at1 "NP" (.var "v")), .set2 "P" (.var "w") (.var "v") (.lit 1) ],
    fresh := [ .set1 "D" (.var "w") (.lit 1), .set1 "NP" (.var "w") (.at1 "NP" (.var "v")), .set2 "P" (.var "w") (.var "v") (.lit 1) ],
    next := [ .whereAnyRows "V" "Gu" "V" ],
    fillCond := .anyNot "D",
    fill := [ .fillPrefix "Q" (.add (.var "q") (.lit 1)) "D" ],
    mid := [ .zeros1 "DP" "n" ],
    bwVar := "w", bwVec := "Q", bwHi := .sub (.var "n") (.lit 1),
    acc := [ .aug1 "BC" (.var "w") (.at1 "DP" (.var "w")) ],
    bvVar := "v", bvMat := "P", bvRow := .var "w",
    dep := [ .letS "DPvw" (.div (.mul (.add (.lit 1) (.at1 "DP" (.var "w"))) (.at1 "NP" (.var "v"))) (.at1 "NP" (.var "w"))),
             .aug1 "DP" (.var "v") (.var "DPvw"), .aug2 "EBC" (.var "v") (.var "w") (.var "DPvw") ],
    ret0 := "EBC", ret1 := "BC" }

/-- the decidable obligation generated for `edge_betweenness_bin` -/
def ebcOk (ir : EbcIR) : Bool := ir == refIR

end Bct.CoreIR.Ebc
