import BctVerif.Model.Basic
/-!
# Executable model of the degree-preserving rewiring routines of `bct/algorithms/reference.py`

One model, parameterised by `Cfg`, mirrors the loop structure, index arithmetic and draw
consumption of `randmio_dir`, `randmio_dir_connected`, `randmio_und`, `randmio_und_connected`,
`latmio_dir`, `latmio_dir_connected`, `latmio_und`, `latmio_und_connected` and
`randomize_graph_partial_und`.  Every random draw is an explicit input (`List Nat`):
`randint(k)` values as themselves, `random_sample()` as `v·2^53`, `permutation(n)` as n values.

The model is written against the *repaired* routines (`j[e1] = d` in `randmio_dir`,
`argsort(ind_rp)` in the latticisers) — see DESIGN.md §5.
-/
namespace Bct.Rewire
open Bct

structure St (n k : Nat) where
  R : AMat Int n
  i : Vector (Fin n) k
  j : Vector (Fin n) k
  eff : Nat

/-- which edge cells `np.where` lists -/
inductive EdgeSrc | all | tril | triu1
  deriving DecidableEq, Repr

structure Cfg (n : Nat) where
  und : Bool
  conn : Bool
  lat : Option (AMat Int n)    -- distance-to-diagonal matrix D
  mask : Option (AMat Int n)   -- forbidden cells B
  src : EdgeSrc
  /-- denominator of `max_attempts = round(n*k / den)`; `none` = no attempt budget (partial_und) -/
  attDen : Option Nat

/-! ### the cell assignments, in program order -/

def swapDir {n} (R : AMat Int n) (a b c d : Fin n) : AMat Int n :=
  let R1 := R.set a d (R.get a b)
  let R2 := R1.set a b 0
  let R3 := R2.set c b (R2.get c d)
  R3.set c d 0

def swapUnd {n} (R : AMat Int n) (a b c d : Fin n) : AMat Int n :=
  let R1 := R.set a d (R.get a b)
  let R2 := R1.set a b 0
  let R3 := R2.set d a (R2.get b a)
  let R4 := R3.set b a 0
  let R5 := R4.set c b (R4.get c d)
  let R6 := R5.set c d 0
  let R7 := R6.set b c (R6.get d c)
  R7.set d c 0

/-! ### connectivity tests (the `P` / `PN` exploration loops) -/

abbrev BVec (n : Nat) := Vector Bool n

/-- `np.any(R[P != 0, :], axis=0)` : nodes with an in-edge from a node of the frontier -/
def expand {n} (R : AMat Int n) (P : BVec n) : BVec n :=
  Vector.ofFn fun y => (List.finRange n).any fun x => P[x] && (R.get x y != 0)

def bAndNot {n} (P PN : BVec n) : BVec n := Vector.ofFn fun y => P[y] && !PN[y]
def bOr {n} (P Q : BVec n) : BVec n := Vector.ofFn fun y => P[y] || Q[y]
def bAny {n} (P : BVec n) : Bool := (List.finRange n).any fun y => P[y]

/-- undirected test of `randmio_und_connected` / `latmio_und_connected`.
`P0`,`P1` frontiers of a and d; `PN` the common visited mask (the code keeps two rows of
`PN` but always writes both: `PN[:, d] = 1; PN[:, a] = 1; PN += P` keeps the rows separate). -/
def undLoop {n} (R : AMat Int n) (b c : Fin n) : Nat → BVec n → BVec n → BVec n → BVec n → Bool
  | 0, _, _, _, _ => false
  | fuel + 1, P0, P1, PN0, PN1 =>
    let P0' := bAndNot (expand R P0) PN0
    let P1' := bAndNot (expand R P1) PN1
    if !(bAny P0' && bAny P1') then false
    else if P0'[b] || P0'[c] || P1'[b] || P1'[c] then true
    else undLoop R b c fuel P0' P1' (bOr PN0 P0') (bOr PN1 P1')

def undConnOk {n} (R : AMat Int n) (a b c d : Fin n) : Bool :=
  if R.get a c != 0 || R.get b d != 0 then true else
  let P0 : BVec n := Vector.ofFn fun y => (R.get a y != 0) && y != b
  let P1 : BVec n := Vector.ofFn fun y => (R.get d y != 0) && y != c
  let PN0 : BVec n := Vector.ofFn fun y => P0[y] || y == d || y == a
  let PN1 : BVec n := Vector.ofFn fun y => P1[y] || y == d || y == a
  undLoop R b c (n + 1) P0 P1 PN0 PN1

/-- directed test of `randmio_dir_connected` / `latmio_dir_connected` -/
def dirLoop {n} (R : AMat Int n) (a b c d : Fin n) : Nat → BVec n → BVec n → BVec n → BVec n → Bool
  | 0, _, _, _, _ => false
  | fuel + 1, P0, P1, PN0, PN1 =>
    let P0' := bAndNot (expand R P0) PN0
    let P1' := bAndNot (expand R P1) PN1
    let PN0' := bOr PN0 P0'
    let PN1' := bOr PN1 P1'
    if !(bAny P0' && bAny P1') then false
    else if (PN0'[b] || PN0'[c]) && (PN1'[d] || PN1'[a]) then true
    else dirLoop R a b c d fuel P0' P1' PN0' PN1'

def dirConnOk {n} (R : AMat Int n) (a b c d : Fin n) : Bool :=
  if (R.get a c != 0 || R.get d b != 0 || R.get d c != 0) &&
     (R.get c a != 0 || R.get b d != 0 || R.get b a != 0) then true else
  let P0 : BVec n := Vector.ofFn fun y => ((R.get a y != 0) && y != b) || y == d
  let P1 : BVec n := Vector.ofFn fun y => ((R.get c y != 0) && y != d) || y == b
  let PN0 : BVec n := Vector.ofFn fun y => P0[y] || y == a
  let PN1 : BVec n := Vector.ofFn fun y => P1[y] || y == c
  dirLoop R a b c d (n + 1) P0 P1 PN0 PN1

/-! ### one attempt -/

/-- `while e1 == e2: e2 = rng.randint(k)` -/
def redraw {k} (e1 : Fin k) : Fin k → List Nat → Except Err (Fin k × List Nat)
  | e2, ds => if e1 ≠ e2 then .ok (e2, ds) else
      match ds with
      | [] => .error .outOfDraws
      | x :: ds' => do let e2' ← asFin k x; redraw e1 e2' ds'

/-- the `while True:` loop drawing two distinct edge indices with four distinct endpoints -/
def pickPair {n k} (s : St n k) : (fuel : Nat) → List Nat → Except Err ((Fin k × Fin k) × List Nat)
  | 0, _ => .error .outOfDraws
  | fuel + 1, x1 :: x2 :: rest => do
    let e1 ← asFin k x1
    let e2 ← asFin k x2
    let (e2, rest) ← redraw e1 e2 rest
    let a := s.i[e1]; let b := s.j[e1]; let c := s.i[e2]; let d := s.j[e2]
    if a ≠ c ∧ a ≠ d ∧ b ≠ c ∧ b ≠ d then .ok ((e1, e2), rest)
    else pickPair s fuel rest
  | _, _ => .error .outOfDraws

/-- `D[a,b]*R[a,b] + D[c,d]*R[c,d] >= D[a,d]*R[a,b] + D[c,b]*R[c,d]` -/
def latOk {n} (D R : AMat Int n) (a b c d : Fin n) : Bool :=
  D.get a b * R.get a b + D.get c d * R.get c d ≥ D.get a d * R.get a b + D.get c b * R.get c d

/-- all acceptance tests after the four nodes are fixed -/
def accept {n} (cfg : Cfg n) (R : AMat Int n) (a b c d : Fin n) : Bool :=
  if R.get a d ≠ 0 ∨ R.get c b ≠ 0 then false else
  (match cfg.mask with | some B => B.get a d == 0 && B.get c b == 0 && B.get d a == 0 && B.get b c == 0 | none => true) &&
  (match cfg.lat with | some D => latOk D R a b c d | none => true) &&
  (if cfg.conn then (if cfg.und then undConnOk R a b c d else dirConnOk R a b c d) else true)

/-- one pass of the attempt body; returns the new state, whether a swap was made, remaining draws -/
def attempt {n k} (cfg : Cfg n) (s : St n k) (ds : List Nat) : Except Err (St n k × Bool × List Nat) := do
  let ((e1, e2), rest) ← pickPair s ds.length ds
  let a := s.i[e1]; let b := s.j[e1]
  if cfg.und then
    match rest with
    | [] => .error .outOfDraws
    | cn :: rest =>
      let s1 : St n k := if coin cn then { s with i := s.i.set e2 s.j[e2], j := s.j.set e2 s.i[e2] } else s
      let c := s1.i[e2]; let d := s1.j[e2]
      if accept cfg s1.R a b c d then
        .ok ({ R := swapUnd s1.R a b c d, i := s1.i, j := (s1.j.set e1 d).set e2 b, eff := s1.eff + 1 }, true, rest)
      else .ok (s1, false, rest)
  else
    let c := s.i[e2]; let d := s.j[e2]
    if accept cfg s.R a b c d then
      .ok ({ R := swapDir s.R a b c d, i := s.i, j := (s.j.set e1 d).set e2 b, eff := s.eff + 1 }, true, rest)
    else .ok (s, false, rest)

/-- `att = 0; while att <= max_attempts: … break on success; att += 1` -/
def attempts {n k} (cfg : Cfg n) : (budget : Nat) → St n k → List Nat → Except Err (St n k × List Nat)
  | 0, s, ds => .ok (s, ds)
  | budget + 1, s, ds => do
    let (s', ok, rest) ← attempt cfg s ds
    if ok then .ok (s', rest) else attempts cfg budget s' rest

/-- `for it in range(itr*k)` -/
def iters {n k} (cfg : Cfg n) (maxAtt : Nat) : Nat → St n k → List Nat → Except Err (St n k × List Nat)
  | 0, s, ds => .ok (s, ds)
  | it + 1, s, ds => do
    let (s', ds') ← attempts cfg (maxAtt + 1) s ds
    iters cfg maxAtt it s' ds'

/-- `while nswap < maxswap:` of `randomize_graph_partial_und` (fuel: every pass consumes draws) -/
def untilSwaps {n k} (cfg : Cfg n) : (fuel : Nat) → (need : Nat) → St n k → List Nat → Except Err (St n k × List Nat)
  | _, 0, s, ds => .ok (s, ds)
  | 0, _ + 1, _, _ => .error .outOfDraws
  | fuel + 1, need + 1, s, ds => do
    let (s', ok, rest) ← attempt cfg s ds
    untilSwaps cfg fuel (if ok then need else need + 1) s' rest

/-! ### building the edge list -/

def edgeCells {n} (src : EdgeSrc) (R : AMat Int n) : List (Fin n × Fin n) :=
  (List.finRange n).flatMap fun i => ((List.finRange n).filter fun j =>
    (R.get i j != 0) && (match src with | .all => true | .tril => decide (j.val ≤ i.val) | .triu1 => decide (i.val < j.val))).map fun j => (i, j)

def mkState {n} (R : AMat Int n) (cells : Array (Fin n × Fin n)) : St n cells.size :=
  { R := R, i := Vector.ofFn fun e => cells[e].1, j := Vector.ofFn fun e => cells[e].2, eff := 0 }

def permMat {n} (R : AMat Int n) (p : Fin n → Fin n) : AMat Int n := AMat.ofFn fun i j => R.get (p i) (p j)

/-- default distance-to-diagonal matrix of the latticisers -/
def defaultD (n : Nat) : AMat Int n :=
  AMat.ofFn fun i j =>
    let df := if i.val ≤ j.val then j.val - i.val else i.val - j.val
    (Int.ofNat (min df (n - df)))

/-- `_has_rewirable_pair(i, j)`: two listed connections with four distinct end nodes exist (only then can the
`while True` edge-pair draw of the loops succeed) -/
def hasRewirablePair {n} (cells : List (Fin n × Fin n)) : Bool :=
  cells.any fun p => cells.any fun q => p.1 != q.1 && p.1 != q.2 && p.2 != q.1 && p.2 != q.2

/-- full run of a budgeted routine on `R` (already permuted for latticisers).  The guard
`if itr > 0 and not _has_rewirable_pair(i, j): raise BCTParamError` precedes the loops and draws nothing. -/
def runBudget {n} (cfg : Cfg n) (R : AMat Int n) (itr : Nat) (ds : List Nat) :
    Except Err (AMat Int n × Nat × List Nat) := do
  let cells := (edgeCells cfg.src R).toArray
  let k := cells.size
  if itr > 0 && !hasRewirablePair (edgeCells cfg.src R) then .error .param else
  match cfg.attDen with
  | some den =>
    let maxAtt := roundHalfEven (n * k) den
    let (s, rest) ← iters cfg maxAtt (itr * k) (mkState R cells) ds
    .ok (s.R, s.eff, rest)
  | none =>
    let (s, rest) ← untilSwaps cfg ds.length itr (mkState R cells) ds
    .ok (s.R, s.eff, rest)

/-! ### driver -/

def isSymm {n} (R : AMat Int n) : Bool :=
  (List.finRange n).all fun i => (List.finRange n).all fun j => R.get i j == R.get j i

def listToPerm (n : Nat) (p : List Nat) : Option (Fin n → Fin n) :=
  if !(p.all (· < n)) then none else
  if h : p.length = n ∧ p.Nodup then
    some fun i => ⟨(p[i.val]'(by omega)) % n, Nat.mod_lt _ (by have := i.isLt; omega)⟩
  else none

def invPerm {n} (p : Fin n → Fin n) : Fin n → Fin n := fun i =>
  match (List.finRange n).find? (fun x => p x == i) with
  | some x => x
  | none => i

/-- a whole latticiser call: permute the nodes by the recorded `rng.permutation(n)`, rewire, and undo the
permutation; returns `(Rlatt, Rrp, eff, remaining draws)` -/
def runLatt {n} (cfg : Cfg n) (R : AMat Int n) (pl : List Nat) (itr : Nat) (ds : List Nat) :
    Except Err (AMat Int n × AMat Int n × Nat × List Nat) :=
  match listToPerm n pl with
  | none => .error .protocol
  | some p =>
    match runBudget cfg (permMat R p) itr ds with
    | .error e => .error e
    | .ok (Rrp, eff, rest) => .ok (permMat Rrp (invPerm p), Rrp, eff, rest)

def step (line : String) : String :=
  let (op, kv) := parseLine line
  let res : Option String := do
    let n ← (← lookup kv "n").toNat?
    if n < 2 then none
    let R ← parseMat n (← lookup kv "R")
    let itr ← (← lookup kv "itr").toNat?
    let ds ← parseNats (← lookup kv "draws")
    let und := op == "randmio_und" || op == "randmio_und_connected" || op == "latmio_und" ||
      op == "latmio_und_connected" || op == "partial_und"
    let conn := op == "randmio_und_connected" || op == "randmio_dir_connected" ||
      op == "latmio_und_connected" || op == "latmio_dir_connected"
    let lat := op == "latmio_und" || op == "latmio_und_connected" || op == "latmio_dir" || op == "latmio_dir_connected"
    let known := und || op == "randmio_dir" || op == "randmio_dir_connected" || op == "latmio_dir" || op == "latmio_dir_connected"
    if !known then none
    let mask ← (if op == "partial_und" then (do some (some (← parseMat n (← lookup kv "B")))) else some none)
    let src : EdgeSrc := if op == "partial_und" then .triu1 else if und then .tril else .all
    let attDen : Option Nat := if op == "partial_und" then none
      else if op == "latmio_und" || op == "latmio_und_connected" then some (n * (n - 1) / 2) else some (n * (n - 1))
    if lat then
      match ds.splitAt n with
      | (pl, ds) =>
        let D ← (match lookup kv "D" with | some d => parseMat n d | none => some (defaultD n))
        let cfg : Cfg n := { und, conn, lat := some D, mask, src, attDen }
        match runLatt cfg R pl itr ds with
        | .error e => some s!"error={e.str}"
        | .ok (Rlatt, Rrp, eff, rest) =>
          some s!"Rlatt={showMat Rlatt} Rrp={showMat Rrp} eff={eff} left={rest.length}"
    else
      let cfg : Cfg n := { und, conn, lat := none, mask, src, attDen }
      match runBudget cfg R itr ds with
      | .error e => some s!"error={e.str}"
      | .ok (R', eff, rest) => some s!"R={showMat R'} eff={eff} left={rest.length}"
  res.getD "error=protocol"

end Bct.Rewire
